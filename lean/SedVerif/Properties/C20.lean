import SedVerif.Proofs.Parse
import SedVerif.Proofs.ParseNum
import SedVerif.Proofs.ParseBound
/-!
# C20 — source lines are parsed by the documented column layout or rejected

Property theorems only.  Model: `SedVerif/Model/Parse.lean` (namespace `SF.Parse`).  `cols` is `line.split()`; numbers are
abstract (`parse : Str → Option K` is `np.float64(str)` / `np.array(strs, dtype=float)` on one token).
All statements hold for every `n`, every token list, every `K`.
-/
namespace SF
open Parse
variable {K : Type}

/-- **C20 (layout).** `3(n+1)` columns, the number columns parse, the flag columns are integers in
    `{0,1,2,3,4,9}` ⟹ the line is accepted and read as name = `tok[0]`, x = `tok[1]`, y = `tok[2]`,
    `valid[i] = tok[3+i]`, `flux[i] = tok[3+n+2i]`, `error[i] = tok[3+n+2i+1]` (`i < n`), all three of
    length `n`. -/
theorem C20_layout (parse : Str → Option K) (cols : List Str) (n : Nat)
    (hlen : cols.length = 3 * (n + 1))
    (hnum : ∀ j, (j = 1 ∨ j = 2 ∨ (3 + n ≤ j ∧ j < 3 * (n + 1))) → ((cols[j]?).bind parse).isSome)
    (hflag : ∀ i, i < n → ∃ v, (cols[3 + i]?).bind parseInt = some v ∧ validFlag v = true) :
    ∃ s, fromAsciiToks parse cols = .ok s ∧ some s.name = cols[0]? ∧
      some s.x = (cols[1]?).bind parse ∧ some s.y = (cols[2]?).bind parse ∧
      s.valid.length = n ∧ s.flux.length = n ∧ s.error.length = n ∧
      ∀ i, i < n → s.valid[i]? = (cols[3 + i]?).bind parseInt ∧
        s.flux[i]? = (cols[3 + n + 2 * i]?).bind parse ∧
        s.error[i]? = (cols[3 + n + 2 * i + 1]?).bind parse := by
  match cols, hlen, hnum, hflag with
  | name :: xs :: ys :: rest, hlen, hnum, hflag =>
    simp only [List.length_cons] at hlen
    have hrl : rest.length = 3 * n := by omega
    have hdiv : rest.length / 3 = n := by omega
    obtain ⟨x, hx⟩ := Option.isSome_iff_exists.mp (hnum 1 (Or.inl rfl))
    obtain ⟨y, hy⟩ := Option.isSome_iff_exists.mp (hnum 2 (Or.inr (Or.inl rfl)))
    simp only [List.getElem?_cons_succ, List.getElem?_cons_zero, Option.bind_some] at hx hy
    -- the flag columns
    have hflag' : ∀ i, i < n → ∃ v, (rest[i]?).bind parseInt = some v ∧ validFlag v = true := by
      intro i hi
      obtain ⟨v, hv, hvv⟩ := hflag i hi
      rw [get3] at hv
      exact ⟨v, hv, hvv⟩
    have htl : (rest.take n).length = n := by rw [List.length_take]; omega
    obtain ⟨valid, hvalid⟩ := mapOpt_of_forall parseInt (rest.take n) (fun i hi => by
      rw [htl] at hi
      obtain ⟨v, hv, _⟩ := hflag' i hi
      rw [List.getElem?_take_of_lt hi, hv]; rfl)
    have hvl : valid.length = n := by rw [mapOpt_length _ _ _ hvalid, htl]
    have hvget : ∀ i, i < n → valid[i]? = (rest[i]?).bind parseInt := by
      intro i hi
      rw [mapOpt_get _ _ _ hvalid i (by omega), List.getElem?_take_of_lt hi]
    have hall : valid.all validFlag = true := by
      rw [List.all_eq_true]
      intro v hv
      obtain ⟨i, hi, hiv⟩ := List.getElem_of_mem hv
      obtain ⟨w, hw, hww⟩ := hflag' i (by omega)
      have : valid[i]? = some w := by rw [hvget i (by omega), hw]
      rw [List.getElem?_eq_getElem hi, hiv] at this
      cases this; exact hww
    -- the number columns
    have hdl : (rest.drop n).length = 2 * n := by rw [List.length_drop]; omega
    obtain ⟨fe, hfe⟩ := mapOpt_of_forall parse (rest.drop n) (fun i hi => by
      rw [hdl] at hi
      have := hnum (3 + (n + i)) (Or.inr (Or.inr ⟨by omega, by omega⟩))
      rw [get3] at this
      rw [List.getElem?_drop]; exact this)
    have hfl : fe.length = 2 * n := by rw [mapOpt_length _ _ _ hfe, hdl]
    have hfget : ∀ j, j < 2 * n → fe[j]? = (rest[n + j]?).bind parse := by
      intro j hj
      rw [mapOpt_get _ _ _ hfe j (by omega), List.getElem?_drop]
    have h1 : (evens fe).length = valid.length := by rw [evens_length, hfl, hvl]; omega
    have h2 : (odds fe).length = valid.length := by rw [odds_length, hfl, hvl]; omega
    refine ⟨⟨name, x, y, valid, evens fe, odds fe⟩,
      fromAsciiToks_ok parse name xs ys rest x y valid fe hx hy (by rw [hdiv]; exact hvalid) hall
        (by rw [hdiv]; exact hfe) h1 h2, rfl, ?_, ?_, hvl, by rw [h1, hvl], by rw [h2, hvl], ?_⟩
    · simp only [List.getElem?_cons_succ, List.getElem?_cons_zero, Option.bind_some, hx]
    · simp only [List.getElem?_cons_succ, List.getElem?_cons_zero, Option.bind_some, hy]
    · intro i hi
      refine ⟨?_, ?_, ?_⟩
      · rw [get3]; exact hvget i hi
      · rw [show 3 + n + 2 * i = 3 + (n + 2 * i) by omega, get3]
        simp only
        rw [evens_get, hfget _ (by omega)]
      · rw [show 3 + n + 2 * i + 1 = 3 + (n + (2 * i + 1)) by omega, get3]
        simp only
        rw [odds_get, hfget _ (by omega)]
  | [], hlen, _, _ => simp only [List.length_nil] at hlen; omega
  | [_], hlen, _, _ => simp only [List.length_cons, List.length_nil] at hlen; omega
  | [_, _], hlen, _, _ => simp only [List.length_cons, List.length_nil] at hlen; omega

/-- **C20 (eof).** Fewer than three columns, and only that, is `EOFError` (ends the input). -/
theorem C20_eof (parse : Str → Option K) (cols : List Str) :
    fromAsciiToks parse cols = .error .eof ↔ cols.length < 3 :=
  fromAsciiToks_eof_iff parse cols

/-- **C20 (reject).** With at least three columns: a column count that is not `3(n+1)` is rejected with
    an error that is not `EOFError`; so is a line one of whose flag columns (`tok[3+i]`, `i < n`,
    `n = (len-3) div 3`) holds an integer outside `{0,1,2,3,4,9}`.  Nothing is mis-assigned: the
    line is not accepted. -/
theorem C20_reject (parse : Str → Option K) (cols : List Str) (h3 : 3 ≤ cols.length) :
    (cols.length % 3 ≠ 0 → ∃ e, fromAsciiToks parse cols = .error e ∧ e ≠ .eof) ∧
    (∀ i v, i < (cols.length - 3) / 3 → (cols[3 + i]?).bind parseInt = some v → validFlag v = false →
      ∃ e, fromAsciiToks parse cols = .error e ∧ e ≠ .eof) := by
  have hne : ∀ e, fromAsciiToks parse cols = .error e → e ≠ .eof := by
    intro e he h; subst h
    have := (fromAsciiToks_eof_iff parse cols).mp he; omega
  constructor
  · intro hmod
    cases hr : fromAsciiToks parse cols with
    | error e => exact ⟨e, rfl, hne e hr⟩
    | ok s =>
      exfalso
      obtain ⟨name, xs, ys, rest, fe, hc, _, _, _, hv, _, hf, hfl, _, hl1, _⟩ :=
        fromAsciiToks_ok_inv parse cols s hr
      have a1 := mapOpt_length _ _ _ hv
      have a2 := mapOpt_length _ _ _ hf
      rw [List.length_take] at a1
      rw [List.length_drop] at a2
      rw [hfl, evens_length, a2, a1] at hl1
      rw [hc] at hmod
      simp only [List.length_cons] at hmod
      omega
  · intro i v hi hv hbad
    cases hr : fromAsciiToks parse cols with
    | error e => exact ⟨e, rfl, hne e hr⟩
    | ok s =>
      exfalso
      obtain ⟨name, xs, ys, rest, fe, hc, _, _, _, hval, hall, _⟩ :=
        fromAsciiToks_ok_inv parse cols s hr
      subst hc
      simp only [List.length_cons] at hi
      have hi' : i < rest.length / 3 := by omega
      rw [get3] at hv
      have hlt : i < (rest.take (rest.length / 3)).length := by rw [List.length_take]; omega
      have := mapOpt_get _ _ _ hval i hlt
      rw [List.getElem?_take_of_lt hi', hv] at this
      have hmem : v ∈ s.valid := List.mem_of_getElem? this
      rw [List.all_eq_true] at hall
      rw [hall v hmem] at hbad
      cases hbad

/-- **C20 (round trip, numbers abstract).** For a source whose name is a token (non-empty, no
    whitespace), whose flags are in `{0,1,2,3,4,9}` and whose three arrays have equal length,
    `to_ascii()` returns a line and `from_ascii` of that line returns the same name and the same
    flags, and every number `v` comes back as `parse (fmt v)` — under the explicit round-trip
    hypotheses `parse (fmtF v) = some (rF v)`, `parse (fmtE v) = some (rE v)` and that formatted
    numbers are tokens (discharged for the executable formatters by `C20_fmtE3_exact`,
    `C20_fmtF5_exact`). -/
theorem C20_roundtrip (parse : Str → Option K) (fmtF fmtE : K → Str) (rF rE : K → K)
    (hF : ∀ v, parse (fmtF v) = some (rF v)) (hE : ∀ v, parse (fmtE v) = some (rE v))
    (hFt : ∀ v, TokOk (fmtF v)) (hEt : ∀ v, TokOk (fmtE v))
    (s : Src K) (hname : TokOk s.name) (hflags : s.valid.all validFlag = true)
    (hfl : s.flux.length = s.valid.length) (hel : s.error.length = s.valid.length) :
    ∃ line, toAscii fmtF fmtE s = some line ∧
      fromAscii parse line
        = .ok ⟨s.name, rF s.x, rF s.y, s.valid, s.flux.map rE, s.error.map rE⟩ := by
  obtain ⟨txt, htxt⟩ := pairText_some fmtE s.valid.length s.flux s.error hfl hel
  obtain ⟨toks, htoks, _, hback⟩ := roundtrip_toks parse fmtF fmtE rF rE hF hE s hflags hfl hel
  have hline : toAscii fmtF fmtE s = some (padRight 30 s.name ++ ' ' :: (padLeft 9 (fmtF s.x) ++ ' ' ::
      (padLeft 9 (fmtF s.y) ++ ' ' :: (flagText s.valid ++ txt)))) := by
    simp only [toAscii, htxt]
  refine ⟨_, hline, ?_⟩
  have hD : ∀ v ∈ s.valid, TokOk (fmtD v) := by
    intro v hv
    rw [List.all_eq_true] at hflags
    exact tokOk_fmtD_flag v (hflags v hv)
  have := split_toAscii fmtF fmtE hFt hEt s hD hname _ hline
  rw [htoks] at this
  cases this
  exact hback

/-- what "to the printed precision" means for `%11.3e`: half a unit of the fourth significant digit -/
def PrintedE3 (v w : ℚ) : Prop :=
  (v = 0 → w = 0) ∧
  ∀ e : ℤ, (10 : ℚ) ^ e ≤ |v| → |v| < (10 : ℚ) ^ (e + 1) → |w - v| ≤ 1 / 2 * (10 : ℚ) ^ (e - 3)

/-- **C20 (`%11.3e` is exact and reads back).** For every rational `v` (every double is one) the
    executable `fmtE3 v` is a token, `parseNum` reads it back as the decimal `roundE3 v`, and that
    decimal is within half a unit of the fourth significant digit of `v`:
    `|parse (fmtE3 v) − v| ≤ ½·10^(e−3)` whenever `10^e ≤ |v| < 10^(e+1)`. -/
theorem C20_fmtE3_exact (v : ℚ) :
    TokOk (fmtE3 v) ∧ parseNum (fmtE3 v) = some (roundE3 v).val ∧ PrintedE3 v (roundE3 v).val := by
  refine ⟨tokOk_renderE3 _, ?_, ?_⟩
  · by_cases hv : v = 0
    · subst hv; exact parseNum_renderE3 _ (by rw [roundE3_zero]; decide)
    · exact parseNum_renderE3 _ (roundE3_spec v hv).2.2.1
  · constructor
    · intro hv; subst hv; rw [roundE3_zero]; simp [Dec.val]
    · intro e h1 h2
      have hv : v ≠ 0 := by
        intro h; subst h
        have : (0 : ℚ) < (10 : ℚ) ^ e := zpow_pos (by norm_num) _
        simp at h1; linarith
      obtain ⟨a, b, _, c⟩ := roundE3_spec v hv
      have := decade_unique |v| e _ h1 h2 a b
      rw [this]; exact c

/-- **C20 (`%9.5f` is exact and reads back).** `|parse (fmtF5 v) − v| ≤ ½·10⁻⁵`. -/
theorem C20_fmtF5_exact (v : ℚ) :
    TokOk (fmtF5 v) ∧ parseNum (fmtF5 v) = some (roundF5 v).val ∧
      |(roundF5 v).val - v| ≤ 1 / 2 * (10 : ℚ) ^ (-5 : ℤ) :=
  ⟨tokOk_renderF5 _, parseNum_renderF5 _ (roundF5_spec v).1, (roundF5_spec v).2⟩

/-- **C20 (the driver's parser extends the proved one).** The correspondence driver reads numbers with
    `parsePy` (Python's full `float()` token grammar: underscores between digits, `inf`, `nan`) and flags
    with `parseInt` (underscore-tolerant).  On every token without an underscore — in particular on
    everything `fmtE3`, `fmtF5`, `fmtD` write — they are `parseNum` and `parseIntPlain`, the functions the
    exactness theorems are about. -/
theorem C20_parsePy_extends (s : Str) (hus : '_' ∉ s) :
    (∀ q, parseNum s = some q → parsePy s = some (.fin q)) ∧ parseInt s = parseIntPlain s :=
  ⟨fun q h => parsePy_of_parseNum s q hus h, parseInt_of_plain s hus⟩

/-- **C20 (round trip to the printed precision).** With the executable formatters and parser:
    `from_ascii(to_ascii(s))` has the same name and flags, coordinates within `½·10⁻⁵`, and every flux
    and error within half a unit of its fourth significant digit. -/
theorem C20_roundtrip_printed (s : Src ℚ) (hname : TokOk s.name)
    (hflags : s.valid.all validFlag = true)
    (hfl : s.flux.length = s.valid.length) (hel : s.error.length = s.valid.length) :
    ∃ line t, toAscii fmtF5 fmtE3 s = some line ∧ fromAscii parseNum line = .ok t ∧
      t.name = s.name ∧ t.valid = s.valid ∧
      |t.x - s.x| ≤ 1 / 2 * (10 : ℚ) ^ (-5 : ℤ) ∧ |t.y - s.y| ≤ 1 / 2 * (10 : ℚ) ^ (-5 : ℤ) ∧
      t.flux.length = s.flux.length ∧ t.error.length = s.error.length ∧
      (∀ (i : Nat) (v w : ℚ), s.flux[i]? = some v → t.flux[i]? = some w → PrintedE3 v w) ∧
      (∀ (i : Nat) (v w : ℚ), s.error[i]? = some v → t.error[i]? = some w → PrintedE3 v w) := by
  obtain ⟨line, hline, hback⟩ := C20_roundtrip parseNum fmtF5 fmtE3
    (fun v => (roundF5 v).val) (fun v => (roundE3 v).val)
    (fun v => (C20_fmtF5_exact v).2.1) (fun v => (C20_fmtE3_exact v).2.1)
    (fun v => (C20_fmtF5_exact v).1) (fun v => (C20_fmtE3_exact v).1) s hname hflags hfl hel
  refine ⟨line, _, hline, hback, rfl, rfl, (C20_fmtF5_exact s.x).2.2, (C20_fmtF5_exact s.y).2.2,
    by simp, by simp, ?_, ?_⟩
  · intro i v w hv hw
    simp only [List.getElem?_map, hv, Option.map_some, Option.some.injEq] at hw
    subst hw; exact (C20_fmtE3_exact v).2.2
  · intro i v w hv hw
    simp only [List.getElem?_map, hv, Option.map_some, Option.some.injEq] at hw
    subst hw; exact (C20_fmtE3_exact v).2.2

/-- a well-formed source: flags from the alphabet, three arrays of one length (what the setters enforce) -/
def SrcWF (s : Src K) : Prop :=
  s.valid.all validFlag = true ∧ s.flux.length = s.valid.length ∧ s.error.length = s.valid.length

/-- **C20 (dictionary and pickle).** `from_dict(to_dict(s))` and `__setstate__(__getstate__(s))` (the
    same six assignments through the same setters) return exactly the six-field state of a
    well-formed source. -/
theorem C20_dict_pickle (s : Src K) (h : SrcWF s) : fromDict (toDict s) = .ok s := by
  obtain ⟨h1, h2, h3⟩ := h
  simp [fromDict, toDict, getKey, List.lookup, bind, Except.bind, pure, Except.pure, h1, h2, h3]

/-! ### Non-vacuity: concrete lines and sources over `ℚ` with the executable parser and formatters -/

/-- a well-formed line for `n = 2`, mixed whitespace, the `-999.` placeholder, a `.5` spelling -/
def exLine : Str := "src1   1.5 -2.25\t1 9 1.5e3 2e-1 -999. .5\n".toList

def exCols : List Str :=
  ["src1", "1.5", "-2.25", "1", "9", "1.5e3", "2e-1", "-999.", ".5"].map String.toList

def exSrc : Src ℚ := ⟨"src1".toList, 3 / 2, -9 / 4, [1, 9], [1500, -999], [1 / 5, 1 / 2]⟩

example : splitWs exLine = exCols := by decide +kernel

/-- the hypotheses of `C20_layout` hold for `exCols` with `n = 2`, and the reading is the documented one -/
example : exCols.length = 3 * (2 + 1) ∧
    (∀ j, (j = 1 ∨ j = 2 ∨ (3 + 2 ≤ j ∧ j < 3 * (2 + 1))) → ((exCols[j]?).bind parseNum).isSome) ∧
    (∀ i, i < 2 → ∃ v, (exCols[3 + i]?).bind parseInt = some v ∧ validFlag v = true) ∧
    fromAscii parseNum exLine = .ok exSrc := by
  refine ⟨rfl, ?_, ?_, by decide +kernel⟩
  · intro j hj
    have : j = 1 ∨ j = 2 ∨ j = 5 ∨ j = 6 ∨ j = 7 ∨ j = 8 := by omega
    rcases this with rfl | rfl | rfl | rfl | rfl | rfl <;> decide +kernel
  · intro i hi
    have : i = 0 ∨ i = 1 := by omega
    rcases this with rfl | rfl
    · exact ⟨1, by decide +kernel, by decide⟩
    · exact ⟨9, by decide +kernel, by decide⟩

/-- every rejecting branch and the end-of-input branch occur -/
example :
    fromAscii parseNum "src1 1.5 -2.25 1 1.5e3 2e-1 7".toList = .error .badColumns ∧
    fromAscii parseNum "src1 1.5 -2.25 1 1.5e3 2e-1 7 8".toList = .error .badColumns ∧
    fromAscii parseNum "src1 1.5 -2.25 5 1.5e3 2e-1".toList = .error .badFlag ∧
    fromAscii parseNum "src1 1.5 -2.25 1.0 1.5e3 2e-1".toList = .error .badNumber ∧
    fromAscii parseNum "src1 1.5".toList = (.error .eof : Except PErr (Src ℚ)) ∧
    fromAscii parseNum " \n".toList = (.error .eof : Except PErr (Src ℚ)) ∧
    fromAscii parseNum "src1 1.5 -2.25".toList = .ok ⟨"src1".toList, 3 / 2, -9 / 4, [], [], []⟩ := by
  decide +kernel

/-- `to_ascii` of a concrete well-formed source is the fixed-width text Python writes, and the source
    meets the hypotheses of the round-trip theorems -/
example : SrcWF exSrc ∧ TokOk exSrc.name ∧
    toAscii fmtF5 fmtE3 exSrc = some
      "src1                             1.50000  -2.25000 1 9   1.500e+03   2.000e-01  -9.990e+02   5.000e-01 ".toList := by
  refine ⟨⟨by decide, rfl, rfl⟩, ⟨by decide, by decide⟩, by decide +kernel⟩

/-- correct rounding: an exact tie goes to the even digit, the carry `9.9995 → 1.000e+01`, a negative
    value, zero, and the double nearest to `9.9995` (which lies below the tie) -/
example : fmtE3 (12345 / 10000) = "1.234e+00".toList ∧ fmtE3 (12355 / 10000) = "1.236e+00".toList ∧
    fmtE3 (99995 / 10000) = "1.000e+01".toList ∧ fmtE3 (-999) = "-9.990e+02".toList ∧
    fmtE3 0 = "0.000e+00".toList ∧ fmtE3 (5629218059236409 / 562949953421312) = "9.999e+00".toList ∧
    fmtE3 (1 / 10 ^ 30) = "1.000e-30".toList ∧ fmtF5 (-9 / 4) = "-2.25000".toList ∧
    fmtF5 (-1 / 10 ^ 9) = "-0.00000".toList := by decide +kernel

/-- the spellings Python's `float()` / `int()` accept beyond plain decimals, and some they reject -/
example :
    parsePy "1_0".toList = some (.fin 10) ∧ parsePy "1_0.5e1_0".toList = some (.fin 105000000000) ∧
    parsePy "-Inf".toList = some .ninf ∧ parsePy "infinity".toList = some .pinf ∧
    parsePy "+NaN".toList = some .nan ∧ parsePy "1__0".toList = none ∧ parsePy "_1".toList = none ∧
    parsePy "1_".toList = none ∧ parsePy "1_.5".toList = none ∧ parsePy "+-999".toList = none ∧
    parseInt "01".toList = some 1 ∧ parseInt "+1".toList = some 1 ∧ parseInt "1_0".toList = some 10 ∧
    parseInt "1.0".toList = none ∧ parseInt "-0".toList = some 0 := by decide +kernel

end SF
