import SedVerif.Proofs.Resolved
import SedVerif.Properties.C04
import SedVerif.Properties.C02
/-!
# RES — the resolved-source rule (`remove_resolved=True`: "models larger than the aperture are removed")

Property theorems only.  Model: `SedVerif/Model/Resolved.lean` (`sigmaProfile`, `findRadiusSigma` =
`ConvolvedFluxes.find_radius_sigma`; `apGrid`, `bandRadius`, `bandMask`, `extendedMask` = the `extended` array of
`Models._read_version_1/_2`; `resetResolved` + `fit3Ext` (`Model/Rank.lean`) = the `ndim == 3` branch of `Models.fit`;
`fitResolved` = one model end to end) on top of `Model/Dist.lean` / `Model/Fit.lean` (C02).
All statements hold over every linearly ordered field, for every number of trial distances, bands and apertures.
-/
namespace SF
open Dist Res
variable {K : Type} [Field K] [LinearOrder K] [IsStrictOrderedRing K]

/-- **RES (a), (b): what the masked fit reports.**  For one model with per-distance band lists `pss` (at least one)
    and any mask `reset` (one flag per trial distance; a missing flag counts as "kept"):
    the reported index is a grid index; if at least one distance is kept, the reported distance is a kept one, the
    reported chi² is finite and is the chi² there, it is `≤` the chi² at every kept distance and `<` the chi² at every
    *earlier* kept distance (first index among ties), A_V is the clipped optimum at that distance and the scale is
    `logd` there; if every distance is removed, chi² is `+inf` and index 0 (the nearest distance), its A_V and
    `logd[0]` are reported — this is what `np.argmin` of an all-`inf` row does. -/
theorem RES_fit_masked (big : K) (ln1m : K → K) (lo hi : K) (logd : List K) (pss : List (List (Pt K)))
    (reset : List Bool) (hne : pss ≠ []) (hlen : logd.length = pss.length) :
    let res := fit3Ext big ln1m lo hi logd pss reset
    res.2.2.2 < pss.length ∧
    ((∃ d, d < pss.length ∧ reset.getD d false = false) →
      reset.getD res.2.2.2 false = false ∧
      ∃ ps, pss[res.2.2.2]? = some ps ∧
        res.2.2.1 = EF.fin (chiAt big ln1m lo hi ps) ∧
        res.1 = clipAv lo hi (optAv ps) ∧
        logd[res.2.2.2]? = some res.2.1 ∧
        (∀ (d : Nat) ps', pss[d]? = some ps' → reset.getD d false = false →
          chiAt big ln1m lo hi ps ≤ chiAt big ln1m lo hi ps') ∧
        (∀ (d : Nat) ps', d < res.2.2.2 → pss[d]? = some ps' → reset.getD d false = false →
          chiAt big ln1m lo hi ps < chiAt big ln1m lo hi ps')) ∧
    ((∀ d, d < pss.length → reset.getD d false = true) →
      res.2.2.1 = EF.pinf ∧ res.2.2.2 = 0 ∧
      ∃ ps, pss[0]? = some ps ∧ res.1 = clipAv lo hi (optAv ps) ∧ logd[0]? = some res.2.1) := by
  intro res
  have hper : fit3PerDist big ln1m lo hi pss
      = pss.map (fun ps => (clipAv lo hi (optAv ps), chiAt big ln1m lo hi ps)) := by
    simp [fit3PerDist, chiAt]
  have hperl : (fit3PerDist big ln1m lo hi pss).length = pss.length := fit3PerDist_length _ _ _ _ _
  have hpne : fit3PerDist big ln1m lo hi pss ≠ [] := by
    intro h; rw [h] at hperl; exact hne (List.length_eq_zero_iff.mp hperl.symm)
  obtain ⟨hbi, hkept, hall⟩ := maskChi_argmin (fit3PerDist big ln1m lo hi pss) reset hpne
  have hres : res = _ := fit3Ext_eq big ln1m lo hi logd pss reset
  generalize hr : argminFirstEF (maskChi (fit3PerDist big ln1m lo hi pss) reset) = r at hbi hkept hall hres
  rw [hperl] at hbi hkept hall
  rw [hres]
  simp only
  have hperget : ∀ d : Nat, (fit3PerDist big ln1m lo hi pss)[d]?
      = (pss[d]?).map (fun ps => (clipAv lo hi (optAv ps), chiAt big ln1m lo hi ps)) := by
    intro d; rw [hper, List.getElem?_map]
  refine ⟨hbi, ?_, ?_⟩
  · intro hex
    obtain ⟨hk, p, hp, hv, hmin, hfirst⟩ := hkept hex
    refine ⟨hk, pss[r.1], List.getElem?_eq_getElem hbi, ?_, ?_, ?_, ?_, ?_⟩
    · rw [hperget, List.getElem?_eq_getElem hbi] at hp
      simp only [Option.map_some, Option.some.injEq] at hp
      rw [hv, ← hp]
    · rw [List.getD_eq_getElem?_getD, hperget, List.getElem?_eq_getElem hbi]; rfl
    · rw [List.getD_eq_getElem?_getD, List.getElem?_eq_getElem (by omega : r.1 < logd.length)]; rfl
    · intro d ps' hps' hd
      rw [hperget, List.getElem?_eq_getElem hbi] at hp
      simp only [Option.map_some, Option.some.injEq] at hp
      have := hmin d (clipAv lo hi (optAv ps'), chiAt big ln1m lo hi ps') (by rw [hperget, hps']; rfl) hd
      rw [← hp] at this
      exact this
    · intro d ps' hdlt hps' hd
      rw [hperget, List.getElem?_eq_getElem hbi] at hp
      simp only [Option.map_some, Option.some.injEq] at hp
      have := hfirst d (clipAv lo hi (optAv ps'), chiAt big ln1m lo hi ps') hdlt (by rw [hperget, hps']; rfl) hd
      rw [← hp] at this
      exact this
  · intro hallr
    have h0 := hall hallr
    have hpos : 0 < pss.length := List.length_pos_iff.mpr hne
    rw [h0]
    refine ⟨rfl, rfl, pss[0], List.getElem?_eq_getElem hpos, ?_, ?_⟩
    · simp only
      rw [List.getD_eq_getElem?_getD, hperget, List.getElem?_eq_getElem hpos]; rfl
    · simp only
      rw [List.getD_eq_getElem?_getD, List.getElem?_eq_getElem (by omega : 0 < logd.length)]; rfl

/-- **RES (glue).**  Whenever the fit of a model through a fitter built with `remove_resolved=True` returns, it is
    `fit3Ext` on the per-distance band lists of C02 (`modelPss`: the same interpolated, `d⁻²`-scaled fluxes, see
    `C02_model`) with `logd = log10(distances)` and the mask
    `reset[d] = any over the bands with valid > 0 of (apGrid[d] < radius of that band)`; there is one band list and
    one flag per trial distance. -/
theorem RES_model (big : K) (ln1m lg : K → K) (lo hi : K) (lobs : List (LogObs K)) (ks : List K)
    (tabs : List (BandTab K)) (dists : List K) (res : K × K × EF K × Nat)
    (h : fitResolved big ln1m lg lo hi lobs ks tabs dists = .ok res) :
    ∃ pss ext, modelPss lg lobs ks tabs dists = .ok pss ∧ extendedMask tabs dists = .ok ext ∧
      pss.length = dists.length ∧ (dists.map lg).length = pss.length ∧ ext.length = tabs.length ∧
      (resetResolved (lobs.map (·.flag)) ext dists.length).length = dists.length ∧
      (∀ (j : Nat) (hj : j < tabs.length) (hj' : j < ext.length), bandMask tabs[j] dists = .ok ext[j]) ∧
      res = fit3Ext big ln1m lo hi (dists.map lg) pss (resetResolved (lobs.map (·.flag)) ext dists.length) := by
  unfold fitResolved at h
  cases hp : modelPss lg lobs ks tabs dists with
  | error e => rw [hp] at h; cases h
  | ok pss =>
    cases he : extendedMask tabs dists with
    | error e => rw [hp, he] at h; cases h
    | ok ext =>
      rw [hp, he] at h
      simp only [Except.ok.injEq] at h
      have hpl : pss.length = dists.length := by
        obtain ⟨pss', hp', hl, -⟩ := C02_model big ln1m lg lo hi lobs ks tabs dists
          (fit3 big ln1m lo hi (dists.map lg) pss) (by unfold fit3Model; rw [hp]; rfl)
        rw [hp] at hp'
        simp only [Except.ok.injEq] at hp'
        rw [hp']; exact hl
      have hel : ext.length = tabs.length := by
        unfold extendedMask at he
        simpa using seqE_length _ _ he
      refine ⟨pss, ext, rfl, rfl, hpl, by simp [hpl], hel, resetResolved_length _ _ _, ?_, h.symm⟩
      intro j hj hj'
      unfold extendedMask at he
      have := seqE_getElem _ _ he j (by simpa using hj) hj'
      simpa using this

/-- **RES (c1): a band the source does not use never removes anything.**  A band with `valid = 0` can be deleted from
    the mask (or its column replaced by any other) without changing the set of removed distances — and so without
    changing the fit.  (Bands with `valid = 9`, "plot only", *do* count: the code tests `source.valid > 0`.) -/
theorem RES_unused_band (fl1 fl2 : List Nat) (e1 e2 : List (List Bool)) (col col' : List Bool) (nd : Nat)
    (h : fl1.length = e1.length) :
    resetResolved (fl1 ++ 0 :: fl2) (e1 ++ col :: e2) nd = resetResolved (fl1 ++ fl2) (e1 ++ e2) nd ∧
    resetResolved (fl1 ++ 0 :: fl2) (e1 ++ col :: e2) nd = resetResolved (fl1 ++ 0 :: fl2) (e1 ++ col' :: e2) nd := by
  refine ⟨resetResolved_unused fl1 fl2 e1 e2 col nd h, ?_⟩
  rw [resetResolved_unused fl1 fl2 e1 e2 col nd h, resetResolved_unused fl1 fl2 e1 e2 col' nd h]

/-- **RES (c2): with nothing removed the result is the plain C02 result.**  If no trial distance is removed for this
    source (no used band is marked at any distance), the fit through the `remove_resolved=True` fitter returns exactly
    what `fit3Model` of C02 (`remove_resolved` off) returns, with a finite chi². -/
theorem RES_none_removed (big : K) (ln1m lg : K → K) (lo hi : K) (lobs : List (LogObs K)) (ks : List K)
    (tabs : List (BandTab K)) (dists : List K) (hne : dists ≠ []) (res : K × K × EF K × Nat)
    (h : fitResolved big ln1m lg lo hi lobs ks tabs dists = .ok res)
    (hnone : ∀ ext, extendedMask tabs dists = .ok ext → ∀ d, d < dists.length →
      (resetResolved (lobs.map (·.flag)) ext dists.length).getD d false = false) :
    ∃ r0, fit3Model big ln1m lg lo hi lobs ks tabs dists = .ok r0 ∧
      res = (r0.1, r0.2.1, EF.fin r0.2.2.1, r0.2.2.2) := by
  obtain ⟨pss, ext, hp, he, hpl, -, -, -, -, hres⟩ := RES_model big ln1m lg lo hi lobs ks tabs dists res h
  have hpne : pss ≠ [] := by
    intro h0; rw [h0] at hpl; exact hne (List.length_eq_zero_iff.mp hpl.symm)
  refine ⟨fit3 big ln1m lo hi (dists.map lg) pss, by unfold fit3Model; rw [hp]; rfl, ?_⟩
  have hperl : (fit3PerDist big ln1m lo hi pss).length = dists.length := by rw [fit3PerDist_length, hpl]
  have hmask := maskChi_allFalse (fit3PerDist big ln1m lo hi pss)
    (resetResolved (lobs.map (·.flag)) ext dists.length) (by rw [hperl]; exact hnone ext he)
  have heq : fit3Ext big ln1m lo hi (dists.map lg) pss (resetResolved (lobs.map (·.flag)) ext dists.length)
      = fit3Ext big ln1m lo hi (dists.map lg) pss [] := by
    rw [fit3Ext_eq, fit3Ext_eq, hmask]
  obtain ⟨n1, n2, n3, n4⟩ := C04_fit3Ext_nomask big ln1m lo hi (dists.map lg) pss hpne
  rw [hres, heq]
  ext <;> simp [n1, n2, n3, n4]

/-- **RES (d1): range of the radius.**  On positive, non-decreasing apertures — which the grid `theta·d` reset to
    the largest tabulated aperture always is — and for a positive fraction, `find_radius_sigma` returns `0` (no
    surface brightness above the threshold), NaN (a `0/0` or `inf/inf` in the profile), or a finite radius between
    the first and the last aperture of the grid; it is never `±inf` and never beyond the last aperture. -/
theorem RES_radius_range (f : K) (hf : 0 < f) (a0 : K) (as flux : List K)
    (hlen : (a0 :: as).length = flux.length) (hpos : ∀ a ∈ a0 :: as, 0 < a)
    (hnd : (a0 :: as).Pairwise (· ≤ ·)) :
    ∃ r, findRadiusSigma f (a0 :: as) flux = some r ∧
      (r = EF.fin 0 ∨ r = EF.nan ∨ ∃ x, r = EF.fin x ∧ a0 ≤ x ∧ x ≤ lastD as a0) :=
  findRadiusSigma_range f hf a0 as flux hlen hpos hnd

/-- **RES (d2): last-aperture override.**  When the last surface-brightness increment exceeds the threshold
    `fraction · max(sigma)`, the radius is the last aperture, whatever the loop computed. -/
theorem RES_radius_last (f a0 f0 : K) (as fs : List K) (hlen : as.length = fs.length)
    (hover : EF.lt (EF.mulK (maxSigma (EF.divN (EF.fin f0) (a0 * a0)) (sigmaTail a0 f0 as fs)) f)
      (lastD (sigmaTail a0 f0 as fs) (EF.divN (EF.fin f0) (a0 * a0))) = true) :
    findRadiusSigma f (a0 :: as) (f0 :: fs) = some (EF.fin (lastD as a0)) := by
  rw [findRadiusSigma_unfold f a0 f0 as fs hlen, if_pos hover]

/-- **RES (d3): the profile.**  `sigma[0] = F₀/a₀²` and `sigma[i] = (F_i − F_{i−1})/(a_i² − a_{i−1}²)` wherever the
    two apertures differ; where they are equal (both trial distances beyond the table) the entry is `−inf`, `+inf`
    or NaN according to the sign of `F_i − F_{i−1}` (IEEE `x/0`). -/
theorem RES_sigma (a0 f0 : K) (as fs : List K) (ha0 : a0 ≠ 0) :
    (sigmaProfile (a0 :: as) (f0 :: fs))[0]? = some (EF.fin (f0 / a0 ^ 2)) ∧
    ∀ (i : Nat) (hi : i + 1 < (a0 :: as).length) (hi' : i + 1 < (f0 :: fs).length),
      (sigmaProfile (a0 :: as) (f0 :: fs))[i + 1]? = some
        (if (a0 :: as)[i + 1] ^ 2 - (a0 :: as)[i] ^ 2 = 0 then
          (if 0 < (f0 :: fs)[i + 1] - (f0 :: fs)[i] then EF.pinf
           else if (f0 :: fs)[i + 1] - (f0 :: fs)[i] < 0 then EF.ninf else EF.nan)
         else EF.fin (((f0 :: fs)[i + 1] - (f0 :: fs)[i]) / ((a0 :: as)[i + 1] ^ 2 - (a0 :: as)[i] ^ 2))) := by
  constructor
  · have : a0 * a0 ≠ 0 := mul_ne_zero ha0 ha0
    simp [sigmaProfile, EF.divN, this, pow_two]
  · intro i hi hi'
    simp only [sigmaProfile, List.getElem?_cons_succ]
    clear ha0
    induction i generalizing a0 f0 as fs with
    | zero =>
      cases as with
      | nil => simp at hi
      | cons a as' =>
        cases fs with
        | nil => simp at hi'
        | cons f fs' =>
          simp only [sigmaTail, List.getElem?_cons_zero, List.getElem_cons_succ, List.getElem_cons_zero,
            EF.divN, pow_two]
    | succ n ih =>
      cases as with
      | nil => simp at hi
      | cons a as' =>
        cases fs with
        | nil => simp at hi'
        | cons f fs' =>
          simp only [sigmaTail, List.getElem?_cons_succ, List.getElem_cons_succ]
          exact ih a f as' fs' (by simpa using hi) (by simpa using hi')

/-- **RES (d4), (e): the mask of one band.**  On the domain of the distance-dependent mode (positive `theta`,
    positive tabulated apertures, positive non-decreasing trial distances, at least one) the mask of a band has one
    flag per trial distance, is antitone in the distance (a model removed at one trial distance is removed at every
    nearer one: the removed distances are a prefix of the grid) and is `False` at the last trial distance: the
    radius never exceeds `theta·dmax`, so *the farthest trial distance is never removed* — in particular nothing
    is ever removed when `dmin = dmax`. -/
theorem RES_band_mask (t : BandTab K) (d0 : K) (ds : List K) (h : GridOK t (d0 :: ds)) (m : List Bool)
    (hm : bandMask t (d0 :: ds) = .ok m) :
    m.length = (d0 :: ds).length ∧ m[ds.length]? = some false ∧
    ∀ i j : Nat, i ≤ j → m[j]? = some true → m[i]? = some true := by
  obtain ⟨h1, h2, h3⟩ := bandMask_spec t d0 ds h m hm
  exact ⟨by simpa using h1, h2, h3⟩

/-- **RES (f): the nearest trial distance is always removed.**  On a strictly increasing positive aperture grid of at
    least two points (two or more trial distances, all but possibly the last inside the table), with a positive flux at
    the first and a fraction in `(0, 1)` (the code uses `0.5`), the radius is finite, strictly larger than the first
    aperture `theta·dmin` and at most the last: whatever the model's profile, `dmin` is marked as resolved in every band.
    (The maximum of the profile exceeds `fraction · maximum`, so some radius is always assigned, and every assigned
    radius lies beyond the first aperture.) -/
theorem RES_first_removed (f : K) (hf0 : 0 < f) (hf1 : f < 1) (a0 a1 : K) (as flux : List K)
    (hlen : (a0 :: a1 :: as).length = flux.length) (ha0 : 0 < a0)
    (hinc : (a0 :: a1 :: as).Pairwise (· < ·)) (hF0 : ∀ f0 ∈ flux.head?, 0 < f0) :
    ∃ x, findRadiusSigma f (a0 :: a1 :: as) flux = some (EF.fin x) ∧ a0 < x ∧ x ≤ lastD (a1 :: as) a0 ∧
      (maskOf (a0 :: a1 :: as) (EF.fin x))[0]? = some true := by
  obtain ⟨x, h1, h2, h3⟩ := findRadiusSigma_gt_first f hf0 hf1 a0 a1 as flux hlen ha0 hinc hF0
  exact ⟨x, h1, h2, h3, by simp [maskOf, EF.lt, h2]⟩

/-- **RES (a′): on the domain some distance is always kept.**  For positive `theta`, positive tabulated apertures and
    positive non-decreasing trial distances the fit through a `remove_resolved=True` fitter never reports
    `chi² = +inf`: the last trial distance is kept for every source, the removed distances are a prefix `0..k−1` of
    the grid, the reported distance is a kept one (index `≥ k`) and chi² there is the minimum over the kept
    distances.  ("All distances removed" is unreachable; `RES_fit_masked` says what `np.argmin` would do with it.) -/
theorem RES_fit_kept (big : K) (ln1m lg : K → K) (lo hi : K) (lobs : List (LogObs K)) (ks : List K)
    (tabs : List (BandTab K)) (d0 : K) (ds : List K) (hg : ∀ t ∈ tabs, GridOK t (d0 :: ds))
    (res : K × K × EF K × Nat)
    (h : fitResolved big ln1m lg lo hi lobs ks tabs (d0 :: ds) = .ok res) :
    ∃ pss ext, modelPss lg lobs ks tabs (d0 :: ds) = .ok pss ∧ extendedMask tabs (d0 :: ds) = .ok ext ∧
      let reset := resetResolved (lobs.map (·.flag)) ext (d0 :: ds).length
      reset.getD ds.length false = false ∧
      (∀ i j, i ≤ j → j < (d0 :: ds).length → reset.getD j false = true → reset.getD i false = true) ∧
      res.2.2.2 < (d0 :: ds).length ∧ reset.getD res.2.2.2 false = false ∧
      ∃ ps, pss[res.2.2.2]? = some ps ∧ res.2.2.1 = EF.fin (chiAt big ln1m lo hi ps) ∧
        res.1 = clipAv lo hi (optAv ps) ∧ ((d0 :: ds).map lg)[res.2.2.2]? = some res.2.1 ∧
        (∀ (d : Nat) ps', pss[d]? = some ps' → reset.getD d false = false →
          chiAt big ln1m lo hi ps ≤ chiAt big ln1m lo hi ps') ∧
        (∀ (d : Nat) ps', d < res.2.2.2 → pss[d]? = some ps' → reset.getD d false = false →
          chiAt big ln1m lo hi ps < chiAt big ln1m lo hi ps') := by
  obtain ⟨pss, ext, hp, he, hpl, hll, hel, -, hcols, hres⟩ :=
    RES_model big ln1m lg lo hi lobs ks tabs (d0 :: ds) res h
  refine ⟨pss, ext, hp, he, ?_⟩
  intro reset
  have hcol : ∀ col ∈ ext, col.length = ds.length + 1 ∧ col[ds.length]? = some false ∧
      ∀ i j : Nat, i ≤ j → col[j]? = some true → col[i]? = some true := by
    intro col hc
    obtain ⟨j, hj, rfl⟩ := List.getElem_of_mem hc
    have hjt : j < tabs.length := by omega
    exact bandMask_spec tabs[j] d0 ds (hg _ (List.getElem_mem hjt)) ext[j] (hcols j hjt hj)
  have hlast : reset.getD ds.length false = false := by
    apply resetResolved_false _ _ _ _ (by simp)
    intro col hc
    rw [List.getD_eq_getElem?_getD, (hcol col hc).2.1]; rfl
  have hanti : ∀ i j, i ≤ j → j < (d0 :: ds).length → reset.getD j false = true → reset.getD i false = true := by
    intro i j hij hj hr
    apply resetResolved_antitone _ _ _ i j hij hj _ hr
    intro col hc hcj
    obtain ⟨hl, -, hmono⟩ := hcol col hc
    have hjl : j < col.length := by rw [hl]; simpa using hj
    have hil : i < col.length := by omega
    have h1 : col[j]? = some true := by
      rw [List.getD_eq_getElem?_getD, List.getElem?_eq_getElem hjl] at hcj
      rw [List.getElem?_eq_getElem hjl]; simpa using hcj
    have h2 := hmono i j hij h1
    rw [List.getD_eq_getElem?_getD, h2]; rfl
  have hpne : pss ≠ [] := by
    intro h0; rw [h0] at hpl; simp at hpl
  obtain ⟨hbi, hkept, -⟩ := RES_fit_masked big ln1m lo hi ((d0 :: ds).map lg) pss reset hpne hll
  rw [← hres] at hbi hkept
  have hex : ∃ d, d < pss.length ∧ reset.getD d false = false := ⟨ds.length, by rw [hpl]; simp, hlast⟩
  obtain ⟨hk, ps, h1, h2, h3, h4, h5, h6⟩ := hkept hex
  exact ⟨hlast, hanti, by rw [← hpl]; exact hbi, hk, ps, h1, h2, h3, h4, h5, h6⟩

/-! ### Non-vacuity and the grid dependence of the rule -/

section Examples

/-- a concrete masked problem meets the hypotheses of `RES_fit_masked` with one distance removed and one kept
    (`exPss` of `Properties/C02.lean`) -/
example : exPss ≠ [] ∧ ([0, 1/10] : List ℚ).length = exPss.length ∧
    (∃ d, d < exPss.length ∧ ([true, false] : List Bool).getD d false = false) :=
  ⟨by simp [exPss], rfl, 1, by simp [exPss], rfl⟩

/-- … and with every distance removed -/
example : ∀ d, d < exPss.length → ([true, true] : List Bool).getD d false = true := by
  intro d hd
  have : d < 2 := by simpa [exPss] using hd
  rcases d with _ | _ | d
  · rfl
  · rfl
  · omega

/-- `RES_unused_band`: a concrete instance (second of three bands unused) -/
example : ([1] : List Nat).length = ([[true, false]] : List (List Bool)).length := rfl

/-- a band of the domain: `theta = 1″`, table `(200 AU, 1 mJy), (400 AU, 100 mJy), (800 AU, 10000 mJy)`; trial
    distances 0.2, 0.4, 0.8 kpc put the aperture radius on the three knots -/
def exBand : BandTab ℚ := { theta := 1, aps := [200, 400, 800], row := [1, 100, 10000] }

example : GridOK exBand [1/5, 2/5, 4/5] := by
  refine ⟨by norm_num [exBand], ?_, ?_, ?_⟩
  · intro a ha; simp [exBand] at ha; rcases ha with rfl | rfl | rfl <;> norm_num
  · intro d hd; simp at hd; rcases hd with rfl | rfl | rfl <;> norm_num
  · simp; norm_num

/-- the grid of that band meets the hypotheses of `RES_radius_range` -/
example : (∀ a ∈ ([200, 400, 800] : List ℚ), 0 < a) ∧ ([200, 400, 800] : List ℚ).Pairwise (· ≤ ·) ∧
    (0 : ℚ) < 1 / 2 := by
  refine ⟨?_, ?_, by norm_num⟩
  · intro a ha; simp at ha; rcases ha with rfl | rfl | rfl <;> norm_num
  · simp; norm_num

/-- … and of `RES_first_removed` (fraction `1/2`, first flux 25) -/
example : (0 : ℚ) < 1 / 2 ∧ (1 / 2 : ℚ) < 1 ∧ ([200, 400, 800] : List ℚ).Pairwise (· < ·) ∧
    ∀ f0 ∈ ([25, 625, 15625] : List ℚ).head?, 0 < f0 := by
  refine ⟨by norm_num, by norm_num, by simp; norm_num, ?_⟩
  intro f0 h; simp at h; subst h; norm_num

/-- `halfK` is the `0.5` of the code -/
example : (halfK : ℚ) = 1 / 2 := halfK_eq

/-- **the rule depends on the grid, not on the distance.**  The same model in the same band at the same trial
    distance 0.2 kpc (aperture radius 200 AU) is *kept* when 0.2 kpc is the only trial distance, and *removed* when
    the range extends to 0.4 kpc; at 0.4 kpc it is kept when the range ends there and removed when the range extends
    to 0.8 kpc: the "radius" is computed from the per-distance fluxes `F(theta·d)/d²` on the grid itself and can never
    exceed `theta·dmax`.  (Checked on the real code by `harness/resolved.py`, case kind `grid_dependence`.) -/
example :
    bandMask exBand [1/5] = .ok [false] ∧
    bandMask exBand [1/5, 2/5] = .ok [true, false] ∧
    bandMask exBand [1/5, 2/5, 4/5] = .ok [true, true, false] := by
  refine ⟨?_, ?_, ?_⟩ <;> decide +kernel

/-- **as coded vs as documented.**  A uniformly bright model (flux ∝ aperture²: 100, 400, 1600 mJy at 200, 400, 800 AU)
    has the half-peak-brightness radius 800 AU *on its own tabulated profile* (first conjunct: the last sigma equals the
    maximum).  Seen through `theta = 1″` at 0.2, 0.4, 0.8 kpc (aperture radii 200, 400, 800 AU) "larger than the
    aperture" would mark the first two distances; the code marks only the first (second conjunct), because it takes the
    profile of `F(theta·d)/d²` over the trial distances — here the constant 2500 — instead.  (Confirmed on the real
    code: `fitter.models.extended[0, :, 0] = [True, False, False]`, `ConvolvedFluxes.find_radius_sigma(0.5) = 800 AU`.) -/
example : findRadiusSigma (1/2 : ℚ) [200, 400, 800] [100, 400, 1600] = some (EF.fin 800) ∧
    bandMask ({ theta := 1, aps := [200, 400, 800], row := [100, 400, 1600] } : BandTab ℚ) [1/5, 2/5, 4/5]
      = .ok [true, false, false] := by
  refine ⟨?_, ?_⟩ <;> decide +kernel

/-- the profile and the radius of that band on the three-point grid (per-distance fluxes 1/0.04, 100/0.16,
    10000/0.64): the last increment exceeds half the maximum, so the radius is the last aperture (`RES_radius_last`) -/
example : sigmaProfile ([200, 400, 800] : List ℚ) [25, 625, 15625] = [EF.fin (1/1600), EF.fin (1/200), EF.fin (1/32)] ∧
    findRadiusSigma (1/2 : ℚ) [200, 400, 800] [25, 625, 15625] = some (EF.fin 800) := by
  refine ⟨?_, ?_⟩ <;> decide +kernel

/-- a radius from inside the loop (between two grid apertures) and a grid with two trial distances beyond the table
    (equal apertures, `sigma = −inf` there): -/
example : findRadiusSigma (1/2 : ℚ) [100, 200, 400] [100, 150, 160] = some (EF.fin 160) ∧
    sigmaProfile ([100, 300, 300] : List ℚ) [8, 4, 1] = [EF.fin (1/1250), EF.fin (-1/20000), EF.ninf] ∧
    findRadiusSigma (1/2 : ℚ) [100, 300, 300] [8, 4, 1] = some (EF.fin (3300/17)) ∧
    findRadiusSigma (1/2 : ℚ) [100, 300, 300] [1, 20, 5] = some (EF.fin 300) ∧
    findRadiusSigma (1/2 : ℚ) [100, 200] [-1, -5] = some (EF.fin 0) := by
  refine ⟨?_, ?_, ?_, ?_, ?_⟩ <;> decide +kernel

end Examples

end SF
