import SedVerif.Proofs.Rank
import SedVerif.Proofs.Fit
import Mathlib.Tactic.Ring
import Mathlib.Tactic.Linarith
import Mathlib.Tactic.Positivity
/-!
# C04 — results are ranked by chi² and every row describes one model

Property theorems only.  Model: `SedVerif/Model/Rank.lean` (`argsortEF`, `fancyIndex`, `sortRows` =
`FitInfo.sort`; `fitRows2` = the assembly in `Models.fit`; `predicted2` / `predictedRow3` = the stored
predicted fluxes).  All statements hold for every number of models and every chi² vector over the
extended floats — ties, `±inf` and NaN included.
-/
namespace SF
variable {K : Type} [Field K] [LinearOrder K] [IsStrictOrderedRing K]

/-- a result as `Models.fit` assembles it: every per-model array has one entry per model -/
def WFRows (x : FitRows K) : Prop :=
  x.av.length = x.chi2.length ∧ x.sc.length = x.chi2.length ∧ x.name.length = x.chi2.length ∧
  ∀ fl, x.fluxes = some fl → fl.length = x.chi2.length

/-- **C04 (every model exactly once).** After `FitInfo.sort` the `model_id` column is a permutation
    of `0 … n−1` without repetition, and every column is a permutation of what it was. -/
theorem C04_perm (x : FitRows K) (hwf : WFRows x) :
    (sortRows x).modelId.Perm (List.range x.chi2.length) ∧ (sortRows x).modelId.Nodup ∧
    (sortRows x).name.Perm x.name ∧ (sortRows x).chi2.Perm x.chi2 ∧
    (sortRows x).av.Perm x.av ∧ (sortRows x).sc.Perm x.sc ∧
    ∀ fl, x.fluxes = some fl → ∃ fl', (sortRows x).fluxes = some fl' ∧ fl'.Perm fl := by
  obtain ⟨h1, h2, h3, h4⟩ := hwf
  have hp := argsortEF_perm x.chi2
  refine ⟨hp, hp.nodup_iff.mpr List.nodup_range, ?_, ?_, ?_, ?_, ?_⟩
  · exact fancyIndex_perm _ _ _ (by rw [h3]; exact hp)
  · exact fancyIndex_perm _ _ _ hp
  · exact fancyIndex_perm _ _ _ (by rw [h1]; exact hp)
  · exact fancyIndex_perm _ _ _ (by rw [h2]; exact hp)
  · intro fl hfl
    refine ⟨fancyIndex [] (argsortEF x.chi2) fl, by simp [sortRows, hfl], ?_⟩
    exact fancyIndex_perm _ _ _ (by rw [h4 fl hfl]; exact hp)

/-- **C04 (ranked).** After `FitInfo.sort` the chi² column is ordered in numpy's sort order; in IEEE
    terms: whenever a later entry is not NaN, the earlier one is `<=` it (so the non-NaN entries are
    non-decreasing, `+inf` after every finite value, and all NaNs come last). -/
theorem C04_sorted (x : FitRows K) :
    (sortRows x).chi2.Pairwise (fun a b => EF.leSort a b = true) ∧
    (sortRows x).chi2.Pairwise (fun a b => b ≠ EF.nan → EF.le a b = true) := by
  have h : (sortRows x).chi2.Pairwise (fun a b => EF.leSort a b = true) := argsortEF_sorted x.chi2
  refine ⟨h, h.imp ?_⟩
  intro a b hab hb
  cases a <;> cases b <;> simp_all [EF.leSort, EF.le]

/-- **C04 (row integrity).** Row `i` of the sorted result is, in every column, row `m` of the arrays
    `Models.fit` assembled, where `m = model_id[i]` (an existing row); in particular
    `model_name[i] = names[model_id[i]]`. -/
theorem C04_rows (x : FitRows K) (hwf : WFRows x) (i : Nat) (hi : i < x.chi2.length) :
    ∃ m, m < x.chi2.length ∧ (sortRows x).modelId[i]? = some m ∧
      (rowAt x m).isSome = true ∧ rowAt (sortRows x) i = rowAt x m ∧
      (sortRows x).name[i]? = x.name[m]? ∧ (sortRows x).av[i]? = x.av[m]? ∧
      (sortRows x).sc[i]? = x.sc[m]? ∧ (sortRows x).chi2[i]? = x.chi2[m]? ∧
      ∀ fl, x.fluxes = some fl → ∃ fl', (sortRows x).fluxes = some fl' ∧ fl'[i]? = fl[m]? := by
  obtain ⟨h1, h2, h3, h4⟩ := hwf
  have hlen := argsortEF_length x.chi2
  have hi' : i < (argsortEF x.chi2).length := by omega
  let m := (argsortEF x.chi2)[i]
  have hm : (argsortEF x.chi2)[i]? = some m := List.getElem?_eq_getElem hi'
  have hmlt : m < x.chi2.length := argsortEF_lt x.chi2 (List.getElem_mem hi')
  have eav : (sortRows x).av[i]? = x.av[m]? := fancyIndex_getElem? _ _ _ i m hm (by omega)
  have esc : (sortRows x).sc[i]? = x.sc[m]? := fancyIndex_getElem? _ _ _ i m hm (by omega)
  have ech : (sortRows x).chi2[i]? = x.chi2[m]? := fancyIndex_getElem? _ _ _ i m hm (by omega)
  have enm : (sortRows x).name[i]? = x.name[m]? := fancyIndex_getElem? _ _ _ i m hm (by omega)
  have efl : ∀ fl, x.fluxes = some fl → ∃ fl', (sortRows x).fluxes = some fl' ∧ fl'[i]? = fl[m]? := by
    intro fl hfl
    exact ⟨fancyIndex [] (argsortEF x.chi2) fl, by simp [sortRows, hfl],
      fancyIndex_getElem? _ _ _ i m hm (by rw [h4 fl hfl]; exact hmlt)⟩
  refine ⟨m, hmlt, hm, ?_, ?_, enm, eav, esc, ech, efl⟩
  · -- the input row exists
    unfold rowAt
    rw [List.getElem?_eq_getElem (by omega : m < x.av.length),
      List.getElem?_eq_getElem (by omega : m < x.sc.length),
      List.getElem?_eq_getElem hmlt, List.getElem?_eq_getElem (by omega : m < x.name.length)]
    cases hfl : x.fluxes with
    | none => simp
    | some fl =>
      have : m < fl.length := by rw [h4 fl hfl]; exact hmlt
      simp [List.getElem?_eq_getElem this]
  · unfold rowAt
    rw [eav, esc, ech, enm]
    cases hfl : x.fluxes with
    | none => simp [sortRows, hfl]
    | some fl =>
      obtain ⟨fl', hfl', hfe⟩ := efl fl hfl
      rw [hfl']
      simp only [hfe]

/-! ### predicted fluxes -/

theorem predicted2_getElem? (a s : K) (ps : List (Pt K)) (mfs : List K) (j : Nat) (p : Pt K) (mf : K)
    (hp : ps[j]? = some p) (hmf : mfs[j]? = some mf) :
    (predicted2 a s ps mfs)[j]? = some (mf + a * p.k + s * p.q) := by
  induction ps generalizing mfs j with
  | nil => simp at hp
  | cons p0 ps ih =>
    cases mfs with
    | nil => simp at hmf
    | cons m0 ms =>
      cases j with
      | zero =>
        simp at hp hmf
        subst hp; subst hmf
        simp [predicted2]; ring
      | succ j =>
        simp at hp hmf
        simp only [predicted2, List.getElem?_cons_succ]
        exact ih ms j hp hmf

theorem mkPts_getElem? (lobs : List (LogObs K)) (mfs ks : List K) (j : Nat) (o : LogObs K) (mf k : K)
    (ho : lobs[j]? = some o) (hmf : mfs[j]? = some mf) (hk : ks[j]? = some k) :
    ∃ p, (mkPts lobs mfs ks)[j]? = some p ∧ p.k = k ∧ p.q = scLaw := by
  induction lobs generalizing mfs ks j with
  | nil => simp at ho
  | cons o0 os ih =>
    cases mfs with
    | nil => simp at hmf
    | cons m0 ms =>
      cases ks with
      | nil => simp at hk
      | cons k0 kt =>
        cases j with
        | zero =>
          simp at hk
          exact ⟨{ r := o0.lf - m0, k := k0, q := scLaw, w := o0.w, flag := o0.flag, e := o0.le },
            by simp [mkPts], hk, rfl⟩
        | succ j =>
          simp at ho hmf hk
          simpa [mkPts] using ih ms kt j ho hmf hk

/-- **C04 (predicted fluxes).**
    *Distance-independent mode:* in band `j` the stored value is the model's log10 flux plus
    `A_V·k_j` plus `scale·(−2)`, for the very `(A_V, scale)` of the row.
    *Distance-dependent mode:* the stored row is `A_V·k_j` plus the model's log10 flux **at the trial
    distance `best`**, the same index the reported scale `logd[best]` and the reported `A_V` and chi²
    come from (those fluxes already carry the d⁻² scaling and the aperture interpolation, C02). -/
theorem C04_predicted :
    (∀ (a s : K) (lobs : List (LogObs K)) (mfs ks : List K) (j : Nat) (o : LogObs K) (mf k : K),
      lobs[j]? = some o → mfs[j]? = some mf → ks[j]? = some k →
      (predicted2 a s (mkPts lobs mfs ks) mfs)[j]? = some (mf + a * k + s * (-2))) ∧
    (∀ (big : K) (ln1m : K → K) (lo hi : K) (logd : List K) (pss : List (List (Pt K)))
       (mfss : List (List K)),
      let r := fit3 big ln1m lo hi logd pss
      r.2.1 = logd.getD r.2.2.2 0 ∧
      r.1 = ((fit3PerDist big ln1m lo hi pss).getD r.2.2.2 (0, 0)).1 ∧
      predictedRow3 big ln1m lo hi pss mfss
        = predicted2 r.1 0 (pss.getD r.2.2.2 []) (mfss.getD r.2.2.2 []) ∧
      ∀ (j : Nat) (p : Pt K) (mf : K), (pss.getD r.2.2.2 [])[j]? = some p →
        (mfss.getD r.2.2.2 [])[j]? = some mf →
        (predictedRow3 big ln1m lo hi pss mfss)[j]? = some (mf + r.1 * p.k)) := by
  refine ⟨?_, ?_⟩
  · intro a s lobs mfs ks j o mf k ho hmf hk
    obtain ⟨p, hp, hpk, hpq⟩ := mkPts_getElem? lobs mfs ks j o mf k ho hmf hk
    rw [predicted2_getElem? a s _ mfs j p mf hp hmf, hpk, hpq, scLaw, two_eq]
  · intro big ln1m lo hi logd pss mfss
    have key : predictedRow3 big ln1m lo hi pss mfss
        = predicted2 (fit3 big ln1m lo hi logd pss).1 0
            (pss.getD (fit3 big ln1m lo hi logd pss).2.2.2 [])
            (mfss.getD (fit3 big ln1m lo hi logd pss).2.2.2 []) := by
      unfold predictedRow3 fit3
      generalize argminFirst ((fit3PerDist big ln1m lo hi pss).map (·.2)) = bb
      obtain ⟨bi, bc⟩ := bb
      rfl
    refine ⟨?_, ?_, key, ?_⟩
    · unfold fit3
      generalize argminFirst ((fit3PerDist big ln1m lo hi pss).map (·.2)) = bb
      obtain ⟨bi, bc⟩ := bb
      rfl
    · unfold fit3
      generalize argminFirst ((fit3PerDist big ln1m lo hi pss).map (·.2)) = bb
      obtain ⟨bi, bc⟩ := bb
      rfl
    · intro j p mf hp hmf
      rw [key, predicted2_getElem? _ _ _ _ j p mf hp hmf]
      congr 1; ring

/-- **C04 (end to end, distance-independent mode).** Row `i` of the result `Models.fit` returns
    names a model `m = model_id[i]` of the package, and carries that model's own `(A_V, scale)` (the
    box-constrained optimum of C01), its chi² at that point, and the predicted fluxes computed from
    that model's fluxes with that `(A_V, scale)`. -/
theorem C04_fit_rows (big : K) (ln1m : K → K) (lo hi : K) (lobs : List (LogObs K)) (ks : List K)
    (models : List (ModelRow K)) (i : Nat) (hidx : i < models.length) :
    let out := fitRows2 big ln1m lo hi lobs ks models
    ∃ m md, out.modelId[i]? = some m ∧ models[m]? = some md ∧
      rowAt out i = some
        { av := (fit2 lo hi (mkPts lobs md.mf ks)).1
          sc := (fit2 lo hi (mkPts lobs md.mf ks)).2
          chi2 := EF.fin (chi2 big ln1m (fit2 lo hi (mkPts lobs md.mf ks)).1
                    (fit2 lo hi (mkPts lobs md.mf ks)).2 (mkPts lobs md.mf ks))
          name := md.name
          flux := some (predicted2 (fit2 lo hi (mkPts lobs md.mf ks)).1
                    (fit2 lo hi (mkPts lobs md.mf ks)).2 (mkPts lobs md.mf ks) md.mf) } := by
  intro out
  let x := fitRowsUnsorted2 big ln1m lo hi lobs ks models
  have hn : x.chi2.length = models.length := by simp [x, fitRowsUnsorted2]
  have hwf : WFRows x := by
    refine ⟨by simp [x, fitRowsUnsorted2], by simp [x, fitRowsUnsorted2], by simp [x, fitRowsUnsorted2], ?_⟩
    intro fl hfl
    simp [x, fitRowsUnsorted2] at hfl
    subst hfl
    simp [x, fitRowsUnsorted2]
  obtain ⟨m, hm, hid, _, hrow, _⟩ := C04_rows x hwf i (by omega)
  have hm' : m < models.length := by omega
  refine ⟨m, models[m], hid, List.getElem?_eq_getElem hm', ?_⟩
  show rowAt (sortRows x) i = _
  rw [hrow]
  simp [rowAt, x, fitRowsUnsorted2, List.getElem?_eq_getElem hm', fit2Full]

/-! ### distance-dependent mode: `fit3Ext`, `fitRows3` -/

theorem mkPts_length (lobs : List (LogObs K)) (mfs ks : List K) (h1 : mfs.length = lobs.length)
    (h2 : ks.length = lobs.length) : (mkPts lobs mfs ks).length = lobs.length := by
  induction lobs generalizing mfs ks with
  | nil => simp [mkPts]
  | cons o os ih =>
    cases mfs with
    | nil => simp at h1
    | cons m ms =>
      cases ks with
      | nil => simp at h2
      | cons k kt =>
        simp only [List.length_cons, Nat.add_right_cancel_iff] at h1 h2
        simp [mkPts, ih ms kt h1 h2]

theorem predicted2_length (a s : K) (ps : List (Pt K)) (mfs : List K) (h : mfs.length = ps.length) :
    (predicted2 a s ps mfs).length = ps.length := by
  induction ps generalizing mfs with
  | nil => simp [predicted2]
  | cons p ps ih =>
    cases mfs with
    | nil => simp at h
    | cons m ms =>
      simp only [List.length_cons, Nat.add_right_cancel_iff] at h
      simp [predicted2, ih ms h]

/-- `fit3Ext` spelled out: everything is read at the position `np.argmin` returns -/
theorem fit3Ext_eq (big : K) (ln1m : K → K) (lo hi : K) (logd : List K) (pss : List (List (Pt K)))
    (ext : List Bool) :
    fit3Ext big ln1m lo hi logd pss ext
      = (((fit3PerDist big ln1m lo hi pss).getD
            (argminFirstEF (maskChi (fit3PerDist big ln1m lo hi pss) ext)).1 (0, 0)).1,
         logd.getD (argminFirstEF (maskChi (fit3PerDist big ln1m lo hi pss) ext)).1 0,
         (argminFirstEF (maskChi (fit3PerDist big ln1m lo hi pss) ext)).2,
         (argminFirstEF (maskChi (fit3PerDist big ln1m lo hi pss) ext)).1) := by
  rcases h : argminFirstEF (maskChi (fit3PerDist big ln1m lo hi pss) ext) with ⟨bi, bc⟩
  simp only [fit3Ext, h]

/-- a model of an aperture-dependent package as `Models.fit` sees it: at least one trial distance, and
    at every trial distance one log flux per band (the shape of `log_fluxes_mJy[m]`) -/
def WFModel3 (lobs : List (LogObs K)) (ks : List K) (md : ModelRow3 K) : Prop :=
  md.mfss ≠ [] ∧ ks.length = lobs.length ∧ ∀ mf ∈ md.mfss, mf.length = lobs.length

/-- **C04 (predicted fluxes, distance-dependent mode).** For a well-formed model and a distance grid
    with one `log10 d` per trial distance, `np.argmin` returns an existing trial distance `best`, and
    *everything the row reports is read at that one index*: the scale is `logd[best]`, `A_V` is the
    clipped one-parameter optimum at that distance, chi² is the chi² there (`+inf` if the model is
    resolved there), and the stored fluxes are, band by band, the model's own log10 flux at that
    distance plus `A_V·k_j`.  With `lg (x·y) = lg x + lg y`, a log flux built as
    `lg (F_j · (1/d)²)` (what C02's `fluxAt` produces; `F_j` = the aperture-interpolated flux at
    1 kpc) and `scale = lg d`, the stored value is `lg F_j + A_V·k_j − 2·scale`: the distance scaling
    implied by the reported scale. -/
theorem C04_predicted3 (big : K) (ln1m : K → K) (lo hi : K) (logd : List K) (lobs : List (LogObs K))
    (ks : List K) (md : ModelRow3 K) (hwf : WFModel3 lobs ks md) (hlogd : logd.length = md.mfss.length) :
    ∃ mf sc, (fit3Ext big ln1m lo hi logd (pssOf lobs ks md.mfss) md.ext).2.2.2 < md.mfss.length ∧
      md.mfss[(fit3Ext big ln1m lo hi logd (pssOf lobs ks md.mfss) md.ext).2.2.2]? = some mf ∧
      logd[(fit3Ext big ln1m lo hi logd (pssOf lobs ks md.mfss) md.ext).2.2.2]? = some sc ∧
      (fit3Ext big ln1m lo hi logd (pssOf lobs ks md.mfss) md.ext).2.1 = sc ∧
      (fit3Ext big ln1m lo hi logd (pssOf lobs ks md.mfss) md.ext).1
        = clipAv lo hi (optAv (mkPts lobs mf ks)) ∧
      (fit3Ext big ln1m lo hi logd (pssOf lobs ks md.mfss) md.ext).2.2.1
        = (if md.ext.getD (fit3Ext big ln1m lo hi logd (pssOf lobs ks md.mfss) md.ext).2.2.2 false then EF.pinf
           else EF.fin (chi2 big ln1m (clipAv lo hi (optAv (mkPts lobs mf ks))) 0 (mkPts lobs mf ks))) ∧
      (predictedRow3Ext big ln1m lo hi lobs ks md).length = lobs.length ∧
      (∀ (j : Nat) (f k : K), mf[j]? = some f → ks[j]? = some k →
        (predictedRow3Ext big ln1m lo hi lobs ks md)[j]?
          = some (f + (fit3Ext big ln1m lo hi logd (pssOf lobs ks md.mfss) md.ext).1 * k)) ∧
      (∀ (lg : K → K), (∀ x y : K, 0 < x → 0 < y → lg (x * y) = lg x + lg y) →
        ∀ (j : Nat) (f0 d k : K), 0 < f0 → 0 < d → sc = lg d →
          mf[j]? = some (lg (f0 * ((1 / d) * (1 / d)))) → ks[j]? = some k →
          (predictedRow3Ext big ln1m lo hi lobs ks md)[j]?
            = some (lg f0 + (fit3Ext big ln1m lo hi logd (pssOf lobs ks md.mfss) md.ext).1 * k
                    - 2 * (fit3Ext big ln1m lo hi logd (pssOf lobs ks md.mfss) md.ext).2.1)) := by
  obtain ⟨hne, hks, hlen⟩ := hwf
  have hper : (fit3PerDist big ln1m lo hi (pssOf lobs ks md.mfss)).length = md.mfss.length := by
    simp [fit3PerDist, pssOf]
  have hchne : maskChi (fit3PerDist big ln1m lo hi (pssOf lobs ks md.mfss)) md.ext ≠ [] := by
    intro h
    have := congrArg List.length h
    rw [maskChi_length, hper] at this
    exact hne (List.length_eq_zero_iff.mp (by simpa using this))
  obtain ⟨hbi, hbc⟩ := argminFirstEF_spec _ hchne
  rw [maskChi_length, hper] at hbi
  -- the predicted row does not depend on `logd`
  have hpredeq : predictedRow3Ext big ln1m lo hi lobs ks md
      = predicted2 (fit3Ext big ln1m lo hi logd (pssOf lobs ks md.mfss) md.ext).1 0
          ((pssOf lobs ks md.mfss).getD (fit3Ext big ln1m lo hi logd (pssOf lobs ks md.mfss) md.ext).2.2.2 [])
          (md.mfss.getD (fit3Ext big ln1m lo hi logd (pssOf lobs ks md.mfss) md.ext).2.2.2 []) := by
    unfold predictedRow3Ext
    simp only [fit3Ext_eq]
  rw [hpredeq]
  simp only [fit3Ext_eq]
  generalize hbb : argminFirstEF (maskChi (fit3PerDist big ln1m lo hi (pssOf lobs ks md.mfss)) md.ext) = bb at hbi hbc
  obtain ⟨bi, bc⟩ := bb
  simp only at hbi hbc ⊢
  let mf := md.mfss[bi]
  have hmf : md.mfss[bi]? = some mf := List.getElem?_eq_getElem hbi
  have hmflen : mf.length = lobs.length := hlen mf (List.getElem_mem hbi)
  have hsc : logd[bi]? = some (logd[bi]'(by omega)) := List.getElem?_eq_getElem (by omega)
  have hpss : (pssOf lobs ks md.mfss)[bi]? = some (mkPts lobs mf ks) := by
    simp [pssOf, List.getElem?_map, hmf]
  have hperbi : (fit3PerDist big ln1m lo hi (pssOf lobs ks md.mfss))[bi]?
      = some (clipAv lo hi (optAv (mkPts lobs mf ks)),
              chi2 big ln1m (clipAv lo hi (optAv (mkPts lobs mf ks))) 0 (mkPts lobs mf ks)) := by
    simp [fit3PerDist, List.getElem?_map, hpss]
  have hav : ((fit3PerDist big ln1m lo hi (pssOf lobs ks md.mfss)).getD bi (0, 0)).1
      = clipAv lo hi (optAv (mkPts lobs mf ks)) := by
    simp [List.getD_eq_getElem?_getD, hperbi]
  have hpssD : (pssOf lobs ks md.mfss).getD bi [] = mkPts lobs mf ks := by
    simp [List.getD_eq_getElem?_getD, hpss]
  have hmfD : md.mfss.getD bi [] = mf := by
    simp [List.getD_eq_getElem?_getD, hmf]
  have hchi : bc = (if md.ext.getD bi false then EF.pinf
      else EF.fin (chi2 big ln1m (clipAv lo hi (optAv (mkPts lobs mf ks))) 0 (mkPts lobs mf ks))) := by
    have : (maskChi (fit3PerDist big ln1m lo hi (pssOf lobs ks md.mfss)) md.ext)[bi]?
        = some (if md.ext.getD bi false then EF.pinf
            else EF.fin (chi2 big ln1m (clipAv lo hi (optAv (mkPts lobs mf ks))) 0 (mkPts lobs mf ks))) := by
      simp [maskChi, List.getElem?_mapIdx, hperbi]
    rw [this] at hbc
    exact (Option.some.inj hbc).symm
  have hpl : (mkPts lobs mf ks).length = lobs.length := mkPts_length lobs mf ks hmflen hks
  have helem : ∀ (j : Nat) (f k : K), mf[j]? = some f → ks[j]? = some k →
      (predicted2 (clipAv lo hi (optAv (mkPts lobs mf ks))) 0 (mkPts lobs mf ks) mf)[j]?
        = some (f + clipAv lo hi (optAv (mkPts lobs mf ks)) * k) := by
    intro j f k hf hk
    have hj : j < lobs.length := by
      have := (List.getElem?_eq_some_iff.mp hf).1
      omega
    obtain ⟨p, hp, hpk, _⟩ := mkPts_getElem? lobs mf ks j lobs[j] f k (List.getElem?_eq_getElem hj) hf hk
    rw [predicted2_getElem? _ _ _ _ j p f hp hf, hpk]
    congr 1; ring
  refine ⟨mf, logd[bi]'(by omega), hbi, hmf, hsc, ?_, hav, ?_, ?_, ?_, ?_⟩
  · simp [List.getD_eq_getElem?_getD, hsc]
  · exact hchi
  · rw [hav, hpssD, hmfD, predicted2_length _ _ _ _ (by rw [hpl, hmflen]), hpl]
  · intro j f k hf hk
    rw [hav, hpssD, hmfD]
    exact helem j f k hf hk
  · intro lg hmul j f0 d k hf0 hd hscd hf hk
    rw [hav, hpssD, hmfD, helem j _ k hf hk]
    have h1 : lg 1 = 0 := by
      have := hmul 1 1 one_pos one_pos
      rw [mul_one] at this
      linarith
    have hinv : lg (1 / d) = - lg d := by
      have := hmul d (1 / d) hd (by positivity)
      rw [mul_one_div_cancel (ne_of_gt hd), h1] at this
      linarith
    have hexp : lg (f0 * ((1 / d) * (1 / d))) = lg f0 - 2 * lg d := by
      rw [hmul f0 _ hf0 (by positivity), hmul (1 / d) (1 / d) (by positivity) (by positivity), hinv]
      ring
    have hscv : logd.getD bi 0 = lg d := by
      rw [← hscd]; simp [List.getD_eq_getElem?_getD, hsc]
    rw [hexp, hscv]
    congr 1; ring

/-- without mask (`remove_resolved` off) `fit3Ext` is `fit3` of C02, its chi² finite -/
theorem C04_fit3Ext_nomask (big : K) (ln1m : K → K) (lo hi : K) (logd : List K)
    (pss : List (List (Pt K))) (hne : pss ≠ []) :
    (fit3Ext big ln1m lo hi logd pss []).1 = (fit3 big ln1m lo hi logd pss).1 ∧
    (fit3Ext big ln1m lo hi logd pss []).2.1 = (fit3 big ln1m lo hi logd pss).2.1 ∧
    (fit3Ext big ln1m lo hi logd pss []).2.2.1 = EF.fin (fit3 big ln1m lo hi logd pss).2.2.1 ∧
    (fit3Ext big ln1m lo hi logd pss []).2.2.2 = (fit3 big ln1m lo hi logd pss).2.2.2 := by
  have key : argminFirstEF (maskChi (fit3PerDist big ln1m lo hi pss) [])
      = ((argminFirst ((fit3PerDist big ln1m lo hi pss).map (·.2))).1,
         EF.fin (argminFirst ((fit3PerDist big ln1m lo hi pss).map (·.2))).2) := by
    rw [maskChi_nil]
    cases h : (fit3PerDist big ln1m lo hi pss).map (·.2) with
    | nil =>
      have := congrArg List.length h
      simp [fit3PerDist] at this
      exact absurd this hne
    | cons x xs =>
      simp only [List.map_cons, argminFirstEF, argminFirst]
      exact argminFirstEFAux_fin xs 1 0 x
  rw [fit3Ext_eq, key]
  rcases h : argminFirst ((fit3PerDist big ln1m lo hi pss).map (·.2)) with ⟨bi, bc⟩
  simp only [fit3, h, and_self]

/-- **C04 (end to end, distance-dependent mode).** The result `Models.fit` returns in the `ndim == 3`
    branch lists every model once (`model_id` a permutation), ranked in numpy order (resolved models,
    chi² = `+inf`, after all finite ones), and row `i` names a model `m = model_id[i]` and carries that
    model's own `fit3Ext` result — `A_V`, `logd[best]`, chi² — and its own predicted row. -/
theorem C04_fit_rows3 (big : K) (ln1m : K → K) (lo hi : K) (logd : List K) (lobs : List (LogObs K))
    (ks : List K) (models : List (ModelRow3 K)) :
    let out := fitRows3 big ln1m lo hi logd lobs ks models
    out.modelId.Perm (List.range models.length) ∧
    out.chi2.Pairwise (fun a b => EF.leSort a b = true) ∧
    ∀ i, i < models.length → ∃ m md, out.modelId[i]? = some m ∧ models[m]? = some md ∧
      rowAt out i = some
        { av := (fit3Ext big ln1m lo hi logd (pssOf lobs ks md.mfss) md.ext).1
          sc := (fit3Ext big ln1m lo hi logd (pssOf lobs ks md.mfss) md.ext).2.1
          chi2 := (fit3Ext big ln1m lo hi logd (pssOf lobs ks md.mfss) md.ext).2.2.1
          name := md.name
          flux := some (predictedRow3Ext big ln1m lo hi lobs ks md) } := by
  intro out
  let x := fitRowsUnsorted3 big ln1m lo hi logd lobs ks models
  have hn : x.chi2.length = models.length := by simp [x, fitRowsUnsorted3]
  have hwf : WFRows x := by
    refine ⟨by simp [x, fitRowsUnsorted3], by simp [x, fitRowsUnsorted3], by simp [x, fitRowsUnsorted3], ?_⟩
    intro fl hfl
    simp [x, fitRowsUnsorted3] at hfl
    subst hfl
    simp [x, fitRowsUnsorted3]
  refine ⟨?_, (C04_sorted x).1, ?_⟩
  · have := (C04_perm x hwf).1
    rwa [hn] at this
  · intro i hidx
    obtain ⟨m, hm, hid, _, hrow, _⟩ := C04_rows x hwf i (by omega)
    have hm' : m < models.length := by omega
    refine ⟨m, models[m], hid, List.getElem?_eq_getElem hm', ?_⟩
    show rowAt (sortRows x) i = _
    rw [hrow]
    simp [rowAt, x, fitRowsUnsorted3, List.getElem?_eq_getElem hm']

/-! ### Non-vacuity -/

/-- a chi² vector with a tie, an infinity and a NaN in the middle -/
def exRowsC04 : FitRows Rat :=
  { av := [10, 11, 12, 13, 14], sc := [20, 21, 22, 23, 24]
    chi2 := [EF.fin 2, EF.nan, EF.pinf, EF.fin 1, EF.fin 2]
    name := ["a", "b", "c", "d", "e"]
    fluxes := some [[0], [1], [2], [3], [4]]
    modelId := [] }

example : WFRows exRowsC04 := by simp [WFRows, exRowsC04]

/-- the example is not ranked to begin with, so `sortRows` has work to do; and the theorems apply -/
example : ¬ exRowsC04.chi2.Pairwise (fun a b => EF.leSort a b = true) := by decide +kernel

example : (sortRows exRowsC04).modelId.Nodup ∧ (sortRows exRowsC04).name.Perm ["a", "b", "c", "d", "e"] :=
  ⟨(C04_perm exRowsC04 (by simp [WFRows, exRowsC04])).2.1, (C04_perm exRowsC04 (by simp [WFRows, exRowsC04])).2.2.1⟩

/-- a model tabulated at two trial distances in two bands, resolved at the first distance -/
def exModel3C04 : ModelRow3 Rat := { name := "m", mfss := [[1, 2], [3, 4]], ext := [true, false] }

example : WFModel3 [⟨1, 0, 1, 4⟩, ⟨1, 1, 1, 4⟩] [-1/2, -1/5] exModel3C04 := by
  simp [WFModel3, exModel3C04]

/-- the mask sends `np.argmin` to the second distance although nothing is known about the first -/
example : (fit3Ext (10 : Rat) (fun _ => 0) 0 5 [0, 1] (pssOf [⟨1, 0, 1, 4⟩, ⟨1, 1, 1, 4⟩] [-1/2, -1/5]
    exModel3C04.mfss) exModel3C04.ext).2.2.2 = 1 := by decide +kernel

end SF
