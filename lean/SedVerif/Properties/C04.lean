import SedVerif.Proofs.Rank
import SedVerif.Proofs.Fit
import Mathlib.Tactic.Ring
/-!
# C04 — results are ranked by chi² and every row describes one model

Property theorems only.  Model: `SedVerif/Model/Rank.lean` (`argsortEF`, `fancyIndex`, `sortRows` =
`FitInfo.sort`; `fitRows2` = the assembly in `Models.fit`; `predicted2` / `predictedRow3` = the stored
predicted fluxes).  All statements hold for every number of models and every chi² vector over the
extended floats — ties, `±inf` and NaN included.
-/
namespace SF
variable {K : Type} [Field K] [LinearOrder K] [IsStrictOrderedRing K]

/-- a result as `Models.fit` assembles it: every per-model array has one entry per model -/
def WFRows (x : FitRows K) : Prop :=
  x.av.length = x.chi2.length ∧ x.sc.length = x.chi2.length ∧ x.name.length = x.chi2.length ∧
  ∀ fl, x.fluxes = some fl → fl.length = x.chi2.length

/-- **C04 (every model exactly once).** After `FitInfo.sort` the `model_id` column is a permutation
    of `0 … n−1` without repetition, and every column is a permutation of what it was. -/
theorem C04_perm (x : FitRows K) (hwf : WFRows x) :
    (sortRows x).modelId.Perm (List.range x.chi2.length) ∧ (sortRows x).modelId.Nodup ∧
    (sortRows x).name.Perm x.name ∧ (sortRows x).chi2.Perm x.chi2 ∧
    (sortRows x).av.Perm x.av ∧ (sortRows x).sc.Perm x.sc ∧
    ∀ fl, x.fluxes = some fl → ∃ fl', (sortRows x).fluxes = some fl' ∧ fl'.Perm fl := by
  obtain ⟨h1, h2, h3, h4⟩ := hwf
  have hp := argsortEF_perm x.chi2
  refine ⟨hp, hp.nodup_iff.mpr List.nodup_range, ?_, ?_, ?_, ?_, ?_⟩
  · exact fancyIndex_perm _ _ _ (by rw [h3]; exact hp)
  · exact fancyIndex_perm _ _ _ hp
  · exact fancyIndex_perm _ _ _ (by rw [h1]; exact hp)
  · exact fancyIndex_perm _ _ _ (by rw [h2]; exact hp)
  · intro fl hfl
    refine ⟨fancyIndex [] (argsortEF x.chi2) fl, by simp [sortRows, hfl], ?_⟩
    exact fancyIndex_perm _ _ _ (by rw [h4 fl hfl]; exact hp)

/-- **C04 (ranked).** After `FitInfo.sort` the chi² column is ordered in numpy's sort order; in IEEE
    terms: whenever a later entry is not NaN, the earlier one is `<=` it (so the non-NaN entries are
    non-decreasing, `+inf` after every finite value, and all NaNs come last). -/
theorem C04_sorted (x : FitRows K) :
    (sortRows x).chi2.Pairwise (fun a b => EF.leSort a b = true) ∧
    (sortRows x).chi2.Pairwise (fun a b => b ≠ EF.nan → EF.le a b = true) := by
  have h : (sortRows x).chi2.Pairwise (fun a b => EF.leSort a b = true) := argsortEF_sorted x.chi2
  refine ⟨h, h.imp ?_⟩
  intro a b hab hb
  cases a <;> cases b <;> simp_all [EF.leSort, EF.le]

/-- **C04 (row integrity).** Row `i` of the sorted result is, in every column, row `m` of the arrays
    `Models.fit` assembled, where `m = model_id[i]` (an existing row); in particular
    `model_name[i] = names[model_id[i]]`. -/
theorem C04_rows (x : FitRows K) (hwf : WFRows x) (i : Nat) (hi : i < x.chi2.length) :
    ∃ m, m < x.chi2.length ∧ (sortRows x).modelId[i]? = some m ∧
      (rowAt x m).isSome = true ∧ rowAt (sortRows x) i = rowAt x m ∧
      (sortRows x).name[i]? = x.name[m]? ∧ (sortRows x).av[i]? = x.av[m]? ∧
      (sortRows x).sc[i]? = x.sc[m]? ∧ (sortRows x).chi2[i]? = x.chi2[m]? ∧
      ∀ fl, x.fluxes = some fl → ∃ fl', (sortRows x).fluxes = some fl' ∧ fl'[i]? = fl[m]? := by
  obtain ⟨h1, h2, h3, h4⟩ := hwf
  have hlen := argsortEF_length x.chi2
  have hi' : i < (argsortEF x.chi2).length := by omega
  let m := (argsortEF x.chi2)[i]
  have hm : (argsortEF x.chi2)[i]? = some m := List.getElem?_eq_getElem hi'
  have hmlt : m < x.chi2.length := argsortEF_lt x.chi2 (List.getElem_mem hi')
  have eav : (sortRows x).av[i]? = x.av[m]? := fancyIndex_getElem? _ _ _ i m hm (by omega)
  have esc : (sortRows x).sc[i]? = x.sc[m]? := fancyIndex_getElem? _ _ _ i m hm (by omega)
  have ech : (sortRows x).chi2[i]? = x.chi2[m]? := fancyIndex_getElem? _ _ _ i m hm (by omega)
  have enm : (sortRows x).name[i]? = x.name[m]? := fancyIndex_getElem? _ _ _ i m hm (by omega)
  have efl : ∀ fl, x.fluxes = some fl → ∃ fl', (sortRows x).fluxes = some fl' ∧ fl'[i]? = fl[m]? := by
    intro fl hfl
    exact ⟨fancyIndex [] (argsortEF x.chi2) fl, by simp [sortRows, hfl],
      fancyIndex_getElem? _ _ _ i m hm (by rw [h4 fl hfl]; exact hmlt)⟩
  refine ⟨m, hmlt, hm, ?_, ?_, enm, eav, esc, ech, efl⟩
  · -- the input row exists
    unfold rowAt
    rw [List.getElem?_eq_getElem (by omega : m < x.av.length),
      List.getElem?_eq_getElem (by omega : m < x.sc.length),
      List.getElem?_eq_getElem hmlt, List.getElem?_eq_getElem (by omega : m < x.name.length)]
    cases hfl : x.fluxes with
    | none => simp
    | some fl =>
      have : m < fl.length := by rw [h4 fl hfl]; exact hmlt
      simp [List.getElem?_eq_getElem this]
  · unfold rowAt
    rw [eav, esc, ech, enm]
    cases hfl : x.fluxes with
    | none => simp [sortRows, hfl]
    | some fl =>
      obtain ⟨fl', hfl', hfe⟩ := efl fl hfl
      rw [hfl']
      simp only [hfe]

/-! ### predicted fluxes -/

theorem predicted2_getElem? (a s : K) (ps : List (Pt K)) (mfs : List K) (j : Nat) (p : Pt K) (mf : K)
    (hp : ps[j]? = some p) (hmf : mfs[j]? = some mf) :
    (predicted2 a s ps mfs)[j]? = some (mf + a * p.k + s * p.q) := by
  induction ps generalizing mfs j with
  | nil => simp at hp
  | cons p0 ps ih =>
    cases mfs with
    | nil => simp at hmf
    | cons m0 ms =>
      cases j with
      | zero =>
        simp at hp hmf
        subst hp; subst hmf
        simp [predicted2]; ring
      | succ j =>
        simp at hp hmf
        simp only [predicted2, List.getElem?_cons_succ]
        exact ih ms j hp hmf

theorem mkPts_getElem? (lobs : List (LogObs K)) (mfs ks : List K) (j : Nat) (o : LogObs K) (mf k : K)
    (ho : lobs[j]? = some o) (hmf : mfs[j]? = some mf) (hk : ks[j]? = some k) :
    ∃ p, (mkPts lobs mfs ks)[j]? = some p ∧ p.k = k ∧ p.q = scLaw := by
  induction lobs generalizing mfs ks j with
  | nil => simp at ho
  | cons o0 os ih =>
    cases mfs with
    | nil => simp at hmf
    | cons m0 ms =>
      cases ks with
      | nil => simp at hk
      | cons k0 kt =>
        cases j with
        | zero =>
          simp at hk
          exact ⟨{ r := o0.lf - m0, k := k0, q := scLaw, w := o0.w, flag := o0.flag, e := o0.le },
            by simp [mkPts], hk, rfl⟩
        | succ j =>
          simp at ho hmf hk
          simpa [mkPts] using ih ms kt j ho hmf hk

/-- **C04 (predicted fluxes).**
    *Distance-independent mode:* in band `j` the stored value is the model's log10 flux plus
    `A_V·k_j` plus `scale·(−2)`, for the very `(A_V, scale)` of the row.
    *Distance-dependent mode:* the stored row is `A_V·k_j` plus the model's log10 flux **at the trial
    distance `best`**, the same index the reported scale `logd[best]` and the reported `A_V` and chi²
    come from (those fluxes already carry the d⁻² scaling and the aperture interpolation, C02). -/
theorem C04_predicted :
    (∀ (a s : K) (lobs : List (LogObs K)) (mfs ks : List K) (j : Nat) (o : LogObs K) (mf k : K),
      lobs[j]? = some o → mfs[j]? = some mf → ks[j]? = some k →
      (predicted2 a s (mkPts lobs mfs ks) mfs)[j]? = some (mf + a * k + s * (-2))) ∧
    (∀ (big : K) (ln1m : K → K) (lo hi : K) (logd : List K) (pss : List (List (Pt K)))
       (mfss : List (List K)),
      let r := fit3 big ln1m lo hi logd pss
      r.2.1 = logd.getD r.2.2.2 0 ∧
      r.1 = ((fit3PerDist big ln1m lo hi pss).getD r.2.2.2 (0, 0)).1 ∧
      predictedRow3 big ln1m lo hi pss mfss
        = predicted2 r.1 0 (pss.getD r.2.2.2 []) (mfss.getD r.2.2.2 []) ∧
      ∀ (j : Nat) (p : Pt K) (mf : K), (pss.getD r.2.2.2 [])[j]? = some p →
        (mfss.getD r.2.2.2 [])[j]? = some mf →
        (predictedRow3 big ln1m lo hi pss mfss)[j]? = some (mf + r.1 * p.k)) := by
  refine ⟨?_, ?_⟩
  · intro a s lobs mfs ks j o mf k ho hmf hk
    obtain ⟨p, hp, hpk, hpq⟩ := mkPts_getElem? lobs mfs ks j o mf k ho hmf hk
    rw [predicted2_getElem? a s _ mfs j p mf hp hmf, hpk, hpq, scLaw, two_eq]
  · intro big ln1m lo hi logd pss mfss
    have key : predictedRow3 big ln1m lo hi pss mfss
        = predicted2 (fit3 big ln1m lo hi logd pss).1 0
            (pss.getD (fit3 big ln1m lo hi logd pss).2.2.2 [])
            (mfss.getD (fit3 big ln1m lo hi logd pss).2.2.2 []) := by
      unfold predictedRow3 fit3
      generalize argminFirst ((fit3PerDist big ln1m lo hi pss).map (·.2)) = bb
      obtain ⟨bi, bc⟩ := bb
      rfl
    refine ⟨?_, ?_, key, ?_⟩
    · unfold fit3
      generalize argminFirst ((fit3PerDist big ln1m lo hi pss).map (·.2)) = bb
      obtain ⟨bi, bc⟩ := bb
      rfl
    · unfold fit3
      generalize argminFirst ((fit3PerDist big ln1m lo hi pss).map (·.2)) = bb
      obtain ⟨bi, bc⟩ := bb
      rfl
    · intro j p mf hp hmf
      rw [key, predicted2_getElem? _ _ _ _ j p mf hp hmf]
      congr 1; ring

/-- **C04 (end to end, distance-independent mode).** Row `i` of the result `Models.fit` returns
    names a model `m = model_id[i]` of the package, and carries that model's own `(A_V, scale)` (the
    box-constrained optimum of C01), its chi² at that point, and the predicted fluxes computed from
    that model's fluxes with that `(A_V, scale)`. -/
theorem C04_fit_rows (big : K) (ln1m : K → K) (lo hi : K) (lobs : List (LogObs K)) (ks : List K)
    (models : List (ModelRow K)) (i : Nat) (hidx : i < models.length) :
    let out := fitRows2 big ln1m lo hi lobs ks models
    ∃ m md, out.modelId[i]? = some m ∧ models[m]? = some md ∧
      rowAt out i = some
        { av := (fit2 lo hi (mkPts lobs md.mf ks)).1
          sc := (fit2 lo hi (mkPts lobs md.mf ks)).2
          chi2 := EF.fin (chi2 big ln1m (fit2 lo hi (mkPts lobs md.mf ks)).1
                    (fit2 lo hi (mkPts lobs md.mf ks)).2 (mkPts lobs md.mf ks))
          name := md.name
          flux := some (predicted2 (fit2 lo hi (mkPts lobs md.mf ks)).1
                    (fit2 lo hi (mkPts lobs md.mf ks)).2 (mkPts lobs md.mf ks) md.mf) } := by
  intro out
  let x := fitRowsUnsorted2 big ln1m lo hi lobs ks models
  have hn : x.chi2.length = models.length := by simp [x, fitRowsUnsorted2]
  have hwf : WFRows x := by
    refine ⟨by simp [x, fitRowsUnsorted2], by simp [x, fitRowsUnsorted2], by simp [x, fitRowsUnsorted2], ?_⟩
    intro fl hfl
    simp [x, fitRowsUnsorted2] at hfl
    subst hfl
    simp [x, fitRowsUnsorted2]
  obtain ⟨m, hm, hid, _, hrow, _⟩ := C04_rows x hwf i (by omega)
  have hm' : m < models.length := by omega
  refine ⟨m, models[m], hid, List.getElem?_eq_getElem hm', ?_⟩
  show rowAt (sortRows x) i = _
  rw [hrow]
  simp [rowAt, x, fitRowsUnsorted2, List.getElem?_eq_getElem hm', fit2Full]

/-! ### Non-vacuity -/

/-- a chi² vector with a tie, an infinity and a NaN in the middle -/
def exRowsC04 : FitRows Rat :=
  { av := [10, 11, 12, 13, 14], sc := [20, 21, 22, 23, 24]
    chi2 := [EF.fin 2, EF.nan, EF.pinf, EF.fin 1, EF.fin 2]
    name := ["a", "b", "c", "d", "e"]
    fluxes := some [[0], [1], [2], [3], [4]]
    modelId := [] }

example : WFRows exRowsC04 := by simp [WFRows, exRowsC04]

/-- the example is not ranked to begin with, so `sortRows` has work to do; and the theorems apply -/
example : ¬ exRowsC04.chi2.Pairwise (fun a b => EF.leSort a b = true) := by decide +kernel

example : (sortRows exRowsC04).modelId.Nodup ∧ (sortRows exRowsC04).name.Perm ["a", "b", "c", "d", "e"] :=
  ⟨(C04_perm exRowsC04 (by simp [WFRows, exRowsC04])).2.1, (C04_perm exRowsC04 (by simp [WFRows, exRowsC04])).2.2.1⟩

end SF
