import SedVerif.Proofs.MonoOrder
/-!
# C16 — monochromatic convolution emits every in-range wavelength at any memory limit

Property theorems only.  Model: `SedVerif/Model/Mono.lean` (`windowIdx`, `chunkSize`, `chunks`,
`emitted`, `monoFile`, `monoRows`, `nearestIdx`).  Statements hold for all index ranges, all chunk
sizes, all wavelength lists over any linear order, all packages.
-/
namespace SF
open Mono

/-- **C16 (cover).** For every chunk size `≥ 1` the loop terminates normally and the indices for which
    a file is written are exactly `jlo, jlo+1, …, jhi` — each once, in increasing order. -/
theorem C16_cover (jlo jhi size : Int) (hs : 1 ≤ size) :
    ∃ L, emitted jlo jhi size = .ok L ∧ L = intRange jlo (jhi + 1 - jlo).toNat ∧
      (∀ j, j ∈ L ↔ jlo ≤ j ∧ j ≤ jhi) ∧ L.Pairwise (· < ·) := by
  refine ⟨_, emitted_pos jlo jhi size hs, rfl, ?_, pairwise_intRange _ _⟩
  intro j
  rw [mem_intRange]
  omega

/-- **C16 (the chunk size the code uses is admissible).** Whatever the memory limit and the window (also an
    empty or inverted one, also a limit too small for a single wavelength), the step of the loop is at least 1
    — so `C16_cover` always applies to it — and at most `n_wav` for a non-empty table. -/
theorem C16_chunk_size_pos (nWav : Nat) (ramFl jlo jhi : Int) :
    1 ≤ chunkSize nWav ramFl jlo jhi ∧ (1 ≤ nWav → chunkSize nWav ramFl jlo jhi ≤ nWav) := by
  unfold chunkSize
  omega

/-- **C16 (independence of the memory limit).** The list of emitted indices, and the files written
    (names, FILTWAV, rows), are the same for any two chunk sizes `≥ 1`. -/
theorem C16_chunk_independent {N K : Type} [LT N] [DecidableLT N] [DecidableEq N] (strip trunc : N → N)
    (ws aps : List K) (seds : List (SedIn N K)) (ref : List N) (jlo jhi s1 s2 : Int)
    (h1 : 1 ≤ s1) (h2 : 1 ≤ s2) :
    emitted jlo jhi s1 = emitted jlo jhi s2 ∧
    monoRows strip trunc ws aps seds ref jlo jhi s1 = monoRows strip trunc ws aps seds ref jlo jhi s2 := by
  have e : emitted jlo jhi s1 = emitted jlo jhi s2 := by
    rw [emitted_pos jlo jhi s1 h1, emitted_pos jlo jhi s2 h2]
  exact ⟨e, by unfold monoRows; rw [e]⟩

section window
variable {K : Type} [LinearOrder K]

namespace Mono
/-- closed window membership with an optional (infinite) end -/
def inClosed (wmin wmax : Option K) (v : K) : Prop :=
  (match wmin with | none => True | some m => m ≤ v) ∧ (match wmax with | none => True | some M => v ≤ M)

theorem inClosed_iff (wmin wmax : Option K) (v : K) : inClosed wmin wmax v ↔ (geMin wmin v ∧ leMax wmax v) := by
  cases wmin <;> cases wmax <;> simp [inClosed, geMin, leMax]
end Mono

/-- **C16 (window, exact).** For wavelengths stored strictly decreasing (what `SED.read(order='nu')` returns),
    any ends (finite or defaulted, between or ON tabulated wavelengths, `wmin = wmax` included, empty or
    inverted windows included) and any chunk size `≥ 1`: the loop succeeds, every emitted index is a valid
    index, and index `k` is emitted **iff** `wmin ≤ λ_k ≤ wmax`. -/
theorem C16_window (ws : List K) (hdec : ws.Pairwise (· > ·)) (wmin wmax : Option K) (size : Int)
    (hs : 1 ≤ size) :
    ∃ L, emitted (windowIdx ws wmin wmax).1 (windowIdx ws wmin wmax).2 size = .ok L ∧
      (∀ j ∈ L, 0 ≤ j ∧ j < ws.length) ∧
      (∀ (k : Nat) (v : K), ws[k]? = some v → ((k : Int) ∈ L ↔ inClosed wmin wmax v)) := by
  obtain ⟨L, hL, _, hmem, _⟩ := C16_cover (windowIdx ws wmin wmax).1 (windowIdx ws wmin wmax).2 size hs
  refine ⟨L, hL, ?_, ?_⟩
  · intro j hj
    have hb := window_bounds ws wmin wmax
    have hr := (hmem j).mp hj
    omega
  · intro k v hv
    rw [hmem k, inClosed_iff]
    exact window_iff ws hdec wmin wmax k v hv

end window

/-- **C16 (rows; safety).** If the file for wavelength index `j` is written at all, then it carries
    index `j`, `FILTWAV = λ_j`, the apertures of the package, its model names are the parameter
    table's (stripped) names in the table's order, and row `r` holds — for every aperture `a` — the
    flux and error cell `[a][j]` of an SED whose name is the table's row `r`.  (Thanks to the code's
    own post-check this needs no assumption about `order_to_match`.) -/
theorem C16_rows {N K : Type} [LT N] [DecidableLT N] [DecidableEq N] (strip trunc : N → N)
    (ws aps : List K) (seds : List (SedIn N K)) (ref : List N) (j : Nat) (f : MonoFile N K)
    (h : monoFile strip trunc ws aps seds ref j = .ok f) :
    f.index = j ∧ ws[j]? = some f.filtwav ∧ f.aps = aps ∧ f.names = ref.map strip ∧
    f.flux.length = ref.length ∧ f.err.length = ref.length ∧
    ∀ (r : Nat), r < ref.length → ∃ (im : Nat) (s : SedIn N K) (row erow : List K),
      seds[im]? = some s ∧ some (trunc s.name) = (ref.map strip)[r]? ∧
      f.flux[r]? = some row ∧ f.err[r]? = some erow ∧
      row.length = (if aps.length = 1 then 1 else s.flux.length) ∧
      erow.length = (if aps.length = 1 then 1 else s.err.length) ∧
      (∀ a, a < row.length → row[a]? = (s.flux[a]?).bind (fun x => x[j]?)) ∧
      (∀ a, a < erow.length → erow[a]? = (s.err[a]?).bind (fun x => x[j]?)) := by
  unfold monoFile at h
  cases hw : ws[j]? with
  | none => simp [hw] at h
  | some w =>
    cases hfl : rowsAt aps.length (·.flux) seds j with
    | none => simp [hw, hfl] at h
    | some fl =>
      cases her : rowsAt aps.length (·.err) seds j with
      | none => simp [hw, hfl, her] at h
      | some er =>
        simp only [hw, hfl, her] at h
        cases hst : sortToMatch strip (seds.map (fun s => trunc s.name)) ref fl er with
        | error e => simp [hst] at h
        | ok res =>
          obtain ⟨n', f', e'⟩ := res
          simp only [hst, Except.ok.injEq] at h
          subst h
          obtain ⟨hn, hlf, hle, hrows⟩ := sortToMatch_ok strip _ ref fl er n' f' e' hst
          obtain ⟨_, hflspec⟩ := rowsAt_spec aps.length (·.flux) seds j fl hfl
          obtain ⟨_, herspec⟩ := rowsAt_spec aps.length (·.err) seds j er her
          refine ⟨rfl, rfl, rfl, hn, hlf, hle, ?_⟩
          intro r hr
          obtain ⟨i, hname, hfi, hei, hfs, hes⟩ := hrows r hr
          -- the name at position i of the directory listing exists, so the SED exists
          have hri : (ref.map strip)[r]? = some (strip ref[r]) := by simp [hr]
          rw [hri, List.getElem?_map] at hname
          cases hsi : seds[i]? with
          | none => simp [hsi] at hname
          | some s =>
            obtain ⟨row, hrow, hrowOf⟩ := hflspec i s hsi
            obtain ⟨erow, herow, herowOf⟩ := herspec i s hsi
            obtain ⟨hl1, hc1⟩ := rowOf_spec _ _ _ _ hrowOf
            obtain ⟨hl2, hc2⟩ := rowOf_spec _ _ _ _ herowOf
            refine ⟨i, s, row, erow, hsi, ?_, by rw [hfi, hrow], by rw [hei, herow], hl1, hl2, hc1, hc2⟩
            rw [hri]
            simpa [hsi] using hname

/-- **C16 (rows; liveness).** For a well-formed package — the SED names (after the `U30` cast) are a
    rearrangement of the parameter table's stripped names, `j` is a tabulated index and every flux /
    error row reaches index `j` — the file *is* written. -/
theorem C16_rows_live {N K : Type} [LinearOrder N] (strip trunc : N → N)
    (ws aps : List K) (seds : List (SedIn N K)) (ref : List N) (j : Nat)
    (hperm : (seds.map (fun s => trunc s.name)).Perm (ref.map strip))
    (hj : j < ws.length)
    (hfl : ∃ fl, rowsAt aps.length (·.flux) seds j = some fl)
    (her : ∃ er, rowsAt aps.length (·.err) seds j = some er) :
    ∃ f, monoFile strip trunc ws aps seds ref j = .ok f := by
  obtain ⟨fl, hfl⟩ := hfl
  obtain ⟨er, her⟩ := her
  obtain ⟨l1, _⟩ := rowsAt_spec aps.length (·.flux) seds j fl hfl
  obtain ⟨l2, _⟩ := rowsAt_spec aps.length (·.err) seds j er her
  obtain ⟨f', e', hst⟩ := sortToMatch_live strip (seds.map (fun s => trunc s.name)) ref fl er hperm
    (by simp [l1]) (by simp [l2])
  unfold monoFile
  simp only [List.getElem?_eq_getElem hj, hfl, her, hst]
  exact ⟨_, rfl⟩

/-- **C16 (nearest).** `np.argmin(|cube.wav − λ₀|)` returns a valid index whose wavelength minimises
    `|λ − λ₀|` over the table, and it is the first such index. -/
theorem C16_nearest {K : Type} [Field K] [LinearOrder K] [IsStrictOrderedRing K] (ws : List K) (w0 : K) :
    (ws ≠ [] → ∃ r, nearestIdx ws w0 = .ok r) ∧
    ∀ r, nearestIdx ws w0 = .ok r → ∃ wr, ws[r]? = some wr ∧
      (∀ (k : Nat) (w : K), ws[k]? = some w → |wr - w0| ≤ |w - w0|) ∧
      (∀ (k : Nat) (w : K), k < r → ws[k]? = some w → |wr - w0| < |w - w0|) := by
  constructor
  · intro hne
    cases ws with
    | nil => exact absurd rfl hne
    | cons x xs => exact ⟨_, rfl⟩
  · intro r h
    unfold nearestIdx at h
    obtain ⟨rv, hrv, hmin, hfirst⟩ := argminFirst_spec _ r h
    rw [List.getElem?_map] at hrv
    cases hwr : ws[r]? with
    | none => simp [hwr] at hrv
    | some wr =>
      simp only [hwr, Option.map_some, Option.some.injEq] at hrv
      refine ⟨wr, rfl, ?_, ?_⟩
      · intro k w hk
        have := hmin k (absK (w - w0)) (by rw [List.getElem?_map, hk]; rfl)
        rwa [← hrv, absK_eq_abs, absK_eq_abs] at this
      · intro k w hkr hk
        have := hfirst k (absK (w - w0)) hkr (by rw [List.getElem?_map, hk]; rfl)
        rwa [← hrv, absK_eq_abs, absK_eq_abs] at this

/-- **C16 (returned table).** The `filter` column of the returned table has one entry per SED wavelength;
    entry `k` is the name of file `k` (`MO%03d % (k+1)`) if index `k` was emitted and empty otherwise. -/
theorem C16_table (n : Nat) (js : List Int) :
    (monoTable n js).length = n ∧
    ∀ k : Nat, k < n → (monoTable n js)[k]? = some (if (k : Int) ∈ js then moName k else "") :=
  ⟨length_monoTable n js, fun k hk => getElem?_monoTable n js k hk⟩

/-- **C16 (whole call).** `convolve_model_dir_monochromatic` as one function of (package, window, memory
    limit): for wavelengths stored strictly decreasing, at least one SED, SED names that are a rearrangement of the parameter
    table's names and rectangular flux / error arrays, the call succeeds for **every** window (finite or
    defaulted ends, on or between tabulated wavelengths, single-wavelength, empty, inverted) and **every**
    memory limit; it writes the files in increasing index order, each index once; a file exists for index `k`
    iff `wmin ≤ λ_k ≤ wmax`; every file is the one `C16_rows` describes; and the returned table lists the
    SED wavelengths with the file name exactly at the emitted indices and an empty name elsewhere. -/
theorem C16_pipeline {N K : Type} [LinearOrder N] [LinearOrder K] (strip trunc : N → N)
    (ws aps : List K) (seds : List (SedIn N K)) (ref : List N)
    (hdec : ws.Pairwise (· > ·)) (hne : seds ≠ [])
    (hperm : (seds.map (fun s => trunc s.name)).Perm (ref.map strip))
    (hfl : ∀ j, j < ws.length → ∃ fl, rowsAt aps.length (·.flux) seds j = some fl)
    (her : ∀ j, j < ws.length → ∃ er, rowsAt aps.length (·.err) seds j = some er)
    (wmin wmax : Option K) (maxRam : Rat) :
    ∃ res, monoRun strip trunc ws aps seds ref wmin wmax maxRam = .ok res ∧
      (res.files.map (·.index)).Pairwise (· < ·) ∧
      (∀ f ∈ res.files, monoFile strip trunc ws aps seds ref f.index = .ok f) ∧
      (∀ (k : Nat) (v : K), ws[k]? = some v → ((∃ f ∈ res.files, f.index = k) ↔ inClosed wmin wmax v)) ∧
      res.tableWav = ws ∧ res.tableFilter.length = ws.length ∧
      (∀ (k : Nat) (v : K), ws[k]? = some v →
        (inClosed wmin wmax v → res.tableFilter[k]? = some (moName k)) ∧
        (¬ inClosed wmin wmax v → res.tableFilter[k]? = some "")) := by
  have hs := chunkSize_pos ws.length (ramFloor maxRam seds.length aps.length)
    (windowIdx ws wmin wmax).1 (windowIdx ws wmin wmax).2
  obtain ⟨L, hL, hvalid, hiff⟩ := C16_window ws hdec wmin wmax _ hs
  obtain ⟨L', hL', _, _, hpw⟩ := C16_cover (windowIdx ws wmin wmax).1 (windowIdx ws wmin wmax).2 _ hs
  have hLL : L' = L := by rw [hL] at hL'; exact (Except.ok.inj hL').symm
  subst hLL
  obtain ⟨fs, hfs⟩ := monoFilesAt_live strip trunc ws aps seds ref L' (by
    intro j hj
    obtain ⟨h0, hn⟩ := hvalid j hj
    have hjn : j.toNat < ws.length := by omega
    exact ⟨h0, C16_rows_live strip trunc ws aps seds ref j.toNat hperm hjn (hfl _ hjn) (her _ hjn)⟩)
  obtain ⟨hmap, hok⟩ := forall₂_index strip trunc ws aps seds ref L' fs
    (monoFilesAt_spec strip trunc ws aps seds ref L' fs hfs)
  have hmemf : ∀ k : Nat, (∃ f ∈ fs, f.index = k) ↔ (k : Int) ∈ L' := by
    intro k
    rw [← hmap, List.mem_map]
    constructor
    · rintro ⟨f, hf, rfl⟩; exact ⟨f, hf, rfl⟩
    · rintro ⟨f, hf, he⟩; exact ⟨f, hf, by omega⟩
  refine ⟨{ files := fs, tableWav := ws, tableFilter := monoTable ws.length L' }, ?_, ?_, hok, ?_, rfl,
    length_monoTable _ _, ?_⟩
  · have he : seds.isEmpty = false := by cases seds <;> simp_all
    simp only [monoRun, he, hL, hfs]
    rfl
  · have : ((fs.map (·.index)).map (fun (i : Nat) => (i : Int))).Pairwise (· < ·) := by
      rw [List.map_map]
      have e : ((fun (i : Nat) => (i : Int)) ∘ fun (f : MonoFile N K) => f.index) = fun f => (f.index : Int) := rfl
      rw [e, hmap]; exact hpw
    rw [List.pairwise_map] at this
    exact this.imp (by intro a b h; omega)
  · intro k v hv
    rw [hmemf k]; exact hiff k v hv
  · intro k v hv
    have hk : k < ws.length := by
      by_contra hc
      rw [List.getElem?_eq_none (by omega)] at hv
      cases hv
    have ht := getElem?_monoTable ws.length L' k hk
    constructor
    · intro hin
      rw [ht, if_pos ((hiff k v hv).mpr hin)]
    · intro hnin
      rw [ht, if_neg (fun h => hnin ((hiff k v hv).mp h))]

/-- **C16 (whole call, memory limit).** Files and table do not depend on the memory limit at all — for any
    package and any window (no hypotheses). -/
theorem C16_pipeline_ram_independent {N K : Type} [LT N] [DecidableLT N] [DecidableEq N] [LT K] [DecidableLT K]
    (strip trunc : N → N) (ws aps : List K) (seds : List (SedIn N K)) (ref : List N)
    (wmin wmax : Option K) (r1 r2 : Rat) :
    monoRun strip trunc ws aps seds ref wmin wmax r1 = monoRun strip trunc ws aps seds ref wmin wmax r2 := by
  unfold monoRun
  split
  · rfl
  simp only
  rw [emitted_pos _ _ _ (chunkSize_pos ws.length (ramFloor r1 seds.length aps.length) _ _),
      emitted_pos _ _ _ (chunkSize_pos ws.length (ramFloor r2 seds.length aps.length) _ _)]

/-- **C16 (existing files, `overwrite`).** In a directory that already holds the files of the indices `existing`
    (for the same package): with `overwrite=True` the call is the plain call; with the default `overwrite=False`
    it is the plain call — same files, same table — whenever no existing file belongs to a wavelength inside the
    requested window (successive calls on disjoint windows), and it refuses (`fileExists`) as soon as one does. -/
theorem C16_overwrite {N K : Type} [LinearOrder N] [LinearOrder K] (strip trunc : N → N)
    (ws aps : List K) (seds : List (SedIn N K)) (ref : List N)
    (hdec : ws.Pairwise (· > ·)) (hne : seds ≠ [])
    (hperm : (seds.map (fun s => trunc s.name)).Perm (ref.map strip))
    (hfl : ∀ j, j < ws.length → ∃ fl, rowsAt aps.length (·.flux) seds j = some fl)
    (her : ∀ j, j < ws.length → ∃ er, rowsAt aps.length (·.err) seds j = some er)
    (wmin wmax : Option K) (maxRam : Rat) (existing : List Nat) :
    monoRunIn true existing strip trunc ws aps seds ref wmin wmax maxRam
      = monoRun strip trunc ws aps seds ref wmin wmax maxRam ∧
    ((∀ k ∈ existing, ∀ v, ws[k]? = some v → ¬ inClosed wmin wmax v) →
      monoRunIn false existing strip trunc ws aps seds ref wmin wmax maxRam
        = monoRun strip trunc ws aps seds ref wmin wmax maxRam) ∧
    ((∃ k ∈ existing, ∃ v, ws[k]? = some v ∧ inClosed wmin wmax v) →
      monoRunIn false existing strip trunc ws aps seds ref wmin wmax maxRam = .error .fileExists) := by
  obtain ⟨res, hres, _, hok, hiff, _⟩ :=
    C16_pipeline strip trunc ws aps seds ref hdec hne hperm hfl her wmin wmax maxRam
  refine ⟨?_, ?_, ?_⟩
  · simp [monoRunIn, hres]
  · intro hdis
    have hnone : res.files.any (fun f => existing.contains f.index) = false := by
      rw [Bool.eq_false_iff]
      intro hany
      rw [List.any_eq_true] at hany
      obtain ⟨f, hf, hc⟩ := hany
      have hk : f.index ∈ existing := by simpa using hc
      -- the file exists, so its index is a valid index inside the window
      have hidx : f.index < ws.length := by
        have := hok f hf
        unfold monoFile at this
        by_contra hge
        rw [List.getElem?_eq_none (by omega)] at this
        simp at this
      have hv : ws[f.index]? = some ws[f.index] := List.getElem?_eq_getElem hidx
      exact hdis _ hk _ hv ((hiff _ _ hv).mp ⟨f, hf, rfl⟩)
    simp only [monoRunIn, hres, hnone, Bool.false_eq_true, if_false]
  · rintro ⟨k, hk, v, hv, hin⟩
    obtain ⟨f, hf, hfk⟩ := (hiff k v hv).mpr hin
    have hany : res.files.any (fun f => existing.contains f.index) = true := by
      rw [List.any_eq_true]
      exact ⟨f, hf, by simpa [hfk] using hk⟩
    simp only [monoRunIn, hres, hany, Bool.false_eq_true, if_false, if_true]

/-! ### Non-vacuity (over ℚ / ℕ-named models) -/

/-- five wavelengths stored decreasing; window `[3, 20]` has both ends on tabulated wavelengths -/
def c16ExWs : List Rat := [50, 20, 8, 3, 1]

example : c16ExWs.Pairwise (· > ·) := by decide
example : windowIdx c16ExWs (some 3) (some 20) = (1, 3) := by decide
-- a single-wavelength window, an empty one, an inverted one
example : windowIdx c16ExWs (some 8) (some 8) = (2, 2) ∧ windowIdx c16ExWs (some 9) (some 19) = (2, 1) ∧
    windowIdx c16ExWs (some 20) (some 3) = (3, 1) := by decide
example : windowIdx c16ExWs (some 2) (some 25) = (1, 3) := by decide
example : windowIdx c16ExWs none none = (0, 4) := by decide
-- chunk sizes 1, 2, 3 all emit 1, 2, 3
example : emitted 1 3 1 = .ok [1, 2, 3] ∧ emitted 1 3 2 = .ok [1, 2, 3] ∧ emitted 1 3 3 = .ok [1, 2, 3] := by
  decide
example : chunks 1 3 2 = .ok [(1, 2), (3, 3)] := by decide
example : 1 ≤ chunkSize 5 2 1 3 ∧ chunkSize 5 2 1 3 = 2 := by decide
example : ramFloor (3 * 8 * 4 * 2 / 1024 ^ 3) 4 2 = 3 := by decide +kernel
-- an empty or inverted index range: the step is 1 and nothing is emitted
example : chunkSize 5 2 2 1 = 1 ∧ emitted 2 1 (chunkSize 5 2 2 1) = .ok [] ∧ emitted 3 1 (chunkSize 5 2 3 1) = .ok [] := by
  decide
-- the table of a 5-wavelength package after emitting 1, 2, 3
example : monoTable 5 [1, 2, 3] = ["", "MO002", "MO003", "MO004", ""] := by decide
-- nearest: 8 is nearest to 10; a tie (2 between 3 and 1) goes to the first index
example : nearestIdx c16ExWs 10 = .ok 2 ∧ nearestIdx c16ExWs 2 = .ok 3 := by decide +kernel

/-- two apertures, three wavelengths, models listed `b, a, c` in the directory and `c, a, b` in the table -/
def c16ExSeds : List (SedIn Nat Rat) :=
  [{ name := 2, flux := [[21, 22, 23], [24, 25, 26]], err := [[1, 1, 1], [2, 2, 2]] },
   { name := 1, flux := [[11, 12, 13], [14, 15, 16]], err := [[3, 3, 3], [4, 4, 4]] },
   { name := 3, flux := [[31, 32, 33], [34, 35, 36]], err := [[5, 5, 5], [6, 6, 6]] }]

example : (c16ExSeds.map (fun s => id s.name)).Perm ([3, 1, 2].map id) := by decide

-- the hypotheses of `C16_rows_live` are met, hence so is the hypothesis of `C16_rows`
example : ∃ f, monoFile id id [9, 5, 2] [100, 200] c16ExSeds [3, 1, 2] 1 = .ok f :=
  C16_rows_live id id [9, 5, 2] [100, 200] c16ExSeds [3, 1, 2] 1 (by decide) (by decide) ⟨_, rfl⟩ ⟨_, rfl⟩

-- … and of `C16_pipeline` (every index reaches every row)
example : ∀ j, j < ([9, 5, 2] : List Rat).length → ∃ fl, rowsAt 2 (·.flux) c16ExSeds j = some fl := by
  intro j hj
  have : j = 0 ∨ j = 1 ∨ j = 2 := by simp at hj; omega
  rcases this with rfl | rfl | rfl <;> exact ⟨_, rfl⟩

end SF
