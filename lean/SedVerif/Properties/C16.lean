import SedVerif.Proofs.MonoOrder
/-!
# C16 — monochromatic convolution emits every in-range wavelength at any memory limit

Property theorems only.  Model: `SedVerif/Model/Mono.lean` (`windowIdx`, `chunkSize`, `chunks`,
`emitted`, `monoFile`, `monoRows`, `nearestIdx`).  Statements hold for all index ranges, all chunk
sizes, all wavelength lists over any linear order, all packages.
-/
namespace SF
open Mono

/-- **C16 (cover).** For every chunk size `≥ 1` the loop terminates normally and the indices for which
    a file is written are exactly `jlo, jlo+1, …, jhi` — each once, in increasing order. -/
theorem C16_cover (jlo jhi size : Int) (hs : 1 ≤ size) :
    ∃ L, emitted jlo jhi size = .ok L ∧ L = intRange jlo (jhi + 1 - jlo).toNat ∧
      (∀ j, j ∈ L ↔ jlo ≤ j ∧ j ≤ jhi) ∧ L.Pairwise (· < ·) := by
  refine ⟨_, emitted_pos jlo jhi size hs, rfl, ?_, pairwise_intRange _ _⟩
  intro j
  rw [mem_intRange]
  omega

/-- **C16 (the chunk size the code uses is admissible).** On the property's domain — a memory limit
    that allows at least one wavelength per pass, a non-empty table, a non-empty index range — the
    step of the loop is at least 1 (and at most `n_wav`), so `C16_cover` applies to it. -/
theorem C16_chunk_size_pos (nWav : Nat) (ramFl jlo jhi : Int) (hn : 1 ≤ nWav) (hr : 1 ≤ ramFl)
    (hw : jlo ≤ jhi) : 1 ≤ chunkSize nWav ramFl jlo jhi ∧ chunkSize nWav ramFl jlo jhi ≤ nWav := by
  unfold chunkSize
  omega

/-- **C16 (independence of the memory limit).** The list of emitted indices, and the files written
    (names, FILTWAV, rows), are the same for any two chunk sizes `≥ 1`. -/
theorem C16_chunk_independent {N K : Type} [LT N] [DecidableLT N] [DecidableEq N] (strip trunc : N → N)
    (ws aps : List K) (seds : List (SedIn N K)) (ref : List N) (jlo jhi s1 s2 : Int)
    (h1 : 1 ≤ s1) (h2 : 1 ≤ s2) :
    emitted jlo jhi s1 = emitted jlo jhi s2 ∧
    monoRows strip trunc ws aps seds ref jlo jhi s1 = monoRows strip trunc ws aps seds ref jlo jhi s2 := by
  have e : emitted jlo jhi s1 = emitted jlo jhi s2 := by
    rw [emitted_pos jlo jhi s1 h1, emitted_pos jlo jhi s2 h2]
  exact ⟨e, by unfold monoRows; rw [e]⟩

section window
variable {K : Type} [LinearOrder K]

namespace Mono
/-- closed / open window membership with an optional (infinite) end -/
def inClosed (wmin wmax : Option K) (v : K) : Prop :=
  (match wmin with | none => True | some m => m ≤ v) ∧ (match wmax with | none => True | some M => v ≤ M)

def inOpen (wmin wmax : Option K) (v : K) : Prop :=
  (match wmin with | none => True | some m => m < v) ∧ (match wmax with | none => True | some M => v < M)
end Mono

/-- **C16 (window).** For wavelengths stored strictly decreasing (what `SED.read(order='nu')` returns)
    and any chunk size `≥ 1`: every emitted index is a valid index whose wavelength lies in the closed
    window, and every tabulated wavelength strictly inside the window is emitted.  (The code is
    `wav_min ≤ λ < wav_max`, see `Mono.window_iff`; the property does not fix open / closed at an end
    that coincides with a tabulated wavelength, so only this sandwich is claimed.) -/
theorem C16_window (ws : List K) (hdec : ws.Pairwise (· > ·)) (wmin wmax : Option K) (size : Int)
    (hs : 1 ≤ size) :
    ∃ L, emitted (windowIdx ws wmin wmax).1 (windowIdx ws wmin wmax).2 size = .ok L ∧
      (∀ j ∈ L, ∃ (k : Nat) (v : K), j = (k : Int) ∧ ws[k]? = some v ∧ inClosed wmin wmax v) ∧
      (∀ (k : Nat) (v : K), ws[k]? = some v → inOpen wmin wmax v → (k : Int) ∈ L) := by
  obtain ⟨L, hL, _, hmem, _⟩ := C16_cover (windowIdx ws wmin wmax).1 (windowIdx ws wmin wmax).2 size hs
  refine ⟨L, hL, ?_, ?_⟩
  · intro j hj
    have hb := window_bounds ws wmin wmax
    have hr := (hmem j).mp hj
    have hk : j.toNat < ws.length := by omega
    refine ⟨j.toNat, ws[j.toNat], by omega, List.getElem?_eq_getElem hk, ?_⟩
    have := (window_iff ws hdec wmin wmax j.toNat ws[j.toNat] (List.getElem?_eq_getElem hk)).mp
      (by constructor <;> omega)
    obtain ⟨g1, g2⟩ := this
    constructor
    · cases wmin <;> simp_all [geMin]
    · cases wmax with
      | none => trivial
      | some M => exact le_of_lt (by simpa [ltMax] using g2)
  · intro k v hv ho
    apply (hmem k).mpr
    apply (window_iff ws hdec wmin wmax k v hv).mpr
    obtain ⟨o1, o2⟩ := ho
    constructor
    · cases wmin with
      | none => trivial
      | some m => exact le_of_lt (by simpa using o1)
    · cases wmax <;> simp_all [ltMax]

end window

/-- **C16 (rows; safety).** If the file for wavelength index `j` is written at all, then it carries
    index `j`, `FILTWAV = λ_j`, the apertures of the package, its model names are the parameter
    table's (stripped) names in the table's order, and row `r` holds — for every aperture `a` — the
    flux and error cell `[a][j]` of an SED whose name is the table's row `r`.  (Thanks to the code's
    own post-check this needs no assumption about `order_to_match`.) -/
theorem C16_rows {N K : Type} [LT N] [DecidableLT N] [DecidableEq N] (strip trunc : N → N)
    (ws aps : List K) (seds : List (SedIn N K)) (ref : List N) (j : Nat) (f : MonoFile N K)
    (h : monoFile strip trunc ws aps seds ref j = .ok f) :
    f.index = j ∧ ws[j]? = some f.filtwav ∧ f.aps = aps ∧ f.names = ref.map strip ∧
    f.flux.length = ref.length ∧ f.err.length = ref.length ∧
    ∀ (r : Nat), r < ref.length → ∃ (im : Nat) (s : SedIn N K) (row erow : List K),
      seds[im]? = some s ∧ some (trunc s.name) = (ref.map strip)[r]? ∧
      f.flux[r]? = some row ∧ f.err[r]? = some erow ∧
      row.length = (if aps.length = 1 then 1 else s.flux.length) ∧
      erow.length = (if aps.length = 1 then 1 else s.err.length) ∧
      (∀ a, a < row.length → row[a]? = (s.flux[a]?).bind (fun x => x[j]?)) ∧
      (∀ a, a < erow.length → erow[a]? = (s.err[a]?).bind (fun x => x[j]?)) := by
  unfold monoFile at h
  cases hw : ws[j]? with
  | none => simp [hw] at h
  | some w =>
    cases hfl : rowsAt aps.length (·.flux) seds j with
    | none => simp [hw, hfl] at h
    | some fl =>
      cases her : rowsAt aps.length (·.err) seds j with
      | none => simp [hw, hfl, her] at h
      | some er =>
        simp only [hw, hfl, her] at h
        cases hst : sortToMatch strip (seds.map (fun s => trunc s.name)) ref fl er with
        | error e => simp [hst] at h
        | ok res =>
          obtain ⟨n', f', e'⟩ := res
          simp only [hst, Except.ok.injEq] at h
          subst h
          obtain ⟨hn, hlf, hle, hrows⟩ := sortToMatch_ok strip _ ref fl er n' f' e' hst
          obtain ⟨_, hflspec⟩ := rowsAt_spec aps.length (·.flux) seds j fl hfl
          obtain ⟨_, herspec⟩ := rowsAt_spec aps.length (·.err) seds j er her
          refine ⟨rfl, rfl, rfl, hn, hlf, hle, ?_⟩
          intro r hr
          obtain ⟨i, hname, hfi, hei, hfs, hes⟩ := hrows r hr
          -- the name at position i of the directory listing exists, so the SED exists
          have hri : (ref.map strip)[r]? = some (strip ref[r]) := by simp [hr]
          rw [hri, List.getElem?_map] at hname
          cases hsi : seds[i]? with
          | none => simp [hsi] at hname
          | some s =>
            obtain ⟨row, hrow, hrowOf⟩ := hflspec i s hsi
            obtain ⟨erow, herow, herowOf⟩ := herspec i s hsi
            obtain ⟨hl1, hc1⟩ := rowOf_spec _ _ _ _ hrowOf
            obtain ⟨hl2, hc2⟩ := rowOf_spec _ _ _ _ herowOf
            refine ⟨i, s, row, erow, hsi, ?_, by rw [hfi, hrow], by rw [hei, herow], hl1, hl2, hc1, hc2⟩
            rw [hri]
            simpa [hsi] using hname

/-- **C16 (rows; liveness).** For a well-formed package — the SED names (after the `U30` cast) are a
    rearrangement of the parameter table's stripped names, `j` is a tabulated index and every flux /
    error row reaches index `j` — the file *is* written. -/
theorem C16_rows_live {N K : Type} [LinearOrder N] (strip trunc : N → N)
    (ws aps : List K) (seds : List (SedIn N K)) (ref : List N) (j : Nat)
    (hperm : (seds.map (fun s => trunc s.name)).Perm (ref.map strip))
    (hj : j < ws.length)
    (hfl : ∃ fl, rowsAt aps.length (·.flux) seds j = some fl)
    (her : ∃ er, rowsAt aps.length (·.err) seds j = some er) :
    ∃ f, monoFile strip trunc ws aps seds ref j = .ok f := by
  obtain ⟨fl, hfl⟩ := hfl
  obtain ⟨er, her⟩ := her
  obtain ⟨l1, _⟩ := rowsAt_spec aps.length (·.flux) seds j fl hfl
  obtain ⟨l2, _⟩ := rowsAt_spec aps.length (·.err) seds j er her
  obtain ⟨f', e', hst⟩ := sortToMatch_live strip (seds.map (fun s => trunc s.name)) ref fl er hperm
    (by simp [l1]) (by simp [l2])
  unfold monoFile
  simp only [List.getElem?_eq_getElem hj, hfl, her, hst]
  exact ⟨_, rfl⟩

/-- **C16 (nearest).** `np.argmin(|cube.wav − λ₀|)` returns a valid index whose wavelength minimises
    `|λ − λ₀|` over the table, and it is the first such index. -/
theorem C16_nearest {K : Type} [Field K] [LinearOrder K] [IsStrictOrderedRing K] (ws : List K) (w0 : K) :
    (ws ≠ [] → ∃ r, nearestIdx ws w0 = .ok r) ∧
    ∀ r, nearestIdx ws w0 = .ok r → ∃ wr, ws[r]? = some wr ∧
      (∀ (k : Nat) (w : K), ws[k]? = some w → |wr - w0| ≤ |w - w0|) ∧
      (∀ (k : Nat) (w : K), k < r → ws[k]? = some w → |wr - w0| < |w - w0|) := by
  constructor
  · intro hne
    cases ws with
    | nil => exact absurd rfl hne
    | cons x xs => exact ⟨_, rfl⟩
  · intro r h
    unfold nearestIdx at h
    obtain ⟨rv, hrv, hmin, hfirst⟩ := argminFirst_spec _ r h
    rw [List.getElem?_map] at hrv
    cases hwr : ws[r]? with
    | none => simp [hwr] at hrv
    | some wr =>
      simp only [hwr, Option.map_some, Option.some.injEq] at hrv
      refine ⟨wr, rfl, ?_, ?_⟩
      · intro k w hk
        have := hmin k (absK (w - w0)) (by rw [List.getElem?_map, hk]; rfl)
        rwa [← hrv, absK_eq_abs, absK_eq_abs] at this
      · intro k w hkr hk
        have := hfirst k (absK (w - w0)) hkr (by rw [List.getElem?_map, hk]; rfl)
        rwa [← hrv, absK_eq_abs, absK_eq_abs] at this

/-! ### Non-vacuity (over ℚ / ℕ-named models) -/

/-- five wavelengths stored decreasing; window `[3, 20]` has one end on a tabulated wavelength -/
def c16ExWs : List Rat := [50, 20, 8, 3, 1]

example : c16ExWs.Pairwise (· > ·) := by decide
example : windowIdx c16ExWs (some 3) (some 20) = (2, 3) := by decide
example : windowIdx c16ExWs (some 2) (some 25) = (1, 3) := by decide
example : windowIdx c16ExWs none none = (0, 4) := by decide
-- chunk sizes 1, 2, 3 all emit 1, 2, 3
example : emitted 1 3 1 = .ok [1, 2, 3] ∧ emitted 1 3 2 = .ok [1, 2, 3] ∧ emitted 1 3 3 = .ok [1, 2, 3] := by
  decide
example : chunks 1 3 2 = .ok [(1, 2), (3, 3)] := by decide
example : 1 ≤ chunkSize 5 2 1 3 ∧ chunkSize 5 2 1 3 = 2 := by decide
example : ramFloor (3 * 8 * 4 * 2 / 1024 ^ 3) 4 2 = 3 := by decide +kernel
-- an empty index range makes the step 0, which Python's `range` rejects
example : emitted 2 1 (chunkSize 5 2 2 1) = .error .zeroStep := by decide
-- nearest: 8 is nearest to 10; a tie (2 between 3 and 1) goes to the first index
example : nearestIdx c16ExWs 10 = .ok 2 ∧ nearestIdx c16ExWs 2 = .ok 3 := by decide +kernel

/-- two apertures, three wavelengths, models listed `b, a, c` in the directory and `c, a, b` in the table -/
def c16ExSeds : List (SedIn Nat Rat) :=
  [{ name := 2, flux := [[21, 22, 23], [24, 25, 26]], err := [[1, 1, 1], [2, 2, 2]] },
   { name := 1, flux := [[11, 12, 13], [14, 15, 16]], err := [[3, 3, 3], [4, 4, 4]] },
   { name := 3, flux := [[31, 32, 33], [34, 35, 36]], err := [[5, 5, 5], [6, 6, 6]] }]

example : (c16ExSeds.map (fun s => id s.name)).Perm ([3, 1, 2].map id) := by decide

-- the hypotheses of `C16_rows_live` are met, hence so is the hypothesis of `C16_rows`
example : ∃ f, monoFile id id [9, 5, 2] [100, 200] c16ExSeds [3, 1, 2] 1 = .ok f :=
  C16_rows_live id id [9, 5, 2] [100, 200] c16ExSeds [3, 1, 2] 1 (by decide) (by decide) ⟨_, rfl⟩ ⟨_, rfl⟩

end SF
