/-!
# Pickle framing of a fit output file (C19)

`FitInfoFile.write` appends self-delimiting pickles (protocol 2) to one file: three header pickles
(`model_dir`, `filters`, `extinction_law`) and then one pickle per fitted source.
`FitInfoFile(path, 'r')` loads the three header pickles in its constructor (every exception there
propagates to the caller: "error at open"); `__iter__` then calls `pickle.load` repeatedly, treats
`EOFError` as the end of the file and lets every other exception propagate.

This file models the *framing* only: which bytes one `pickle.load` consumes and how it fails on a file
that ends early.  The values that the opcodes build are not modelled (they are a deterministic
function of the consumed bytes — trusted, see DESIGN §6/C19 "Partial").

## Opcode table

`argFmtSpec` is `pickletools.opcodes` restricted to the opcodes of protocols 0, 1 and 2 (all that
`pickle.dump(obj, f, 2)` can emit), with the argument format of each opcode (`argFmt` looks the same
table up in a 256-entry array):
no argument / fixed `n` bytes / 1-byte length prefix / 4-byte little-endian length prefix /
`k` newline-terminated lines.  Opcodes of protocol ≥ 3 are not in the table (`badOpcode`).

## Measured behaviour of CPython 3.12 (`_pickle` C accelerator, `pickle.load(open(path,'rb'))`)

Measured, not assumed (scratch probes, and every truncation offset of real fit files, 17 302 offsets,
0 mismatches against a Python mock of `scanOne`/`readFile` below):

* file ends exactly where an opcode byte is expected (offset 0, after a complete pickle, or after a
  complete opcode+argument *inside* a pickle, e.g. `80 02`, `80 02 5d`, `80 02 5d 71 00`):
  `EOFError('Ran out of input')`  → `eofAtOpcode`;
* file ends inside an argument — always `UnpicklingError('pickle data was truncated')`, never
  `EOFError`, for every argument format:
  fixed size (`80`, `80 02 4b`, `80 02 4d 01`, `80 02 4a 01 02`, `80 02 47 00 00`, `71`, `72 00 00`, `68`,
  `6a 00`, `82`, `83 00`, `84 00 00 00`), inside a 1-byte or 4-byte length prefix (`55`, `58`, `58 05 00`,
  `54 01 00`, `8a`, `8b 01 00`), inside the counted payload (`58 05 00 00 00 61 62`, `55 03 61 62`,
  `8a 02 01`, `54 05 00 00 00 61`, `8b 02 00 00 00 61`), inside a newline-terminated argument with or
  without any byte of it present (`63`, `63 6e 75 6d 70 79`, `49`, `49 31`, `46 31 2e 30`, `4c 31 4c`,
  `53 27 61 62`, `56`, `56 61 62`, `70 31`, `67`), and between the two lines of `GLOBAL`
  (`63 6e 75 6d 70 79 0a`, `63 6e 75 6d 70 79 0a 6e 64`)  → `truncatedArg`.

So the split that matters (EOFError = "silently stop", anything else = "error") is exactly
"cut at an opcode boundary" versus "cut inside an argument".
-/
namespace SF.Pickle

/-- argument format of a pickle opcode -/
inductive ArgFmt where
  /-- no argument -/
  | none
  /-- `n` bytes -/
  | fixed (n : Nat)
  /-- one length byte, then that many bytes -/
  | lp1
  /-- four little-endian length bytes, then that many bytes -/
  | lp4
  /-- `k` newline-terminated lines -/
  | lines (k : Nat)
  deriving DecidableEq, Repr

/-- `STOP` (`.`) ends a pickle -/
def opSTOP : UInt8 := 0x2e

/-- `pickletools.opcodes`, protocols 0–2: argument format by opcode byte value -/
def argFmtSpec (op : Nat) : Option ArgFmt :=
  match op with
  | 0x49 => some (.lines 1)   -- INT          decimalnl_short
  | 0x4a => some (.fixed 4)   -- BININT       int4
  | 0x4b => some (.fixed 1)   -- BININT1      uint1
  | 0x4d => some (.fixed 2)   -- BININT2      uint2
  | 0x4c => some (.lines 1)   -- LONG         decimalnl_long
  | 0x8a => some .lp1         -- LONG1        long1
  | 0x8b => some .lp4         -- LONG4        long4
  | 0x53 => some (.lines 1)   -- STRING       stringnl
  | 0x54 => some .lp4         -- BINSTRING    string4
  | 0x55 => some .lp1         -- SHORT_BINSTRING string1
  | 0x4e => some .none        -- NONE
  | 0x88 => some .none        -- NEWTRUE
  | 0x89 => some .none        -- NEWFALSE
  | 0x56 => some (.lines 1)   -- UNICODE      unicodestringnl
  | 0x58 => some .lp4         -- BINUNICODE   unicodestring4
  | 0x46 => some (.lines 1)   -- FLOAT        floatnl
  | 0x47 => some (.fixed 8)   -- BINFLOAT     float8
  | 0x5d => some .none        -- EMPTY_LIST
  | 0x61 => some .none        -- APPEND
  | 0x65 => some .none        -- APPENDS
  | 0x6c => some .none        -- LIST
  | 0x29 => some .none        -- EMPTY_TUPLE
  | 0x74 => some .none        -- TUPLE
  | 0x85 => some .none        -- TUPLE1
  | 0x86 => some .none        -- TUPLE2
  | 0x87 => some .none        -- TUPLE3
  | 0x7d => some .none        -- EMPTY_DICT
  | 0x64 => some .none        -- DICT
  | 0x73 => some .none        -- SETITEM
  | 0x75 => some .none        -- SETITEMS
  | 0x30 => some .none        -- POP
  | 0x32 => some .none        -- DUP
  | 0x28 => some .none        -- MARK
  | 0x31 => some .none        -- POP_MARK
  | 0x67 => some (.lines 1)   -- GET          decimalnl_short
  | 0x68 => some (.fixed 1)   -- BINGET       uint1
  | 0x6a => some (.fixed 4)   -- LONG_BINGET  uint4
  | 0x70 => some (.lines 1)   -- PUT          decimalnl_short
  | 0x71 => some (.fixed 1)   -- BINPUT       uint1
  | 0x72 => some (.fixed 4)   -- LONG_BINPUT  uint4
  | 0x82 => some (.fixed 1)   -- EXT1         uint1
  | 0x83 => some (.fixed 2)   -- EXT2         uint2
  | 0x84 => some (.fixed 4)   -- EXT4         int4
  | 0x63 => some (.lines 2)   -- GLOBAL       stringnl_noescape_pair
  | 0x52 => some .none        -- REDUCE
  | 0x62 => some .none        -- BUILD
  | 0x69 => some (.lines 2)   -- INST         stringnl_noescape_pair
  | 0x6f => some .none        -- OBJ
  | 0x81 => some .none        -- NEWOBJ
  | 0x80 => some (.fixed 1)   -- PROTO        uint1
  | 0x2e => some .none        -- STOP
  | 0x50 => some (.lines 1)   -- PERSID       stringnl_noescape
  | 0x51 => some .none        -- BINPERSID
  | _ => Option.none

/-- the same table as a 256-entry array (one lookup per opcode instead of a chain of comparisons;
    `argFmt_eq_spec` in `Proofs/PickleFrame.lean` shows it is `argFmtSpec`) -/
@[irreducible] def opTable : Array (Option ArgFmt) := ((List.range 256).map argFmtSpec).toArray

def argFmt (op : UInt8) : Option ArgFmt := (opTable[op.toNat]?).getD Option.none

/-- drop `n` bytes; `none` when fewer than `n` are left (`_Unpickler_Read` fails: "truncated") -/
def dropN : Nat → List UInt8 → Option (List UInt8)
  | 0, b => some b
  | n + 1, b =>
    match b.drop n with
    | [] => none
    | _ :: r => some r

/-- drop up to and including the first `\n`; `none` when there is none (`_Unpickler_Readline` fails) -/
def dropLine : List UInt8 → Option (List UInt8)
  | [] => none
  | c :: r => if c = 10 then some r else dropLine r

def dropLines : Nat → List UInt8 → Option (List UInt8)
  | 0, b => some b
  | k + 1, b =>
    match dropLine b with
    | none => none
    | some r => dropLines k r

/-- little-endian 4-byte length -/
def le32 (a b c d : UInt8) : Nat :=
  a.toNat + 256 * b.toNat + 65536 * c.toNat + 16777216 * d.toNat

/-- skip the argument of an opcode; `none` = the file ends inside the argument -/
def skipArg : ArgFmt → List UInt8 → Option (List UInt8)
  | .none, b => some b
  | .fixed n, b => dropN n b
  | .lp1, [] => none
  | .lp1, l :: r => dropN l.toNat r
  | .lp4, a :: b :: c :: d :: r => dropN (le32 a b c d) r
  | .lp4, _ => none
  | .lines k, b => dropLines k b

/-- result of one `pickle.load` on the remaining bytes of the file -/
inductive Scan where
  /-- a complete pickle was consumed; `rest` is what follows its `STOP` -/
  | done (rest : List UInt8)
  /-- the file ended where an opcode was expected: CPython raises `EOFError` -/
  | eofAtOpcode
  /-- the file ended inside an opcode's argument: `UnpicklingError('pickle data was truncated')` -/
  | truncatedArg
  /-- a byte that is no protocol ≤ 2 opcode: `UnpicklingError('invalid load key')` -/
  | badOpcode
  deriving DecidableEq, Repr

/-- walk opcodes until `STOP`; every step consumes at least the opcode byte, so `fuel > length`
    never runs out -/
def scanAux : Nat → List UInt8 → Scan
  | 0, _ => .badOpcode
  | _ + 1, [] => .eofAtOpcode
  | f + 1, op :: rest =>
    if op = opSTOP then .done rest
    else
      match argFmt op with
      | Option.none => .badOpcode
      | some fmt =>
        match skipArg fmt rest with
        | Option.none => .truncatedArg
        | some rest' => scanAux f rest'

/-- one `pickle.load(handle)` -/
def scanOne (b : List UInt8) : Scan := scanAux (b.length + 1) b

/-- how reading a fit file ends -/
inductive ReadStatus where
  /-- the constructor `FitInfoFile(path, 'r')` raised (a header pickle is incomplete) -/
  | openError
  /-- `__iter__` raised something other than `EOFError`, after yielding `recs` -/
  | iterError
  /-- `__iter__` met `EOFError` and returned, after yielding `recs` -/
  | cleanEnd
  deriving DecidableEq, Repr

/-- what the consumer of `for info in FitInfoFile(path, 'r')` observes: the frames (byte strings) of
    the records yielded, in order, and how the iteration ended -/
structure ReadOut where
  status : ReadStatus
  recs : List (List UInt8)
  deriving DecidableEq, Repr

/-- the constructor: `nh` header pickles, anything but a complete pickle is an error -/
def readHeader : Nat → List UInt8 → Option (List UInt8)
  | 0, b => some b
  | n + 1, b =>
    match scanOne b with
    | .done rest => readHeader n rest
    | _ => none

/-- `__iter__`: `done` → yield the frame just consumed and go on; `EOFError` → return; else raise -/
def readRecs : Nat → List UInt8 → ReadOut
  | 0, _ => ⟨.iterError, []⟩
  | f + 1, b =>
    match scanOne b with
    | .done rest =>
      let o := readRecs f rest
      ⟨o.status, b.take (b.length - rest.length) :: o.recs⟩
    | .eofAtOpcode => ⟨.cleanEnd, []⟩
    | _ => ⟨.iterError, []⟩

/-- `FitInfoFile(path,'r')` followed by a full iteration, on a file with `nh` header pickles -/
def readFile (nh : Nat) (b : List UInt8) : ReadOut :=
  match readHeader nh b with
  | none => ⟨.openError, []⟩
  | some rest => readRecs (rest.length + 1) rest

/-! ### the reader object and its life-cycle

`FitInfoFile(path, 'r')` holds one file handle.  Every `for info in reader` starts a new generator over the SAME
handle, so a pass continues at the position the previous pass left: after a pass the consumer abandoned (`break`
after `limit` records) the next pass goes on with the following record; after a pass that ended with `EOFError`
or with an error the handle is at the end of the (truncated) file. -/

/-- how one pass over the reader ended -/
inductive PassEnd where
  /-- the consumer stopped iterating after the records it wanted -/
  | stopped
  /-- `EOFError`: the generator returned -/
  | cleanEnd
  /-- another exception propagated to the consumer -/
  | error
  deriving DecidableEq, Repr

/-- one pass: the frames yielded, how it ended, the bytes left for the next pass -/
structure PassOut where
  recs : List (List UInt8)
  ending : PassEnd
  rest : List UInt8
  deriving DecidableEq, Repr

/-- one pass over the remaining bytes `b`, abandoned by the consumer after `limit` records
    (`none`: iterate to the end) -/
def readPass : Nat → Option Nat → List UInt8 → PassOut
  | 0, _, b => ⟨[], .error, b⟩
  | f + 1, limit, b =>
    if limit = some 0 then ⟨[], .stopped, b⟩
    else
      match scanOne b with
      | .done rest =>
        let o := readPass f (limit.map (· - 1)) rest
        ⟨b.take (b.length - rest.length) :: o.recs, o.ending, o.rest⟩
      | .eofAtOpcode => ⟨[], .cleanEnd, []⟩
      | _ => ⟨[], .error, []⟩

/-- the life of one reader object: passes in sequence, each continuing where the previous one stopped -/
def readPasses : List (Option Nat) → List UInt8 → List PassOut
  | [], _ => []
  | l :: ls, b =>
    let o := readPass (b.length + 1) l b
    o :: readPasses ls o.rest

/-- everything the consumer received from one reader object, in order -/
def allYielded (ps : List PassOut) : List (List UInt8) := (ps.map (·.recs)).flatten

end SF.Pickle
