import SedVerif.Model.Interp
/-!
# Model of `Extinction.get_av`

`tab` is the opacity table `(wavelength, chi)` in increasing wavelength; `v` is 0.55 µm expressed in
the table's wavelength unit; queries are in the same unit.
-/
namespace SF
variable {K : Type} [Zero K] [One K] [Add K] [Sub K] [Mul K] [Div K] [Neg K]
  [LT K] [DecidableLT K] [LE K] [DecidableLE K] [DecidableEq K]

/-- the literal `-0.4` -/
def negPt4 : K := -(two / (two * two + 1))

/-- `-0.4 * np.interp(wav, self.wav, self.chi, left=0, right=0) / np.interp(0.55µm, self.wav, self.chi)` -/
def getAv (tab : List (K × K)) (v : K) (x : K) : K :=
  negPt4 * npInterp 0 0 tab x / npInterpEdge tab v

end SF
