import SedVerif.Model.Fit
/-!
# Source-level entry points of the fitter and the `Fitter` object as a state machine

`obsFit2` / `obsFit3` compose `Source.get_log_fluxes` (`logTransform`), the residual assembly
(`mkPts`) and the two branches of `Models.fit` (`fit2Full`, `fit3`) for one model, starting from the
source as it stands in the data file.  Model fluxes are given as log10 values (what
`Models.log_fluxes_mJy` returns).

`FitterState` is what a `Fitter` instance holds between calls (`models.fluxes`, `models.logd`,
`av_law`, `av_range`; `sc_law` is the constant −2).  `fitStep` is `Fitter.fit`: it reads the state and
the source and returns a fresh result; the state it hands back is the one it was given.  Used by
C03 (flag semantics, source level) and C11 (purity).
-/
namespace SF
variable {K : Type} [Zero K] [One K] [Add K] [Sub K] [Mul K] [Div K] [Neg K]
  [LT K] [DecidableLT K] [LE K] [DecidableLE K] [DecidableEq K]

/-- the points the fitter sees for one source and one vector of model log fluxes -/
def obsPts (lg : K → K) (ln10 : K) (os : List (Obs K)) (ks mf : List K) : List (Pt K) :=
  mkPts (os.map (logTransform lg ln10)) mf ks

/-- distance-independent mode, one model: `(av, sc, chi2)` from the source as given -/
def obsFit2 (lg : K → K) (ln10 big : K) (ln1m : K → K) (lo hi : K)
    (os : List (Obs K)) (ks mf : List K) : K × K × K :=
  fit2Full big ln1m lo hi (obsPts lg ln10 os ks mf)

/-- distance-dependent mode, one model: `mfd[d]` are the model's log fluxes at trial distance `d` -/
def obsFit3 (lg : K → K) (ln10 big : K) (ln1m : K → K) (lo hi : K) (logd : List K)
    (os : List (Obs K)) (ks : List K) (mfd : List (List K)) : K × K × K × Nat :=
  fit3 big ln1m lo hi logd (mfd.map (obsPts lg ln10 os ks))

/-- what a `Fitter` instance holds between calls -/
structure FitterState (K : Type) where
  /-- `av_law` -/
  ks : List K
  /-- `av_range` -/
  lo : K
  hi : K
  /-- `models.logd`; `none` for a distance-independent package -/
  logd : Option (List K)
  /-- `models.log_fluxes_mJy`: per model, per trial distance (a single entry when `logd = none`),
      per band -/
  models : List (List (List K))

/-- unsorted per-model `(av, sc, chi2)` -/
abbrev FitResult (K : Type) := List (K × K × K)

/-- the computation of `Models.fit` for one source on the arrays held by the fitter -/
def fitOne (lg : K → K) (ln10 big : K) (ln1m : K → K) (st : FitterState K) (src : List (Obs K)) :
    FitResult K :=
  st.models.map (fun m =>
    match st.logd with
    | none => obsFit2 lg ln10 big ln1m st.lo st.hi src st.ks (m.headD [])
    | some logd =>
      let r := obsFit3 lg ln10 big ln1m st.lo st.hi logd src st.ks m
      (r.1, r.2.1, r.2.2.1))

/-- `Fitter.fit`: new state (the old one, untouched) and the result -/
def fitStep (lg : K → K) (ln10 big : K) (ln1m : K → K) (st : FitterState K) (src : List (Obs K)) :
    FitterState K × FitResult K :=
  (st, fitOne lg ln10 big ln1m st src)

/-- a history of calls on one fitter object, threading the state -/
def fitAll (lg : K → K) (ln10 big : K) (ln1m : K → K) :
    FitterState K → List (List (Obs K)) → FitterState K × List (FitResult K)
  | st, [] => (st, [])
  | st, s :: ss =>
    let (st1, r) := fitStep lg ln10 big ln1m st s
    let (st2, rs) := fitAll lg ln10 big ln1m st1 ss
    (st2, r :: rs)

end SF
