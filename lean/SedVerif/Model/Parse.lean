/-!
# Source lines (C20): `Source.from_ascii`, `Source.to_ascii`, `to_dict/from_dict`, `__getstate__/__setstate__`

A Python `str` is a `List Char` here (`Str`); a *token* is one element of `line.split()`.

* `splitWs`       — `str.split()` with no argument: split on runs of `str.isspace` characters, no empty tokens.
* `fromAsciiToks` — the body of `Source.from_ascii` after `cols = line.split()`, statement by statement:
  `len(cols) < 3 → EOFError`; `name = cols[0]`; `x = np.float64(cols[1])`; `y = np.float64(cols[2])`;
  `n_wav = np.int32((len(cols) - 3) / 3)` (float division then truncation; `len ≥ 3`, so this is `Nat` division);
  `valid = np.array(cols[3:3+n_wav], dtype=int)` through the `valid` setter (range check `{0,1,2,3,4,9}`);
  `flux_and_error = np.array(cols[3+n_wav:], dtype=float)`; `flux = …[::2]`, `error = …[1::2]` through the
  setters' length cross-checks against `n_wav = len(valid)`.
  Python exceptions are `Except PErr`: `eof` (`EOFError`: ends the input in `fit()`), and three kinds of
  `ValueError` (`badNumber`, `badFlag`, `badColumns`), in the order in which the code raises them.
* `toAsciiToks` / `toAscii` — `Source.to_ascii`: `"{0:30s} {1:9.5f} {2:9.5f} "`, then `"{0:1d} "` per flag, then
  `"{0:11.3e} {1:11.3e} "` per band (`for j in range(n_wav)` indexing `flux[j]`, `error[j]`: `none` = `IndexError`).
* numbers are abstract in `fromAsciiToks`/`toAsciiToks` (`parse : Str → Option K`, `fmtF fmtE : K → Str`);
  the driver instantiates `K := XNum`, `parse := parsePy` (Python's `float()` grammar: `parseNum` plus PEP 515
  underscores plus `inf`/`infinity`/`nan`; `C20_parsePy_extends` shows it agrees with `parseNum` on every
  literal without underscores); the executable instances are `parseNum` (plain decimal literals
  `[sign] digits [. digits] [e [sign] digits]`, the subset of Python's `float()` grammar without `_`, `inf`, `nan`,
  non-ASCII digits), `fmtE3` (`%.3e`: exact rational in, correctly rounded, ties to even — Python formats the
  exact binary value of the double) and `fmtF5` (`%.5f`), split into a numeric core (`roundE3`, `roundF5` : a
  decimal `Dec`) and a renderer (`renderE3`, `renderF5`).
* `toDict`/`fromDict` — the six-field state dictionary; `from_dict` and `__setstate__` assign the six fields
  through the property setters (type checks, range check, length cross-checks) in the order
  name, x, y, valid, flux, error.
-/
namespace SF.Parse

abbrev Str := List Char

/-! ### `str.split()` -/

/-- `str.isspace` for one character (Python 3.12: 29 code points) -/
def isWs (c : Char) : Bool :=
  let n := c.toNat
  (9 ≤ n && n ≤ 13) || (28 ≤ n && n ≤ 32) || n == 0x85 || n == 0xa0 || n == 0x1680 ||
  (0x2000 ≤ n && n ≤ 0x200a) || n == 0x2028 || n == 0x2029 || n == 0x202f || n == 0x205f || n == 0x3000

/-- `cur` = the current token, reversed -/
def splitAux : List Char → List Char → List Str
  | [], cur => if cur = [] then [] else [cur.reverse]
  | c :: r, cur =>
    if isWs c then (if cur = [] then splitAux r [] else cur.reverse :: splitAux r [])
    else splitAux r (c :: cur)

/-- `line.split()` -/
def splitWs (line : Str) : List Str := splitAux line []

/-! ### the parsed source -/

structure Src (K : Type) where
  name : Str
  x : K
  y : K
  valid : List Int
  flux : List K
  error : List K
  deriving DecidableEq, Repr

/-- error kinds of `from_ascii` -/
inductive PErr where
  /-- `EOFError`: fewer than three columns; `fit()` stops reading -/
  | eof
  /-- `ValueError` from the flux / error setters: length differs from `len(valid)` -/
  | badColumns
  /-- `ValueError` from the `valid` setter: a flag outside `{0,1,2,3,4,9}` -/
  | badFlag
  /-- `ValueError` from `np.float64(str)` / `np.array(strs, dtype=int|float)` -/
  | badNumber
  deriving DecidableEq, Repr

/-- `a[::2]` -/
def evens {α : Type} : List α → List α
  | [] => []
  | [a] => [a]
  | a :: _ :: r => a :: evens r

/-- `a[1::2]` -/
def odds {α : Type} : List α → List α
  | [] => []
  | [_] => []
  | _ :: b :: r => b :: odds r

/-- `np.array(list_of_str, dtype=…)`: every element must convert -/
def mapOpt {α β : Type} (f : α → Option β) : List α → Option (List β)
  | [] => some []
  | a :: r =>
    match f a with
    | none => none
    | some b =>
      match mapOpt f r with
      | none => none
      | some bs => some (b :: bs)

/-- the `valid` setter accepts `v` iff not `(v < 0) | ((v > 4) & (v != 9))` -/
def validFlag (v : Int) : Bool := !(decide (v < 0) || (decide (4 < v) && v != 9))

/-! ### integers and decimal digits (concrete) -/

def digitVal (c : Char) : Option Nat :=
  if 48 ≤ c.toNat ∧ c.toNat ≤ 57 then some (c.toNat - 48) else none

def digitChar (d : Nat) : Char := Char.ofNat (48 + d)

/-- scan a (possibly empty) run of ASCII digits: value accumulated onto `acc`, count added to `cnt`, rest -/
def scanDigits : List Char → Nat → Nat → Nat × Nat × List Char
  | [], acc, cnt => (acc, cnt, [])
  | c :: r, acc, cnt =>
    match digitVal c with
    | some d => scanDigits r (acc * 10 + d) (cnt + 1)
    | none => (acc, cnt, c :: r)

def parseSign : List Char → Bool × List Char
  | '-' :: r => (true, r)
  | '+' :: r => (false, r)
  | cs => (false, cs)

/-- `[sign] digits` (leading zeros allowed, as in `int('01')`) -/
def parseIntPlain (s : Str) : Option Int :=
  let (neg, r) := parseSign s
  let (v, cnt, rest) := scanDigits r 0 0
  if cnt = 0 ∨ rest ≠ [] then none else some (if neg then -(v : Int) else (v : Int))

def isDigit (c : Char) : Bool := (digitVal c).isSome

/-- PEP 515: `int()` and `float()` accept single underscores *between two digits* (`'1_0'` is ten);
    `prev` = the previous character was a digit.  `none` = a misplaced underscore (`ValueError`). -/
def stripUsAux : Bool → List Char → Option (List Char)
  | _, [] => some []
  | prev, c :: r =>
    if c = '_' then
      if prev then
        match r with
        | d :: _ => if isDigit d then stripUsAux false r else none
        | [] => none
      else none
    else
      match stripUsAux (isDigit c) r with
      | none => none
      | some t => some (c :: t)

def stripUs (s : Str) : Option Str := stripUsAux false s

/-- `int(str)` as `np.array(strs, dtype=int)` applies it to one token: `[sign] digits`, digits possibly
    grouped by single underscores (non-ASCII digits, which Python also accepts, are not modelled) -/
def parseInt (s : Str) : Option Int :=
  match stripUs s with
  | none => none
  | some t => parseIntPlain t

/-- the `w` least significant decimal digits of `n`, most significant first -/
def digitsW : Nat → Nat → List Char
  | 0, _ => []
  | w + 1, n => digitsW w (n / 10) ++ [digitChar (n % 10)]

def ndigitsAux : Nat → Nat → Nat
  | 0, _ => 1
  | f + 1, n => if n < 10 then 1 else ndigitsAux f (n / 10) + 1

/-- number of decimal digits of `n` (1 for 0) -/
def ndigits (n : Nat) : Nat := ndigitsAux n n

/-- `str(n)` -/
def natDigits (n : Nat) : List Char := digitsW (ndigits n) n

/-- `"{0:1d}".format(v)` -/
def fmtD (v : Int) : Str :=
  if v < 0 then '-' :: natDigits v.natAbs else natDigits v.natAbs

/-! ### `from_ascii` -/
section
variable {K : Type}

/-- `Source.from_ascii` after `cols = line.split()` -/
def fromAsciiToks (parse : Str → Option K) (cols : List Str) : Except PErr (Src K) :=
  if cols.length < 3 then .error .eof
  else
    match cols with
    | name :: xs :: ys :: rest =>
      match parse xs with
      | none => .error .badNumber
      | some x =>
        match parse ys with
        | none => .error .badNumber
        | some y =>
          let n := (cols.length - 3) / 3
          match mapOpt parseInt (rest.take n) with
          | none => .error .badNumber
          | some valid =>
            if valid.all validFlag then
              match mapOpt parse (rest.drop n) with
              | none => .error .badNumber
              | some fe =>
                if (evens fe).length ≠ valid.length then .error .badColumns
                else if (odds fe).length ≠ valid.length then .error .badColumns
                else .ok ⟨name, x, y, valid, evens fe, odds fe⟩
            else .error .badFlag
    | _ => .error .eof

/-- `Source.from_ascii(line)` -/
def fromAscii (parse : Str → Option K) (line : Str) : Except PErr (Src K) :=
  fromAsciiToks parse (splitWs line)

/-! ### `to_ascii` -/

/-- `for j in range(n): "{:11.3e} {:11.3e} ".format(flux[j], error[j])` at token level -/
def pairToks (fmtE : K → Str) : Nat → List K → List K → Option (List Str)
  | 0, _, _ => some []
  | n + 1, f :: fs, e :: es =>
    match pairToks fmtE n fs es with
    | none => none
    | some r => some (fmtE f :: fmtE e :: r)
  | _ + 1, _, _ => none

/-- the tokens of `to_ascii()`: name, x, y, flags, (flux, error) pairs -/
def toAsciiToks (fmtF fmtE : K → Str) (s : Src K) : Option (List Str) :=
  match pairToks fmtE s.valid.length s.flux s.error with
  | none => none
  | some ps => some (s.name :: fmtF s.x :: fmtF s.y :: (s.valid.map fmtD ++ ps))

def spaces (n : Nat) : List Char := List.replicate n ' '

/-- `"{:>w}"`: right-aligned in width `w` (numbers) -/
def padLeft (w : Nat) (s : Str) : Str := spaces (w - s.length) ++ s

/-- `"{:<w}"`: left-aligned in width `w` (strings); pads, never truncates -/
def padRight (w : Nat) (s : Str) : Str := s ++ spaces (w - s.length)

def pairText (fmtE : K → Str) : Nat → List K → List K → Option Str
  | 0, _, _ => some []
  | n + 1, f :: fs, e :: es =>
    match pairText fmtE n fs es with
    | none => none
    | some r => some (padLeft 11 (fmtE f) ++ ' ' :: (padLeft 11 (fmtE e) ++ ' ' :: r))
  | _ + 1, _, _ => none

def flagText : List Int → Str
  | [] => []
  | v :: r => padLeft 1 (fmtD v) ++ ' ' :: flagText r

/-- the text of `to_ascii()` -/
def toAscii (fmtF fmtE : K → Str) (s : Src K) : Option Str :=
  match pairText fmtE s.valid.length s.flux s.error with
  | none => none
  | some ps =>
    some (padRight 30 s.name ++ ' ' :: (padLeft 9 (fmtF s.x) ++ ' ' :: (padLeft 9 (fmtF s.y) ++ ' ' ::
      (flagText s.valid ++ ps))))

/-! ### state dictionary -/

inductive Val (K : Type) where
  | str (s : Str)
  | num (x : K)
  | ints (l : List Int)
  | nums (l : List K)

abbrev Dict (K : Type) := List (String × Val K)

/-- errors of the setters / of the dictionary lookups -/
inductive DErr where
  | keyError
  | typeError
  | valueError
  deriving DecidableEq, Repr

/-- `to_dict()` and `__getstate__()` build the same six-key dictionary -/
def toDict (s : Src K) : Dict K :=
  [("name", .str s.name), ("x", .num s.x), ("y", .num s.y),
   ("valid", .ints s.valid), ("flux", .nums s.flux), ("error", .nums s.error)]

def getKey (d : Dict K) (k : String) : Except DErr (Val K) :=
  match d.lookup k with
  | none => .error .keyError
  | some v => .ok v

/-- `from_dict(d)` and `__setstate__(d)`: a fresh object, then the six setters in order.  On a fresh
    object `n_wav` is `None` when `valid` is assigned (no length check), and `len(valid)` afterwards. -/
def fromDict (d : Dict K) : Except DErr (Src K) := do
  let name ← match (← getKey d "name") with
    | .str s => pure s
    | _ => throw .typeError
  let x ← match (← getKey d "x") with
    | .num v => pure v
    | _ => throw .typeError
  let y ← match (← getKey d "y") with
    | .num v => pure v
    | _ => throw .typeError
  let valid ← match (← getKey d "valid") with
    | .ints l => if l.all validFlag then pure l else throw .valueError
    | _ => throw .typeError
  let flux ← match (← getKey d "flux") with
    | .nums l => if l.length ≠ valid.length then throw .valueError else pure l
    | _ => throw .typeError
  let error ← match (← getKey d "error") with
    | .nums l => if l.length ≠ valid.length then throw .valueError else pure l
    | _ => throw .typeError
  pure ⟨name, x, y, valid, flux, error⟩

end

/-! ### executable numbers over `Rat` -/

/-- `10^e` for an integer exponent -/
def pow10 (e : Int) : Rat :=
  if 0 ≤ e then (10 : Rat) ^ e.toNat else 1 / (10 : Rat) ^ (-e).toNat

/-- after `e`/`E`: `[sign] digits`, to the end -/
def parseExp (cs : List Char) : Option Int :=
  let (neg, r) := parseSign cs
  let (v, cnt, rest) := scanDigits r 0 0
  if cnt = 0 ∨ rest ≠ [] then none else some (if neg then -(v : Int) else (v : Int))

/-- `float(str)` on plain decimal literals, exact -/
def parseNum (cs : Str) : Option Rat :=
  let (neg, r0) := parseSign cs
  let (ip, ic, r1) := scanDigits r0 0 0
  let (m, fc, r2) :=
    match r1 with
    | '.' :: r => scanDigits r ip 0
    | _ => (ip, 0, r1)
  if ic + fc = 0 then none
  else
    let ex : Option Int :=
      match r2 with
      | [] => some 0
      | c :: r => if c = 'e' ∨ c = 'E' then parseExp r else none
    match ex with
    | none => none
    | some e =>
      let v := (m : Rat) * pow10 (e - fc)
      some (if neg then -v else v)

/-- what `float(str)` can return: a finite value (exact rational here), an infinity or NaN -/
inductive XNum where
  | fin (q : Rat)
  | pinf
  | ninf
  | nan
  deriving DecidableEq, Repr

def lowerAscii (c : Char) : Char :=
  if 65 ≤ c.toNat ∧ c.toNat ≤ 90 then Char.ofNat (c.toNat + 32) else c

/-- `float(str)` / `np.float64(str)` / `np.array(strs, dtype=float)` on one token: a decimal literal
    (`parseNum`, digits possibly grouped by single underscores), else `[sign] inf | infinity | nan` in any
    letter case.  Not modelled: non-ASCII digits; overflow to `inf` / underflow to `0` of huge exponents. -/
def parsePy (s : Str) : Option XNum :=
  match (match stripUs s with
         | none => none
         | some t => parseNum t) with
  | some q => some (.fin q)
  | none =>
    let (neg, r) := parseSign s
    let l := r.map lowerAscii
    if l = ['i', 'n', 'f'] ∨ l = ['i', 'n', 'f', 'i', 'n', 'i', 't', 'y'] then
      some (if neg then .ninf else .pinf)
    else if l = ['n', 'a', 'n'] then some .nan
    else none

/-- `a / b` rounded to the nearest natural, ties to even -/
def roundHEdiv (a b : Nat) : Nat :=
  let f := a / b
  let r := a % b
  if 2 * r < b then f else if b < 2 * r then f + 1 else if f % 2 = 0 then f else f + 1

def ilog10Aux : Nat → Nat → Nat
  | 0, _ => 0
  | f + 1, n => if n < 10 then 0 else ilog10Aux f (n / 10) + 1

/-- `⌊log₁₀ n⌋` for `n ≥ 1` -/
def ilog10 (n : Nat) : Nat := ilog10Aux n n

/-- the decimal exponent of `p/q` (`p, q ≥ 1`): the `e` with `10^e ≤ p/q < 10^(e+1)` -/
def decExp (p q : Nat) : Int :=
  let e0 : Int := (ilog10 p : Int) - (ilog10 q : Int)
  if pow10 e0 * (q : Rat) ≤ (p : Rat) then e0 else e0 - 1

/-- a signed decimal `± m · 10^e10` -/
structure Dec where
  neg : Bool
  m : Nat
  e10 : Int
  deriving DecidableEq, Repr

def Dec.val (d : Dec) : Rat :=
  let v := (d.m : Rat) * pow10 d.e10
  if d.neg then -v else v

/-- `p/q · 10^k` rounded half-even to a natural -/
def scaledRound (p q : Nat) (k : Int) : Nat :=
  if 0 ≤ k then roundHEdiv (p * 10 ^ k.toNat) q else roundHEdiv p (q * 10 ^ (-k).toNat)

/-- numeric core of `%.3e`: four significant digits `m ∈ [1000, 9999]` and the exponent of the last one
    (`0` is `0·10^-3`, printed `0.000e+00`) -/
def roundE3 (v : Rat) : Dec :=
  let p := v.num.natAbs
  let q := v.den
  if p = 0 then ⟨false, 0, -3⟩
  else
    let e := decExp p q
    let m := scaledRound p q (3 - e)
    if m = 10000 then ⟨decide (v < 0), 1000, e + 1 - 3⟩ else ⟨decide (v < 0), m, e - 3⟩

/-- numeric core of `%.5f`: the value in units of `10⁻⁵` -/
def roundF5 (v : Rat) : Dec :=
  ⟨decide (v < 0), scaledRound v.num.natAbs v.den 5, -5⟩

def signChars (neg : Bool) : List Char := if neg then ['-'] else []

/-- `d.ddde±XX` (at least two exponent digits) from `m` (four digits) and the exponent of its last digit -/
def renderE3 (d : Dec) : Str :=
  let e := d.e10 + 3
  signChars d.neg ++ digitsW 1 (d.m / 1000) ++ '.' :: (digitsW 3 (d.m % 1000) ++
    'e' :: ((if e < 0 then '-' else '+') :: digitsW (max 2 (ndigits e.natAbs)) e.natAbs))

/-- `i.fffff` from the value in units of `10⁻⁵` -/
def renderF5 (d : Dec) : Str :=
  signChars d.neg ++ natDigits (d.m / 100000) ++ '.' :: digitsW 5 (d.m % 100000)

/-- `"%.3e" % v` (the token that `"{:11.3e}"` right-aligns) -/
def fmtE3 (v : Rat) : Str := renderE3 (roundE3 v)

/-- `"%.5f" % v` (the token that `"{:9.5f}"` right-aligns) -/
def fmtF5 (v : Rat) : Str := renderF5 (roundF5 v)

end SF.Parse
