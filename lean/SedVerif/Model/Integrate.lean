import SedVerif.Model.Interp
/-!
# Model of `utils/integrate.py`, `Filter.normalize`, `Filter.rebin` and the broadband sums of
# `convolve/convolve.py`

A tabulated curve is a list of nodes `(x, y)` in *stored* order (frequency, response).  The model
follows the code's mechanism: reverse the arrays when stored in decreasing `x`, swap the limits,
the two `searchsorted` calls as `dropWhile` / `takeWhile` on the sorted node list, the special cases
at both end nodes, `hstack` of `(xmin, ymin)`, the slice and `(xmax, ymax)`, trapezium sum.

Domain: at least one node (the code raises `IndexError` on an empty table: `rebinE`), strictly
monotonic abscissae, finite values (`integrate` replaces NaN by 0 in place: not modelled).
-/
namespace SF
variable {K : Type} [Zero K] [One K] [Add K] [Sub K] [Mul K] [Div K] [Neg K]
  [LT K] [DecidableLT K] [LE K] [DecidableLE K] [DecidableEq K]

/-- `integrate()`: `np.sum(0.5 * (x[1:] - x[:-1]) * (y[1:] + y[:-1]))` -/
def trapz : List (K × K) → K
  | p0 :: p1 :: rest => (p1.1 - p0.1) * (p1.2 + p0.2) / two + trapz (p1 :: rest)
  | _ => 0

/-- `interp1d_fast(x[i-1:i+1], y[i-1:i+1], t)` with `i = searchsorted(x, t)` (first index whose
    abscissa is `≥ t`), for `t` above the first node -/
def interpAt : List (K × K) → K → K
  | p0 :: p1 :: rest => fun t => if t ≤ p1.1 then lin p0 p1 t else interpAt (p1 :: rest) t
  | _ => fun _ => 0

/-- `integrate_subset` once the nodes are in increasing `x` and `xmin < xmax`:
    `i1 = 1` / `searchsorted(x, xmin)`, `i2 = -1` / `searchsorted(x, xmax)`,
    `integrate(hstack[xmin, x[i1:i2], xmax], hstack[ymin, y[i1:i2], ymax])` -/
def integrateInc (pts : List (K × K)) (a b : K) : K :=
  match pts with
  | [] => 0
  | p0 :: tl =>
    let pl := lastD tl p0
    let ya := if a = p0.1 then p0.2 else interpAt pts a
    let yb := if b = pl.1 then pl.2 else interpAt pts b
    let m := if a = p0.1 then tl.takeWhile (fun p => p.1 < b)
             else (pts.dropWhile (fun p => p.1 < a)).takeWhile (fun p => p.1 < b)
    trapz ((a, ya) :: (m ++ [(b, yb)]))

/-- `integrate_subset(x, y, xmin, xmax)`: nodes in stored order, limits in either order -/
def integrateSubset (pts : List (K × K)) (xmin xmax : K) : K :=
  match pts with
  | [] => 0
  | p0 :: tl =>
    -- `if x[-1] < x[0]: x = x[::-1]; y = y[::-1]`
    let inc := if (lastD tl p0).1 < p0.1 then pts.reverse else pts
    -- `if xmin > xmax: swap  elif xmin == xmax: return 0.`
    if xmax < xmin then integrateInc inc xmax xmin
    else if xmin = xmax then 0
    else integrateInc inc xmin xmax

/-- `Filter.normalize`: `response / np.abs(integrate(nu, response))` (integral in stored order) -/
def normalize (pts : List (K × K)) : List (K × K) :=
  pts.map (fun p => (p.1, p.2 / absK (trapz pts)))

/-- one pass of the loop body of `Filter.rebin`: clip both edges to `[lo, hi]`, integrate unless the
    clipped edges coincide (`f.response` was initialised with zeros) -/
def binResp (flt : List (K × K)) (lo hi : K) (e1 e2 : K) : K :=
  let c1 := clampK lo hi e1
  let c2 := clampK lo hi e2
  if c2 = c1 then 0 else integrateSubset flt c1 c2

/-- bin edges of the new grid: first edge `ν₀`, midpoints `0.5·(ν_{i-1}+ν_i)`, last edge `ν_last` -/
def edgesAux : K → List K → List K
  | n, [] => [n]
  | n, m :: rest => (n + m) / two :: edgesAux m rest

def binEdges : List K → List K
  | [] => []
  | n0 :: rest => n0 :: edgesAux n0 rest

/-- the loop of `Filter.rebin` from the bin whose left edge is `e1` and whose centre is `n` -/
def rebinAux (f : K → K → K) : K → K → List K → List K
  | e1, n, [] => [f e1 n]
  | e1, n, m :: rest => f e1 ((n + m) / two) :: rebinAux f ((n + m) / two) m rest

/-- `Filter.rebin(nu_new).response`: filter nodes and new grid both in stored order -/
def rebin (flt : List (K × K)) (nus : List K) : List K :=
  match flt with
  | [] => []
  | p0 :: tl =>
    let pl := lastD tl p0
    let lo := if pl.1 < p0.1 then pl.1 else p0.1   -- `min(nu[0], nu[-1])`
    let hi := if p0.1 < pl.1 then pl.1 else p0.1   -- `max(nu[0], nu[-1])`
    match nus with
    | [] => []
    | n0 :: rest => rebinAux (binResp flt lo hi) n0 n0 rest

inductive IntegErr where
  | emptyTable
  deriving DecidableEq, Repr

/-- `rebin` with the code's `IndexError` on a filter without samples -/
def rebinE (flt : List (K × K)) (nus : List K) : Except IntegErr (List K) :=
  match flt with
  | [] => .error .emptyTable
  | _ => .ok (rebin flt nus)

/-- `np.sum(s.flux * f.response)` for one aperture -/
def convolve : List K → List K → K
  | f :: fs, r :: rs => f * r + convolve fs rs
  | _, _ => 0

/-- `np.sum((s.error * f.response) ** 2)`: the variance, i.e. the square of the stored error -/
def convolveVar : List K → List K → K
  | e :: es, r :: rs => (e * r) * (e * r) + convolveVar es rs
  | _, _ => 0

/-- the convolved flux of one aperture as `_convolve_model_dir_1/_2` compute it: re-bin the filter onto
    the SED's frequency grid, then `np.sum(s.flux * f.response)` -/
def broadband (flt : List (K × K)) (nus : List K) (flux : List K) : K :=
  convolve flux (rebin flt nus)

/-- the square of the convolved error: `np.sum((s.error * f.response) ** 2)` with the same re-binned filter -/
def broadbandVar (flt : List (K × K)) (nus : List K) (err : List K) : K :=
  convolveVar err (rebin flt nus)

/-- spec: integral of the piecewise-linear interpolant of increasing nodes from the first node to `t` -/
def cumInt : List (K × K) → K → K
  | p0 :: p1 :: rest => fun t =>
      if t ≤ p0.1 then 0
      else if t ≤ p1.1 then (t - p0.1) * (p0.2 + lin p0 p1 t) / two
      else (p1.1 - p0.1) * (p0.2 + p1.2) / two + cumInt (p1 :: rest) t
  | _ => fun _ => 0

end SF
