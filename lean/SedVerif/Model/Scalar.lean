/-!
# Scalars

Model definitions are generic over a scalar type `K` that carries only core notation classes, so
model files import nothing outside this project.  Proof files re-open the same definitions at
`[Field K] [LinearOrder K] [IsStrictOrderedRing K]`; the driver runs them at `K := Rat`.
-/
namespace SF
variable {K : Type} [Zero K] [One K] [Add K] [Sub K] [Mul K] [Div K] [Neg K]
  [LT K] [DecidableLT K] [LE K] [DecidableLE K] [DecidableEq K]

/-- the literal `2.` of the Python sources -/
def two : K := 1 + 1

/-- `np.abs` on one scalar -/
def absK (x : K) : K := if x < 0 then -x else x

/-- `np.sum(f(x))` over a list -/
def sumBy {α : Type} (f : α → K) : List α → K
  | [] => 0
  | p :: ps => f p + sumBy f ps

/-- `min(max(x, lo), hi)` as written in `Filter.rebin` -/
def clampK (lo hi x : K) : K :=
  let y := if x < lo then lo else x
  if hi < y then hi else y

/-- last element with default -/
def lastD {α : Type} : List α → α → α
  | [], d => d
  | p :: rest, _ => lastD rest p

end SF
