import SedVerif.Model.Scalar
/-!
# Model of `sed/helpers.py:convert_flux`

`convert_flux(nu, flux, target_unit, distance)` goes through erg/cm²/s in two steps chosen by
`Unit.is_equivalent`: a luminosity (equivalent to erg/s) is divided by `distance²`, a spectral flux
density (equivalent to Jy) is multiplied by `nu`, a flux (equivalent to erg/cm²/s) is left alone,
anything else raises; then the inverse operation for the target family, and `.to(target_unit)`.

A unit is represented by what `convert_flux` can see of it: its family and the value of one unit in
the cgs base unit of that family (erg/cm²/s/Hz, erg/cm²/s, erg/s), a field element.  `ν` is in Hz
and `d` in cm, so the base units are coherent.
-/
namespace SF
variable {K : Type} [Zero K] [One K] [Add K] [Sub K] [Mul K] [Div K] [Neg K]
  [LT K] [DecidableLT K] [LE K] [DecidableLE K] [DecidableEq K]

/-- the three families `convert_flux` distinguishes -/
inductive Family where
  | fnu    -- equivalent to Jy
  | flux   -- equivalent to erg/cm²/s
  | lum    -- equivalent to erg/s
  deriving DecidableEq, Repr

/-- a unit as `convert_flux` sees it; `fam = none`: equivalent to none of the three families -/
structure FUnit (K : Type) where
  fam : Option Family
  scale : K

inductive UnitErr where
  | unsupported
  deriving DecidableEq, Repr

/-- first half of `convert_flux`: to erg/cm²/s -/
def toFlux (ν d : K) (A : FUnit K) (v : K) : Except UnitErr K :=
  match A.fam with
  | some .lum => .ok (v * A.scale / (d * d))
  | some .fnu => .ok (v * A.scale * ν)
  | some .flux => .ok (v * A.scale)
  | none => .error .unsupported

/-- second half of `convert_flux`: from erg/cm²/s to the requested unit -/
def fromFlux (ν d : K) (B : FUnit K) (f : K) : Except UnitErr K :=
  match B.fam with
  | some .lum => .ok (f * (d * d) / B.scale)
  | some .fnu => .ok (f / ν / B.scale)
  | some .flux => .ok (f / B.scale)
  | none => .error .unsupported

/-- `convert_flux` for one value at frequency `ν` of an SED at distance `d` -/
def convertFlux (ν d : K) (A B : FUnit K) (v : K) : Except UnitErr K :=
  match toFlux ν d A v with
  | .ok f => fromFlux ν d B f
  | .error e => .error e

/-- the same over one aperture row (`flux[ap, :]` against `nu[:]`) -/
def convertRow (d : K) (A B : FUnit K) : List K → List K → Except UnitErr (List K)
  | ν :: νs, v :: vs =>
    match convertFlux ν d A B v, convertRow d A B νs vs with
    | .ok r, .ok rs => .ok (r :: rs)
    | .error e, _ => .error e
    | _, .error e => .error e
  | _, _ => .ok []

/-- the value expressed in the cgs base unit of its family -/
def phys (U : FUnit K) (v : K) : K := v * U.scale

/-- what the first half of `convert_flux` multiplies a value (already in base units) by: `/ d²`, `* ν`, nothing -/
def famTo (ν d : K) : Family → K
  | .lum => 1 / (d * d)
  | .fnu => ν
  | .flux => 1

/-- what the second half multiplies by: `* d²`, `/ ν`, nothing -/
def famFrom (ν d : K) : Family → K
  | .lum => d * d
  | .fnu => 1 / ν
  | .flux => 1

/-- the single factor a conversion between two supported units amounts to -/
def convFactor (ν d : K) (fa fb : Family) (sa sb : K) : K := sa * famTo ν d fa * famFrom ν d fb / sb

/-- the distance `SED.read` attaches to a file: the `DISTANCE` keyword when present, else 1 kpc (given in cm) -/
def readDistance (keyword : Option K) (kpc : K) : K :=
  match keyword with
  | some x => x
  | none => kpc

end SF
