import SedVerif.Model.Extinction
/-!
# Model of the persistence paths of `Extinction`

An `Extinction` object is what its two attributes hold: a wavelength `Quantity` (unit + values) and an
opacity `Quantity` (unit + values).  Units are opaque labels `U` here (astropy unit objects); `get_av`
converts V and the query to the *wavelength unit of the object* before interpolating, so a path that
keeps both units and both value columns keeps `get_av`.

* `__getstate__` returns `{'wav': self.wav, 'chi': self.chi}`; `__setstate__` runs `__init__` and assigns
  both attributes back.
* `to_table` puts the two Quantities into two table columns (`data` + `unit`); `from_table` multiplies
  `column.data * column.unit` back.
* `from_file` reads two columns of a text table with `np.loadtxt(usecols=columns)` and attaches the
  units given by the caller; a missing column is an error (`loadtxt` raises).
-/
namespace SF
variable {K : Type} [Zero K] [One K] [Add K] [Sub K] [Mul K] [Div K] [Neg K]
  [LT K] [DecidableLT K] [LE K] [DecidableLE K] [DecidableEq K]

/-- a `Quantity` column: unit label and values -/
structure QCol (U K : Type) where
  unit : U
  vals : List K

/-- the state of an `Extinction` object: `self.wav`, `self.chi` -/
structure ExtLaw (U K : Type) where
  wav : QCol U K
  chi : QCol U K

/-- the table `(wavelength, chi)` that `get_av` interpolates in: `zip(self.wav.value, self.chi.value)` -/
def ExtLaw.tab {U : Type} (law : ExtLaw U K) : List (K × K) := law.wav.vals.zip law.chi.vals

/-- `get_av` once V and the query are expressed in `law.wav.unit` -/
def ExtLaw.av {U : Type} (law : ExtLaw U K) (v x : K) : K := getAv law.tab v x

/-- `__getstate__`: a dict with the two attributes, modelled as the pair (`'wav'`, `'chi'`) -/
def extGetState {U : Type} (law : ExtLaw U K) : QCol U K × QCol U K := (law.wav, law.chi)

/-- `__setstate__`: `__init__()` then `self.wav = d['wav']; self.chi = d['chi']` -/
def extSetState {U : Type} (d : QCol U K × QCol U K) : ExtLaw U K := ⟨d.1, d.2⟩

/-- an astropy `Table` column: `.data` and `.unit` -/
structure TCol (U K : Type) where
  data : List K
  unit : U

/-- `to_table`: `t['wav'] = self.wav; t['chi'] = self.chi` -/
def extToTable {U : Type} (law : ExtLaw U K) : TCol U K × TCol U K :=
  (⟨law.wav.vals, law.wav.unit⟩, ⟨law.chi.vals, law.chi.unit⟩)

/-- `from_table`: `table['wav'].data * table['wav'].unit`, same for `chi` -/
def extFromTable {U : Type} (t : TCol U K × TCol U K) : ExtLaw U K :=
  ⟨⟨t.1.unit, t.1.data⟩, ⟨t.2.unit, t.2.data⟩⟩

inductive ExtErr where
  | missingColumn
  deriving DecidableEq, Repr

/-- the two selected columns of the rows of a text table (`np.loadtxt(..., usecols=(i, j))`) -/
def selectCols (i j : Nat) : List (List K) → Except ExtErr (List K × List K)
  | [] => .ok ([], [])
  | row :: rows =>
    match row[i]?, row[j]?, selectCols i j rows with
    | some w, some c, .ok (ws, cs) => .ok (w :: ws, c :: cs)
    | _, _, _ => .error .missingColumn

/-- `Extinction.from_file(filename, columns=(i, j), wav_unit, chi_unit)` on the parsed rows -/
def extFromFile {U : Type} (rows : List (List K)) (i j : Nat) (wavUnit chiUnit : U) :
    Except ExtErr (ExtLaw U K) :=
  match selectCols i j rows with
  | .ok (ws, cs) => .ok ⟨⟨wavUnit, ws⟩, ⟨chiUnit, cs⟩⟩
  | .error e => .error e

/-! ## Several law objects: copies and later assignments

Objects live in a heap (a list; the index is the object's identity).  `copy.copy`, `copy.deepcopy` and a
pickle round trip all create a NEW object from the explicit state (`__getstate__` / `__setstate__` build a
fresh attribute dict); assigning `law.chi = …` or `law.wav = …` replaces an attribute of ONE object. -/

/-- `copy.copy(h[i])` / `copy.deepcopy(h[i])` / `pickle.loads(pickle.dumps(h[i]))`: the new object is appended -/
def heapCopy {U : Type} (h : List (ExtLaw U K)) (i : Nat) : List (ExtLaw U K) :=
  match h[i]? with
  | some law => h ++ [extSetState (extGetState law)]
  | none => h

/-- `to_table` followed by `from_table`: a new object as well -/
def heapViaTable {U : Type} (h : List (ExtLaw U K)) (i : Nat) : List (ExtLaw U K) :=
  match h[i]? with
  | some law => h ++ [extFromTable (extToTable law)]
  | none => h

/-- `h[i].chi = c` -/
def heapSetChi {U : Type} (h : List (ExtLaw U K)) (i : Nat) (c : QCol U K) : List (ExtLaw U K) :=
  match h[i]? with
  | some law => h.set i { law with chi := c }
  | none => h

/-- `h[i].wav = w` -/
def heapSetWav {U : Type} (h : List (ExtLaw U K)) (i : Nat) (w : QCol U K) : List (ExtLaw U K) :=
  match h[i]? with
  | some law => h.set i { law with wav := w }
  | none => h

end SF
