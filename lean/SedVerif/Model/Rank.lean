import SedVerif.Model.EF
import SedVerif.Model.Fit
/-!
# Model of `FitInfo.sort` and of the assembly of a result in `Models.fit`

The code keeps a *structure of arrays* (`av`, `sc`, `chi2`, `model_name`, `model_fluxes`,
`model_id`), computes ONE index vector `order = np.argsort(chi2)` and pushes every array through it
(`a[order]`); `model_id` becomes `order` itself.  The model does exactly that: `argsortEF` + `fancyIndex`.
It does not sort a list of rows.
-/
namespace SF
variable {K : Type} [Zero K] [One K] [Add K] [Sub K] [Mul K] [Div K] [Neg K]
  [LT K] [DecidableLT K] [LE K] [DecidableLE K] [DecidableEq K]

/-- `np.argsort(chi2)`: the indices `0..n-1` sorted (stable merge sort) by numpy's order on doubles,
    NaN last.  numpy's default sort is not stable; the order inside a group of equal keys is the only
    thing the model fixes and numpy does not, and no theorem below depends on it. -/
def argsortEF (chi2 : List (EF K)) : List Nat :=
  (List.range chi2.length).mergeSort (fun i j => EF.leSort (chi2.getD i EF.nan) (chi2.getD j EF.nan))

/-- numpy fancy indexing `xs[order]` (theorems show every index is in range, so the filler `d` never shows) -/
def fancyIndex {α : Type} (d : α) (order : List Nat) (xs : List α) : List α :=
  order.map (fun i => xs.getD i d)

/-- the per-fit arrays of a `FitInfo` -/
structure FitRows (K : Type) where
  av : List K
  sc : List K
  chi2 : List (EF K)
  name : List String
  /-- `model_fluxes` (one row of predicted log fluxes per model) or `None` -/
  fluxes : Option (List (List K))
  modelId : List Nat

/-- `FitInfo.sort` -/
def sortRows (x : FitRows K) : FitRows K :=
  let order := argsortEF x.chi2
  { av := fancyIndex 0 order x.av
    sc := fancyIndex 0 order x.sc
    chi2 := fancyIndex EF.nan order x.chi2
    name := fancyIndex "" order x.name
    fluxes := x.fluxes.map (fancyIndex [] order)
    modelId := order }

/-- one row of a result as a user reads it off the arrays at one index -/
structure Row (K : Type) where
  av : K
  sc : K
  chi2 : EF K
  name : String
  flux : Option (List K)

/-- the row at index `i`, if every array has that index -/
def rowAt (x : FitRows K) (i : Nat) : Option (Row K) :=
  match x.av[i]?, x.sc[i]?, x.chi2[i]?, x.name[i]? with
  | some a, some s, some c, some nm =>
    match x.fluxes with
    | none => some ⟨a, s, c, nm, none⟩
    | some fl =>
      match fl[i]? with
      | some f => some ⟨a, s, c, nm, some f⟩
      | none => none
  | _, _, _, _ => none

/-! ## assembling the result (`Models.fit`)

`info.av = av_best; info.sc = sc_best; info.chi2 = ch_best; info.model_name = self.names;
 info.model_fluxes = model_fluxes; info.sort()` -/

/-- one model of the package in the distance-independent mode: its name and its log10 fluxes -/
structure ModelRow (K : Type) where
  name : String
  mf : List K

/-- `Models.fit`, `ndim == 2`, before `info.sort()` -/
def fitRowsUnsorted2 (big : K) (ln1m : K → K) (lo hi : K) (lobs : List (LogObs K)) (ks : List K)
    (models : List (ModelRow K)) : FitRows K :=
  let res := models.map (fun m => fit2Full big ln1m lo hi (mkPts lobs m.mf ks))
  { av := res.map (·.1)
    sc := res.map (·.2.1)
    chi2 := res.map (fun r => EF.fin r.2.2)
    name := models.map (·.name)
    fluxes := some (models.map (fun m =>
      let ps := mkPts lobs m.mf ks
      let r := fit2 lo hi ps
      predicted2 r.1 r.2 ps m.mf))
    modelId := [] }

/-- `Models.fit`, `ndim == 2` -/
def fitRows2 (big : K) (ln1m : K → K) (lo hi : K) (lobs : List (LogObs K)) (ks : List K)
    (models : List (ModelRow K)) : FitRows K :=
  sortRows (fitRowsUnsorted2 big ln1m lo hi lobs ks models)

/-- distance-dependent mode, one model: the stored row `(model + model_fluxes)[m, best, :]` where
    `model = av_best[:, :, None] * av_law` (no scale term) and `best` is the reported distance index.
    `pss[d]` are the model's points at trial distance `d`, `mfss[d]` its log10 fluxes there. -/
def predictedRow3 (big : K) (ln1m : K → K) (lo hi : K) (pss : List (List (Pt K)))
    (mfss : List (List K)) : List K :=
  let per := fit3PerDist big ln1m lo hi pss
  let bi := (argminFirst (per.map (·.2))).1
  predicted2 (per.getD bi (0, 0)).1 0 (pss.getD bi []) (mfss.getD bi [])

/-! ## distance-dependent mode (`Models.fit`, `ndim == 3`) with the `extended` mask -/

/-- one model of an aperture-dependent package as `Models.fit` sees it -/
structure ModelRow3 (K : Type) where
  name : String
  /-- `log_fluxes_mJy[m]`: log10 fluxes `[trial distance][band]`, already interpolated to the aperture
      `θ·d` and scaled by `(1 kpc / d)²` (C02) -/
  mfss : List (List K)
  /-- `np.any(extended[m, d, valid > 0])` per trial distance; `[]` when `remove_resolved` is off -/
  ext : List Bool

/-- the per-distance point lists built from the model's own log fluxes (`residual = log_flux − model_fluxes`) -/
def pssOf (lobs : List (LogObs K)) (ks : List K) (mfss : List (List K)) : List (List (Pt K)) :=
  mfss.map (fun mf => mkPts lobs mf ks)

/-- `ch_best[reset] = np.inf`: chi² per trial distance, `+inf` where the model is resolved -/
def maskChi (per : List (K × K)) (ext : List Bool) : List (EF K) :=
  per.mapIdx (fun d p => if ext.getD d false then EF.pinf else EF.fin p.2)

/-- `np.argmin` over doubles without NaN: first index of the minimum, with the minimum -/
def argminFirstEFAux : List (EF K) → Nat → Nat → EF K → Nat × EF K
  | [], _, bi, bv => (bi, bv)
  | x :: xs, i, bi, bv =>
    if EF.lt x bv then argminFirstEFAux xs (i + 1) i x else argminFirstEFAux xs (i + 1) bi bv

def argminFirstEF : List (EF K) → Nat × EF K
  | [] => (0, EF.nan)
  | x :: xs => argminFirstEFAux xs 1 0 x

/-- `Models.fit`, `ndim == 3`, one model, with the mask: `(av, sc, chi2, best distance index)` -/
def fit3Ext (big : K) (ln1m : K → K) (lo hi : K) (logd : List K) (pss : List (List (Pt K)))
    (ext : List Bool) : K × K × EF K × Nat :=
  let per := fit3PerDist big ln1m lo hi pss
  let (bi, bc) := argminFirstEF (maskChi per ext)
  ((per.getD bi (0, 0)).1, logd.getD bi 0, bc, bi)

/-- the stored row `(model + model_fluxes)[m, best, :]` of one model, `model = av·av_law` -/
def predictedRow3Ext (big : K) (ln1m : K → K) (lo hi : K) (lobs : List (LogObs K)) (ks : List K)
    (m : ModelRow3 K) : List K :=
  let pss := pssOf lobs ks m.mfss
  let r := fit3Ext big ln1m lo hi [] pss m.ext
  predicted2 r.1 0 (pss.getD r.2.2.2 []) (m.mfss.getD r.2.2.2 [])

/-- `Models.fit`, `ndim == 3`, before `info.sort()` -/
def fitRowsUnsorted3 (big : K) (ln1m : K → K) (lo hi : K) (logd : List K) (lobs : List (LogObs K))
    (ks : List K) (models : List (ModelRow3 K)) : FitRows K :=
  let res := models.map (fun m => fit3Ext big ln1m lo hi logd (pssOf lobs ks m.mfss) m.ext)
  { av := res.map (·.1)
    sc := res.map (·.2.1)
    chi2 := res.map (·.2.2.1)
    name := models.map (·.name)
    fluxes := some (models.map (predictedRow3Ext big ln1m lo hi lobs ks))
    modelId := [] }

/-- `Models.fit`, `ndim == 3` -/
def fitRows3 (big : K) (ln1m : K → K) (lo hi : K) (logd : List K) (lobs : List (LogObs K))
    (ks : List K) (models : List (ModelRow3 K)) : FitRows K :=
  sortRows (fitRowsUnsorted3 big ln1m lo hi logd lobs ks models)

end SF
