import SedVerif.Model.Select
/-!
# Model of `filter_output`

One pass over the records of the input; each record is handed, as it is, to exactly one of two
writers.  `chi=` / `cpd=` are optional thresholds and are tested with Python truthiness
(`if (chi and bestchi < chi) or (cpd and bestcpd < cpd)`): `None` and `0.0` count as "not given".
-/
namespace SF
variable {K : Type} [Zero K] [One K] [Add K] [Sub K] [Mul K] [Div K] [Neg K]
  [LT K] [DecidableLT K] [LE K] [DecidableLE K] [DecidableEq K]

/-- one record of a fit output file: the ranked chi² vector, the source's flags, and everything else
    the record holds (source photometry, the other per-fit arrays), which `filter_output` never reads -/
structure OutRec (K : Type) (ρ : Type) where
  chi2 : List (EF K)
  flags : List Nat
  rest : ρ

inductive FilterErr where
  /-- `info.chi2[0]` on a record without fits -/
  | indexError
  deriving DecidableEq, Repr

/-- Python truthiness of an optional float argument -/
def optTruthy : Option (EF K) → Bool
  | none => false
  | some v => v.truthy

/-- `x < t` for an optional threshold that passed the truthiness test -/
def optBelow (x : EF K) : Option (EF K) → Bool
  | none => false
  | some v => EF.lt x v

/-- the branch condition for a record whose best chi² is `c0` and whose source has `nd` fitted points -/
def isGood (chi cpd : Option (EF K)) (c0 : EF K) (nd : Nat) : Bool :=
  (optTruthy chi && optBelow c0 chi) || (optTruthy cpd && optBelow (EF.divN c0 (natK nd)) cpd)

/-- the loop of `filter_output`: `(good, bad)` are the records written so far to the two outputs -/
def filterLoop {ρ : Type} (chi cpd : Option (EF K)) :
    List (OutRec K ρ) → List (OutRec K ρ) × List (OutRec K ρ) →
    Except FilterErr (List (OutRec K ρ) × List (OutRec K ρ))
  | [], acc => .ok acc
  | r :: rs, (good, bad) =>
    match r.chi2 with
    | [] => .error .indexError
    | c0 :: _ =>
      if isGood chi cpd c0 (nDataSrc r.flags) then filterLoop chi cpd rs (good ++ [r], bad)
      else filterLoop chi cpd rs (good, bad ++ [r])

/-- `filter_output(input, output_good, output_bad, chi=, cpd=)`: contents of the two output files -/
def filterOutput {ρ : Type} (chi cpd : Option (EF K)) (input : List (OutRec K ρ)) :
    Except FilterErr (List (OutRec K ρ) × List (OutRec K ρ)) :=
  filterLoop chi cpd input ([], [])

/-- the branch taken for one record (`none`: the record has no fits and the code raises) -/
def recGood {ρ : Type} (chi cpd : Option (EF K)) (r : OutRec K ρ) : Option Bool :=
  match r.chi2 with
  | [] => none
  | c0 :: _ => some (isGood chi cpd c0 (nDataSrc r.flags))

end SF
