import SedVerif.Model.Select
/-!
# Model of `filter_output`

One pass over the records of the input; each record is handed, as it is, to exactly one of two
writers.  `chi=` / `cpd=` are optional thresholds and are tested with Python truthiness
(`if (chi and bestchi < chi) or (cpd and bestcpd < cpd)`): `None` and `0.0` count as "not given".
-/
namespace SF
variable {K : Type} [Zero K] [One K] [Add K] [Sub K] [Mul K] [Div K] [Neg K]
  [LT K] [DecidableLT K] [LE K] [DecidableLE K] [DecidableEq K]

/-- one record of a fit output file: the ranked chi² vector, the source's flags, and everything else
    the record holds (source photometry, the other per-fit arrays), which `filter_output` never reads -/
structure OutRec (K : Type) (ρ : Type) where
  chi2 : List (EF K)
  flags : List Nat
  rest : ρ

inductive FilterErr where
  /-- `info.chi2[0]` on a record without fits -/
  | indexError
  deriving DecidableEq, Repr

/-- Python truthiness of an optional float argument -/
def optTruthy : Option (EF K) → Bool
  | none => false
  | some v => v.truthy

/-- `x < t` for an optional threshold that passed the truthiness test -/
def optBelow (x : EF K) : Option (EF K) → Bool
  | none => false
  | some v => EF.lt x v

/-- the branch condition for a record whose best chi² is `c0` and whose source has `nd` fitted points -/
def isGood (chi cpd : Option (EF K)) (c0 : EF K) (nd : Nat) : Bool :=
  (optTruthy chi && optBelow c0 chi) || (optTruthy cpd && optBelow (EF.divN c0 (natK nd)) cpd)

/-- the loop of `filter_output`: `(good, bad)` are the records written so far to the two outputs -/
def filterLoop {ρ : Type} (chi cpd : Option (EF K)) :
    List (OutRec K ρ) → List (OutRec K ρ) × List (OutRec K ρ) →
    Except FilterErr (List (OutRec K ρ) × List (OutRec K ρ))
  | [], acc => .ok acc
  | r :: rs, (good, bad) =>
    match r.chi2 with
    | [] => .error .indexError
    | c0 :: _ =>
      if isGood chi cpd c0 (nDataSrc r.flags) then filterLoop chi cpd rs (good ++ [r], bad)
      else filterLoop chi cpd rs (good, bad ++ [r])

/-- `filter_output(input, output_good, output_bad, chi=, cpd=)`: contents of the two output files -/
def filterOutput {ρ : Type} (chi cpd : Option (EF K)) (input : List (OutRec K ρ)) :
    Except FilterErr (List (OutRec K ρ) × List (OutRec K ρ)) :=
  filterLoop chi cpd input ([], [])

/-- the branch taken for one record (`none`: the record has no fits and the code raises) -/
def recGood {ρ : Type} (chi cpd : Option (EF K)) (r : OutRec K ρ) : Option Bool :=
  match r.chi2 with
  | [] => none
  | c0 :: _ => some (isGood chi cpd c0 (nDataSrc r.flags))

/-! ## the two output paths as state (call histories)

`FitInfoFile(path, 'w')` opens with `open(path, 'wb')`: whatever the path held is gone, and the file
then holds exactly the records written through that handle.  Both writers are created before the
loop, so after a call each of the two paths holds exactly what this call wrote, possibly nothing. -/

/-- path ↦ records held by the file (no entry: no such file) -/
abbrev OutFS (K : Type) (ρ : Type) := List (String × List (OutRec K ρ))

/-- open for writing (truncate), write the records, close -/
def OutFS.write {ρ : Type} (fs : OutFS K ρ) (path : String) (recs : List (OutRec K ρ)) : OutFS K ρ :=
  (path, recs) :: fs.filter (fun e => !(e.1 == path))

def OutFS.read {ρ : Type} (fs : OutFS K ρ) (path : String) : Option (List (OutRec K ρ)) :=
  (fs.find? (fun e => e.1 == path)).map (·.2)

/-- one `filter_output` call of a history -/
structure FilterCall (K : Type) (ρ : Type) where
  input : List (OutRec K ρ)
  goodPath : String
  badPath : String
  chi : Option (EF K)
  cpd : Option (EF K)

/-- one call against the file system (the good writer is opened first, then the bad one) -/
def filterOutputFS {ρ : Type} (fs : OutFS K ρ) (c : FilterCall K ρ) : Except FilterErr (OutFS K ρ) :=
  match filterOutput c.chi c.cpd c.input with
  | .ok (g, b) => .ok ((fs.write c.goodPath g).write c.badPath b)
  | .error e => .error e

/-- a history of calls, left to right -/
def runFilterCalls {ρ : Type} : OutFS K ρ → List (FilterCall K ρ) → Except FilterErr (OutFS K ρ)
  | fs, [] => .ok fs
  | fs, c :: cs =>
    match filterOutputFS fs c with
    | .ok fs' => runFilterCalls fs' cs
    | .error e => .error e

end SF
