import SedVerif.Model.Interp
/-!
# Model of the curve bookkeeping of `plot.plot` (C17)

What `plot(..., output_dir=None)` puts into the returned `LineCollection`, for one source:

```
for i in range(info.n_fits - 1, -1, -1):                     -- worst → best
    s = sed_cube.get_sed(info.model_name[i])
    s.flux = s.flux.to(erg/cm²/s, spectral_density(s.nu))     -- F_ν[mJy] · 1e-26 · ν
    s = s.scale_to_distance(10**sc[i] * KPC)                  -- · (d_old / d_new)²
    s = s.scale_to_av(av[i], law)                             -- · 10**(av · law(λ))
    interp            : flux = s.interpolate_variable(wav, ap * 10**sc * 1000)   → 1 curve
    largest           : flux = s.interpolate([ap.max()] * 10**sc * 1000)         → 1 curve
    largest+smallest  : flux = s.interpolate([ap.min(), ap.max()] * …)           → 2 curves
    all               : flux = s.interpolate(np.unique(ap) * …)                  → #unique curves
    lines.append(column j of flux) for every column
```

An SED is a list of rows, one per wavelength in the order `plot` sees them (`SEDCube.read`
returns increasing frequency); each row carries its wavelength, frequency, the value of the
extinction law at that wavelength (`law(sed.wav)`: the law is an argument of `scale_to_av`) and the
fluxes per aperture in mJy.  `lg`, `exp10` are `np.log10`, `10.**x`.
-/
namespace SF.Plt
variable {K : Type} [Zero K] [One K] [Add K] [Sub K] [Mul K] [Div K] [Neg K]
  [LT K] [DecidableLT K] [LE K] [DecidableLE K] [DecidableEq K]

/-- the literal `1000.` -/
def thousand : K :=
  let ten : K := two * two * two + two
  ten * ten * ten

/-- `SED.scale_to_distance`: `flux * (d_old / d_new) ** 2` -/
def scaleToDistance (dOld dNew flux : K) : K := flux * ((dOld / dNew) * (dOld / dNew))

/-- `SED.scale_to_av`: `flux * 10. ** (av * law(wav))` -/
def scaleToAv (exp10 : K → K) (av k flux : K) : K := flux * exp10 (av * k)

/-- aperture requested for a filter of angular radius `theta` arcsec: `ap * 10.**sc * 1000.` AU -/
def plotAperture (exp10 : K → K) (theta sc : K) : K := theta * exp10 sc * thousand

/-- one wavelength of an SED -/
structure SedRow (K : Type) where
  wav : K
  nu : K
  k : K
  flux : List K

/-- one selected fit: scale, A_V and the SED of the fitted model -/
structure PlotFit (K : Type) where
  sc : K
  av : K
  rows : List (SedRow K)

/-- what does not depend on the fit: unit constant (`1e-26`: mJy·Hz → erg/cm²/s), the distance of the
    package SEDs in cm, the literal `KPC`, the aperture table of the package in AU (empty for a
    package without apertures), filter wavelengths and angular apertures -/
structure PlotCtx (K : Type) where
  c : K
  dOld : K
  kpc : K
  aps : List K
  fwav : List K
  theta : List K

inductive SedType where
  | interp | largest | largestSmallest | all
  deriving DecidableEq, Repr

inductive PlotErr where
  | tooSmall   -- "Aperture(s) requested too small"
  | shape      -- arrays of inconsistent shape (rejected by the validators before `plot` is reached)
  deriving DecidableEq, Repr

abbrev Curve (K : Type) := List (K × K)

/-- `.max()` / `.min()` of a non-empty array -/
def listMax : List K → K
  | [] => 0
  | x :: xs => xs.foldl (fun m y => if m < y then y else m) x

def listMin : List K → K
  | [] => 0
  | x :: xs => xs.foldl (fun m y => if y < m then y else m) x

/-- `np.unique`: sorted distinct values -/
def insertUniq (x : K) : List K → List K
  | [] => [x]
  | y :: ys => if x < y then x :: y :: ys else if x = y then y :: ys else y :: insertUniq x ys

def uniqueSorted : List K → List K
  | [] => []
  | x :: xs => insertUniq x (uniqueSorted xs)

/-- `a[np.argsort(key)]` on pairs, by first component (insertion sort, stable) -/
def insertByFst (p : K × K) : List (K × K) → List (K × K)
  | [] => [p]
  | q :: qs => if q.1 < p.1 then q :: insertByFst p qs else p :: q :: qs

def sortByFst : List (K × K) → List (K × K)
  | [] => []
  | p :: ps => insertByFst p (sortByFst ps)

/-- the SED after unit conversion, distance scaling and reddening: per row `(wav, flux per aperture)` -/
def scaledRow (exp10 : K → K) (P : PlotCtx K) (sc av : K) (r : SedRow K) : K × List K :=
  (r.wav, r.flux.map (fun f =>
    scaleToAv exp10 av r.k (scaleToDistance P.dOld (exp10 sc * P.kpc) (f * P.c * r.nu))))

/-- `apertures[apertures > max] = max` -/
def clampAbove (mx x : K) : K := if mx < x then mx else x

/-- common prologue of `SED.interpolate` and `SED.interpolate_variable` for a multi-aperture SED:
    reset to the largest tabulated aperture, raise below the smallest -/
def prepAps (aps req : List K) : Except PlotErr (List K) :=
  let r := req.map (clampAbove (listMax aps))
  if r.any (fun x => decide (x < listMin aps)) then .error .tooSmall else .ok r

/-- `interp1d(sed_apertures, flux.swapaxes(0, 1))(x)` on one row -/
def apInterp (aps : List K) (row : List K) (x : K) : K := interpIn (aps.zip row) x

/-- the column of `SED.interpolate(...)` for one requested (already clamped) aperture -/
def apCurve (aps : List K) (rows : List (K × List K)) (x : K) : Curve K :=
  rows.map (fun r => (r.1, apInterp aps r.2 x))

/-- the curve shared by all columns when the SED has a single aperture (`np.repeat(flux[0, :], …)`) -/
def flatCurve (rows : List (K × List K)) : Curve K :=
  rows.map (fun r => (r.1, r.2.headD 0))

/-- `SED.interpolate(apertures)`, returned as the list of its columns -/
def sedInterpolate (aps : List K) (rows : List (K × List K)) (req : List K) :
    Except PlotErr (List (Curve K)) :=
  if aps.length ≤ 1 then .ok (req.map (fun _ => flatCurve rows))
  else match prepAps aps req with
    | .error e => .error e
    | .ok r => .ok (r.map (apCurve aps rows))

/-- aperture as a function of wavelength used by `interpolate_variable`: linear in log–log between
    the filters (sorted by wavelength), the first / last filter's aperture outside, clipped to the
    table -/
def varAperture (lg exp10 : K → K) (aps : List K) (fwav req : List K) (w : K) : K :=
  let tab := (sortByFst (fwav.zip req)).map (fun p => (lg p.1, lg p.2))
  clampK (listMin aps) (listMax aps) (exp10 (npInterpEdge tab (lg w)))

/-- `SED.interpolate_variable(wavelengths, apertures)` -/
def sedInterpolateVariable (lg exp10 : K → K) (aps : List K) (rows : List (K × List K))
    (fwav req : List K) : Except PlotErr (Curve K) :=
  if aps.length ≤ 1 then .ok (flatCurve rows)
  else match prepAps aps req with
    | .error e => .error e
    | .ok r => .ok (rows.map (fun row => (row.1, apInterp aps row.2 (varAperture lg exp10 aps fwav r row.1))))

/-- the apertures `plot` asks for, per display mode (arcsec) -/
def modeThetas (mode : SedType) (theta : List K) : List K :=
  match mode with
  | .interp => theta
  | .largest => [listMax theta]
  | .largestSmallest => [listMin theta, listMax theta]
  | .all => uniqueSorted theta

/-- the curves appended for one fit -/
def fitCurves (lg exp10 : K → K) (P : PlotCtx K) (mode : SedType) (f : PlotFit K) :
    Except PlotErr (List (Curve K)) :=
  let rows := f.rows.map (scaledRow exp10 P f.sc f.av)
  let req := (modeThetas mode P.theta).map (fun t => plotAperture exp10 t f.sc)
  match mode with
  | .interp =>
      match sedInterpolateVariable lg exp10 P.aps rows P.fwav req with
      | .error e => .error e
      | .ok c => .ok [c]
  | _ => sedInterpolate P.aps rows req

/-- number of curves one fit contributes -/
def nCurves (mode : SedType) (nUnique : Nat) : Nat :=
  match mode with
  | .interp => 1
  | .largest => 1
  | .largestSmallest => 2
  | .all => nUnique

/-- the loop body `lines.append(...)` over the fits in the order given -/
def appendCurves (lg exp10 : K → K) (P : PlotCtx K) (mode : SedType) :
    List (PlotFit K) → List (Curve K) → Except PlotErr (List (Curve K))
  | [], lines => .ok lines
  | f :: fs, lines =>
      match fitCurves lg exp10 P mode f with
      | .error e => .error e
      | .ok cs => appendCurves lg exp10 P mode fs (lines ++ cs)

/-- array shapes as the validators of `SED` / `Fitter` guarantee them -/
def shapeOk (P : PlotCtx K) (fits : List (PlotFit K)) : Bool :=
  (!P.theta.isEmpty) && P.theta.length == P.fwav.length &&
  fits.all (fun f => f.rows.all (fun r => r.flux.length == (if P.aps.length = 0 then 1 else P.aps.length)))

/-- `plot(...)[name]['lines']` for the selected fits (`fits[0]` is the best fit): the loop
    `for i in range(n_fits - 1, -1, -1)` -/
def curves (lg exp10 : K → K) (P : PlotCtx K) (mode : SedType) (fits : List (PlotFit K)) :
    Except PlotErr (List (Curve K)) :=
  if shapeOk P fits then appendCurves lg exp10 P mode fits.reverse [] else .error .shape

/-! ## the fit side: what `Models.fit` stores as predicted log flux for one band -/

/-- `ConvolvedFluxes.interpolate` at one aperture for one model of a multi-aperture package
    (above the table: largest aperture; never below in the property's domain) -/
def fitApFlux (aps : List K) (cell : List K) (x : K) : K :=
  if aps.length ≤ 1 then cell.headD 0 else apInterp aps cell (clampAbove (listMax aps) x)

/-- distance-dependent mode: `av·k + log10( F(θ·d[pc] AU) · (1 kpc / d)² )`, `d` in kpc -/
def predStored3 (lg : K → K) (aps : List K) (cell : List K) (theta d av k : K) : K :=
  av * k + lg (fitApFlux aps cell (theta * (d * thousand)) * ((1 / d) * (1 / d)))

/-- distance-independent mode: `av·k + sc·(−2) + log10 F` -/
def predStored2 (lg : K → K) (cell : List K) (sc av k : K) : K :=
  av * k + sc * (-(two)) + lg (cell.headD 0)

end SF.Plt
