import SedVerif.Model.Integrate
import SedVerif.Model.Extinction
import SedVerif.Model.Select
import SedVerif.Model.Match
import SedVerif.Model.RoundTrip
/-!
# End-to-end pipeline: `convolve_model_dir` → `fit` → `write_parameters`

`runPipeline` composes the per-stage models; it re-implements none of them.

| step of the real pipeline | code | model function called |
|---|---|---|
| the package's `seds/*.fits` written by `SED.write`, read with `SED.read(order='nu')` | sed/sed.py | `RT.sedWrite`, `RT.sedRead` |
| `[f.rebin(s.nu) for f in filters]` (after an optional `Filter.normalize`) | filter/filter.py | `normalize`, `rebinE`, `rebin` |
| `np.sum(s.flux * f.response)`, `np.sum((s.error * f.response) ** 2)` | convolve/convolve.py | `convolve`, `convolveVar` |
| fill in directory-listing order, `sort_to_match(par_table['MODEL_NAME'])`, `write` | convolve/convolve.py | `Match.convolveV1` (`v1Unsorted`, `sortToMatch`, `Conv.written`) |
| `Models.read` (per-file package, not aperture dependent): column `conv.flux[:, 0]` of every file, names of the last file, `log_fluxes_mJy` | models.py | `readModels` (here; pure re-indexing) |
| `extinction_law.get_av(models.wavelengths)` | extinction.py | `getAv` |
| `Source.get_log_fluxes`, `Models.fit`, `FitInfo.sort` | source.py, models.py, fit_info.py | `logTransform`, `fitRows2` (= `mkPts`, `fit2Full`, `sortRows`) |
| `if s.n_data >= n_data_min`, `info.model_fluxes = None`, `info.keep(output_format)` | fit.py | `nDataSrc`, `keepSrc` |
| `write_parameters`: strip + sort table, per source `keep(select_format)`, `filter_table`, print loop | write_parameters.py | `keepSrc`, `Match.listing` (= `prepTable`, `filterTableAdd`), `mkRows` |

Python exceptions are `Except PErr`.  One value of `PErr` is not an exception: `outOfDomain` is
returned when a convolved model flux is not positive (the code carries on with `-inf` / NaN, which
the fitting model does not cover); the harness never generates such packages.

Everything lives in `SF.Pipe`.
-/
namespace SF.Pipe
open SF SF.Match
variable {K : Type} [Zero K] [One K] [Add K] [Sub K] [Mul K] [Div K] [Neg K]
  [LT K] [DecidableLT K] [LE K] [DecidableLE K] [DecidableEq K]

/-- what can stop the pipeline -/
inductive PErr where
  /-- `SED.write` / `SED.read` raised (errors not set, empty spectral axis) -/
  | sedIO
  /-- `IndexError` in `Filter.rebin` (filter without samples) -/
  | emptyFilter
  /-- `sort_to_match` / "No SEDs found" / `filter_table` raised -/
  | matching (e : MErr)
  /-- `Models.read` with an empty filter list (`UnboundLocalError`) -/
  | noFilters
  /-- array shapes do not fit (`IndexError` / `ValueError` on assignment) -/
  | shape
  /-- NOT an exception: a convolved model flux is `≤ 0`; the fitting model does not cover `-inf` -/
  | outOfDomain
  deriving DecidableEq, Repr

def PErr.toString : PErr → String
  | .sedIO => "sedIO"
  | .emptyFilter => "emptyFilter"
  | .matching e => e.toString
  | .noFilters => "noFilters"
  | .shape => "shape"
  | .outOfDomain => "outOfDomain"

/-- the first failure of `f` over a list, or all results (a Python loop that may raise) -/
def mapE {ε α β : Type} (f : α → Except ε β) : List α → Except ε (List β)
  | [] => .ok []
  | a :: as =>
    match f a with
    | .error e => .error e
    | .ok b =>
      match mapE f as with
      | .error e => .error e
      | .ok bs => .ok (b :: bs)

def mapO {α β : Type} (f : α → Option β) : List α → Option (List β)
  | [] => some []
  | a :: as =>
    match f a, mapO f as with
    | some b, some bs => some (b :: bs)
    | _, _ => none

/-! ## inputs -/

/-- a `Filter` object: nodes `(ν, R)` in stored order, whether `normalize()` is called before use,
    central wavelength (in the unit of the extinction table) -/
structure PFilter (K : Type) where
  norm : Bool
  nodes : List (K × K)
  wav : K

/-- transcendental functions and literals the code uses: `log10`, `np.log(10.)`, `1e30`,
    `ln(1 − ·)`, `1e-30` -/
structure PEnv (K : Type) where
  lg : K → K
  ln10 : K
  big : K
  ln1m : K → K
  tiny : K

structure PInput (K : Type) where
  /-- the `SED` objects written to `seds/`, in directory-listing order of their files -/
  seds : List (RT.Sed K)
  /-- `parameters.fits`: `(MODEL_NAME, numeric columns)` in file order -/
  table : List (String × List K)
  filters : List (PFilter K)
  /-- extinction table `(wavelength, chi)` in increasing wavelength, and 0.55 µm in its unit -/
  ext : List (K × K)
  v : K
  /-- data file: `(source name, bands in filter order)` -/
  sources : List (String × List (Obs K))
  lo : K
  hi : K
  nDataMin : Nat
  /-- `output_format` of `fit()` -/
  selFit : Sel K
  /-- `select_format` of `write_parameters()` -/
  selOut : Sel K

/-! ## convolution stage -/

/-- a spectrum together with its own frequency grid -/
abbrev Spec (K : Type) := List K × List K

/-- the filter as the code holds it -/
def held (f : PFilter K) : List (K × K) := if f.norm then normalize f.nodes else f.nodes

/-- `np.sum(s.flux * f.rebin(s.nu).response)` for one aperture -/
def cvOf (flt : List (K × K)) (s : Spec K) : K := convolve s.2 (rebin flt s.1)

/-- `np.sum((s.error * f.rebin(s.nu).response) ** 2)` for one aperture -/
def ceOf (flt : List (K × K)) (s : Spec K) : K := convolveVar s.2 (rebin flt s.1)

/-- `SED.write` followed by `SED.read(order='nu')` -/
def readSed (tiny : K) (s : RT.Sed K) : Option (RT.Sed K) :=
  match RT.sedWrite tiny s with
  | none => none
  | some f => RT.sedRead RT.Order.nu f

/-- the SED as the convolution loop sees it: aperture `ia` ↦ (spectrum, uncertainty) on the SED's grid -/
def asSedFile (s : RT.Sed K) : SedFile K (Spec K) :=
  { name := s.name
    apertures := s.aps
    sed := fun ia => ⟨(s.nu, s.flux.getD ia []), (s.nu, (s.err.getD []).getD ia [])⟩ }

def liftM {α : Type} : Except MErr α → Except PErr α
  | .ok a => .ok a
  | .error e => .error (.matching e)

/-- `convolve_model_dir` on a per-file package: one `ConvolvedFluxes` (as written) per filter -/
def convStage (tiny : K) (inp : PInput K) : Except PErr (List (Conv K (List K))) :=
  match mapO (readSed tiny) inp.seds with
  | none => .error .sedIO
  | some rd =>
    match rd.map asSedFile with
    | [] => .error (.matching .noSeds)
    | first :: rest =>
      -- `binned_filters = [f.rebin(s.nu) for f in filters]` at the first SED
      match mapE (fun f => rebinE (held f) (first.sed 0).val.1) inp.filters with
      | .error _ => .error .emptyFilter
      | .ok _ =>
        mapE (fun f => liftM (convolveV1 (cvOf (held f)) (ceOf (held f)) f.wav (first :: rest)
          (inp.table.map (·.1)))) inp.filters

/-! ## `Models.read` (per-file package, `aperture_dependent = no`) -/

/-- `conv.flux[:, 0]` -/
def column0 (c : Conv K (List K)) : Option (List K) := mapO List.head? c.flux

/-- names of the last file read (stripped); column 0 of every file; `log_fluxes_mJy` -/
def readModels (lg : K → K) (convs : List (Conv K (List K))) : Except PErr (List (ModelRow K)) :=
  match convs.getLast? with
  | none => .error .noFilters
  | some last =>
    match mapO column0 convs with
    | none => .error .shape
    | some cols =>
      let names := last.names.map strip
      if cols.any (fun col => col.length ≠ names.length) then .error .shape
      else if cols.any (fun col => col.any (fun x => !(decide (0 < x)))) then .error .outOfDomain
      else .ok (names.zipIdx.map (fun ni => ⟨ni.1, cols.map (fun col => lg (col.getD ni.2 0))⟩))

/-! ## `fit()` for one source -/

def flagsOf (bands : List (Obs K)) : List Nat := bands.map (·.flag)

/-- the sources that get a record: `s.n_data >= n_data_min` -/
def fittedSources (inp : PInput K) : List (String × List (Obs K)) :=
  inp.sources.filter (fun s => decide (inp.nDataMin ≤ nDataSrc (flagsOf s.2)))

/-- `Models.fit` (ranked result) for one source -/
def rankSource (env : PEnv K) (lo hi : K) (ks : List K) (models : List (ModelRow K))
    (bands : List (Obs K)) : FitRows K :=
  fitRows2 env.big env.ln1m lo hi (bands.map (logTransform env.lg env.ln10)) ks models

/-- the record `fit()` writes: `info.model_fluxes = None; info.keep(output_format)` -/
def fitSource (env : PEnv K) (lo hi : K) (ks : List K) (models : List (ModelRow K)) (selFit : Sel K)
    (bands : List (Obs K)) : FitRows K :=
  keepSrc selFit (flagsOf bands) { rankSource env lo hi ks models bands with fluxes := none }

/-! ## `write_parameters` for one record -/

/-- one printed line: `fit_id model_name chi2 av scale <parameter values>` -/
structure ListRow (K : Type) where
  fitId : Nat
  name : String
  chi2 : EF K
  av : K
  sc : K
  pars : List K

/-- one block of the listing: `source_name n_data n_fits`, then the rows -/
structure SrcListing (K : Type) where
  source : String
  nData : Nat
  nFits : Nat
  rows : List (ListRow K)

/-- the print loop: row `fit_id` takes `model_name / chi2 / av / sc [fit_id]` from the `FitInfo` and
    the parameter values from `tsorted[fit_id]` (all five arrays have `n_fits` entries, see
    `E2E_ranked`) -/
def mkRows : Nat → List String → List (EF K) → List K → List K → List (String × List K × List K) →
    List (ListRow K)
  | i, n :: ns, c :: cs, a :: as, s :: ss, t :: ts =>
      ⟨i + 1, n, c, a, s, t.2.1 ++ t.2.2⟩ :: mkRows (i + 1) ns cs as ss ts
  | _, _, _, _, _, _ => []

/-- body of the `for info in fin` loop -/
def listSource (table : List (String × List K)) (selOut : Sel K) (src : String × List (Obs K))
    (info : FitRows K) : Except PErr (SrcListing K) :=
  let kept := keepSrc selOut (flagsOf src.2) info
  match listing (K := K) table kept.name [] with
  | .error e => .error (.matching e)
  | .ok tsorted =>
    .ok { source := src.1
          nData := nDataSrc (flagsOf src.2)
          nFits := kept.chi2.length
          rows := mkRows 0 kept.name kept.chi2 kept.av kept.sc tsorted }

/-! ## the whole pipeline -/

structure POut (K : Type) where
  /-- `convolved/<filter>.fits`, one per filter -/
  conv : List (Conv K (List K))
  /-- the records of the fit output file -/
  fits : List (FitRows K)
  /-- the blocks of the parameter listing -/
  listings : List (SrcListing K)

/-- `A_V` pattern at the central wavelengths stored in the convolved files -/
def ksOf (inp : PInput K) (convs : List (Conv K (List K))) : List K :=
  convs.map (fun c => getAv inp.ext inp.v c.filtwav)

def runPipeline (env : PEnv K) (inp : PInput K) : Except PErr (POut K) :=
  match convStage env.tiny inp with
  | .error e => .error e
  | .ok convs =>
    match readModels env.lg convs with
    | .error e => .error e
    | .ok models =>
      let ks := ksOf inp convs
      let fit := fun (s : String × List (Obs K)) => fitSource env inp.lo inp.hi ks models inp.selFit s.2
      match mapE (fun s => listSource inp.table inp.selOut s (fit s)) (fittedSources inp) with
      | .error e => .error e
      | .ok ls => .ok { conv := convs, fits := (fittedSources inp).map fit, listings := ls }

/-! ## what the theorems say the pipeline computes (specification side) -/

/-- the convolved flux (aperture 0) of one `SED` object through one filter -/
def sedFlux (tiny : K) (f : PFilter K) (s : RT.Sed K) : K :=
  match readSed tiny s with
  | none => 0
  | some s' => cvOf (held f) (s'.nu, s'.flux.getD 0 [])

/-- the variance (square of the stored error, aperture 0) of one `SED` object through one filter -/
def sedVar (tiny : K) (f : PFilter K) (s : RT.Sed K) : K :=
  match readSed tiny s with
  | none => 0
  | some s' => ceOf (held f) (s'.nu, (s'.err.getD []).getD 0 [])

/-- `log10` of the convolved fluxes of one `SED` object, in filter order -/
def sedLogFluxes (env : PEnv K) (inp : PInput K) (s : RT.Sed K) : List K :=
  inp.filters.map (fun f => env.lg (sedFlux env.tiny f s))

/-- `A_V` pattern at the filters' central wavelengths -/
def ksIn (inp : PInput K) : List K := inp.filters.map (fun f => getAv inp.ext inp.v f.wav)

/-- the points the fitter sees for one source against one `SED` object -/
def sedPts (env : PEnv K) (inp : PInput K) (bands : List (Obs K)) (s : RT.Sed K) : List (Pt K) :=
  mkPts (bands.map (logTransform env.lg env.ln10)) (sedLogFluxes env inp s) (ksIn inp)

/-- `(av, sc, chi2)` of one `SED` object for one source -/
def sedFit (env : PEnv K) (inp : PInput K) (bands : List (Obs K)) (s : RT.Sed K) : K × K × K :=
  fit2Full env.big env.ln1m inp.lo inp.hi (sedPts env inp bands s)

end SF.Pipe
