import SedVerif.Model.Pipeline
import SedVerif.Model.Dist
import SedVerif.Model.Mono
/-!
# End-to-end pipeline, cube packages, distance / aperture dependent mode
# `SEDCube.write` → `convolve_model_dir` (version 2) → `Fitter` (`Models._read_version_2`) → `fit` → `write_parameters`

`runPipeline3` composes the per-stage models; it re-implements none of them.

| step of the real pipeline | code | model function called |
|---|---|---|
| `flux.fits` written by `SEDCube.write`, read with `SEDCube.read(order='nu')` (spectral axis reversed when ν decreases) | sed/cube.py | `RT.cubeWrite`, `RT.cubeRead` |
| broadband entry: `f.rebin(sed_cube.nu)` (after an optional `Filter.normalize`), `np.sum(val[:, i_ap, :] * response, axis=1)`, names must equal the parameter table, `write` | convolve/convolve.py `_convolve_model_dir_2` | `normalize`, `rebinE`, `rebin`, `convolve`, `convolveVar` (through `Pipe.held`, `Pipe.cvOf`, `Pipe.ceOf`), `Match.convolveV2` (`v2Filled`, `Conv.written`) |
| wavelength entry: `np.argmin(np.abs(cube.wav - λ₀))`, `MonochromaticFluxes.from_sed_cube` (`val[:, :, j]`, `unc[:, :, j]`) | models.py, convolved_fluxes.py | `Mono.nearestIdx`, `Mono.colAt` |
| distance grid `ceil(1 + (log10 dmax − log10 dmin)/logd_step)`, `np.logspace`, `logd = log10(distances)` | models.py `_read_version_2` | `distancesKpc` (`distGrid`, `linspace`), `lg` |
| `conv.interpolate(θ · d_pc AU)`, `× (kpc/d)²`, `model_fluxes[:, :, ifilt]`, `log_fluxes_mJy`; names of the last entry, stripped | models.py, convolved_fluxes.py | `modelLogFluxes` (`modelFluxes`, `fluxAt`, `interpClamp`) |
| `extinction_law.get_av(models.wavelengths)` (filter's central wavelength / the requested λ₀) | extinction.py | `getAv` |
| `Source.get_log_fluxes`, `Models.fit` (`ndim == 3`), `FitInfo.sort` | source.py, models.py, fit_info.py | `logTransform`, `fitRows3` (= `pssOf`, `mkPts`, `fit3Ext` without mask, `predictedRow3Ext`, `sortRows`) |
| `if s.n_data >= n_data_min`, `info.model_fluxes = None`, `info.keep(output_format)` | fit.py | `nDataSrc`, `keepSrc` |
| `write_parameters`: strip + sort table, per source `keep(select_format)`, `filter_table`, print loop | write_parameters.py | `Pipe.listSource` (= `keepSrc`, `Match.listing`, `Pipe.mkRows`) |

Python exceptions are `Except P3Err`.  Two values of `P3Err` are not exceptions:
* `outOfDomain` — a tabulated model flux is not positive (the code carries on with `-inf` / NaN, which
  the fitting model does not cover);
* `singleAperture` — fewer than two apertures (the code then repeats the single column and tests
  nothing, `C13_single_repeat`; the distance-dependent mode of the property has an aperture table).
The harness never generates such packages.

Convolved tables: a broadband entry's `error` column holds the *variance* (`convolveVar`, square of the
stored error, as everywhere in this project); a wavelength entry's `error` column holds `unc[:, :, j]`.

Everything lives in `SF.Pipe3`.
-/
namespace SF.Pipe3
open SF SF.Match SF.Pipe
variable {K : Type} [Zero K] [One K] [Add K] [Sub K] [Mul K] [Div K] [Neg K]
  [LT K] [DecidableLT K] [LE K] [DecidableLE K] [DecidableEq K]

/-- what can stop the pipeline -/
inductive P3Err where
  /-- `SEDCube.read` raised (empty spectral axis) -/
  | cubeIO
  /-- the cube has no uncertainties (`sed_cube.unc.unit` / `cube.unc[:, :, j]` on `None`) -/
  | noUnc
  /-- `IndexError` in `Filter.rebin` (filter without samples) -/
  | emptyFilter
  /-- "Model names in SED cube and parameter file do not match" / `filter_table` raised -/
  | matching (e : MErr)
  /-- `np.argmin` of an empty wavelength axis -/
  | nearest (e : Mono.Err)
  /-- `Models.read` with an empty filter list (`UnboundLocalError`) -/
  | noFilters
  /-- array shapes do not fit (`IndexError` / `ValueError` on assignment) -/
  | shape
  /-- "Aperture(s) requested too small" / `interp1d` refused -/
  | aperture (e : ApErr)
  /-- no trial distance (`dmax < dmin` far enough for `ceil(…) ≤ 0`): `np.argmin` of an empty axis in
      `Models.fit` -/
  | emptyGrid
  /-- an error of a stage shared with the per-file pipeline (`Pipe.listSource`) -/
  | pipe (e : PErr)
  /-- NOT an exception: fewer than two apertures -/
  | singleAperture
  /-- NOT an exception: a tabulated model flux is `≤ 0` -/
  | outOfDomain
  deriving DecidableEq, Repr

def apErrToString : ApErr → String
  | .tooSmall => "tooSmall"
  | .outOfRange => "outOfRange"
  | .badTable => "badTable"

def P3Err.toString : P3Err → String
  | .cubeIO => "cubeIO"
  | .noUnc => "noUnc"
  | .emptyFilter => "emptyFilter"
  | .matching e => e.toString
  | .nearest _ => "emptyArgmin"
  | .noFilters => "noFilters"
  | .shape => "shape"
  | .aperture e => apErrToString e
  | .emptyGrid => "emptyGrid"
  | .pipe e => e.toString
  | .singleAperture => "singleAperture"
  | .outOfDomain => "outOfDomain"

/-! ## inputs -/

/-- one entry of the filter list handed to `Fitter`: the name of a broadband filter that was
    convolved from the cube (the `Filter` object itself), or a wavelength `λ₀` (a `Quantity`) -/
inductive Entry (K : Type) where
  | band (f : PFilter K)
  | mono (w0 : K)

/-- an entry with the aperture `θ` (arcsec) of the data in that band -/
structure Filt3 (K : Type) where
  entry : Entry K
  theta : K

/-- `models.wavelengths[ifilt]`: the filter's central wavelength / the requested wavelength -/
def entryWav : Entry K → K
  | .band f => f.wav
  | .mono w0 => w0

/-- transcendental functions, literals and the two conversions the code uses: `log10`, `10**x`,
    `np.log(10.)`, `1e30`, `ln(1 − ·)`, `np.ceil` (→ `int`), `λ ↦ c/λ` -/
structure P3Env (K : Type) where
  lg : K → K
  exp10 : K → K
  ln10 : K
  big : K
  ln1m : K → K
  ceilK : K → Nat
  toNu : K → K

structure P3Input (K : Type) where
  /-- the `SEDCube` object written to `flux.fits`: names in cube order, wavelengths in stored order,
      `val` / `unc` `[model][aperture][wavelength]` -/
  cube : RT.Cube K
  /-- `parameters.fits`: `(MODEL_NAME, numeric columns)` in file order -/
  table : List (String × List K)
  filters : List (Filt3 K)
  /-- extinction table `(wavelength, chi)` in increasing wavelength, and 0.55 µm in its unit -/
  ext : List (K × K)
  v : K
  /-- `distance_range` in kpc and `logd_step` of `models.conf` -/
  dmin : K
  dmax : K
  step : K
  /-- data file: `(source name, bands in filter order)` -/
  sources : List (String × List (Obs K))
  lo : K
  hi : K
  nDataMin : Nat
  /-- `output_format` of `fit()` -/
  selFit : Sel K
  /-- `select_format` of `write_parameters()` -/
  selOut : Sel K

/-! ## the cube as both readers see it -/

/-- `SEDCube.write` followed by `SEDCube.read(order='nu')` (`convolve_model_dir` passes `order='nu'`,
    `_read_version_2` uses the default, which is `'nu'` too) -/
def readCube (toNu : K → K) (c : RT.Cube K) : Option (RT.Cube K) :=
  RT.cubeRead toNu RT.Order.nu (RT.cubeWrite toNu c)

/-- the cube as the convolution loop sees it: model `m`, aperture `ia` ↦ (spectrum, uncertainty) on the
    cube's frequency grid -/
def asMatchCube (toNu : K → K) (c : RT.Cube K) (unc : List (List (List K))) : Match.Cube K (Spec K) :=
  { names := c.names
    apertures := c.aps
    seds := List.zipWith (fun v u => fun ia =>
      (⟨(c.wav.map toNu, v.getD ia []), (c.wav.map toNu, u.getD ia [])⟩ : Ap (Spec K))) c.val unc }

def liftM3 {α : Type} : Except MErr α → Except P3Err α
  | .ok a => .ok a
  | .error e => .error (.matching e)

def liftP3 {α : Type} : Except PErr α → Except P3Err α
  | .ok a => .ok a
  | .error e => .error (.pipe e)

/-- the `ConvolvedFluxes` object `Models._read_version_2` holds for one entry before it interpolates:
    `ConvolvedFluxes.read(convolved/<name>.fits)` (written by `_convolve_model_dir_2`) or
    `MonochromaticFluxes.from_sed_cube(cube, argmin |cube.wav − λ₀|)` -/
def convEntry (toNu : K → K) (cube : RT.Cube K) (unc : List (List (List K))) (table : List String)
    (e : Entry K) : Except P3Err (Match.Conv K (List K)) :=
  match e with
  | .band f =>
    match rebinE (held f) (cube.wav.map toNu) with
    | .error _ => .error .emptyFilter
    | .ok _ => liftM3 (convolveV2 (cvOf (held f)) (ceOf (held f)) f.wav (asMatchCube toNu cube unc) table)
  | .mono w0 =>
    match Mono.nearestIdx cube.wav w0 with
    | .error e => .error (.nearest e)
    | .ok j =>
      match mapO (fun m => Mono.colAt m j) cube.val, mapO (fun m => Mono.colAt m j) unc with
      | some fl, some er =>
        .ok { names := cube.names, apertures := cube.aps, filtwav := w0, flux := fl, error := er }
      | _, _ => .error .shape

/-! ## `Models._read_version_2`, aperture-dependent part -/

/-- one model as the fitter holds it before the distance grid is applied: its name and, per entry, the
    data's aperture, the tabulated apertures and this model's fluxes over them -/
structure Model3 (K : Type) where
  name : String
  tabs : List (BandTab K)

/-- the band tables of model row `i` -/
def tabsOf (filters : List (Filt3 K)) (convs : List (Match.Conv K (List K))) (i : Nat) : List (BandTab K) :=
  List.zipWith (fun (f : Filt3 K) (c : Match.Conv K (List K)) =>
    ({ theta := f.theta, aps := c.apertures.getD [], row := c.flux.getD i [] } : BandTab K)) filters convs

def fewAps (c : Match.Conv K (List K)) : Bool :=
  match c.apertures with
  | none => true
  | some a => decide (a.length < 2)

/-- names of the last entry read (stripped); row `i` of every entry's table belongs to model `i` -/
def readModels3 (filters : List (Filt3 K)) (convs : List (Match.Conv K (List K))) :
    Except P3Err (List (Model3 K)) :=
  match convs.getLast? with
  | none => .error .noFilters
  | some last =>
    if convs.any (fun c => c.flux.length ≠ last.names.length) then .error .shape
    else if convs.any fewAps then .error .singleAperture
    else if convs.any (fun c => c.flux.any (fun row => row.any (fun x => !(decide (0 < x))))) then
      .error .outOfDomain
    else .ok ((last.names.map strip).zipIdx.map (fun ni => ⟨ni.1, tabsOf filters convs ni.2⟩))

/-- `models.distances` in kpc -/
def distsOf (env : P3Env K) (inp : P3Input K) : List K :=
  distancesKpc env.lg env.exp10 env.ceilK inp.dmin inp.dmax inp.step

/-- `models.logd = np.log10(models.distances)` -/
def logdOf (env : P3Env K) (inp : P3Input K) : List K := (distsOf env inp).map env.lg

/-- aperture interpolation at `θ · d`, `× (kpc/d)²`, `log10`, for every model: the models as `Models.fit`
    sees them (`ModelRow3`: name, `log_fluxes_mJy[m]` `[distance][entry]`, no `extended` mask since
    `remove_resolved` is off) -/
def logFluxStage (lg : K → K) (dists : List K) (models : List (Model3 K)) : Except P3Err (List (ModelRow3 K)) :=
  mapE (fun (m : Model3 K) =>
    match modelLogFluxes lg m.tabs dists with
    | .ok l => .ok (⟨m.name, l, []⟩ : ModelRow3 K)
    | .error e => .error (.aperture e)) models

/-! ## `fit()` for one source -/

/-- the sources that get a record: `s.n_data >= n_data_min` -/
def fittedSources3 (inp : P3Input K) : List (String × List (Obs K)) :=
  inp.sources.filter (fun s => decide (inp.nDataMin ≤ nDataSrc (flagsOf s.2)))

/-- `Models.fit` (ranked result) for one source -/
def rankSource3 (env : P3Env K) (lo hi : K) (logd ks : List K) (models : List (ModelRow3 K))
    (bands : List (Obs K)) : FitRows K :=
  fitRows3 env.big env.ln1m lo hi logd (bands.map (logTransform env.lg env.ln10)) ks models

/-- the record `fit()` writes: `info.model_fluxes = None; info.keep(output_format)` -/
def fitSource3 (env : P3Env K) (lo hi : K) (logd ks : List K) (models : List (ModelRow3 K)) (selFit : Sel K)
    (bands : List (Obs K)) : FitRows K :=
  keepSrc selFit (flagsOf bands) { rankSource3 env lo hi logd ks models bands with fluxes := none }

/-! ## the whole pipeline -/

structure P3Out (K : Type) where
  /-- per entry: the convolved (`convolved/<filter>.fits`) / sliced flux table -/
  conv : List (Match.Conv K (List K))
  /-- `fitter.models.distances` (kpc) -/
  dists : List K
  /-- `fitter.models.names` with `log10(fitter.models.fluxes)` `[model][distance][entry]` -/
  models : List (ModelRow3 K)
  /-- the records of the fit output file -/
  fits : List (FitRows K)
  /-- the blocks of the parameter listing -/
  listings : List (SrcListing K)

/-- `A_V` pattern at the wavelengths recorded for the entries -/
def ksOf3 (inp : P3Input K) (convs : List (Match.Conv K (List K))) : List K :=
  convs.map (fun c => getAv inp.ext inp.v c.filtwav)

def runPipeline3 (env : P3Env K) (inp : P3Input K) : Except P3Err (P3Out K) :=
  match readCube env.toNu inp.cube with
  | none => .error .cubeIO
  | some cube =>
    match cube.unc with
    | none => .error .noUnc
    | some unc =>
      match mapE (fun (f : Filt3 K) => convEntry env.toNu cube unc (inp.table.map (·.1)) f.entry) inp.filters with
      | .error e => .error e
      | .ok convs =>
        match readModels3 inp.filters convs with
        | .error e => .error e
        | .ok models =>
          if distsOf env inp = [] then .error .emptyGrid else
          match logFluxStage env.lg (distsOf env inp) models with
          | .error e => .error e
          | .ok lmodels =>
            let ks := ksOf3 inp convs
            let fit := fun (s : String × List (Obs K)) =>
              fitSource3 env inp.lo inp.hi (logdOf env inp) ks lmodels inp.selFit s.2
            match mapE (fun s => liftP3 (listSource inp.table inp.selOut s (fit s))) (fittedSources3 inp) with
            | .error e => .error e
            | .ok ls =>
              .ok { conv := convs, dists := distsOf env inp, models := lmodels,
                    fits := (fittedSources3 inp).map fit, listings := ls }

/-! ## what the theorems say the pipeline computes (specification side) -/

/-- the cube after write + read (the input itself where the read refuses) -/
def rdCube (env : P3Env K) (inp : P3Input K) : RT.Cube K := (readCube env.toNu inp.cube).getD inp.cube

/-- the fluxes over apertures of cube row `m` through one entry -/
def entryRow (env : P3Env K) (inp : P3Input K) (e : Entry K) (m : Nat) : List K :=
  let c := rdCube env inp
  match e with
  | .band f =>
    (List.range (nApOf c.aps)).map (fun ia =>
      cvOf (held f) (c.wav.map env.toNu, ((c.val.getD m []).getD ia [])))
  | .mono w0 =>
    match Mono.nearestIdx c.wav w0 with
    | .ok j => (c.val.getD m []).map (fun row => row.getD j 0)
    | .error _ => []

/-- the band tables of cube row `m` -/
def cubeTabs (env : P3Env K) (inp : P3Input K) (m : Nat) : List (BandTab K) :=
  inp.filters.map (fun f =>
    ({ theta := f.theta, aps := (rdCube env inp).aps.getD [], row := entryRow env inp f.entry m } : BandTab K))

/-- `log10` of the model fluxes of cube row `m`: `[distance][entry]` -/
def cubeLfs (env : P3Env K) (inp : P3Input K) (m : Nat) : List (List K) :=
  match modelLogFluxes env.lg (cubeTabs env inp m) (distsOf env inp) with
  | .ok l => l
  | .error _ => []

/-- `A_V` pattern at the entries' wavelengths -/
def ksIn3 (inp : P3Input K) : List K := inp.filters.map (fun f => getAv inp.ext inp.v (entryWav f.entry))

/-- the per-distance points the fitter sees for one source against cube row `m` -/
def cubePss (env : P3Env K) (inp : P3Input K) (bands : List (Obs K)) (m : Nat) : List (List (Pt K)) :=
  (cubeLfs env inp m).map (fun lf => mkPts (bands.map (logTransform env.lg env.ln10)) lf (ksIn3 inp))

/-- `(av, sc, chi2, best distance index)` of cube row `m` for one source -/
def cubeFit (env : P3Env K) (inp : P3Input K) (bands : List (Obs K)) (m : Nat) : K × K × K × Nat :=
  fit3 env.big env.ln1m inp.lo inp.hi (logdOf env inp) (cubePss env inp bands m)

end SF.Pipe3
