/-!
# `Models.fit` as a sequence of reads and writes on a store of arrays (aliasing model for C11)

The functional model (`Model/FitExtra.lean`: `fitStep` returns the state it was given) cannot even
express an in-place modification, so it cannot be wrong about one.  This file models what the purity
claim of C11 is really about: *which array objects* `Fitter.fit` / `Models.fit` / `FitInfo.sort`
write to.

* A `Loc` is one numpy array object.  Its owner is the fitter (arrays held by the `Fitter` /
  `Models` instance), a source (the three arrays of a `Source`), or `fresh` (allocated during a
  call).
* Python variables (`Var`) are *bound* to locations; `x = y` aliases, `x = f(...)` allocates a new
  array and rebinds `x`, `x[mask] = v` / `x += v` overwrites the array `x` is bound to.
* What is computed (`payload` functions) is deliberately left abstract: the theorems hold for every
  payload, they are about where results are written, not about their values (the values are the
  business of `Model/Fit.lean`).

No imports; generic over the cell content type `C`.
-/
namespace SF

inductive Owner where
  | fitter | source | fresh
  deriving DecidableEq, Repr

/-- one array object -/
structure Loc where
  owner : Owner
  id : Nat
  deriving DecidableEq, Repr

/-- the Python names that occur in `Fitter.fit`, `Models.fit`, `Source.get_log_fluxes`,
    `chi_squared`, `FitInfo.sort` -/
inductive Var where
  -- held by the fitter
  | selfFluxes | selfNames | selfLogd | selfExtended | avLaw | scLaw
  -- the argument
  | srcValid | srcFlux | srcError
  -- locals of get_log_fluxes / Models.fit / chi_squared
  | weight | logFlux | logError | modelFluxes | residual | avBest | scBest | reset | model | chi2Array
  | chBest | best
  -- attributes of the FitInfo that is returned
  | infoAv | infoSc | infoChi2 | infoName | infoFluxes | infoModelId | order
  deriving DecidableEq, Repr

structure Heap (C : Type) where
  cells : List (Loc × C)
  env : List (Var × Loc)
  next : Nat

variable {C : Type}

def Heap.loc (h : Heap C) (x : Var) : Option Loc := h.env.lookup x
def Heap.get (h : Heap C) (l : Loc) : Option C := h.cells.lookup l
/-- the value a name currently denotes -/
def Heap.val (h : Heap C) (x : Var) : Option C := (h.loc x).bind h.get

inductive Instr (C : Type) where
  /-- `dst = <expression building a new array>` : allocate, bind -/
  | new (dst : Var) (f : (Var → Option C) → C)
  /-- `dst[...] = ...`, `dst += ...` : overwrite the array `dst` is bound to -/
  | upd (dst : Var) (f : C → (Var → Option C) → C)
  /-- `dst = src` : alias -/
  | bind (dst src : Var)
  /-- argument passing: `dst` is bound to an existing array object -/
  | arg (dst : Var) (l : Loc)

/-- overwrite in place -/
def setCell (cells : List (Loc × C)) (l : Loc) (c : C) : List (Loc × C) :=
  cells.map (fun p => if p.1 = l then (l, c) else p)

/-- one statement; `none` = NameError (unbound name / dangling location) -/
def step (h : Heap C) : Instr C → Option (Heap C)
  | .new dst f =>
      let l : Loc := ⟨.fresh, h.next⟩
      some { cells := (l, f h.val) :: h.cells, env := (dst, l) :: h.env, next := h.next + 1 }
  | .upd dst f =>
      match h.loc dst with
      | none => none
      | some l =>
        match h.get l with
        | none => none
        | some c => some { h with cells := setCell h.cells l (f c h.val) }
  | .bind dst src =>
      match h.loc src with
      | none => none
      | some l => some { h with env := (dst, l) :: h.env }
  | .arg dst l => some { h with env := (dst, l) :: h.env }

def run (h : Heap C) : List (Instr C) → Option (Heap C)
  | [] => some h
  | i :: is =>
    match step h i with
    | none => none
    | some h' => run h' is

/-! ## static check: every overwritten name is bound to an array allocated in this very program -/

/-- `known` = names certainly bound to a fresh array.  `new` adds its target, `bind` propagates,
    `arg` adds only if the object passed is itself fresh (never the case for callers' arrays) and
    removes the name otherwise; `upd` is allowed only on known names. -/
def writesFreshOnly (known : List Var) : List (Instr C) → Bool
  | [] => true
  | .new dst _ :: is => writesFreshOnly (dst :: known) is
  | .upd dst _ :: is => known.contains dst && writesFreshOnly known is
  | .bind dst src :: is =>
      writesFreshOnly (if known.contains src then dst :: known else known.filter (· ≠ dst)) is
  | .arg dst l :: is =>
      writesFreshOnly (if l.owner = .fresh then dst :: known else known.filter (· ≠ dst)) is

/-! ## the programs -/

/-- the abstract computations, one per statement -/
structure Payload (C : Type) where
  f : Nat → (Var → Option C) → C
  g : Nat → C → (Var → Option C) → C

open Instr Var in
/-- `Source.get_log_fluxes` + the head of `Models.fit` (common to both branches) -/
def progHead (p : Payload C) : List (Instr C) :=
  [ new weight (p.f 0),          -- weight = np.zeros(...); weight[r] = ...      (fresh array, then filled)
    new logFlux (p.f 1),         -- log_flux = np.zeros(...); log_flux[r] = ...
    new logError (p.f 2),        -- log_error = np.zeros(...); ...
    upd logFlux (p.g 0),         -- log_flux[source.valid == 9] = 0.            (in place, on the fresh array)
    new modelFluxes (p.f 3),     -- model_fluxes = self.log_fluxes_mJy           (property: builds `values` anew)
    new residual (p.f 4) ]       -- residual = log_flux - model_fluxes

open Instr Var in
/-- `chi_squared` -/
def progChi2 (p : Payload C) : List (Instr C) :=
  [ new chi2Array (p.f 20),      -- chi2_array = (data - model) ** 2 * weight
    upd chi2Array (p.g 20),      -- chi2_array[:, valid == 0] = 0.
    upd chi2Array (p.g 21),      -- chi2_array[:, j][reset] = -2 log(1 - error[j])     (lower limits)
    upd chi2Array (p.g 22),      --                                                    (upper limits)
    upd chi2Array (p.g 23),      -- chi2_array[np.isinf(chi2_array)] = 1e30
    new chBest (p.f 21) ]        -- return np.sum(chi2_array, axis=...)

open Instr Var in
/-- filling the `FitInfo` and `FitInfo.sort` -/
def progInfo (p : Payload C) : List (Instr C) :=
  [ bind infoAv avBest,          -- info.av = av_best
    bind infoSc scBest,          -- info.sc = sc_best
    bind infoChi2 chBest,        -- info.chi2 = ch_best
    bind infoName selfNames,     -- info.model_name = self.names          (ALIAS of the fitter's array)
    bind infoFluxes modelFluxes, -- info.model_fluxes = model_fluxes
    new order (p.f 30),          -- order = np.argsort(self.chi2)
    new infoAv (p.f 31),         -- self.av = self.av[order]              (fancy indexing: new array, REBIND)
    new infoSc (p.f 32),         -- self.sc = self.sc[order]
    new infoChi2 (p.f 33),       -- self.chi2 = self.chi2[order]
    new infoName (p.f 34),       -- self.model_name = self.model_name[order]   (rebinds; self.names untouched)
    new infoFluxes (p.f 35),     -- self.model_fluxes = self.model_fluxes[order, :]
    bind infoModelId order ]     -- self.model_id = order

open Instr Var in
/-- `Models.fit`, `ndim == 2` (distance-independent) -/
def progFit2 (p : Payload C) : List (Instr C) :=
  progHead p ++
  [ new avBest (p.f 10),         -- av_best, sc_best = f.linear_regression(...)
    new scBest (p.f 11),
    new reset (p.f 12),          -- reset1, reset2, reset
    upd avBest (p.g 10),         -- av_best[reset1] = av_min
    upd avBest (p.g 11),         -- av_best[reset2] = av_max
    upd scBest (p.g 12),         -- sc_best[reset] = f.optimal_scaling(...)
    new model (p.f 13) ] ++      -- model = av_best[:, None] * av_law + sc_best[:, None] * sc_law
  progChi2 p ++
  [ new modelFluxes (p.f 14) ] ++ -- model_fluxes = model + model_fluxes   (new array, rebinding the local)
  progInfo p

open Instr Var in
/-- `Models.fit`, `ndim == 3` (distance-dependent) -/
def progFit3 (p : Payload C) : List (Instr C) :=
  progHead p ++
  [ new avBest (p.f 40),         -- av_best = f.optimal_scaling(residual, weight, av_law)
    upd avBest (p.g 40),         -- av_best[av_best < av_min] = av_min
    upd avBest (p.g 41),         -- av_best[av_best > av_max] = av_max
    new model (p.f 41) ] ++      -- model = av_best[:, :, None] * av_law
  progChi2 p ++
  [ new reset (p.f 42),          -- reset = np.any(self.extended[:, :, source.valid > 0], axis=2)
    upd chBest (p.g 42),         -- ch_best[reset] = np.inf
    new best (p.f 43),           -- best = np.argmin(ch_best, axis=1)
    new scBest (p.f 44),         -- sc_best = self.logd[best]             (fancy indexing: new array)
    new chBest (p.f 45),         -- ch_best = ch_best[arange, best]
    new avBest (p.f 46),         -- av_best = av_best[arange, best]
    new modelFluxes (p.f 47) ] ++ -- model_fluxes = (model + model_fluxes)[arange, best, :]
  progInfo p

/-- the three arrays of source number `k` -/
def srcLoc (k j : Nat) : Loc := ⟨.source, 3 * k + j⟩

open Instr Var in
/-- `fitter.fit(source_k)`: bind the argument, run the branch the package calls for -/
def progCall (p : Payload C) (dist : Bool) (k : Nat) : List (Instr C) :=
  [ arg srcValid (srcLoc k 0), arg srcFlux (srcLoc k 1), arg srcError (srcLoc k 2) ] ++
  (if dist then progFit3 p else progFit2 p)

/-- a history of calls on one fitter -/
def progHistory (p : Payload C) (dist : Bool) : List Nat → List (Instr C)
  | [] => []
  | k :: ks => progCall p dist k ++ progHistory p dist ks

open Var in
/-- the names a `Fitter` instance holds, bound to the fitter's own arrays -/
def fitterEnv : List (Var × Loc) :=
  [ (selfFluxes, ⟨.fitter, 0⟩), (selfNames, ⟨.fitter, 1⟩), (selfLogd, ⟨.fitter, 2⟩),
    (selfExtended, ⟨.fitter, 3⟩), (avLaw, ⟨.fitter, 4⟩), (scLaw, ⟨.fitter, 5⟩) ]

/-! ## negative controls: two plausible edits that break purity -/

open Instr Var in
/-- the log fluxes cached on the fitter and then updated in place:
    `model_fluxes = self._log_fluxes` … `model_fluxes += model` -/
def progBadInPlace (p : Payload C) : List (Instr C) :=
  [ bind modelFluxes selfFluxes, new model (p.f 13), upd modelFluxes (p.g 50) ]

open Instr Var in
/-- sorting the aliased names in place: `info.model_name = self.names; info.model_name[:] = …[order]` -/
def progBadNames (p : Payload C) : List (Instr C) :=
  [ bind infoName selfNames, new order (p.f 30), upd infoName (p.g 51) ]

end SF
