import SedVerif.Model.Rank
/-!
# Model of `FitInfo.keep` and `Source.n_data`

`keep` computes a *count* (`np.sum(mask)`: how many fits satisfy the criterion, wherever they are in
the arrays) and then cuts every per-fit array to that length (`a[:n_fits]`).  The model does the
same; that the survivors are exactly the fits satisfying the criterion is a theorem about ranked
results (C05), not something the mechanism guarantees by itself.
-/
namespace SF
variable {K : Type} [Zero K] [One K] [Add K] [Sub K] [Mul K] [Div K] [Neg K]
  [LT K] [DecidableLT K] [LE K] [DecidableLE K] [DecidableEq K]

/-- `Source.n_data = np.sum((valid == 1) | (valid == 4))` -/
def nDataSrc (flags : List Nat) : Nat :=
  (flags.filter (fun f => f = 1 || f = 4)).length

/-- selection tuples `(form, number)`; `N` carries `int(number)` (non-negative) -/
inductive Sel (K : Type) where
  | A
  | N (n : Nat)
  | C (v : EF K)
  | D (v : EF K)
  | E (v : EF K)
  | F (v : EF K)

/-- the quantity a fit with chi² `c` is judged on, given `n_data` and `chi2[0]` -/
def crit (s : Sel K) (nd : Nat) (c0 : EF K) (c : EF K) : EF K :=
  match s with
  | .D _ => c - c0
  | .E _ => EF.divN c (natK nd)
  | .F _ => EF.divN (c - c0) (natK nd)
  | _ => c

/-- `np.sum(xs <= v)` -/
def countLe (v : EF K) (xs : List (EF K)) : Nat :=
  (xs.filter (fun x => EF.le x v)).length

/-- `n_fits` as computed by `keep` -/
def nFits (s : Sel K) (nd : Nat) (chi2 : List (EF K)) : Nat :=
  match chi2 with
  | [] => 0
  | c0 :: _ =>
    match s with
    | .A => chi2.length
    | .N n => n
    | .C v => countLe v chi2
    | .D v => countLe v (chi2.map (fun c => c - c0))
    | .E v => countLe v (chi2.map (fun c => EF.divN c (natK nd)))
    | .F v => countLe v (chi2.map (fun c => EF.divN (c - c0) (natK nd)))

/-- `FitInfo.keep(select_format)` for a source with `nd` fitted points: every array sliced `[:n_fits]` -/
def keep (s : Sel K) (nd : Nat) (x : FitRows K) : FitRows K :=
  let n := nFits s nd x.chi2
  { av := x.av.take n
    sc := x.sc.take n
    chi2 := x.chi2.take n
    name := x.name.take n
    fluxes := x.fluxes.map (fun fl => fl.take n)
    modelId := x.modelId.take n }

/-- `keep` on a `FitInfo` whose source has the given flag vector -/
def keepSrc (s : Sel K) (flags : List Nat) (x : FitRows K) : FitRows K :=
  keep s (nDataSrc flags) x

end SF
