import SedVerif.Model.RoundTrip
/-!
# Files in a directory, quantities with a unit, construction routes (C12, second layer)

* a directory is a finite map path ↦ content; `<p>.gz` is the compressed twin of `<p>`;
  `write(p, x, overwrite)` refuses (`OSError`) when `p` exists and `overwrite=False`, otherwise replaces exactly
  the entry `p`; `read(p)` opens `p`, and — for `SED.read` only — falls back to `<p>.gz` **when `p` is absent**.
* a wavelength held by an object is a physical quantity `value × scale` (`scale` = microns per unit); writers that
  store microns (`FILTWAV`) store `value * scale`.
* an object is built either by constructor keywords or by assigning attributes; both run the same setters.
-/
namespace SF
namespace RT

/-! ## directory -/

/-- path ↦ content -/
abbrev Dir (α : Type) := List (String × α)

/-- the compressed twin of a path -/
def gzOf (p : String) : String := p ++ ".gz"

/-- content stored under `p` -/
def Dir.get {α : Type} (d : Dir α) (p : String) : Option α := d.lookup p

/-- replace / create exactly the entry `p` -/
def Dir.put {α : Type} (d : Dir α) (p : String) (x : α) : Dir α := (p, x) :: d.filter (fun e => e.1 != p)

/-- `obj.write(p, overwrite=…)`: the new directory and whether the write happened (`false` = refused) -/
def dirWrite {α : Type} (d : Dir α) (p : String) (x : α) (overwrite : Bool) : Dir α × Bool :=
  if !overwrite && (d.get p).isSome then (d, false) else (d.put p x, true)

/-- `read(p)`; `fallback = true` is `SED.read` (uses `<p>.gz` only when `<p>` does not exist) -/
def dirRead {α : Type} (fallback : Bool) (d : Dir α) (p : String) : Option α :=
  match d.get p with
  | some x => some x
  | none => if fallback then d.get (gzOf p) else none

/-! ## quantities -/

variable {K : Type} [Zero K] [Mul K] [LT K] [DecidableLT K] [DecidableEq K]

/-- a length held in some unit: `scale` microns per unit -/
structure Qty (K : Type) where
  value : K
  scale : K

/-- `.to(u.micron).value` -/
def Qty.micron (q : Qty K) : K := q.value * q.scale

/-- `ConvolvedFluxes.write` of an object whose central wavelength is a quantity: `FILTWAV` holds microns -/
def convWriteQ (c : Conv K) (w : Option (Qty K)) : ConvFile K :=
  convWrite { c with wavelength := w.map Qty.micron }

/-- a cube whose wavelength axis is held in a unit of `s` microns, seen in microns -/
def axisMicron (s : K) (c : Cube K) : Cube K := { c with wav := c.wav.map (fun x => x * s) }

/-! ## construction routes -/

/-- a cube under construction: every attribute starts as `None` -/
structure CubeObj (K : Type) where
  names : Option (List String)
  wav : Option (List K)
  aps : Option (List K)
  val : Option (List (List (List K)))
  unc : Option (List (List (List K)))

def CubeObj.init : CubeObj K := ⟨none, none, none, none, none⟩

/-- the shape check of the `val` / `unc` setters: only against the dimensions already known -/
def shapeOK (o : CubeObj K) (v : List (List (List K))) : Bool :=
  (match o.names with | none => true | some n => v.length == n.length) &&
  (match o.wav with | none => true | some w => v.all (fun m => m.all (fun r => r.length == w.length))) &&
  v.all (fun m => m.length == (match o.aps with | none => 1 | some a => a.length))

inductive Attr (K : Type)
  | names (n : List String)
  | wav (w : List K)
  | aps (a : List K)
  | val (v : List (List (List K)))
  | unc (u : List (List (List K)))

/-- one attribute assignment (`ValueError` from `validate_array` = `none`) -/
def setAttr (o : CubeObj K) : Attr K → Option (CubeObj K)
  | .names n => some { o with names := some n }
  | .wav w => some { o with wav := some w }
  | .aps a => some { o with aps := some a }
  | .val v => if shapeOK o v then some { o with val := some v } else none
  | .unc u => if shapeOK o u then some { o with unc := some u } else none

/-- a sequence of assignments -/
def assign (o : CubeObj K) : List (Attr K) → Option (CubeObj K)
  | [] => some o
  | a :: as => match setAttr o a with
    | none => none
    | some o' => assign o' as

/-- the assignments the constructor makes for the keywords given, in the constructor's order
    (names, wav, apertures, val, unc) -/
def ctorAttrs (c : Cube K) : List (Attr K) :=
  [.names c.names, .wav c.wav] ++ (match c.aps with | none => [] | some a => [.aps a]) ++ [.val c.val] ++
  (match c.unc with | none => [] | some u => [.unc u])

/-- `SEDCube(names=…, wav=…, apertures=…, val=…, unc=…)` -/
def construct (c : Cube K) : Option (CubeObj K) := assign CubeObj.init (ctorAttrs c)

/-- the finished object as a `Cube` (`None` while `names`, `wav` or `val` are missing) -/
def CubeObj.toCube (o : CubeObj K) : Option (Cube K) :=
  match o.names, o.wav, o.val with
  | some n, some w, some v => some { names := n, wav := w, aps := o.aps, val := v, unc := o.unc }
  | _, _, _ => none

end RT
end SF
