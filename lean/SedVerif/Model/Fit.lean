import SedVerif.Model.Scalar
/-!
# Model of `fitting_routines.py`, `Source.get_log_fluxes`, and `Models.fit`

One `Pt` is one photometric band as seen by the fitter for one model (and, in the
distance-dependent mode, one trial distance): residual `r = log10 F_obs − log10 F_model`,
A_V pattern `k`, scale pattern `q` (the code uses −2), weight `w`, the data flag and the
`log_error` slot `e` (which holds the confidence for limits).
-/
namespace SF
variable {K : Type} [Zero K] [One K] [Add K] [Sub K] [Mul K] [Div K] [Neg K]
  [LT K] [DecidableLT K] [LE K] [DecidableLE K] [DecidableEq K]

structure Pt (K : Type) where
  r : K
  k : K
  q : K
  w : K
  flag : Nat := 1
  e : K

def c1 (ps : List (Pt K)) : K := sumBy (fun p => p.r * p.k * p.w) ps
def c2 (ps : List (Pt K)) : K := sumBy (fun p => p.r * p.q * p.w) ps
def m11 (ps : List (Pt K)) : K := sumBy (fun p => p.k * p.k * p.w) ps
def m12 (ps : List (Pt K)) : K := sumBy (fun p => p.k * p.q * p.w) ps
def m22 (ps : List (Pt K)) : K := sumBy (fun p => p.q * p.q * p.w) ps

/-- `fitting_routines.linear_regression` for one model -/
def linreg (ps : List (Pt K)) : K × K :=
  let invDet := 1 / (m11 ps * m22 ps - m12 ps * m12 ps)
  ((m22 ps * c1 ps - m12 ps * c2 ps) * invDet, (m11 ps * c2 ps - m12 ps * c1 ps) * invDet)

/-- `fitting_routines.optimal_scaling` of `(r − a·k)` against `q` -/
def optScaleAfterAv (a : K) (ps : List (Pt K)) : K :=
  sumBy (fun p => (p.r - a * p.k) * p.q * p.w) ps / m22 ps

/-- `Models.fit`, `ndim == 2` branch, one model: returns `(av, sc)` -/
def fit2 (lo hi : K) (ps : List (Pt K)) : K × K :=
  let (a, s) := linreg ps
  if a < lo then (lo, optScaleAfterAv lo ps)
  else if hi < a then (hi, optScaleAfterAv hi ps)
  else (a, s)

/-- weighted sum of squares  `Σ w (r − a k − s q)²` -/
def ssq (a s : K) (ps : List (Pt K)) : K :=
  sumBy (fun p => (p.r - a * p.k - s * p.q) * (p.r - a * p.k - s * p.q) * p.w) ps

/-! ## `Source.get_log_fluxes` -/

/-- one band of a `Source`: flag, flux, error as given in the data file -/
structure Obs (K : Type) where
  flag : Nat
  flux : K
  err : K

/-- result of the log transform for one band -/
structure LogObs (K : Type) where
  flag : Nat
  lf : K
  le : K
  w : K

/-- `Source.get_log_fluxes` as seen by `Models.fit`, one band.  `lg` is `log10`, `ln10` is
    `np.log(10.)`.  Flag 9 points are transformed for display only; `Models.fit` blanks their log
    flux (`log_flux[valid == 9] = 0`) and their weight is zero, so the fitter sees zeros.  Flags not
    named stay zero, as in the code's `np.zeros` initialisation. -/
def logTransform (lg : K → K) (ln10 : K) (o : Obs K) : LogObs K :=
  let rel := o.err / o.flux
  if o.flag = 1 then
    let le := absK rel / ln10
    ⟨1, lg o.flux - rel * rel / two / ln10, le, 1 / (le * le)⟩
  else if o.flag = 2 ∨ o.flag = 3 then
    ⟨o.flag, lg o.flux, o.err, 0⟩
  else if o.flag = 4 then
    ⟨4, o.flux, o.err, 1 / (o.err * o.err)⟩
  else ⟨o.flag, 0, 0, 0⟩

/-- the code's scale pattern `sc_law = −2` -/
def scLaw : K := -(two)

/-- assemble the per-band points for one model: `residual = log_flux − model_log_flux` -/
def mkPts : List (LogObs K) → List K → List K → List (Pt K)
  | o :: os, mf :: mfs, k :: ks =>
      { r := o.lf - mf, k := k, q := scLaw, w := o.w, flag := o.flag, e := o.le } :: mkPts os mfs ks
  | _, _, _ => []

/-! ## `fitting_routines.chi_squared` -/

/-- the limit penalty `−2·ln(1 − c)`, with the code's replacement of an infinite value by `1e30`.
    `ln1m c = ln(1 − c)` is a parameter of the model. -/
def penalty (big : K) (ln1m : K → K) (c : K) : K :=
  if c = 1 then big else -(two) * ln1m c

/-- contribution of one band to chi² for a model lying at `m = a·k + s·q` -/
def chiTerm (big : K) (ln1m : K → K) (a s : K) (p : Pt K) : K :=
  let m := a * p.k + s * p.q
  let d := (p.r - m) * (p.r - m) * p.w
  if p.flag = 0 then 0
  else if p.flag = 2 then (if m < p.r then penalty big ln1m p.e else d)
  else if p.flag = 3 then (if p.r < m then penalty big ln1m p.e else d)
  else d

def chi2 (big : K) (ln1m : K → K) (a s : K) (ps : List (Pt K)) : K :=
  sumBy (chiTerm big ln1m a s) ps

/-- full result of the distance-independent mode for one model: `(av, sc, chi2)` -/
def fit2Full (big : K) (ln1m : K → K) (lo hi : K) (ps : List (Pt K)) : K × K × K :=
  let (a, s) := fit2 lo hi ps
  (a, s, chi2 big ln1m a s ps)

/-- predicted log fluxes stored with the row: `model + model_log_flux` -/
def predicted2 (a s : K) : List (Pt K) → List K → List K
  | p :: ps, mf :: mfs => (a * p.k + s * p.q + mf) :: predicted2 a s ps mfs
  | _, _ => []

/-! ## distance-dependent mode (`ndim == 3`) -/

/-- `optimal_scaling(residual, weight, av_law)` -/
def optAv (ps : List (Pt K)) : K :=
  sumBy (fun p => p.r * p.k * p.w) ps / sumBy (fun p => p.k * p.k * p.w) ps

/-- the two in-place resets `av[av < lo] = lo; av[av > hi] = hi` -/
def clipAv (lo hi a : K) : K :=
  let b := if a < lo then lo else a
  if hi < b then hi else b

/-- first index of the minimum (`np.argmin`), with the minimum -/
def argminFirstAux : List K → Nat → Nat → K → Nat × K
  | [], _, bi, bv => (bi, bv)
  | x :: xs, i, bi, bv => if x < bv then argminFirstAux xs (i + 1) i x else argminFirstAux xs (i + 1) bi bv

def argminFirst : List K → Nat × K
  | [] => (0, 0)
  | x :: xs => argminFirstAux xs 1 0 x

/-- per-distance `(av, chi2)` for one model; `pss[d]` are that model's points at trial distance `d` -/
def fit3PerDist (big : K) (ln1m : K → K) (lo hi : K) (pss : List (List (Pt K))) : List (K × K) :=
  pss.map (fun ps => let a := clipAv lo hi (optAv ps); (a, chi2 big ln1m a 0 ps))

/-- `Models.fit`, `ndim == 3` branch, one model: `(av, sc, chi2, best distance index)` -/
def fit3 (big : K) (ln1m : K → K) (lo hi : K) (logd : List K) (pss : List (List (Pt K))) :
    K × K × K × Nat :=
  let per := fit3PerDist big ln1m lo hi pss
  let (bi, bc) := argminFirst (per.map (·.2))
  ((per.getD bi (0, 0)).1, logd.getD bi 0, bc, bi)

end SF
