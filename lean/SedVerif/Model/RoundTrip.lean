/-!
# Round trips of SED, SED-cube and convolved-flux files (C12)

Executable model of

* `SED.write`   (`sed/sed.py`): `order = np.argsort(FREQUENCY)`; the wavelength table and every
  aperture's flux / error row are gathered through the *same* `order`; a missing aperture list is
  stored as the one-row table `[1e-30] cm`; missing errors raise `ValueError`.
* `SED.read`    : wav, nu, flux, error are reversed together when
  `(order == 'nu' and nu[0] > nu[-1]) or (order == 'wav' and wav[0] > wav[-1])`.
* `BaseCube.write` / `BaseCube.read` (`sed/cube.py`): arrays are stored as given (no sorting); on
  reading only `WAVELENGTH` is used (`nu` is re-derived from it), and the spectral axis (axis 2) of
  `val` and `unc` is reversed together with `wav` under the same condition.
* `SEDCube.get_sed`: first index whose name matches; `ValueError` if there is none.
* `ConvolvedFluxes.write` / `.read`: no spectral axis; names go through `astype('S30')`; `FILTWAV` and the
  `APERTURES` HDU are optional; a 1-D flux column is reshaped to `(n, 1)` when there is one aperture.

Arrays are lists (structure of arrays, as in the code); optional parts are `Option`; a Python
exception is `none`.  Values are stored in their own unit (unit conversion is C15's business), so
cells are opaque payload of type `K`.  Everything lives in `SF.RT` to keep short names (`gather`,
`argsort`) out of the way of the other model files.
-/
namespace SF
namespace RT
variable {K : Type} [Zero K] [LT K] [DecidableLT K] [DecidableEq K]

/-- the `order=` argument of `SED.read` / `SEDCube.read` -/
inductive Order
  | nu
  | wav
  deriving DecidableEq, Repr

/-- numpy fancy indexing `a[order]`.  (The default is never used: `C12_sed_stored` shows that the
    index list is a permutation of `0 … n-1`.) -/
def gather (order : List Nat) (a : List K) : List K := order.map (fun i => a.getD i 0)

/-- `np.argsort(keys)` (keys are pairwise distinct on the property's domain, so the sort kind does
    not matter): sort the `(key, index)` pairs by key, return the indices -/
def argsort (keys : List K) : List Nat :=
  (keys.zipIdx.mergeSort (fun a b => decide (¬ b.1 < a.1))).map (·.2)

/-- `x[0] > x[-1]`; `IndexError` on an empty array -/
def firstGtLast (l : List K) : Option Bool :=
  match l.head?, l.getLast? with
  | some a, some b => some (decide (b < a))
  | _, _ => none

/-- the cell of `row` that belongs to wavelength *value* `x` (first match) -/
def cellAt : List K → List K → K → Option K
  | w :: ws, v :: vs, x => if w = x then some v else cellAt ws vs x
  | _, _, _ => none

/-! ## SED -/

/-- an `SED` object: `flux[ap][wav]`, `err[ap][wav]` -/
structure Sed (K : Type) where
  name : String
  wav : List K
  nu : List K
  aps : Option (List K)
  flux : List (List K)
  err : Option (List (List K))
  deriving DecidableEq, Repr

/-- the four HDUs of an SED file -/
structure SedFile (K : Type) where
  name : String
  wav : List K
  nu : List K
  aps : List K
  flux : List (List K)
  err : List (List K)
  deriving DecidableEq, Repr

/-- `SED.write`; `tiny` is the literal `1.e-30` stored when there are no apertures -/
def sedWrite (tiny : K) (s : Sed K) : Option (SedFile K) :=
  match s.err with
  | none => none                      -- ValueError("Errors are not set")
  | some e =>
    let order := argsort s.nu
    some { name := s.name
           wav := gather order s.wav
           nu := gather order s.nu
           aps := s.aps.getD [tiny]
           flux := s.flux.map (gather order)
           err := e.map (gather order) }

/-- `[::-1]` on wav and nu, `[..., ::-1]` on flux and error -/
def reverseSpectral (s : Sed K) : Sed K :=
  { s with wav := s.wav.reverse
           nu := s.nu.reverse
           flux := s.flux.map List.reverse
           err := s.err.map (fun e => e.map List.reverse) }

/-- `SED.read(order=o, unit_flux=<stored unit>)` -/
def sedRead (o : Order) (f : SedFile K) : Option (Sed K) :=
  let s : Sed K := { name := f.name, wav := f.wav, nu := f.nu, aps := some f.aps,
                     flux := f.flux, err := some f.err }
  match (match o with
         | .nu => firstGtLast f.nu
         | .wav => firstGtLast f.wav) with
  | none => none
  | some true => some (reverseSpectral s)
  | some false => some s

/-- flux of aperture `a` at wavelength value `x` -/
def sedFlux (s : Sed K) (a : Nat) (x : K) : Option K :=
  (s.flux[a]?).bind (fun row => cellAt s.wav row x)

/-- error of aperture `a` at wavelength value `x` (`none` also when the SED has no errors) -/
def sedErr (s : Sed K) (a : Nat) (x : K) : Option K :=
  s.err.bind (fun e => (e[a]?).bind (fun row => cellAt s.wav row x))

/-- frequency listed beside wavelength value `x` -/
def sedNu (s : Sed K) (x : K) : Option K := cellAt s.wav s.nu x

/-! ## Cube -/

/-- an `SEDCube`: `val[model][ap][wav]` -/
structure Cube (K : Type) where
  names : List String
  wav : List K
  aps : Option (List K)
  val : List (List (List K))
  unc : Option (List (List (List K)))
  deriving DecidableEq, Repr

/-- the HDUs of a cube file (`SPECTRAL_INFO` holds both columns; `APERTURES`, `UNCERTAINTIES` are
    written only when present) -/
structure CubeFile (K : Type) where
  names : List String
  wav : List K
  nu : List K
  aps : Option (List K)
  val : List (List (List K))
  unc : Option (List (List (List K)))
  deriving DecidableEq, Repr

/-- `BaseCube.write`: stored as given; `toNu` is `λ ↦ c/λ` (the `nu` property) -/
def cubeWrite (toNu : K → K) (c : Cube K) : CubeFile K :=
  { names := c.names, wav := c.wav, nu := c.wav.map toNu, aps := c.aps, val := c.val, unc := c.unc }

/-- `[::-1]` on wav, `[:, :, ::-1]` on val and unc -/
def reverseSpectralCube (c : Cube K) : Cube K :=
  { c with wav := c.wav.reverse
           val := c.val.map (fun m => m.map List.reverse)
           unc := c.unc.map (fun u => u.map (fun m => m.map List.reverse)) }

/-- `BaseCube.read(order=o)`: only `WAVELENGTH` is read; `cube.nu` is derived from it -/
def cubeRead (toNu : K → K) (o : Order) (f : CubeFile K) : Option (Cube K) :=
  let c : Cube K := { names := f.names, wav := f.wav, aps := f.aps, val := f.val, unc := f.unc }
  match (match o with
         | .nu => firstGtLast (f.wav.map toNu)
         | .wav => firstGtLast f.wav) with
  | none => none
  | some true => some (reverseSpectralCube c)
  | some false => some c

/-- value of model `m`, aperture `a` at wavelength value `x` -/
def cubeVal (c : Cube K) (m a : Nat) (x : K) : Option K :=
  (c.val[m]?).bind (fun mm => (mm[a]?).bind (fun row => cellAt c.wav row x))

/-- uncertainty of model `m`, aperture `a` at wavelength value `x` -/
def cubeUnc (c : Cube K) (m a : Nat) (x : K) : Option K :=
  c.unc.bind (fun u => (u[m]?).bind (fun mm => (mm[a]?).bind (fun row => cellAt c.wav row x)))

/-- `SEDCube.get_sed(name)`: `np.nonzero(names == name)[0][0]`, `ValueError` if absent;
    `error` is only set when the cube has uncertainties -/
def getSed (toNu : K → K) (c : Cube K) (name : String) : Option (Sed K) :=
  match c.names.findIdx? (fun n => n == name) with
  | none => none
  | some i =>
    match c.val[i]? with
    | none => none
    | some fl =>
      match c.unc with
      | none => some { name := name, wav := c.wav, nu := c.wav.map toNu, aps := c.aps,
                       flux := fl, err := none }
      | some u =>
        match u[i]? with
        | none => none
        | some e => some { name := name, wav := c.wav, nu := c.wav.map toNu, aps := c.aps,
                           flux := fl, err := some e }

/-! ## Convolved fluxes -/

/-- a `ConvolvedFluxes` object: `flux[model][ap]` -/
structure Conv (K : Type) where
  wavelength : Option K
  names : List String
  aps : Option (List K)
  flux : List (List K)
  err : List (List K)
  deriving DecidableEq, Repr

/-- `astype('S30')` -/
def s30 (n : String) : String := String.ofList (n.toList.take 30)

/-- a `TOTAL_FLUX` / `TOTAL_FLUX_ERR` column as found in a file: one number per model (`ndim == 1`, files
    written by other tools or older versions) or one vector per model (`ndim == 2`; what
    `ConvolvedFluxes.write` produces, also for a single aperture) -/
inductive Col (K : Type)
  | d1 (v : List K)
  | d2 (rows : List (List K))
  deriving DecidableEq, Repr

/-- the HDUs of a convolved-flux file: `FILTWAV` keyword and `APERTURES` HDU are optional -/
structure ConvFile (K : Type) where
  filtwav : Option K
  names : List String
  aps : Option (List K)
  flux : Col K
  err : Col K
  deriving DecidableEq, Repr

/-- `ConvolvedFluxes.write`: `FILTWAV` only when `central_wavelength` is set, `APERTURES` only when
    apertures are set; names through `astype('S30')`; flux / error as vector columns -/
def convWrite (c : Conv K) : ConvFile K :=
  { filtwav := c.wavelength, names := c.names.map s30, aps := c.aps, flux := .d2 c.flux, err := .d2 c.err }

/-- one column as `ConvolvedFluxes.read` takes it in: a 1-D column is reshaped to `(n, 1)` when
    `n_ap == 1`; the setter then insists on shape `(n_models, n_ap)` (`ValueError` otherwise) -/
def colRead (nModels nAp : Nat) : Col K → Option (List (List K))
  | .d1 v => if nAp = 1 ∧ v.length = nModels then some (v.map (fun x => [x])) else none
  | .d2 rows => if rows.length = nModels ∧ rows.all (fun r => r.length == nAp) = true then some rows else none

/-- `n_ap` as `read` sees it: the length of the `APERTURES` table, 1 without one -/
def fileNAp (f : ConvFile K) : Nat :=
  match f.aps with
  | none => 1
  | some a => a.length

/-- `ConvolvedFluxes.read`: no `FILTWAV` → `central_wavelength = None`; no `APERTURES` HDU →
    `apertures = None` (and `n_ap = 1`) -/
def convRead (f : ConvFile K) : Option (Conv K) :=
  match colRead f.names.length (fileNAp f) f.flux, colRead f.names.length (fileNAp f) f.err with
  | some fl, some er => some { wavelength := f.filtwav, names := f.names, aps := f.aps, flux := fl, err := er }
  | _, _ => none

/-- `n_ap` of an object -/
def convNAp (c : Conv K) : Nat :=
  match c.aps with
  | none => 1
  | some a => a.length

/-- flux of model `m`, aperture `a` -/
def convFlux (c : Conv K) (m a : Nat) : Option K := (c.flux[m]?).bind (fun r => r[a]?)

/-- error of model `m`, aperture `a` -/
def convErr (c : Conv K) (m a : Nat) : Option K := (c.err[m]?).bind (fun r => r[a]?)

end RT
end SF
