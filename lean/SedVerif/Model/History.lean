/-!
# Model of `fit()`'s source loop, of `FitInfoFile` (writer / reader) and of post-processing histories

Core Lean only, no imports.  Everything lives in `SF.Hist`.

Part 1 (`fit.py:fit`, `fit_info.py:FitInfoFile.write/__init__/__iter__` for files)

* `fitLoop` is the `while True:` loop of `fit()`:  `Source.from_ascii(readline())`; `EOFError` ends the
  loop, every other exception propagates; `if s.n_data >= n_data_min:` fit, drop the predicted fluxes
  unless `output_convolved`, `info.keep(output_format)`, `fout.write(info)`.
* `Writer.write` is `FitInfoFile.write`: the shared metadata is pickled when `_first_meta is None`
  (three consecutive pickles — model directory, filters, extinction law — modelled as one header
  frame), afterwards the metadata of every record is compared with the first one and the record alone
  is pickled.
* `serialize` lays the frames out as bytes through abstract encoders (pickle is not modelled);
  `readAll` is `FitInfoFile(path, 'r')` followed by `list(iter(...))`: header first, then
  `pickle.load` until `EOFError`.

Part 2 (post-processing histories): a state machine over an explicit heap of the caller's result
objects.  `write_parameters`, `write_parameter_ranges`, `extract_parameters`, `plot` do
`for info in FitInfoFile(input_fits): info.keep(select_format); <print info>`; `filter_output` does
`for info in …: <route info to good / bad>`.  Iterating a file yields fresh objects; iterating
in-memory results yields a shallow copy (`Iter.copy`, the code as repaired) or the caller's own object
(`Iter.alias`, the code before the repair — kept as a negative control).
-/
namespace SF.Hist

/-- the exceptions that occur in this part of the code -/
inductive Err
  | eof            -- `EOFError` (`Source.from_ascii` on a line with < 3 columns; `pickle.load` at the end)
  | badLine        -- any other exception of `Source.from_ascii` (`ValueError` …)
  | metaMismatch   -- `FitInfoFile.write`: "meta does not match previously written value"
  | truncated      -- `pickle.load` on a damaged frame
  | fuel           -- model artefact: reader ran out of fuel (shown impossible for `length + 1`)
  | badRef         -- a dangling reference (cannot be written down in Python)
  | noFits         -- `IndexError`: `info.chi2[0]` of a record without fits (`filter_output`)
  deriving DecidableEq, Repr

/-- core Lean has no decidable equality for `Except`; the examples and the driver compare outcomes -/
instance {ε α : Type} [DecidableEq ε] [DecidableEq α] : DecidableEq (Except ε α)
  | .ok a, .ok b => if h : a = b then isTrue (by rw [h]) else isFalse (fun h' => h (by cases h'; rfl))
  | .error a, .error b => if h : a = b then isTrue (by rw [h]) else isFalse (fun h' => h (by cases h'; rfl))
  | .ok _, .error _ => isFalse (fun h => by cases h)
  | .error _, .ok _ => isFalse (fun h => by cases h)

/-! ## Part 1 — the source loop and the fit file -/

/-- one pickle frame group of a fit file -/
inductive Frame (Hdr Rec : Type)
  | hdr (h : Hdr)
  | recd (r : Rec)
  deriving DecidableEq, Repr

/-- `FitInfoFile` opened with mode `'w'`: `_first_meta` and what has been dumped so far -/
structure Writer (Hdr Rec : Type) where
  firstMeta : Option Hdr
  out : List (Frame Hdr Rec)

/-- `FitInfoFile(output, 'w')` -/
def Writer.new {Hdr Rec : Type} : Writer Hdr Rec := ⟨none, []⟩

/-- `FitInfoFile.write(info)` where `m = info.meta` -/
def Writer.write {Hdr Rec : Type} [DecidableEq Hdr] (w : Writer Hdr Rec) (m : Hdr) (r : Rec) :
    Except Err (Writer Hdr Rec) :=
  match w.firstMeta with
  | none => .ok ⟨some m, w.out ++ [.hdr m, .recd r]⟩
  | some m0 => if m = m0 then .ok ⟨some m0, w.out ++ [.recd r]⟩ else .error .metaMismatch

/-- everything `fit()` is parameterised by.  `L` = text lines, `Src` = `Source`, `Rec` = `FitInfo`
    without its `meta`, `Hdr` = the `meta` that `Fitter.fit` attaches to every result. -/
structure FitCfg (L Src Hdr Rec : Type) where
  parse : L → Except Err Src        -- `Source.from_ascii`
  nData : Src → Nat                 -- `Source.n_data`
  fitOne : Src → Rec                -- `Fitter.fit`
  dropFluxes : Rec → Rec            -- `info.model_fluxes = None`
  keepSel : Rec → Rec               -- `info.keep(output_format)`
  hdr : Hdr                         -- `(model_dir, filters, extinction_law)` of the fitter
  nMin : Int                        -- `n_data_min`
  conv : Bool                       -- `output_convolved`

variable {L Src Hdr Rec : Type}

/-- the body of the `if` in `fit()` up to (not including) `fout.write` -/
def FitCfg.post (c : FitCfg L Src Hdr Rec) (s : Src) : Rec :=
  let info := c.fitOne s
  let info := if c.conv then info else c.dropFluxes info
  c.keepSel info

/-- `s.n_data >= n_data_min` -/
def FitCfg.eligible (c : FitCfg L Src Hdr Rec) (s : Src) : Bool := decide (c.nMin ≤ (c.nData s : Int))

/-- the `while True:` loop of `fit()`.  The physical end of the data file is the `[]` case
    (`readline()` returns `''`, for which `from_ascii` raises `EOFError`). -/
def fitLoop [DecidableEq Hdr] (c : FitCfg L Src Hdr Rec) :
    List L → Writer Hdr Rec → Except Err (Writer Hdr Rec)
  | [], w => .ok w
  | l :: ls, w =>
    match c.parse l with
    | .error e => if e = .eof then .ok w else .error e
    | .ok s =>
      if c.eligible s then
        match w.write c.hdr (c.post s) with
        | .error e => .error e
        | .ok w' => fitLoop c ls w'
      else fitLoop c ls w

/-- `fit(data, …, output)`: the frames of the output file -/
def fitMany [DecidableEq Hdr] (c : FitCfg L Src Hdr Rec) (lines : List L) :
    Except Err (List (Frame Hdr Rec)) :=
  match fitLoop c lines Writer.new with
  | .error e => .error e
  | .ok w => .ok w.out

/-- writing a list of results that all carry the metadata `h` with `FitInfoFile.write`, one by one -/
def writeLoop [DecidableEq Hdr] (h : Hdr) : List Rec → Writer Hdr Rec → Except Err (Writer Hdr Rec)
  | [], w => .ok w
  | r :: rs, w =>
    match w.write h r with
    | .error e => .error e
    | .ok w' => writeLoop h rs w'

def writeAll [DecidableEq Hdr] (h : Hdr) (rs : List Rec) : Except Err (List (Frame Hdr Rec)) :=
  match writeLoop h rs Writer.new with
  | .error e => .error e
  | .ok w => .ok w.out

/-! ### specification side of the loop -/

/-- the sources on the lines before the first `EOFError`; any other parse error propagates -/
def parsePrefix (parse : L → Except Err Src) : List L → Except Err (List Src)
  | [] => .ok []
  | l :: ls =>
    match parse l with
    | .error e => if e = .eof then .ok [] else .error e
    | .ok s =>
      match parsePrefix parse ls with
      | .error e => .error e
      | .ok ss => .ok (s :: ss)

/-- a fit file holding the records `rs`: nothing at all for no record, otherwise the header once and
    then the records -/
def framesOf (h : Hdr) : List Rec → List (Frame Hdr Rec)
  | [] => []
  | r :: rs => .hdr h :: .recd r :: rs.map .recd

def Frame.isHdr : Frame Hdr Rec → Bool
  | .hdr _ => true
  | .recd _ => false

/-! ### bytes -/

/-- result of one `pickle.load` -/
inductive Dec (α B : Type)
  | eof                          -- `EOFError`
  | bad                          -- any other unpickling error
  | ok (x : α) (rest : List B)
  deriving Repr

variable {B : Type}

/-- the bytes of a frame list -/
def serialize (encH : Hdr → List B) (enc : Rec → List B) : List (Frame Hdr Rec) → List B
  | [] => []
  | .hdr h :: fs => encH h ++ serialize encH enc fs
  | .recd r :: fs => enc r ++ serialize encH enc fs

/-- `FitInfoFile.__iter__` on a file: `pickle.load` until `EOFError` -/
def readRecs (dec : List B → Dec Rec B) : Nat → List B → Except Err (List Rec)
  | 0, _ => .error .fuel
  | n + 1, bs =>
    match dec bs with
    | .eof => .ok []
    | .bad => .error .truncated
    | .ok r rest =>
      match readRecs dec n rest with
      | .error e => .error e
      | .ok rs => .ok (r :: rs)

/-- `fin = FitInfoFile(path, 'r'); (fin.meta, list(fin))`.  A zero-byte file raises `EOFError` in the
    constructor. -/
def readAll (decH : List B → Dec Hdr B) (dec : List B → Dec Rec B) (bs : List B) :
    Except Err (Hdr × List Rec) :=
  match decH bs with
  | .eof => .error .eof
  | .bad => .error .truncated
  | .ok h rest =>
    match readRecs dec (rest.length + 1) rest with
    | .error e => .error e
    | .ok rs => .ok (h, rs)

/-- what is assumed of pickle on the objects written: loading what was dumped returns the object and
    the unread remainder, and loading at the end of the stream raises `EOFError` -/
structure CodecLaws {α : Type} (enc : α → List B) (dec : List B → Dec α B) : Prop where
  roundtrip : ∀ x rest, dec (enc x ++ rest) = .ok x rest
  atEnd : dec [] = .eof

/-! ## Part 2 — post-processing histories over an explicit heap -/

/-- references are natural numbers (written `Nat` below so that `omega` sees the arithmetic) -/
abbrev Ref := Nat

/-- the caller's result objects (and the temporaries the iterations allocate; the model never
    collects garbage — only the caller's references are observed) -/
abbrev Heap (Rec : Type) := List (Nat × Rec)

def lookupRef (r : Nat) : Heap Rec → Option Rec
  | [] => none
  | (r', v) :: h => if r' = r then some v else lookupRef r h

/-- in-place update of the object behind `r` -/
def updateRef (r : Nat) (f : Rec → Rec) : Heap Rec → Heap Rec
  | [] => []
  | (r', v) :: h => if r' = r then (r', f v) :: updateRef r f h else (r', v) :: updateRef r f h

/-- a reference above every reference in use -/
def freshRef : Heap Rec → Nat
  | [] => 0
  | (r, _) :: h => max (r + 1) (freshRef h)

/-- a new object -/
def alloc (h : Heap Rec) (v : Rec) : Heap Rec × Nat := ((freshRef h, v) :: h, freshRef h)

/-- the three ways of handing results to a post-processing function.  A fit file is given by the
    records it holds (the functions only read it; their own outputs go to other paths). -/
inductive Input (Rec : Type)
  | file (recs : List Rec)
  | obj (r : Nat)
  | list (rs : List Nat)

/-- what `FitInfoFile.__iter__` walks over -/
inductive Item (Rec : Type)
  | disk (v : Rec)     -- a pickled record
  | mem (r : Nat)      -- an element of `self._fits`

def Input.items : Input Rec → List (Item Rec)
  | .file recs => recs.map .disk
  | .obj r => [.mem r]
  | .list rs => rs.map .mem

inductive Op (Sel Thr : Type)
  | writeParameters (s : Sel)
  | writeRanges (s : Sel)
  | extract (s : Sel)
  | plot (s : Sel)
  | filterOutput (t : Thr)

/-- how `FitInfoFile.__iter__` hands out in-memory results -/
inductive Iter
  | copy     -- `copy.copy(info)` (the code as repaired)
  | alias    -- `yield info` (the code before the repair)
  deriving DecidableEq, Repr

/-- output of one call: what the selector ops print per source, or the two record lists that
    `filter_output` writes -/
inductive Out (V Rec : Type)
  | printed (vs : List V)
  | split (good bad : List Rec)
  deriving DecidableEq, Repr

/-- the record-level semantics the machine is parameterised by -/
structure Sem (Rec Sel Thr V : Type) where
  keep : Sel → Rec → Rec                  -- `FitInfo.keep`
  view : Op Sel Thr → Rec → V             -- what the op prints for one (already cut) record
  isGood : Thr → Rec → Except Err Bool    -- `filter_output`'s routing decision

variable {Sel Thr V : Type}

/-- one `next()` of `FitInfoFile.__iter__`: the reference of the yielded object -/
def yield1 (mode : Iter) (h : Heap Rec) : Item Rec → Except Err (Heap Rec × Nat)
  | .disk v => .ok (alloc h v)
  | .mem r =>
    match lookupRef r h with
    | none => .error .badRef
    | some v =>
      match mode with
      | .copy => .ok (alloc h v)
      | .alias => .ok (h, r)

/-- `for info in fin: info.keep(select_format); <print info>` -/
def iterKeep (S : Sem Rec Sel Thr V) (mode : Iter) (op : Op Sel Thr) (sel : Sel) :
    Heap Rec → List (Item Rec) → Heap Rec × Except Err (List V)
  | h, [] => (h, .ok [])
  | h, it :: its =>
    match yield1 mode h it with
    | .error e => (h, .error e)
    | .ok (h1, ref) =>
      let h2 := updateRef ref (S.keep sel) h1
      match lookupRef ref h2 with
      | none => (h2, .error .badRef)
      | some v =>
        let r := iterKeep S mode op sel h2 its
        (r.1, match r.2 with
              | .error e => .error e
              | .ok vs => .ok (S.view op v :: vs))

/-- `for info in fin: (fout_good if good(info) else fout_bad).write(info)` -/
def iterSplit (S : Sem Rec Sel Thr V) (mode : Iter) (t : Thr) :
    Heap Rec → List (Item Rec) → Heap Rec × Except Err (List Rec × List Rec)
  | h, [] => (h, .ok ([], []))
  | h, it :: its =>
    match yield1 mode h it with
    | .error e => (h, .error e)
    | .ok (h1, ref) =>
      match lookupRef ref h1 with
      | none => (h1, .error .badRef)
      | some v =>
        match S.isGood t v with
        | .error e => (h1, .error e)
        | .ok g =>
          let r := iterSplit S mode t h1 its
          (r.1, match r.2 with
                | .error e => .error e
                | .ok gb => .ok (if g then (v :: gb.1, gb.2) else (gb.1, v :: gb.2)))

def printedOf (r : Heap Rec × Except Err (List V)) : Heap Rec × Except Err (Out V Rec) :=
  (r.1, match r.2 with
        | .error e => .error e
        | .ok vs => .ok (.printed vs))

def splitOf (r : Heap Rec × Except Err (List Rec × List Rec)) : Heap Rec × Except Err (Out V Rec) :=
  (r.1, match r.2 with
        | .error e => .error e
        | .ok gb => .ok (.split gb.1 gb.2))

/-- one post-processing call.  An exception leaves the heap as it is at that moment and is returned
    to the caller, who may go on calling. -/
def step (S : Sem Rec Sel Thr V) (mode : Iter) (h : Heap Rec) (c : Op Sel Thr × Input Rec) :
    Heap Rec × Except Err (Out V Rec) :=
  match c.1 with
  | .writeParameters s => printedOf (iterKeep S mode c.1 s h c.2.items)
  | .writeRanges s => printedOf (iterKeep S mode c.1 s h c.2.items)
  | .extract s => printedOf (iterKeep S mode c.1 s h c.2.items)
  | .plot s => printedOf (iterKeep S mode c.1 s h c.2.items)
  | .filterOutput t => splitOf (iterSplit S mode t h c.2.items)

/-- a history of calls: final heap and the outcome of every call -/
def run (S : Sem Rec Sel Thr V) (mode : Iter) :
    Heap Rec → List (Op Sel Thr × Input Rec) → Heap Rec × List (Except Err (Out V Rec))
  | h, [] => (h, [])
  | h, c :: cs =>
    let r := step S mode h c
    let r' := run S mode r.1 cs
    (r'.1, r.2 :: r'.2)

/-! ### specification side: what a call should output, as a function of the records handed in -/

def itemVal (h : Heap Rec) : Item Rec → Option Rec
  | .disk v => some v
  | .mem r => lookupRef r h

def itemsVals (h : Heap Rec) : List (Item Rec) → Option (List Rec)
  | [] => some []
  | it :: its =>
    match itemVal h it, itemsVals h its with
    | some v, some vs => some (v :: vs)
    | _, _ => none

/-- the records an input holds -/
def denote (h : Heap Rec) (i : Input Rec) : Option (List Rec) := itemsVals h i.items

def splitSpec (S : Sem Rec Sel Thr V) (t : Thr) : List Rec → Except Err (List Rec × List Rec)
  | [] => .ok ([], [])
  | v :: vs =>
    match S.isGood t v with
    | .error e => .error e
    | .ok g =>
      match splitSpec S t vs with
      | .error e => .error e
      | .ok gb => .ok (if g then (v :: gb.1, gb.2) else (gb.1, v :: gb.2))

/-- the output of a call as a function of the records alone (no heap, no history) -/
def specOut (S : Sem Rec Sel Thr V) (op : Op Sel Thr) (recs : List Rec) : Except Err (Out V Rec) :=
  match op with
  | .writeParameters s => .ok (.printed (recs.map (fun v => S.view op (S.keep s v))))
  | .writeRanges s => .ok (.printed (recs.map (fun v => S.view op (S.keep s v))))
  | .extract s => .ok (.printed (recs.map (fun v => S.view op (S.keep s v))))
  | .plot s => .ok (.printed (recs.map (fun v => S.view op (S.keep s v))))
  | .filterOutput t =>
    match splitSpec S t recs with
    | .error e => .error e
    | .ok gb => .ok (.split gb.1 gb.2)

/-! ### a concrete record type (used by the driver and by the examples) -/

/-- a result reduced to what histories can observe: which source, which rows are left (row `i` is the
    `i`-th best model of the original result), and the best chi² -/
structure CRec (K : Type) where
  src : Nat
  rows : List Nat
  best : K
  deriving DecidableEq, Repr

/-- selectors reduced to "keep the first `k src` rows"; `filter_output(chi=t)` keeps a source as good
    when `chi and bestchi < chi` -/
def csem {K : Type} [Zero K] [LT K] [DecidableLT K] [DecidableEq K] :
    Sem (CRec K) (Nat → Nat) K (Nat × List Nat) where
  keep := fun k r => { r with rows := r.rows.take (k r.src) }
  view := fun _ r => (r.src, r.rows)
  isGood := fun t r =>
    match r.rows with
    | [] => .error .noFits
    | _ :: _ => .ok (decide (t ≠ 0 ∧ r.best < t))

end SF.Hist
