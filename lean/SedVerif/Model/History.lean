/-!
# Model of `fit()`'s source loop, of `FitInfoFile` (writer / reader) and of post-processing histories

Core Lean only, no imports.  Everything lives in `SF.Hist`.

Part 1 (`fit.py:fit`, `fit_info.py:FitInfoFile.write/__init__/__iter__` for files)

* `fitLoop` is the `while True:` loop of `fit()`:  `Source.from_ascii(readline())`; `EOFError` ends the
  loop, every other exception propagates; `if s.n_data >= n_data_min:` fit, drop the predicted fluxes
  unless `output_convolved`, `info.keep(output_format)`, `fout.write(info)`.
* `Writer.write` is `FitInfoFile.write`: the shared metadata is pickled when `_first_meta is None`
  (three consecutive pickles — model directory, filters, extinction law — modelled as one header
  frame), afterwards the metadata of every record is compared with the first one and the record alone
  is pickled.
* `serialize` lays the frames out as bytes through abstract encoders (pickle is not modelled);
  `readAll` is `FitInfoFile(path, 'r')` followed by `list(iter(...))`: header first, then
  `pickle.load` until `EOFError`.

Part 2 (post-processing histories): a state machine over an explicit TWO-LEVEL heap: objects (the
caller's `FitInfo`s: one reference per attribute) and cells (the numpy arrays / `Source` / `meta` the
attributes point to).  `write_parameters`, `write_parameter_ranges`, `extract_parameters`, `plot`,
`plot_params_1d`, `plot_params_2d` do
`for info in FitInfoFile(input_fits): info.keep(select_format); <print info>`; `filter_output` does
`for info in …: <route info to good / bad>`.  Iterating a file yields fresh objects with fresh cells;
iterating in-memory results yields a SHALLOW copy — a fresh object whose attributes point at the SAME
cells as the caller's object (`Iter.copy`, the code as repaired) — or the caller's own object
(`Iter.alias`, the code before the repair; negative control).  `keep` REBINDS the per-fit attributes
of the yielded object to shorter numpy views (`a[:n]`: same base cell, smaller visible length) and
never writes into a cell.  The op `inplace` (keep, then write through an attribute of the yielded
object — what no consumer in the repo does) is a second negative control: through the shared cells
it changes the caller's arrays.

Part 3: the explicit pickling state (`__getstate__` / `__setstate__`) of `Source`, `FitInfo`,
`Extinction` as the field maps they are, and the lifting of a byte codec for states to a codec for
the objects.
-/
namespace SF.Hist

/-- the exceptions that occur in this part of the code -/
inductive Err
  | eof            -- `EOFError` (`Source.from_ascii` on a line with < 3 columns; `pickle.load` at the end)
  | badLine        -- any other exception of `Source.from_ascii` (`ValueError` …)
  | metaMismatch   -- `FitInfoFile.write`: "meta does not match previously written value"
  | truncated      -- `pickle.load` on a damaged frame
  | fuel           -- model artefact: reader ran out of fuel (shown impossible for `length + 1`)
  | badRef         -- a dangling reference (cannot be written down in Python)
  | noFits         -- `IndexError`: `info.chi2[0]` of a record without fits (`filter_output`)
  | badState       -- `KeyError` / wrong kind of value in `__setstate__`
  | badValue       -- `ValueError` raised by a property setter (`Source.valid/flux/error`, `Extinction.wav/chi`)
  deriving DecidableEq, Repr

/-- core Lean has no decidable equality for `Except`; the examples and the driver compare outcomes -/
instance {ε α : Type} [DecidableEq ε] [DecidableEq α] : DecidableEq (Except ε α)
  | .ok a, .ok b => if h : a = b then isTrue (by rw [h]) else isFalse (fun h' => h (by cases h'; rfl))
  | .error a, .error b => if h : a = b then isTrue (by rw [h]) else isFalse (fun h' => h (by cases h'; rfl))
  | .ok _, .error _ => isFalse (fun h => by cases h)
  | .error _, .ok _ => isFalse (fun h => by cases h)

/-! ## Part 1 — the source loop and the fit file -/

/-- one pickle frame group of a fit file -/
inductive Frame (Hdr Rec : Type)
  | hdr (h : Hdr)
  | recd (r : Rec)
  deriving DecidableEq, Repr

/-- `FitInfoFile` opened with mode `'w'`: `_first_meta` and what has been dumped so far -/
structure Writer (Hdr Rec : Type) where
  firstMeta : Option Hdr
  out : List (Frame Hdr Rec)

/-- `FitInfoFile(output, 'w')` -/
def Writer.new {Hdr Rec : Type} : Writer Hdr Rec := ⟨none, []⟩

/-- `FitInfoFile.write(info)` where `m = info.meta` -/
def Writer.write {Hdr Rec : Type} [DecidableEq Hdr] (w : Writer Hdr Rec) (m : Hdr) (r : Rec) :
    Except Err (Writer Hdr Rec) :=
  match w.firstMeta with
  | none => .ok ⟨some m, w.out ++ [.hdr m, .recd r]⟩
  | some m0 => if m = m0 then .ok ⟨some m0, w.out ++ [.recd r]⟩ else .error .metaMismatch

/-- everything `fit()` is parameterised by.  `L` = text lines, `Src` = `Source`, `Rec` = `FitInfo`
    without its `meta`, `Hdr` = the `meta` that `Fitter.fit` attaches to every result. -/
structure FitCfg (L Src Hdr Rec : Type) where
  parse : L → Except Err Src        -- `Source.from_ascii`
  nData : Src → Nat                 -- `Source.n_data`
  fitOne : Src → Rec                -- `Fitter.fit`
  dropFluxes : Rec → Rec            -- `info.model_fluxes = None`
  keepSel : Rec → Rec               -- `info.keep(output_format)`
  hdr : Hdr                         -- `(model_dir, filters, extinction_law)` of the fitter
  nMin : Int                        -- `n_data_min`
  conv : Bool                       -- `output_convolved`

variable {L Src Hdr Rec : Type}

/-- the body of the `if` in `fit()` up to (not including) `fout.write` -/
def FitCfg.post (c : FitCfg L Src Hdr Rec) (s : Src) : Rec :=
  let info := c.fitOne s
  let info := if c.conv then info else c.dropFluxes info
  c.keepSel info

/-- `s.n_data >= n_data_min` -/
def FitCfg.eligible (c : FitCfg L Src Hdr Rec) (s : Src) : Bool := decide (c.nMin ≤ (c.nData s : Int))

/-- the `while True:` loop of `fit()`.  The physical end of the data file is the `[]` case
    (`readline()` returns `''`, for which `from_ascii` raises `EOFError`). -/
def fitLoop [DecidableEq Hdr] (c : FitCfg L Src Hdr Rec) :
    List L → Writer Hdr Rec → Except Err (Writer Hdr Rec)
  | [], w => .ok w
  | l :: ls, w =>
    match c.parse l with
    | .error e => if e = .eof then .ok w else .error e
    | .ok s =>
      if c.eligible s then
        match w.write c.hdr (c.post s) with
        | .error e => .error e
        | .ok w' => fitLoop c ls w'
      else fitLoop c ls w

/-- `fit(data, …, output)`: the frames of the output file -/
def fitMany [DecidableEq Hdr] (c : FitCfg L Src Hdr Rec) (lines : List L) :
    Except Err (List (Frame Hdr Rec)) :=
  match fitLoop c lines Writer.new with
  | .error e => .error e
  | .ok w => .ok w.out

/-- writing a list of results that all carry the metadata `h` with `FitInfoFile.write`, one by one -/
def writeLoop [DecidableEq Hdr] (h : Hdr) : List Rec → Writer Hdr Rec → Except Err (Writer Hdr Rec)
  | [], w => .ok w
  | r :: rs, w =>
    match w.write h r with
    | .error e => .error e
    | .ok w' => writeLoop h rs w'

def writeAll [DecidableEq Hdr] (h : Hdr) (rs : List Rec) : Except Err (List (Frame Hdr Rec)) :=
  match writeLoop h rs Writer.new with
  | .error e => .error e
  | .ok w => .ok w.out

/-! ### specification side of the loop -/

/-- the sources on the lines before the first `EOFError`; any other parse error propagates -/
def parsePrefix (parse : L → Except Err Src) : List L → Except Err (List Src)
  | [] => .ok []
  | l :: ls =>
    match parse l with
    | .error e => if e = .eof then .ok [] else .error e
    | .ok s =>
      match parsePrefix parse ls with
      | .error e => .error e
      | .ok ss => .ok (s :: ss)

/-- a fit file holding the records `rs`: nothing at all for no record, otherwise the header once and
    then the records -/
def framesOf (h : Hdr) : List Rec → List (Frame Hdr Rec)
  | [] => []
  | r :: rs => .hdr h :: .recd r :: rs.map .recd

def Frame.isHdr : Frame Hdr Rec → Bool
  | .hdr _ => true
  | .recd _ => false

/-! ### bytes -/

/-- result of one `pickle.load` -/
inductive Dec (α B : Type)
  | eof                          -- `EOFError`
  | bad                          -- any other unpickling error
  | ok (x : α) (rest : List B)
  deriving Repr

variable {B : Type}

/-- the bytes of a frame list -/
def serialize (encH : Hdr → List B) (enc : Rec → List B) : List (Frame Hdr Rec) → List B
  | [] => []
  | .hdr h :: fs => encH h ++ serialize encH enc fs
  | .recd r :: fs => enc r ++ serialize encH enc fs

/-- `FitInfoFile.__iter__` on a file: `pickle.load` until `EOFError` -/
def readRecs (dec : List B → Dec Rec B) : Nat → List B → Except Err (List Rec)
  | 0, _ => .error .fuel
  | n + 1, bs =>
    match dec bs with
    | .eof => .ok []
    | .bad => .error .truncated
    | .ok r rest =>
      match readRecs dec n rest with
      | .error e => .error e
      | .ok rs => .ok (r :: rs)

/-- `fin = FitInfoFile(path, 'r'); (fin.meta, list(fin))`.  A zero-byte file raises `EOFError` in the
    constructor. -/
def readAll (decH : List B → Dec Hdr B) (dec : List B → Dec Rec B) (bs : List B) :
    Except Err (Hdr × List Rec) :=
  match decH bs with
  | .eof => .error .eof
  | .bad => .error .truncated
  | .ok h rest =>
    match readRecs dec (rest.length + 1) rest with
    | .error e => .error e
    | .ok rs => .ok (h, rs)

/-- what is assumed of pickle on the objects written (those satisfying `P`): loading what was dumped
    returns the object and the unread remainder, and loading at the end of the stream raises `EOFError` -/
structure CodecLawsOn {α : Type} (P : α → Prop) (enc : α → List B) (dec : List B → Dec α B) : Prop where
  roundtrip : ∀ x, P x → ∀ rest, dec (enc x ++ rest) = .ok x rest
  atEnd : dec [] = .eof

/-- the laws on every object -/
abbrev CodecLaws {α : Type} (enc : α → List B) (dec : List B → Dec α B) : Prop :=
  CodecLawsOn (fun _ => True) enc dec

/-! ## Part 2 — post-processing histories over an explicit two-level heap -/

/-- references are natural numbers (written `Nat` below so that `omega` sees the arithmetic) -/
abbrev Ref := Nat

/-- a store of things addressed by references (the temporaries the iterations allocate stay in it;
    the model never collects garbage — only the caller's references are observed) -/
abbrev Heap (α : Type) := List (Nat × α)

section heap
variable {α : Type}

def lookupRef (r : Nat) : Heap α → Option α
  | [] => none
  | (r', v) :: h => if r' = r then some v else lookupRef r h

/-- in-place update of the thing behind `r` -/
def updateRef (r : Nat) (f : α → α) : Heap α → Heap α
  | [] => []
  | (r', v) :: h => if r' = r then (r', f v) :: updateRef r f h else (r', v) :: updateRef r f h

/-- a reference above every reference in use -/
def freshRef : Heap α → Nat
  | [] => 0
  | (r, _) :: h => max (r + 1) (freshRef h)

/-- a new thing -/
def alloc (h : Heap α) (v : α) : Heap α × Nat := ((freshRef h, v) :: h, freshRef h)

end heap

/-- one attribute of a `FitInfo` object: the cell it points to and, for the per-fit arrays
    (`av sc chi2 model_id model_name model_fluxes`), the visible length of the numpy view `base[:n]`;
    `none` for attributes that are not cut (`source`, `meta`, a `None`) -/
structure Fld where
  ref : Nat
  len : Option Nat
  deriving DecidableEq, Repr

abbrev Obj := List Fld

/-- the value of an attribute: (is it a per-fit array?, its visible rows) -/
abbrev FV (X : Type) := Bool × List X

/-- the value of a result object: its attributes' values -/
abbrev RecV (X : Type) := List (FV X)

structure Store (X : Type) where
  objs : Heap Obj
  cells : Heap (List X)

variable {X : Type}

def fldVal (cells : Heap (List X)) (f : Fld) : Option (FV X) :=
  match lookupRef f.ref cells with
  | none => none
  | some a => some (match f.len with
                    | none => (false, a)
                    | some n => (true, a.take n))

def objVal (cells : Heap (List X)) : Obj → Option (RecV X)
  | [] => some []
  | f :: fs =>
    match fldVal cells f, objVal cells fs with
    | some v, some vs => some (v :: vs)
    | _, _ => none

/-- what a reference to a result object leads to -/
def deref (st : Store X) (r : Nat) : Option (RecV X) :=
  match lookupRef r st.objs with
  | none => none
  | some o => objVal st.cells o

/-- `FitInfo.keep` on values: every per-fit array is cut to its first `k` rows -/
def keepFV (k : Nat) (v : FV X) : FV X := if v.1 then (v.1, v.2.take k) else v

def keepV (k : Nat) (rv : RecV X) : RecV X := rv.map (keepFV k)

def keepFld (k : Nat) (f : Fld) : Fld :=
  match f.len with
  | none => f
  | some n => { f with len := some (min k n) }

/-- `FitInfo.keep` on an object: `self.av = self.av[:k]` … rebinds each per-fit attribute to a shorter
    view of the same cell; nothing is written into any cell -/
def keepObj (k : Nat) (o : Obj) : Obj := o.map (keepFld k)

/-- fresh cells holding the attribute values of an unpickled record -/
def allocFields : Heap (List X) → RecV X → Heap (List X) × Obj
  | cells, [] => (cells, [])
  | cells, v :: rest =>
    let r := allocFields cells rest
    let c := alloc r.1 v.2
    (c.1, ⟨c.2, if v.1 then some v.2.length else none⟩ :: r.2)

/-- `info.<attr> op= …`: an in-place write through an attribute; through a view it rewrites the
    visible rows of the base cell -/
def pokeFld (g : X → X) (cells : Heap (List X)) (f : Fld) : Heap (List X) :=
  updateRef f.ref (fun a => match f.len with
                            | none => a.map g
                            | some n => (a.take n).map g ++ a.drop n) cells

/-- the three ways of handing results to a post-processing function.  A fit file is given by the
    records it holds (the functions only read it; their own outputs go to other paths). -/
inductive Input (X : Type)
  | file (recs : List (RecV X))
  | obj (r : Nat)
  | list (rs : List Nat)

/-- what `FitInfoFile.__iter__` walks over -/
inductive Item (X : Type)
  | disk (v : RecV X)    -- a pickled record
  | mem (r : Nat)        -- an element of `self._fits`

def Input.items : Input X → List (Item X)
  | .file recs => recs.map .disk
  | .obj r => [.mem r]
  | .list rs => rs.map .mem

inductive Op (Sel Thr Pk : Type)
  | writeParameters (s : Sel)
  | writeRanges (s : Sel)
  | extract (s : Sel)
  | plot (s : Sel)
  | plotParams1d (s : Sel)
  | plotParams2d (s : Sel)
  | filterOutput (t : Thr)
  | inplace (s : Sel) (fld : Nat) (p : Pk)   -- NOT in the repo: keep, then write through attribute `fld`

/-- the ops the repo has -/
def Op.noInplace {Sel Thr Pk : Type} : Op Sel Thr Pk → Bool
  | .inplace _ _ _ => false
  | _ => true

/-- how `FitInfoFile.__iter__` hands out in-memory results -/
inductive Iter
  | copy     -- `copy.copy(info)` (the code as repaired)
  | alias    -- `yield info` (the code before the repair)
  deriving DecidableEq, Repr

/-- output of one call: what the selector ops print per source, or the two record lists that
    `filter_output` writes -/
inductive Out (V R : Type)
  | printed (vs : List V)
  | split (good bad : List R)
  deriving DecidableEq, Repr

/-- the record-level semantics the machine is parameterised by -/
structure Sem (X Sel Thr V Pk : Type) where
  nKeep : Sel → RecV X → Nat                     -- how many fits `keep(select_format)` leaves
  view : Op Sel Thr Pk → RecV X → V              -- what the op prints for one (already cut) record
  isGood : Thr → RecV X → Except Err Bool        -- `filter_output`'s routing decision
  poke : Pk → X → X                              -- the in-place write of the `inplace` op

variable {Sel Thr V Pk : Type}

/-- `FitInfo.keep(select_format)` as a function of the record's value -/
def Sem.keep (S : Sem X Sel Thr V Pk) (sel : Sel) (v : RecV X) : RecV X := keepV (S.nKeep sel v) v

/-- one `next()` of `FitInfoFile.__iter__`: the reference of the yielded object -/
def yield1 (mode : Iter) (st : Store X) : Item X → Except Err (Store X × Nat)
  | .disk v =>
    let a := allocFields st.cells v
    let o := alloc st.objs a.2
    .ok (⟨o.1, a.1⟩, o.2)
  | .mem r =>
    match lookupRef r st.objs with
    | none => .error .badRef
    | some o =>
      match mode with
      | .copy =>                    -- a fresh object, the SAME attribute references
        let n := alloc st.objs o
        .ok (⟨n.1, st.cells⟩, n.2)
      | .alias => .ok (st, r)

/-- the write of the `inplace` op through attribute `i` of the object behind `ref` -/
def pokeAt (S : Sem X Sel Thr V Pk) (st : Store X) (ref i : Nat) (p : Pk) : Store X :=
  match lookupRef ref st.objs with
  | none => st
  | some o =>
    match o[i]? with
    | none => st
    | some f => ⟨st.objs, pokeFld (S.poke p) st.cells f⟩

/-- `for info in fin: info.keep(select_format); [write through an attribute;] <print info>` -/
def iterKeep (S : Sem X Sel Thr V Pk) (mode : Iter) (op : Op Sel Thr Pk) (sel : Sel) (pk : Option (Nat × Pk)) :
    Store X → List (Item X) → Store X × Except Err (List V)
  | st, [] => (st, .ok [])
  | st, it :: its =>
    match yield1 mode st it with
    | .error e => (st, .error e)
    | .ok (st1, ref) =>
      match deref st1 ref with
      | none => (st1, .error .badRef)
      | some v =>
        let st2 : Store X := ⟨updateRef ref (keepObj (S.nKeep sel v)) st1.objs, st1.cells⟩
        let st3 : Store X := match pk with
                             | none => st2
                             | some ip => pokeAt S st2 ref ip.1 ip.2
        match deref st3 ref with
        | none => (st3, .error .badRef)
        | some v' =>
          let r := iterKeep S mode op sel pk st3 its
          (r.1, match r.2 with
                | .error e => .error e
                | .ok vs => .ok (S.view op v' :: vs))

/-- `for info in fin: (fout_good if good(info) else fout_bad).write(info)` -/
def iterSplit (S : Sem X Sel Thr V Pk) (mode : Iter) (t : Thr) :
    Store X → List (Item X) → Store X × Except Err (List (RecV X) × List (RecV X))
  | st, [] => (st, .ok ([], []))
  | st, it :: its =>
    match yield1 mode st it with
    | .error e => (st, .error e)
    | .ok (st1, ref) =>
      match deref st1 ref with
      | none => (st1, .error .badRef)
      | some v =>
        match S.isGood t v with
        | .error e => (st1, .error e)
        | .ok g =>
          let r := iterSplit S mode t st1 its
          (r.1, match r.2 with
                | .error e => .error e
                | .ok gb => .ok (if g then (v :: gb.1, gb.2) else (gb.1, v :: gb.2)))

def printedOf (r : Store X × Except Err (List V)) : Store X × Except Err (Out V (RecV X)) :=
  (r.1, match r.2 with
        | .error e => .error e
        | .ok vs => .ok (.printed vs))

def splitOf (r : Store X × Except Err (List (RecV X) × List (RecV X))) : Store X × Except Err (Out V (RecV X)) :=
  (r.1, match r.2 with
        | .error e => .error e
        | .ok gb => .ok (.split gb.1 gb.2))

/-- one post-processing call.  An exception leaves the heap as it is at that moment and is returned
    to the caller, who may go on calling. -/
def step (S : Sem X Sel Thr V Pk) (mode : Iter) (st : Store X) (c : Op Sel Thr Pk × Input X) :
    Store X × Except Err (Out V (RecV X)) :=
  match c.1 with
  | .writeParameters s => printedOf (iterKeep S mode c.1 s none st c.2.items)
  | .writeRanges s => printedOf (iterKeep S mode c.1 s none st c.2.items)
  | .extract s => printedOf (iterKeep S mode c.1 s none st c.2.items)
  | .plot s => printedOf (iterKeep S mode c.1 s none st c.2.items)
  | .plotParams1d s => printedOf (iterKeep S mode c.1 s none st c.2.items)
  | .plotParams2d s => printedOf (iterKeep S mode c.1 s none st c.2.items)
  | .filterOutput t => splitOf (iterSplit S mode t st c.2.items)
  | .inplace s i p => printedOf (iterKeep S mode c.1 s (some (i, p)) st c.2.items)

/-- a history of calls: final heap and the outcome of every call -/
def run (S : Sem X Sel Thr V Pk) (mode : Iter) :
    Store X → List (Op Sel Thr Pk × Input X) → Store X × List (Except Err (Out V (RecV X)))
  | st, [] => (st, [])
  | st, c :: cs =>
    let r := step S mode st c
    let r' := run S mode r.1 cs
    (r'.1, r.2 :: r'.2)

/-! ### specification side: what a call should output, as a function of the records handed in -/

def itemVal (st : Store X) : Item X → Option (RecV X)
  | .disk v => some v
  | .mem r => deref st r

def itemsVals (st : Store X) : List (Item X) → Option (List (RecV X))
  | [] => some []
  | it :: its =>
    match itemVal st it, itemsVals st its with
    | some v, some vs => some (v :: vs)
    | _, _ => none

/-- the records an input holds -/
def denote (st : Store X) (i : Input X) : Option (List (RecV X)) := itemsVals st i.items

def splitSpec (S : Sem X Sel Thr V Pk) (t : Thr) : List (RecV X) → Except Err (List (RecV X) × List (RecV X))
  | [] => .ok ([], [])
  | v :: vs =>
    match S.isGood t v with
    | .error e => .error e
    | .ok g =>
      match splitSpec S t vs with
      | .error e => .error e
      | .ok gb => .ok (if g then (v :: gb.1, gb.2) else (gb.1, v :: gb.2))

/-- the output of a call of one of the repo's ops as a function of the records alone (no heap, no
    history).  (For the `inplace` control it is what the call would print if it did not write.) -/
def specOut (S : Sem X Sel Thr V Pk) (op : Op Sel Thr Pk) (recs : List (RecV X)) : Except Err (Out V (RecV X)) :=
  match op with
  | .writeParameters s => .ok (.printed (recs.map (fun v => S.view op (S.keep s v))))
  | .writeRanges s => .ok (.printed (recs.map (fun v => S.view op (S.keep s v))))
  | .extract s => .ok (.printed (recs.map (fun v => S.view op (S.keep s v))))
  | .plot s => .ok (.printed (recs.map (fun v => S.view op (S.keep s v))))
  | .plotParams1d s => .ok (.printed (recs.map (fun v => S.view op (S.keep s v))))
  | .plotParams2d s => .ok (.printed (recs.map (fun v => S.view op (S.keep s v))))
  | .inplace s _ _ => .ok (.printed (recs.map (fun v => S.view op (S.keep s v))))
  | .filterOutput t =>
    match splitSpec S t recs with
    | .error e => .error e
    | .ok gb => .ok (.split gb.1 gb.2)

/-! ### a concrete record type (used by the driver and by the examples) -/

/-- what the cells of a result hold, reduced to what histories can observe: row `i` of a per-fit
    array (the `i`-th best model of the original result), the source, the best chi² and the best chi²
    per data point -/
inductive CX (K : Type)
  | row (i : Nat)
  | src (i : Nat)
  | best (b : K)
  | bestpd (b : K)
  deriving DecidableEq, Repr

/-- a result as histories see it -/
structure CRec (K : Type) where
  src : Nat
  rows : List Nat
  best : K
  bestpd : K
  deriving DecidableEq, Repr

/-- attribute layout of the concrete records: `[per-fit rows, source, best chi², best chi²/n_data]` -/
def CRec.toV {K : Type} (r : CRec K) : RecV (CX K) :=
  [(true, r.rows.map .row), (false, [.src r.src]), (false, [.best r.best]), (false, [.bestpd r.bestpd])]

def rowsOf {K : Type} : List (CX K) → Option (List Nat)
  | [] => some []
  | .row i :: xs => (rowsOf xs).map (i :: ·)
  | _ :: _ => none

def CRec.ofV {K : Type} : RecV (CX K) → Option (CRec K)
  | [(true, rs), (false, [.src s]), (false, [.best b]), (false, [.bestpd c])] =>
    (rowsOf rs).map (fun rows => ⟨s, rows, b, c⟩)
  | _ => none

/-- selectors reduced to "keep the first `k src` rows"; `filter_output(chi=a, cpd=b)` keeps a source as
    good when `(chi and bestchi < chi) or (cpd and bestcpd < cpd)`; the `inplace` write shifts row
    numbers by `p` -/
def csem {K : Type} [Zero K] [LT K] [DecidableLT K] [DecidableEq K] :
    Sem (CX K) (Nat → Nat) (Option K × Option K) (Option (Nat × List Nat)) Nat where
  nKeep := fun k v => match CRec.ofV v with
                      | none => 0
                      | some r => k r.src
  view := fun _ v => (CRec.ofV v).map (fun r => (r.src, r.rows))
  isGood := fun t v =>
    match CRec.ofV v with
    | none => .error .badState
    | some r =>
      match r.rows with
      | [] => .error .noFits
      | _ :: _ =>
        let byChi := match t.1 with
                     | none => false
                     | some a => decide (a ≠ 0 ∧ r.best < a)
        let byCpd := match t.2 with
                     | none => false
                     | some a => decide (a ≠ 0 ∧ r.bestpd < a)
        .ok (byChi || byCpd)
  poke := fun p x => match x with
                     | .row i => .row (i + p)
                     | y => y

/-! ## Part 3 — the explicit pickling state of `Source`, `FitInfo`, `Extinction` -/

/-- the kinds of plain values that occur in the states (`F` = floats) -/
inductive PV0 (F : Type)
  | none                                  -- `None`
  | str (s : String)
  | num (x : F)
  | nats (l : List Nat)                   -- integer array
  | nums (l : List F)                     -- float array (dimensionless `Quantity` or `ndarray`)
  | strs (l : List String)                -- string array
  | mat (m : List (List F))               -- 2-d float array
  | qty (l : List F) (unit : String)      -- `Quantity` with a unit

/-- a value of a state dictionary: a plain value or the state of a nested object -/
inductive PV (F : Type)
  | flat (v : PV0 F)
  | obj (d : List (String × PV0 F))

/-- `d[key]` (`KeyError` when missing) -/
def getKey {α : Type} (key : String) : List (String × α) → Except Err α
  | [] => .error .badState
  | (k, v) :: d => if k = key then .ok v else getKey key d

structure Source (F : Type) where
  name : String
  x : F
  y : F
  valid : List Nat
  flux : List F
  error : List F

/-- `Source.__getstate__` -/
def Source.getstate {F : Type} (s : Source F) : List (String × PV0 F) :=
  [("name", .str s.name), ("x", .num s.x), ("y", .num s.y), ("valid", .nats s.valid),
   ("flux", .nums s.flux), ("error", .nums s.error)]

/-- the flag alphabet the `valid` setter accepts: `[0:4]` or 9 -/
def flagOk (v : Nat) : Bool := decide (v ≤ 4) || decide (v = 9)

/-- what the property setters of `Source` enforce -/
def Source.WF {F : Type} (s : Source F) : Prop :=
  s.valid.all flagOk = true ∧ s.flux.length = s.valid.length ∧ s.error.length = s.valid.length

instance {F : Type} (s : Source F) : Decidable s.WF := by unfold Source.WF; infer_instance

/-- `Source.__setstate__`: `__init__()`, then the six assignments in the order of the source, each
    through its validating setter (`valid`: alphabet; `flux`, `error`: length `n_wav = len(valid)`) -/
def Source.setstate {F : Type} (d : List (String × PV0 F)) : Except Err (Source F) :=
  match getKey "name" d, getKey "x" d, getKey "y" d, getKey "valid" d, getKey "flux" d, getKey "error" d with
  | .ok (.str name), .ok (.num x), .ok (.num y), .ok (.nats valid), .ok (.nums flux), .ok (.nums error) =>
    if valid.all flagOk then
      if flux.length = valid.length then
        if error.length = valid.length then .ok ⟨name, x, y, valid, flux, error⟩
        else .error .badValue
      else .error .badValue
    else .error .badValue
  | _, _, _, _, _, _ => .error .badState

/-- a `FitInfo` without its `meta` — exactly what `__getstate__` keeps -/
structure FitCore (F : Type) where
  source : Source F
  av : List F
  sc : List F
  chi2 : List F
  modelId : List Nat
  modelName : List String
  modelFluxes : Option (List (List F))

structure FitInfo (F M : Type) where
  core : FitCore F
  fmeta : M        -- the `meta` attribute (`meta` is a Lean keyword)

def FitCore.getstate {F : Type} (c : FitCore F) : List (String × PV F) :=
  [("source", .obj c.source.getstate), ("av", .flat (.nums c.av)), ("sc", .flat (.nums c.sc)),
   ("chi2", .flat (.nums c.chi2)), ("model_id", .flat (.nats c.modelId)),
   ("model_name", .flat (.strs c.modelName)),
   ("model_fluxes", .flat (match c.modelFluxes with
                           | none => .none
                           | some m => .mat m))]

def FitCore.setstate {F : Type} (d : List (String × PV F)) : Except Err (FitCore F) :=
  match getKey "source" d, getKey "av" d, getKey "sc" d, getKey "chi2" d, getKey "model_id" d,
        getKey "model_name" d, getKey "model_fluxes" d with
  | .ok (.obj sd), .ok (.flat (.nums av)), .ok (.flat (.nums sc)), .ok (.flat (.nums chi2)),
    .ok (.flat (.nats mid)), .ok (.flat (.strs mn)), .ok (.flat mf) =>
    match Source.setstate sd with
    | .error e => .error e
    | .ok s =>
      match mf with
      | .none => .ok ⟨s, av, sc, chi2, mid, mn, none⟩
      | .mat m => .ok ⟨s, av, sc, chi2, mid, mn, some m⟩
      | _ => .error .badState
  | _, _, _, _, _, _, _ => .error .badState

/-- `FitInfo.__getstate__`: seven named fields; `meta` is NOT part of the state -/
def FitInfo.getstate {F M : Type} (x : FitInfo F M) : List (String × PV F) := x.core.getstate

/-- `FitInfo.__setstate__`: `__init__()` (which makes a new empty `FitInfoMeta()`, here `m0`), then the
    seven assignments -/
def FitInfo.setstate {F M : Type} (m0 : M) (d : List (String × PV F)) : Except Err (FitInfo F M) :=
  match FitCore.setstate d with
  | .error e => .error e
  | .ok c => .ok ⟨c, m0⟩

/-- `info.meta = self._first_meta` in `FitInfoFile.__iter__` -/
def FitInfo.attach {F M : Type} (h : M) (x : FitInfo F M) : FitInfo F M := { x with fmeta := h }

structure Quantity (F : Type) where
  vals : List F
  unit : String

structure Extinction (F : Type) where
  wav : Quantity F
  chi : Quantity F

/-- `Extinction.__getstate__` -/
def Extinction.getstate {F : Type} (e : Extinction F) : List (String × PV0 F) :=
  [("wav", .qty e.wav.vals e.wav.unit), ("chi", .qty e.chi.vals e.chi.unit)]

/-- what the setters of `Extinction` enforce (`validate_array`: physical type, equal shapes);
    `isLen` / `isApm` say which unit strings are lengths / areas per unit mass -/
def Extinction.WF {F : Type} (isLen isApm : String → Bool) (e : Extinction F) : Prop :=
  isLen e.wav.unit = true ∧ isApm e.chi.unit = true ∧ e.chi.vals.length = e.wav.vals.length

instance {F : Type} (isLen isApm : String → Bool) (e : Extinction F) : Decidable (e.WF isLen isApm) := by
  unfold Extinction.WF; infer_instance

/-- `Extinction.__setstate__`: `__init__()`, `self.wav = d['wav']`, `self.chi = d['chi']` -/
def Extinction.setstate {F : Type} (isLen isApm : String → Bool) (d : List (String × PV0 F)) :
    Except Err (Extinction F) :=
  match getKey "wav" d, getKey "chi" d with
  | .ok (.qty w wu), .ok (.qty c cu) =>
    if isLen wu then
      if isApm cu then
        if c.length = w.length then .ok ⟨⟨w, wu⟩, ⟨c, cu⟩⟩ else .error .badValue
      else .error .badValue
    else .error .badValue
  | _, _ => .error .badState

/-- the shared metadata of a fit file -/
structure Meta (F Fl : Type) where
  modelDir : String
  filters : Fl
  law : Extinction F

/-- the three header pickles: `model_dir`, `filters`, and the state of the extinction law -/
def Meta.getstate {F Fl : Type} (m : Meta F Fl) : String × Fl × List (String × PV0 F) :=
  (m.modelDir, m.filters, m.law.getstate)

def Meta.setstate {F Fl : Type} (isLen isApm : String → Bool) (s : String × Fl × List (String × PV0 F)) :
    Except Err (Meta F Fl) :=
  match Extinction.setstate isLen isApm s.2.2 with
  | .error e => .error e
  | .ok l => .ok ⟨s.1, s.2.1, l⟩

/-- pickling an object = pickling its state; unpickling = unpickling a state, then `__setstate__`
    (an exception in `__setstate__` surfaces as a failed load) -/
def encVia {α σ : Type} (get : α → σ) (encS : σ → List B) (x : α) : List B := encS (get x)

def decVia {α σ : Type} (set : σ → Except Err α) (decS : List B → Dec σ B) (bs : List B) : Dec α B :=
  match decS bs with
  | .eof => .eof
  | .bad => .bad
  | .ok s rest =>
    match set s with
    | .ok x => .ok x rest
    | .error _ => .bad

end SF.Hist
