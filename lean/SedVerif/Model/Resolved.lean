import SedVerif.Model.Dist
import SedVerif.Model.Rank
/-!
# The resolved-source rule (`remove_resolved=True`)

Model of `ConvolvedFluxes.find_radius_sigma` (`convolved_fluxes.py`), of the `extended` mask built by
`Models._read_version_1/_2` and of its use in `Models.fit`, `ndim == 3` (`models.py`).

What the code does, per filter and per model:

```
apertures_au = theta * distances_pc * AU          -- one aperture radius per trial distance
conv = conv.interpolate(apertures_au)             -- resets apertures_au IN PLACE to the largest tabulated one
conv.flux = conv.flux * (kpc / distances) ** 2    -- per-distance fluxes
extended[:, :, ifilt] = apertures_au[newaxis, :] < conv.find_radius_sigma(0.5)[:, newaxis]
```

so `find_radius_sigma` runs on the *per-distance* fluxes with the (reset) `theta·d` as its aperture grid.
On that grid two neighbouring apertures are equal whenever both trial distances lie beyond the table, and
the surface-brightness increment there is `x / 0`: the arithmetic of this file is therefore IEEE-extended
(`EF K`: finite, `±inf`, NaN) exactly where the code divides; signed zeros, rounding and overflow are not
modelled.  `Models.fit` then sets `chi² = +inf` at every trial distance at which *any* band with
`source.valid > 0` (flags 1, 2, 3, 4 **and 9**) is marked, and takes the first minimum (`fit3Ext` of
`Model/Rank.lean`).
-/
namespace SF
variable {K : Type} [Zero K] [One K] [Add K] [Sub K] [Mul K] [Div K] [Neg K]
  [LT K] [DecidableLT K] [LE K] [DecidableLE K] [DecidableEq K]

namespace EF

/-- IEEE `a / b` (a zero divisor is `+0.0`, as `x - x` and `a*a - a*a` are) -/
def div : EF K → EF K → EF K
  | nan, _ => nan
  | _, nan => nan
  | a, fin y => divN a y
  | fin _, pinf => fin 0
  | fin _, ninf => fin 0
  | pinf, pinf => nan
  | pinf, ninf => nan
  | ninf, pinf => nan
  | ninf, ninf => nan

/-- IEEE `a * c` for a finite `c` -/
def mulK (a : EF K) (c : K) : EF K :=
  match a with
  | nan => nan
  | fin x => fin (x * c)
  | pinf => if 0 < c then pinf else if c < 0 then ninf else nan
  | ninf => if 0 < c then ninf else if c < 0 then pinf else nan

/-- IEEE `a + c` for a finite `c` -/
def addK (a : EF K) (c : K) : EF K :=
  match a with
  | fin x => fin (x + c)
  | e => e

/-- one step of `np.max`: NaN propagates -/
def maxNp (a b : EF K) : EF K :=
  match a, b with
  | nan, _ => nan
  | _, nan => nan
  | a, b => if lt a b then b else a

end EF

/-! ## `ConvolvedFluxes.find_radius_sigma` -/

/-- `sigma[1:] = (flux[1:] - flux[:-1]) / (apertures[1:]**2 - apertures[:-1]**2)`, given the previous
    aperture and flux -/
def sigmaTail : K → K → List K → List K → List (EF K)
  | pa, pf, a :: as, f :: fs => EF.divN (EF.fin (f - pf)) (a * a - pa * pa) :: sigmaTail a f as fs
  | _, _, _, _ => []

/-- the surface-brightness profile of one model: `sigma[0] = flux[0] / apertures[0]**2`, then `sigmaTail` -/
def sigmaProfile : List K → List K → List (EF K)
  | a :: as, f :: fs => EF.divN (EF.fin f) (a * a) :: sigmaTail a f as fs
  | _, _ => []

/-- the value assigned inside the loop:
    `(sigma[ia] - thr) / (sigma[ia] - sigma[ia+1]) * (apertures[ia+1] - apertures[ia]) + apertures[ia]` -/
def radiusInterp (thr : EF K) (p q : K × EF K) : EF K :=
  EF.addK (EF.mulK (EF.div (p.2 - thr) (p.2 - q.2)) (q.1 - p.1)) p.1

/-- the backwards loop `for ia in range(n - 2, -1, -1)` over `(aperture, sigma)` pairs: the tail is
    processed first; index `ia` is assigned only when `sigma[ia] > thr` and `radius == 0.` still holds -/
def radiusLoop (thr : EF K) : List (K × EF K) → EF K
  | [] => EF.fin 0
  | [_] => EF.fin 0
  | p :: q :: rest =>
    let r := radiusLoop thr (q :: rest)
    if EF.lt thr p.2 && EF.eq r (EF.fin 0) then radiusInterp thr p q else r

/-- `np.max(sigma)` of a non-empty profile -/
def maxSigma (s0 : EF K) (ss : List (EF K)) : EF K := ss.foldl EF.maxNp s0

/-- `ConvolvedFluxes.find_radius_sigma(fraction)` for one model: `apertures` and `flux` as the object holds
    them.  `none` = the `IndexError` of `sigma[:, 0]` on an object without apertures / a shape mismatch. -/
def findRadiusSigma (fraction : K) (aps flux : List K) : Option (EF K) :=
  if aps.length ≠ flux.length then none
  else
    match aps, sigmaProfile aps flux with
    | a0 :: as, s0 :: ss =>
      let thr := EF.mulK (maxSigma s0 ss) fraction
      let r := radiusLoop thr ((a0 :: as).zip (s0 :: ss))
      -- `calc = sigma[:, -1] > fraction * maximum; radius[calc] = apertures[-1]`
      some (if EF.lt thr (lastD ss s0) then EF.fin (lastD as a0) else r)
    | _, _ => none

/-! ## the `extended` mask of `Models._read_version_1/_2` -/

/-- the literal `0.5` -/
def halfK : K := 1 / two

/-- `apertures_au` after `conv.interpolate(apertures_au)`: `theta · d_pc`, reset in place to the largest
    tabulated aperture -/
def apGrid (t : BandTab K) (dists : List K) : List K :=
  match t.aps with
  | [] => dists.map (fun d => t.theta * (thousandK * d))
  | a0 :: rest => dists.map (fun d => clampHi (lastD rest a0) (t.theta * (thousandK * d)))

/-- `conv.flux` of one model in one band after the `(kpc / d)²` scaling: one value per trial distance
    (the same `fluxAt` the fit uses) -/
def bandFluxes (t : BandTab K) (dists : List K) : Except ApErr (List K) :=
  seqE (dists.map (fun d => fluxAt t.aps t.row t.theta (thousandK * d) d))

/-- `conv.find_radius_sigma(0.5)` of one model in one band -/
def bandRadius (t : BandTab K) (dists : List K) : Except ApErr (EF K) :=
  match bandFluxes t dists with
  | .error e => .error e
  | .ok fl =>
    match findRadiusSigma halfK (apGrid t dists) fl with
    | some r => .ok r
    | none => .error .badTable

/-- `apertures_au[newaxis, :] < radius[:, newaxis]` for one model and one band: one flag per trial distance -/
def maskOf (aps : List K) (r : EF K) : List Bool := aps.map (fun a => EF.lt (EF.fin a) r)

def bandMask (t : BandTab K) (dists : List K) : Except ApErr (List Bool) :=
  (bandRadius t dists).map (maskOf (apGrid t dists))

/-- `extended[m]` as `[band][trial distance]` -/
def extendedMask (tabs : List (BandTab K)) (dists : List K) : Except ApErr (List (List Bool)) :=
  seqE (tabs.map (fun t => bandMask t dists))

/-- `reset = np.any(extended[m][:, source.valid > 0], axis=1)`: one flag per trial distance -/
def resetResolved (flags : List Nat) (ext : List (List Bool)) (nd : Nat) : List Bool :=
  (List.range nd).map (fun d => (flags.zip ext).any (fun fc => decide (0 < fc.1) && fc.2.getD d false))

/-- `Models.fit`, `ndim == 3`, one model of a fitter built with `remove_resolved=True`:
    `(av, sc, chi2, best distance index)`; chi² is `+inf` where the model is resolved -/
def fitResolved (big : K) (ln1m lg : K → K) (lo hi : K) (lobs : List (LogObs K)) (ks : List K)
    (tabs : List (BandTab K)) (dists : List K) : Except ApErr (K × K × EF K × Nat) :=
  match modelPss lg lobs ks tabs dists, extendedMask tabs dists with
  | .ok pss, .ok ext =>
    .ok (fit3Ext big ln1m lo hi (dists.map lg) pss (resetResolved (lobs.map (·.flag)) ext dists.length))
  | .error e, _ => .error e
  | _, .error e => .error e

end SF
