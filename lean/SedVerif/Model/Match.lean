import SedVerif.Model.EF
/-!
# Model of the name-matching machinery (C07, C09)

* `utils/misc.py:order_to_match`                         → `orderToMatch`
* `ConvolvedFluxes.sort_to_match` / `.write`             → `sortToMatch`, `Conv.written`
* `convolve.py:_convolve_model_dir_1/_2`                 → `convolveV1`, `convolveV2`
* `FitInfo.filter_table`                                 → `filterTable`, `filterTableAdd`
* the strip + `t.sort('MODEL_NAME')` step of `write_parameters`, `write_parameter_ranges`,
  `extract_parameters`, `plot_params_1d/2d`              → `prepTable`
* `nanmin / [0] / nanmax`, `n_data`, `n_fits`            → `paramRanges`, `nData`, `counts`

The model follows the code's mechanism: index lists produced by `argsort`, fancy indexing
(`gather?`, where `none` is numpy's `IndexError`), the code's own post-checks (→ `Except`).
Only `Model/EF.lean` (extended floats, for the NaN-skipping ranges) is imported.  Everything lives in `SF.Match` so that the short names (`argsort…`, `gather?`) cannot
clash with other model files.
-/
namespace SF.Match

/-- Python exceptions of this family -/
inductive MErr where
  | sortFailed      -- "Sorting failed" / "Parameter file sorting failed"
  | indexError      -- numpy IndexError in a fancy-indexing step
  | namesMismatch   -- "Model names in SED cube and parameter file do not match"
  | noSeds          -- "No SEDs found"
  | keyError        -- `additional[par][name]` missing
  | dupColumn       -- "Parameter {par} already exists in table"
  | noModelName     -- "Input table should contain a MODEL_NAME column"
  | fileExists      -- OSError of `writeto(..., overwrite=False)` on an existing file
  deriving DecidableEq, Repr

def MErr.toString : MErr → String
  | .sortFailed => "sortFailed"
  | .indexError => "indexError"
  | .namesMismatch => "namesMismatch"
  | .noSeds => "noSeds"
  | .keyError => "keyError"
  | .dupColumn => "dupColumn"
  | .noModelName => "noModelName"
  | .fileExists => "fileExists"

/-! ## numpy primitives -/

/-- fancy indexing `a[idx]`; `none` = IndexError (indices are never negative here) -/
def gather? {α : Type} (a : List α) : List Nat → Option (List α)
  | [] => some []
  | i :: is =>
    match a[i]?, gather? a is with
    | some x, some xs => some (x :: xs)
    | _, _ => none

/-- `np.argsort` of the `n` keys `key 0 … key (n-1)` (stable; the properties' names are distinct, so
    the choice of sorting algorithm is not observable) -/
def argsortBy {β : Type} (le : β → β → Bool) (key : Nat → β) (n : Nat) : List Nat :=
  (List.range n).mergeSort (fun i j => le (key i) (key j))

/-- numpy's order on `U`/`S` strings: lexicographic by code point -/
def strLe (a b : String) : Bool := decide (a ≤ b)

def natLe (a b : Nat) : Bool := decide (a ≤ b)

/-- `np.argsort(names)` -/
def argsortStr (a : List String) : List Nat := argsortBy strLe (fun i => a.getD i "") a.length

/-- `np.argsort(index_array)` -/
def argsortNat (a : List Nat) : List Nat := argsortBy natLe (fun i => a.getD i 0) a.length

/-- `utils.misc.order_to_match`: `np.argsort(array)[np.argsort(np.argsort(reference))]` -/
def orderToMatch (a ref : List String) : Option (List Nat) :=
  gather? (argsortStr a) (argsortNat (argsortStr ref))

/-! ## names -/

def isSpace (c : Char) : Bool :=
  c = ' ' || c = '\t' || c = '\n' || c = '\r' || c = '\x0b' || c = '\x0c'

def stripChars (l : List Char) : List Char :=
  ((l.dropWhile isSpace).reverse.dropWhile isSpace).reverse

/-- `np.char.strip` / `str.strip` on one name -/
def strip (s : String) : String := String.ofList (stripChars s.toList)

/-- `.astype('S30')` / assignment into a `U30` array: keep the first 30 characters -/
def take30 (s : String) : String := String.ofList (s.toList.take 30)

/-! ## `ConvolvedFluxes` -/

/-- a `ConvolvedFluxes` object / `convolved/<filter>.fits` file.  Structure of arrays, like the code:
    `names[i]`, `flux[i]`, `error[i]` describe model row `i`; `F` is one row (a value per aperture). -/
structure Conv (K F : Type) where
  names : List String
  apertures : Option (List K)
  filtwav : K
  flux : List F
  error : List F

variable {K F S V : Type}

/-- `ConvolvedFluxes.sort_to_match(requested_model_names)` -/
def sortToMatch (c : Conv K F) (requested : List String) : Except MErr (Conv K F) :=
  let req := requested.map strip
  match orderToMatch c.names req with
  | none => .error .indexError
  | some order =>
    match gather? c.names order, gather? c.flux order, gather? c.error order with
    | some nm, some fl, some er =>
      -- "Double check that the sorting will work"
      if nm = req then .ok { c with names := nm, flux := fl, error := er }
      else .error .sortFailed
    | _, _, _ => .error .indexError

/-- `ConvolvedFluxes.write`: `MODEL_NAME` is stored as `S30` -/
def Conv.written (c : Conv K F) : Conv K F := { c with names := c.names.map take30 }

/-- the row labelled `X` (first match), as a reader of the file finds it -/
def lookupRow (X : String) : List String → List F → List F → Option (F × F)
  | n :: ns, f :: fs, e :: es => if n = X then some (f, e) else lookupRow X ns fs es
  | _, _, _ => none

def Conv.lookup (c : Conv K F) (X : String) : Option (F × F) := lookupRow X c.names c.flux c.error

/-! ## `convolve_model_dir` -/

/-- one aperture of one SED: spectrum and its uncertainty (`S` = a spectrum on the common grid) -/
structure Ap (S : Type) where
  val : S
  unc : S

/-- one `seds/*.fits` file; `sed ia` is aperture `ia` -/
structure SedFile (K S : Type) where
  name : String
  apertures : Option (List K)
  sed : Nat → Ap S

/-- `n_ap` property -/
def nApOf (a : Option (List K)) : Nat :=
  match a with
  | none => 1
  | some l => l.length

/-- `np.sum(s.flux * f.response, axis=1)` and `np.sqrt(np.sum((s.error * f.response) ** 2, axis=1))`
    for one SED: `cv` / `ce` are the two per-spectrum functionals of one (rebinned) filter -/
def convRow (cv ce : S → K) (nAp : Nat) (s : Nat → Ap S) : List K × List K :=
  ((List.range nAp).map (fun ia => cv (s ia).val), (List.range nAp).map (fun ia => ce (s ia).unc))

/-- the `ConvolvedFluxes` object `_convolve_model_dir_1` has filled after its loop over the SED files
    (sorted-glob order): aperture grid of the first file, one row per file, names in a `U30` array -/
def v1Unsorted (cv ce : S → K) (filtwav : K) (first : SedFile K S) (listing : List (SedFile K S)) :
    Conv K (List K) :=
  let nAp := nApOf first.apertures
  { names := listing.map (fun s => take30 s.name)
    apertures := first.apertures
    filtwav := filtwav
    flux := listing.map (fun s => (convRow cv ce nAp s.sed).1)
    error := listing.map (fun s => (convRow cv ce nAp s.sed).2) }

/-- `_convolve_model_dir_1` for one filter: fill (above), `sort_to_match(par_table['MODEL_NAME'])`,
    then `write`. -/
def convolveV1 (cv ce : S → K) (filtwav : K) (listing : List (SedFile K S)) (table : List String) :
    Except MErr (Conv K (List K)) :=
  match listing with
  | [] => .error .noSeds
  | first :: _ =>
    match sortToMatch (v1Unsorted cv ce filtwav first listing) table with
    | .error e => .error e
    | .ok c' => .ok c'.written

/-- a `flux.fits` cube: `seds[m] ia` is model `m`, aperture `ia` -/
structure Cube (K S : Type) where
  names : List String
  apertures : Option (List K)
  seds : List (Nat → Ap S)

/-- assemble an `(nM, nAp)` array, preallocated with zeros, from its columns
    (`fluxes[i].flux[:, i_ap] = …` for each `i_ap`) -/
def fromCols [Zero K] (nM nAp : Nat) (cols : List (List K)) : List (List K) :=
  (List.range nM).map (fun m => (List.range nAp).map (fun ia => (cols.getD ia []).getD m 0))

/-- the `ConvolvedFluxes` object `_convolve_model_dir_2` has filled after its loop over apertures: each
    slice `val[:, i_ap, :]` / `unc[:, i_ap, :]` gives one column; names, apertures from the cube -/
def v2Filled [Zero K] (cv ce : S → K) (filtwav : K) (cube : Cube K S) : Conv K (List K) :=
  let nAp := nApOf cube.apertures
  let nM := cube.names.length
  let colsF := (List.range nAp).map (fun ia => cube.seds.map (fun s => cv (s ia).val))
  let colsE := (List.range nAp).map (fun ia => cube.seds.map (fun s => ce (s ia).unc))
  { names := cube.names
    apertures := cube.apertures
    filtwav := filtwav
    flux := fromCols nM nAp colsF
    error := fromCols nM nAp colsE }

/-- `_convolve_model_dir_2` for one filter: names must equal the parameter table (no stripping),
    fill (above), `write`. -/
def convolveV2 [Zero K] (cv ce : S → K) (filtwav : K) (cube : Cube K S) (table : List String) :
    Except MErr (Conv K (List K)) :=
  if table ≠ cube.names then .error .namesMismatch
  else .ok (v2Filled cv ce filtwav cube).written

/-! ## `FitInfo.filter_table` and its callers -/

/-- `FitInfo.filter_table(input_table)`: the table is a list of rows `(MODEL_NAME, other columns)`;
    `np.isin` mask → subset in table order → `table_subset[argsort(argsort(model_name))]` →
    post-check. -/
def filterTable (table : List (String × V)) (modelName : List String) :
    Except MErr (List (String × V)) :=
  let subset := table.filter (fun r => modelName.contains r.1)
  let index := argsortNat (argsortStr modelName)
  match gather? subset index with
  | none => .error .indexError
  | some sorted =>
    -- "Double check that the sorting worked"
    if modelName = sorted.map (·.1) then .ok sorted else .error .sortFailed

/-- values of the additional parameters for one model name: `additional[par][name.strip()]` for each
    `par`; a dictionary is an association list -/
def extras (addl : List (List (String × K))) (name : String) : Option (List K) :=
  match addl with
  | [] => some []
  | d :: ds =>
    match d.lookup (strip name), extras ds name with
    | some v, some vs => some (v :: vs)
    | _, _ => none

/-- the loop that fills the additional columns row by row -/
def attach (addl : List (List (String × K))) : List (String × V) → Option (List (String × V × List K))
  | [] => some []
  | r :: rs =>
    match extras addl r.1, attach addl rs with
    | some e, some t => some ((r.1, r.2, e) :: t)
    | _, _ => none

/-- `FitInfo.filter_table(input_table, additional=…)` -/
def filterTableAdd (table : List (String × V)) (modelName : List String)
    (addl : List (List (String × K))) : Except MErr (List (String × V × List K)) :=
  match filterTable table modelName with
  | .error e => .error e
  | .ok sorted =>
    match attach addl sorted with
    | none => .error .keyError
    | some r => .ok r

/-- `table_sorted[par][i] = additional[par][name.strip()]` for every row `i`: one more value per row;
    `none` = `KeyError` -/
def fillCol (d : List (String × K)) : List (String × V × List K) → Option (List (String × V × List K))
  | [] => some []
  | r :: rs =>
    match d.lookup (strip r.1), fillCol d rs with
    | some v, some t => some ((r.1, r.2.1, r.2.2 ++ [v]) :: t)
    | _, _ => none

/-- the loop `for par in additional:` of `filter_table`, one parameter after the other: refuse a
    parameter whose name is already a column (the table's own or one added before), then fill its
    column -/
def attachCols : List String → List (String × List (String × K)) → List (String × V × List K) →
    Except MErr (List (String × V × List K))
  | _, [], rows => .ok rows
  | cols, (key, d) :: rest, rows =>
    if cols.contains key then .error .dupColumn
    else
      match fillCol d rows with
      | none => .error .keyError
      | some rows' => attachCols (cols ++ [key]) rest rows'

/-- `FitInfo.filter_table(input_table, additional)` with its guards, in the code's order: the table
    must have a `MODEL_NAME` column (`cols` are the table's column names); subset / rank-gather /
    post-check; then the `additional` loop -/
def filterTableFull (cols : List String) (table : List (String × V)) (modelName : List String)
    (addl : List (String × List (String × K))) : Except MErr (List (String × V × List K)) :=
  if !cols.contains "MODEL_NAME" then .error .noModelName
  else
    match filterTable table modelName with
    | .error e => .error e
    | .ok sorted => attachCols cols addl (sorted.map (fun r => (r.1, r.2, [])))

/-- `t['MODEL_NAME'] = np.char.strip(t['MODEL_NAME']); t.sort('MODEL_NAME')` -/
def prepTable (rows : List (String × V)) : List (String × V) :=
  (rows.map (fun r => (strip r.1, r.2))).mergeSort (fun a b => strLe a.1 b.1)

/-- what `write_parameters` / `write_parameter_ranges` / `extract_parameters` / `plot_params_*` hand
    on for one (already `keep`-filtered) fit: rows of the package's parameter file, in fit order -/
def listing (fileRows : List (String × V)) (modelName : List String)
    (addl : List (List (String × K))) : Except MErr (List (String × V × List K)) :=
  filterTableAdd (prepTable fileRows) modelName addl

/-! ## ranges and counts -/

variable [LT K] [DecidableLT K]

/-- `np.nanmin` of `x :: xs` (finite values) -/
def minL (x : K) (xs : List K) : K := xs.foldl (fun m y => if y < m then y else m) x

/-- `np.nanmax` of `x :: xs` (finite values) -/
def maxL (x : K) (xs : List K) : K := xs.foldl (fun m y => if m < y then y else m) x

/-- `(np.nanmin(col), col[0], np.nanmax(col))`; `none` = the `'-'` placeholders for zero fits -/
def paramRanges : List K → Option (K × K × K)
  | [] => none
  | x :: xs => some (minL x xs, x, maxL x xs)

/-! ### the same on doubles that may be NaN or infinite -/

section nanRanges
variable {K : Type} [LT K] [DecidableLT K]

def isNan : EF K → Bool
  | .nan => true
  | _ => false

/-- `np.nanmin(col)`: NaNs are skipped, infinities take part; an all-NaN column gives NaN -/
def nanMin (col : List (EF K)) : EF K :=
  match col.filter (fun x => !isNan x) with
  | [] => .nan
  | v :: vs => vs.foldl (fun m y => if EF.lt y m then y else m) v

/-- `np.nanmax(col)` -/
def nanMax (col : List (EF K)) : EF K :=
  match col.filter (fun x => !isNan x) with
  | [] => .nan
  | v :: vs => vs.foldl (fun m y => if EF.lt m y then y else m) v

/-- `(np.nanmin(col), col[0], np.nanmax(col))` as `write_parameter_ranges` prints it; `none` = the
    `'-'` placeholders for zero fits -/
def paramRangesEF : List (EF K) → Option (EF K × EF K × EF K)
  | [] => none
  | x :: xs => some (nanMin (x :: xs), x, nanMax (x :: xs))

end nanRanges

/-- `Source.n_data`: `np.sum((valid == 1) | (valid == 4))` -/
def nData (flags : List Nat) : Nat := flags.countP (fun f => f == 1 || f == 4)

/-- the `(n_data, n_fits)` pair printed for one source: `n_fits = len(info.chi2)` -/
def counts {α : Type} (flags : List Nat) (chi2 : List α) : Nat × Nat := (nData flags, chi2.length)

/-! ## labelled columns of the listings -/

/-- the columns `write_parameters` / `write_parameter_ranges` walk, in the header loop and in the body
    loop alike: the table's columns in file order, `MODEL_NAME` skipped by name wherever it stands -/
def paramLabels (cols : List String) : List String := cols.filter (fun c => c != "MODEL_NAME")

/-- the header labels of one listing -/
def printHeader (cols : List String) : List String := paramLabels cols

/-- the parameter cells of one printed line; a table row is a record `column name ↦ value` -/
def printCells {K : Type} (cols : List String) (row : String → K) : List K := (paramLabels cols).map row

/-- the table `plot_params_1d` / `plot_params_2d` obtain for one source: `info.filter_table(t)` on the
    prepared table — the `log_x` / `log_y` options only select what is drawn -/
def plotTable {V : Type} (logX logY : Bool) (fileRows : List (String × V)) (modelName : List String) :
    Except MErr (List (String × V)) :=
  filterTable (prepTable fileRows) modelName

/-! ## the `convolved/` directory over several runs -/

/-- a directory: file name ↦ content -/
abbrev Dir (C : Type) := String → Option C

def putFile {C : Type} (n : String) (c : C) (dir : Dir C) : Dir C := fun m => if m = n then some c else dir m

/-- the final loop of `convolve_model_dir`: `fluxes[i].write(path, overwrite=overwrite)` filter by
    filter; an existing file stops the run (OSError) unless `overwrite`; files written before stay -/
def writeFiles {C : Type} (overwrite : Bool) : List (String × C) → Dir C → Dir C × Option MErr
  | [], dir => (dir, none)
  | (n, c) :: rest, dir =>
    if !overwrite && (dir n).isSome then (dir, some .fileExists)
    else writeFiles overwrite rest (putFile n c dir)

end SF.Match
