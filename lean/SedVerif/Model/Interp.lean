import SedVerif.Model.Scalar
/-!
# Piecewise-linear interpolation primitives

`lin` is the two-point formula used by `interp1d_fast`, `np.interp` and `scipy.interpolate.interp1d`
(all three are the same function of the bracketing pair in exact arithmetic).
-/
namespace SF
variable {K : Type} [Zero K] [One K] [Add K] [Sub K] [Mul K] [Div K] [Neg K]
  [LT K] [DecidableLT K] [LE K] [DecidableLE K] [DecidableEq K]

/-- linear interpolation on one bracketing pair -/
def lin (p0 p1 : K × K) (t : K) : K := (t - p0.1) / (p1.1 - p0.1) * (p1.2 - p0.2) + p0.2

/-- interpolate inside the table; assumes `first.1 ≤ x ≤ last.1`; knots return the tabulated value -/
def interpIn : List (K × K) → K → K
  | [] => fun _ => 0
  | [p0] => fun _ => p0.2
  | p0 :: p1 :: rest => fun x =>
      if x = p0.1 then p0.2
      else if x ≤ p1.1 then (if x = p1.1 then p1.2 else lin p0 p1 x)
      else interpIn (p1 :: rest) x

/-- `np.interp(x, xp, fp, left=l, right=r)` for increasing `xp` -/
def npInterp (l r : K) (tab : List (K × K)) (x : K) : K :=
  match tab with
  | [] => 0
  | p0 :: _ =>
    if x < p0.1 then l
    else if (lastD tab p0).1 < x then r
    else interpIn tab x

/-- `np.interp(x, xp, fp)` with the default edge behaviour (first / last value outside) -/
def npInterpEdge (tab : List (K × K)) (x : K) : K :=
  match tab with
  | [] => 0
  | p0 :: _ => npInterp p0.2 (lastD tab p0).2 tab x

end SF
