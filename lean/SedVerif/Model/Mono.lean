import SedVerif.Model.Scalar
/-!
# Monochromatic "convolution" and nearest-wavelength selection (C16)

Executable model of `convolve/monochromatic.py:convolve_model_dir_monochromatic`

```
chunk_size = min(n_wav, int(np.floor(max_ram * 1024. ** 3 / (4. * 2. * n_models * n_ap))))
filters['filter'] = np.zeros(wavelengths.shape, dtype='S10')
jlo = n_wav - 1 - (wavelengths[::-1].searchsorted(wav_max, side='right') - 1)
jhi = n_wav - 1 - wavelengths[::-1].searchsorted(wav_min)
chunk_size = max(1, min(chunk_size, jhi - jlo + 1))
for jmin in range(jlo, jhi + 1, chunk_size):
    jmax = min(jmin + chunk_size - 1, jhi)
    n_chunk = jmax - jmin + 1
    ... for j in range(n_chunk): file MO%03d % (j + jmin + 1); filters['filter'][j + jmin] = "MO%03d" % (j + jmin + 1)
return filters
```

of `ConvolvedFluxes.sort_to_match` (`argsort(a)[argsort(argsort(ref))]` followed by the code's own
post-check) and of `np.argmin(np.abs(cube.wav - λ₀))` in `Models._read_version_2`.

`wavelengths` is `SED.read(first file).wav` with the default `order='nu'`, i.e. stored in
*decreasing* wavelength, so `wavelengths[::-1]` is increasing.  Everything lives in `SF.Mono`.
-/
namespace SF
namespace Mono
variable {K : Type} [Zero K] [Sub K] [Neg K] [LT K] [DecidableLT K]

inductive Err
  | zeroStep     -- ValueError: range() arg 3 must not be zero
  | indexError   -- IndexError
  | sortFailed   -- Exception("Sorting failed")
  | emptyArgmin  -- ValueError: attempt to get argmin of an empty sequence
  | noSeds       -- Exception("No SEDs found in …")
  | fileExists   -- OSError: File … already exists (overwrite=False)
  deriving DecidableEq, Repr

/-! ## window → index range -/

/-- `l.searchsorted(x)` (side `left`) on a sorted array: the first index whose element is not `< x` -/
def ssLeft (l : List K) (x : K) : Nat := (l.takeWhile (fun w => decide (w < x))).length

/-- `l.searchsorted(x, side='right')` on a sorted array: the first index whose element is `> x` -/
def ssRight (l : List K) (x : K) : Nat := (l.takeWhile (fun w => decide (¬ x < w))).length

/-- `(jlo, jhi)`; `none` is the default `∓inf` end -/
def windowIdx (ws : List K) (wmin wmax : Option K) : Int × Int :=
  let n : Int := ws.length
  let rev := ws.reverse
  let cmax : Int := match wmax with
    | none => rev.length          -- searchsorted(+inf, side='right')
    | some x => ssRight rev x
  let cmin : Int := match wmin with
    | none => 0                   -- searchsorted(-inf)
    | some x => ssLeft rev x
  (n - 1 - (cmax - 1), n - 1 - cmin)

/-! ## chunking -/

/-- `int(np.floor(max_ram * 1024.**3 / (4. * 2. * n_models * n_ap)))` -/
def ramFloor (maxRam : Rat) (nModels nAp : Nat) : Int :=
  (maxRam * 1024 ^ 3 / (4 * 2 * (nModels : Rat) * (nAp : Rat))).floor

/-- the two `min`s and the `max(1, …)` -/
def chunkSize (nWav : Nat) (ramFl : Int) (jlo jhi : Int) : Int :=
  max 1 (min (min (nWav : Int) ramFl) (jhi - jlo + 1))

/-- `for jmin in range(jlo, jhi + 1, size)` with `size > 0`: the `(jmin, jmax)` of every pass -/
def chunkLoop (size jhi : Int) : Nat → Int → List (Int × Int)
  | 0, _ => []
  | fuel + 1, jmin =>
    if jmin ≤ jhi then (jmin, min (jmin + size - 1) jhi) :: chunkLoop size jhi fuel (jmin + size)
    else []

/-- the same loop when `size < 0` (Python then counts downwards while `jmin > jhi + 1`) -/
def chunkLoopDown (size jhi : Int) : Nat → Int → List (Int × Int)
  | 0, _ => []
  | fuel + 1, jmin =>
    if jhi + 1 < jmin then (jmin, min (jmin + size - 1) jhi) :: chunkLoopDown size jhi fuel (jmin + size)
    else []

/-- all passes of the chunk loop -/
def chunks (jlo jhi size : Int) : Except Err (List (Int × Int)) :=
  if size = 0 then .error .zeroStep
  else if size < 0 then .ok (chunkLoopDown size jhi (jlo - (jhi + 1)).toNat jlo)
  else .ok (chunkLoop size jhi (jhi + 1 - jlo).toNat jlo)

/-- `[a, a+1, …]`, `n` terms -/
def intRange (a : Int) (n : Nat) : List Int := (List.range n).map (fun (j : Nat) => a + (j : Int))

/-- `for j in range(n_chunk): … j + jmin` -/
def emitChunk (c : Int × Int) : List Int := intRange c.1 (c.2 - c.1 + 1).toNat

/-- every wavelength index for which a file is written, in the order written -/
def emitted (jlo jhi size : Int) : Except Err (List Int) :=
  match chunks jlo jhi size with
  | .error e => .error e
  | .ok cs => .ok (cs.flatMap emitChunk)

/-! ## rows of one file -/

/-- `np.argsort` of pairwise distinct keys -/
def argsortBy {α : Type} [LT α] [DecidableLT α] (keys : List α) : List Nat :=
  (keys.zipIdx.mergeSort (fun a b => decide (¬ b.1 < a.1))).map (·.2)

/-- `a[order]`, `IndexError` when an index is out of range -/
def gatherO {α : Type} (a : List α) : List Nat → Option (List α)
  | [] => some []
  | i :: is =>
    match a[i]?, gatherO a is with
    | some v, some vs => some (v :: vs)
    | _, _ => none

/-- `utils/misc.py:order_to_match` -/
def orderToMatch {N : Type} [LT N] [DecidableLT N] (names ref : List N) : Option (List Nat) :=
  gatherO (argsortBy names) (argsortBy (argsortBy ref))

/-- one SED as `SED.read(file, unit_flux=mJy, order='nu')` returns it: `flux[ap][j]` -/
structure SedIn (N K : Type) where
  name : N
  flux : List (List K)
  err : List (List K)

/-- one `MOnnn.fits`: `index` is the 0-based wavelength index `j` (the file is `MO%03d % (j+1)`) -/
structure MonoFile (N K : Type) where
  index : Nat
  filtwav : K
  names : List N
  aps : List K
  flux : List (List K)
  err : List (List K)

/-- `arr[:, j]` -/
def colAt : List (List K) → Nat → Option (List K)
  | [], _ => some []
  | r :: rs, j =>
    match r[j]?, colAt rs j with
    | some v, some vs => some (v :: vs)
    | _, _ => none

/-- the value put in row `im`: `s.flux[0, j]` when `n_ap == 1`, else `s.flux[:, j]` -/
def rowOf (nAp : Nat) (arr : List (List K)) (j : Nat) : Option (List K) :=
  if nAp = 1 then
    match arr[0]? with
    | none => none
    | some r => (r[j]?).map (fun v => [v])
  else colAt arr j

/-- rows in directory-listing order -/
def rowsAt {N : Type} (nAp : Nat) (sel : SedIn N K → List (List K)) : List (SedIn N K) → Nat → Option (List (List K))
  | [], _ => some []
  | s :: ss, j =>
    match rowOf nAp (sel s) j, rowsAt nAp sel ss j with
    | some v, some vs => some (v :: vs)
    | _, _ => none

/-- `ConvolvedFluxes.sort_to_match(ref)` with the post-check -/
def sortToMatch {N : Type} [LT N] [DecidableLT N] [DecidableEq N] (strip : N → N)
    (names ref : List N) (flux err : List (List K)) : Except Err (List N × List (List K) × List (List K)) :=
  let ref' := ref.map strip
  match orderToMatch names ref' with
  | none => .error .indexError
  | some order =>
    match gatherO names order, gatherO flux order, gatherO err order with
    | some n', some f', some e' => if n' = ref' then .ok (n', f', e') else .error .sortFailed
    | _, _, _ => .error .indexError

/-- the file written for wavelength index `j`: `ws`, `aps` come from the first SED; `seds` in sorted
    file-name order; `ref` = `MODEL_NAME` column of the parameter table; `trunc` = the `U30` cast -/
def monoFile {N : Type} [LT N] [DecidableLT N] [DecidableEq N] (strip trunc : N → N)
    (ws aps : List K) (seds : List (SedIn N K)) (ref : List N) (j : Nat) : Except Err (MonoFile N K) :=
  match ws[j]?, rowsAt aps.length (·.flux) seds j, rowsAt aps.length (·.err) seds j with
  | some w, some fl, some er =>
    match sortToMatch strip (seds.map (fun s => trunc s.name)) ref fl er with
    | .error e => .error e
    | .ok (n', f', e') => .ok { index := j, filtwav := w, names := n', aps := aps, flux := f', err := e' }
  | _, _, _ => .error .indexError

/-- all files, in the order written -/
def monoFilesAt {N : Type} [LT N] [DecidableLT N] [DecidableEq N] (strip trunc : N → N)
    (ws aps : List K) (seds : List (SedIn N K)) (ref : List N) : List Int → Except Err (List (MonoFile N K))
  | [] => .ok []
  | j :: js =>
    if j < 0 then .error .indexError else
    match monoFile strip trunc ws aps seds ref j.toNat, monoFilesAt strip trunc ws aps seds ref js with
    | .ok f, .ok fs => .ok (f :: fs)
    | .error e, _ => .error e
    | _, .error e => .error e

/-- `convolve_model_dir_monochromatic` up to the files it writes; `size` is the chunk size after both
    `min`s -/
def monoRows {N : Type} [LT N] [DecidableLT N] [DecidableEq N] (strip trunc : N → N)
    (ws aps : List K) (seds : List (SedIn N K)) (ref : List N) (jlo jhi size : Int) :
    Except Err (List (MonoFile N K)) :=
  match emitted jlo jhi size with
  | .error e => .error e
  | .ok js => monoFilesAt strip trunc ws aps seds ref js

/-! ## the returned table and the whole call -/

/-- `"MO{0:03d}".format(j + 1)` -/
def moName (j : Nat) : String :=
  let d := toString (j + 1)
  "MO" ++ String.ofList (List.replicate (3 - d.length) '0') ++ d

/-- `filters['filter'] = zeros(n, 'S10')`, then `filters['filter'][j] = "MOnnn"` for every emitted `j`, in the
    order written -/
def fillTable (names : List String) : List Int → List String
  | [] => names
  | j :: js => fillTable (if j < 0 then names else names.set j.toNat (moName j.toNat)) js

/-- the `filter` column of the returned table (the `wav` column is `ws`) -/
def monoTable (n : Nat) (js : List Int) : List String := fillTable (List.replicate n "") js

/-- what one call leaves behind: the files written (in order) and the returned table -/
structure MonoResult (N K : Type) where
  files : List (MonoFile N K)
  tableWav : List K
  tableFilter : List String

/-- `convolve_model_dir_monochromatic(model_dir, max_ram=, wav_min=, wav_max=)`:
    window → index range, memory limit → chunk size, chunk loop, files, table -/
def monoRun {N : Type} [LT N] [DecidableLT N] [DecidableEq N] (strip trunc : N → N)
    (ws aps : List K) (seds : List (SedIn N K)) (ref : List N) (wmin wmax : Option K) (maxRam : Rat) :
    Except Err (MonoResult N K) :=
  if seds.isEmpty then .error .noSeds else
  let w := windowIdx ws wmin wmax
  let size := chunkSize ws.length (ramFloor maxRam seds.length aps.length) w.1 w.2
  match emitted w.1 w.2 size with
  | .error e => .error e
  | .ok js =>
    match monoFilesAt strip trunc ws aps seds ref js with
    | .error e => .error e
    | .ok fs => .ok { files := fs, tableWav := ws, tableFilter := monoTable ws.length js }

/-- the call in a directory whose `convolved/` already holds the files `MO%03d % (k+1)`, `k ∈ existing`: with
    `overwrite=False` (the default) `writeto` refuses to replace a file, so the call fails as soon as it reaches an
    emitted index whose file exists (files of indices outside the window are never touched); with `overwrite=True`
    nothing changes -/
def monoRunIn {N : Type} [LT N] [DecidableLT N] [DecidableEq N] (overwrite : Bool) (existing : List Nat)
    (strip trunc : N → N) (ws aps : List K) (seds : List (SedIn N K)) (ref : List N) (wmin wmax : Option K)
    (maxRam : Rat) : Except Err (MonoResult N K) :=
  match monoRun strip trunc ws aps seds ref wmin wmax maxRam with
  | .error e => .error e
  | .ok res =>
    if overwrite then .ok res
    else if res.files.any (fun f => existing.contains f.index) then .error .fileExists
    else .ok res

/-! ## nearest tabulated wavelength -/

/-- scan for the first strict minimum: `b`/`bv` best index / value so far, `i` index of the head -/
def argminFrom (b : Nat) (bv : K) (i : Nat) : List K → Nat
  | [] => b
  | x :: xs => if x < bv then argminFrom i x (i + 1) xs else argminFrom b bv (i + 1) xs

/-- `np.argmin` (first index of the minimum) -/
def argminFirst : List K → Except Err Nat
  | [] => .error .emptyArgmin
  | x :: xs => .ok (argminFrom 0 x 1 xs)

/-- `np.argmin(np.abs(cube.wav - w0))` -/
def nearestIdx (ws : List K) (w0 : K) : Except Err Nat :=
  argminFirst (ws.map (fun w => absK (w - w0)))

end Mono
end SF
