import SedVerif.Model.Scalar
/-!
# Extended floats

`EF K` is a double as far as ranking and selection can tell: a finite value, `+inf`, `-inf` or NaN.
Used only where a property's quantifier names infinity and NaN (C04, C05, C18).  Comparisons are
IEEE 754 (every comparison with NaN is false, also `nan == nan`); `sub` and `divN` are the two
arithmetic operations `FitInfo.keep` / `filter_output` perform (`chi2 - chi2[0]`, `/ n_data`);
`leSort` is the order `np.sort` / `np.argsort` use (a total preorder with NaN last).
Rounding, overflow and signed zeros are not modelled.
-/
namespace SF

inductive EF (K : Type) where
  | fin (x : K)
  | pinf
  | ninf
  | nan
  deriving DecidableEq, Repr

instance {K : Type} : Inhabited (EF K) := ⟨EF.nan⟩

variable {K : Type} [Zero K] [One K] [Add K] [Sub K] [Mul K] [Div K] [Neg K]
  [LT K] [DecidableLT K] [LE K] [DecidableLE K] [DecidableEq K]

/-- the integer `n` as a scalar (`float(n_data)`) -/
def natK : Nat → K
  | 0 => 0
  | n + 1 => natK n + 1

namespace EF

/-- IEEE `a <= b` -/
def le : EF K → EF K → Bool
  | nan, _ => false
  | _, nan => false
  | ninf, _ => true
  | _, pinf => true
  | fin x, fin y => decide (x ≤ y)
  | fin _, ninf => false
  | pinf, fin _ => false
  | pinf, ninf => false

/-- IEEE `a < b` -/
def lt : EF K → EF K → Bool
  | nan, _ => false
  | _, nan => false
  | pinf, _ => false
  | _, ninf => false
  | ninf, _ => true
  | fin _, pinf => true
  | fin x, fin y => decide (x < y)

/-- IEEE `a == b` -/
def eq : EF K → EF K → Bool
  | fin x, fin y => decide (x = y)
  | pinf, pinf => true
  | ninf, ninf => true
  | _, _ => false

/-- IEEE `a - b` -/
def sub : EF K → EF K → EF K
  | nan, _ => nan
  | _, nan => nan
  | fin x, fin y => fin (x - y)
  | fin _, pinf => ninf
  | fin _, ninf => pinf
  | pinf, pinf => nan
  | pinf, _ => pinf
  | ninf, ninf => nan
  | ninf, _ => ninf

instance : Sub (EF K) := ⟨sub⟩

/-- IEEE `a / n` for a finite divisor `n` (`n = 0` is `+0.0`: `x/0 = ±inf`, `0/0 = nan`) -/
def divN (a : EF K) (n : K) : EF K :=
  match a with
  | nan => nan
  | fin x =>
      if n = 0 then (if 0 < x then pinf else if x < 0 then ninf else nan) else fin (x / n)
  | pinf => if n < 0 then ninf else pinf
  | ninf => if n < 0 then pinf else ninf

/-- the order of `np.sort` / `np.argsort` on doubles: `-inf < finite < +inf < nan`, all NaNs
    equivalent.  A total preorder. -/
def leSort : EF K → EF K → Bool
  | _, nan => true
  | nan, _ => false
  | ninf, _ => true
  | _, pinf => true
  | fin x, fin y => decide (x ≤ y)
  | fin _, ninf => false
  | pinf, fin _ => false
  | pinf, ninf => false

/-- Python truthiness of a float: only `0.0` is falsy (NaN and the infinities are truthy) -/
def truthy : EF K → Bool
  | fin x => !(decide (x = 0))
  | _ => true

end EF
end SF
