import SedVerif.Model.Interp
import SedVerif.Model.Fit
/-!
# Aperture interpolation and the distance-dependent mode

Model of `ConvolvedFluxes.interpolate`, `SED.interpolate`, `SED.interpolate_variable`
(`convolved_fluxes.py`, `sed/sed.py`) and of the distance grid / flux cube built by
`Models._read_version_1/_2` (`models.py`).

Aperture tables are increasing (the quantifier of C13), so the code's `apertures.min()` /
`apertures.max()` are the first / last knot.  A Python exception is an `Except ApErr`.
-/
namespace SF
variable {K : Type} [Zero K] [One K] [Add K] [Sub K] [Mul K] [Div K] [Neg K]
  [LT K] [DecidableLT K] [LE K] [DecidableLE K] [DecidableEq K]

inductive ApErr where
  /-- `Exception("Aperture(s) requested too small")` -/
  | tooSmall
  /-- `ValueError` of `scipy.interpolate.interp1d` (outside the interpolation range) -/
  | outOfRange
  /-- empty / too short table: rejected by the validators or by `interp1d` -/
  | badTable
  deriving DecidableEq, Repr

/-- `apertures[apertures > max] = max` -/
def clampHi (mx x : K) : K := if mx < x then mx else x

/-- one request against one `(aperture, flux)` table: reset to the largest aperture, refuse below
    the smallest, otherwise `interp1d` (knots exact, `lin` between bracketing knots) -/
def interpClampT (tab : List (K × K)) (x : K) : Except ApErr K :=
  match tab with
  | [] => .error .badTable
  | p0 :: _ =>
    let x' := clampHi (lastD tab p0).1 x
    if x' < p0.1 then .error .tooSmall else .ok (interpIn tab x')

/-- the same with apertures and fluxes as parallel arrays, as the code holds them -/
def interpClamp (xs ys : List K) (x : K) : Except ApErr K := interpClampT (xs.zip ys) x

/-- `interp1d(...)(x)` with the default `bounds_error=True` -/
def interpStrictT (tab : List (K × K)) (x : K) : Except ApErr K :=
  match tab with
  | [] => .error .badTable
  | p0 :: _ =>
    if x < p0.1 then .error .outOfRange
    else if (lastD tab p0).1 < x then .error .outOfRange
    else .ok (interpIn tab x)

/-- all results, or the first exception -/
def seqE {ε α : Type} : List (Except ε α) → Except ε (List α)
  | [] => .ok []
  | .error e :: _ => .error e
  | .ok v :: rest =>
    match seqE rest with
    | .ok vs => .ok (v :: vs)
    | .error e => .error e

/-! ## `ConvolvedFluxes.interpolate` -/

/-- a `ConvolvedFluxes` object: `aps = []` when there is no aperture table (`n_ap = 1`) -/
structure ConvTab (K : Type) where
  wav : K
  names : List String
  aps : List K
  flux : List (List K)
  err : List (List K)

/-- `np.repeat(row, n)` -/
def repeatRow {α : Type} (n : Nat) (row : List α) : List α := row.flatMap (fun v => List.replicate n v)

/-- `ConvolvedFluxes.interpolate(apertures)`.  The requested apertures are reset in place (the object
    returned holds a view of them), the too-small test is on the whole request, and every model row is
    interpolated over the aperture axis.  With `n_ap = 1` rows are repeated and nothing is tested. -/
def convInterpolate (c : ConvTab K) (req : List K) : Except ApErr (ConvTab K) :=
  match c.aps with
  | a0 :: a1 :: rest =>
    let aps := a0 :: a1 :: rest
    let req' := req.map (clampHi (lastD aps a0))
    if req'.any (fun x => decide (x < a0)) then .error .tooSmall
    else
      -- `np.clip` after the conversion to the table's unit (the identity in exact arithmetic)
      let x := req'.map (clampK a0 (lastD aps a0))
      .ok { wav := c.wav, names := c.names, aps := req',
            flux := c.flux.map (fun row => x.map (interpIn (aps.zip row))),
            err := c.err.map (fun row => x.map (interpIn (aps.zip row))) }
  | _ =>
    .ok { wav := c.wav, names := c.names, aps := req,
          flux := c.flux.map (repeatRow req.length), err := c.err.map (repeatRow req.length) }

/-! ## `SED.interpolate`, `SED.interpolate_variable` -/

/-- an SED: `flux[aperture][wavelength]`, apertures in AU, wavelengths in micron -/
structure SedTab (K : Type) where
  wav : List K
  aps : List K
  flux : List (List K)

/-- `flux.swapaxes(0, 1)` for `n` wavelengths -/
def transposeN {α : Type} : Nat → List (List α) → List (List α)
  | 0, _ => []
  | n + 1, m => m.filterMap List.head? :: transposeN n (m.map List.tail)

/-- `SED.interpolate(apertures)` → array `[wavelength][request]` -/
def sedInterpolate (s : SedTab K) (req : List K) : Except ApErr (List (List K)) :=
  match s.aps with
  | a0 :: a1 :: rest =>
    let aps := a0 :: a1 :: rest
    let req' := req.map (clampHi (lastD aps a0))
    if req'.any (fun x => decide (x < a0)) then .error .tooSmall
    else .ok ((transposeN s.wav.length s.flux).map (fun col => req'.map (interpIn (aps.zip col))))
  | _ =>
    match s.flux with
    | row :: _ => .ok (row.map (fun v => List.replicate req.length v))
    | [] => .error .badTable

/-- `SED.interpolate_variable(wavelengths, apertures)`: the filters' apertures are reset / tested as
    above, aperture as a function of wavelength is interpolated in log–log space (`lg`, `exp10`) with
    flat extrapolation on both sides, clipped to the tabulated range, and the SED is interpolated at
    wavelength `i` to aperture `i` (the diagonal). -/
def interpVariable (lg exp10 : K → K) (s : SedTab K) (fw fa : List K) : Except ApErr (List K) :=
  match s.aps with
  | a0 :: a1 :: rest =>
    let aps := a0 :: a1 :: rest
    let mx := (lastD aps a0)
    let fa' := fa.map (clampHi mx)
    if fa'.any (fun x => decide (x < a0)) then .error .tooSmall
    else
      let sorted := (fw.zip fa').mergeSort (fun p q => decide (p.1 ≤ q.1))
      let tab := sorted.map (fun p => (lg p.1, lg p.2))
      match tab with
      | _ :: _ =>
        seqE (List.zipWith
          (fun w col => interpStrictT (aps.zip col) (clampK a0 mx (exp10 (npInterpEdge tab (lg w)))))
          s.wav (transposeN s.wav.length s.flux))
      | [] => .error .badTable
  | _ =>
    match s.flux with
    | row :: _ => .ok row
    | [] => .error .badTable

/-! ## distance grid -/

/-- `float(i)` -/
def ofNatK : Nat → K
  | 0 => 0
  | n + 1 => ofNatK n + 1

/-- `np.linspace(a, b, n)`: `arange(n) * ((b − a) / (n − 1)) + a` with the last point set to `b` -/
def linspace (a b : K) : Nat → List K
  | 0 => []
  | 1 => [a]
  | m + 2 => (List.range (m + 1)).map (fun i => ofNatK i * ((b - a) / ofNatK (m + 1)) + a) ++ [b]

/-- the grid of `log10(d/kpc)`: `n = ceil(1 + (lgHi − lgLo)/step)` points from `lgLo` to `lgHi` -/
def distGrid (ceilK : K → Nat) (lgLo lgHi step : K) : List K :=
  linspace lgLo lgHi (ceilK (1 + (lgHi - lgLo) / step))

/-- `Models.distances` in kpc: one point when the range is degenerate, otherwise `np.logspace` -/
def distancesKpc (lg exp10 : K → K) (ceilK : K → Nat) (dlo dhi step : K) : List K :=
  if dlo = dhi then [dlo] else (distGrid ceilK (lg dlo) (lg dhi) step).map exp10

def tenK : K := two * (two * two + 1)
/-- pc per kpc -/
def thousandK : K := tenK * tenK * tenK

/-- model flux in one band at one trial distance: the tabulated flux interpolated to the aperture
    radius `θ·d` (AU = arcsec × pc), times `(1 kpc / d)²` -/
def fluxAt (xs ys : List K) (θ dpc dkpc : K) : Except ApErr K :=
  (interpClamp xs ys (θ * dpc)).map (fun f => f * ((1 / dkpc) * (1 / dkpc)))

/-- one band of one model: aperture of the data (arcsec), tabulated apertures (AU), fluxes (mJy) -/
structure BandTab (K : Type) where
  theta : K
  aps : List K
  row : List K

/-- fluxes of one model in every band at distance `dkpc` -/
def modelFluxes (tabs : List (BandTab K)) (dkpc : K) : Except ApErr (List K) :=
  seqE (tabs.map (fun t => fluxAt t.aps t.row t.theta (thousandK * dkpc) dkpc))

/-- `log_fluxes_mJy` of one model: `[distance][band]` -/
def modelLogFluxes (lg : K → K) (tabs : List (BandTab K)) (dists : List K) : Except ApErr (List (List K)) :=
  seqE (dists.map (fun d => (modelFluxes tabs d).map (fun fl => fl.map lg)))

/-- the per-distance point lists of one model, as consumed by `fit3` -/
def modelPss (lg : K → K) (lobs : List (LogObs K)) (ks : List K) (tabs : List (BandTab K))
    (dists : List K) : Except ApErr (List (List (Pt K))) :=
  (modelLogFluxes lg tabs dists).map (fun lfs => lfs.map (fun lf => mkPts lobs lf ks))

/-- distance-dependent fit of one model: `(av, sc, chi2, best distance index)`; `logd = log10(distances)` -/
def fit3Model (big : K) (ln1m lg : K → K) (lo hi : K) (lobs : List (LogObs K)) (ks : List K)
    (tabs : List (BandTab K)) (dists : List K) : Except ApErr (K × K × K × Nat) :=
  (modelPss lg lobs ks tabs dists).map (fun pss => fit3 big ln1m lo hi (dists.map lg) pss)

end SF
