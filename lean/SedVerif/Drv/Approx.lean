/-!
# Rational approximations of `log10`, `ln`, `10**x` for the driver

The theorems treat `lg`, `ln1m`, `exp10` as parameters.  To *run* the model the driver needs
values; these fixed-point routines are accurate to about 2⁻¹⁵⁰ (far below float64 rounding), so the
comparison tolerance of the correspondence check is a rounding budget for the Python side only.
They are part of the trusted driver, not of any theorem.
-/
namespace Drv

def B : Nat := 160
def ONE : Int := (2 : Int) ^ B

/-- fixed-point product -/
def fmul (a b : Int) : Int := (a * b) / ONE

/-- Σ_{k<n} z^(2k+1)/(2k+1) in fixed point -/
def atanhSeries (z : Int) (n : Nat) : Int := Id.run do
  let z2 := fmul z z
  let mut term := z
  let mut acc : Int := 0
  for k in [0:n] do
    acc := acc + term / (2 * k + 1 : Nat)
    term := fmul term z2
  return acc

/-- ln of a rational in [1, 2], fixed point -/
def lnMant (m : Rat) : Int :=
  let num := m.num - m.den
  let den := m.num + m.den
  let z : Int := (num * ONE) / den
  2 * atanhSeries z 70

def LN2 : Int := lnMant 2

/-- floor(log2 x) for positive rational x -/
def ilog2 (x : Rat) : Int :=
  let a : Int := Nat.log2 x.num.toNat
  let b : Int := Nat.log2 x.den
  let e := a - b
  -- x / 2^e ∈ (1/2, 2); adjust
  let p : Rat := if e ≥ 0 then x / ((2 : Rat) ^ e.toNat) else x * ((2 : Rat) ^ (-e).toNat)
  if p < 1 then e - 1 else e

/-- natural log, fixed point; 0 for non-positive input (callers guard) -/
def lnFix (x : Rat) : Int :=
  if x ≤ 0 then 0 else
  let e := ilog2 x
  let m : Rat := if e ≥ 0 then x / ((2 : Rat) ^ e.toNat) else x * ((2 : Rat) ^ (-e).toNat)
  e * LN2 + lnMant m

def LN10 : Int := lnFix 10

def fixToRat (n : Int) : Rat := mkRat n (2 ^ B)

def ln (x : Rat) : Rat := fixToRat (lnFix x)

def ln10 : Rat := fixToRat LN10

/-- log10, as a rational with denominator 2^B -/
def lg (x : Rat) : Rat := fixToRat ((lnFix x * ONE) / LN10)

/-- e^r for fixed-point r in [0, ln 2) -/
def expSeries (r : Int) (n : Nat) : Int := Id.run do
  let mut term := ONE
  let mut acc : Int := 0
  for k in [0:n] do
    acc := acc + term
    term := fmul term r / (k + 1 : Nat)
  return acc

/-- 10^y -/
def exp10 (y : Rat) : Rat :=
  let yf : Int := (y.num * ONE) / y.den
  let t := fmul yf LN10
  let n := t / LN2          -- floor
  let r := t - n * LN2
  let er := fixToRat (expSeries r 70)
  if n ≥ 0 then er * ((2 : Rat) ^ n.toNat) else er / ((2 : Rat) ^ (-n).toNat)

end Drv
