import SedVerif.Model.Partition
import SedVerif.Drv.Proto
/-! Driver ops for ranking / selection / partition (C04, C05, C18): the model over `EF Rat`. -/
namespace Drv
open SF
namespace C04

/-- extended-float token: `nan`, `inf`, `-inf` or a rational -/
def ef : Rd (EF Rat) := do
  let t ← tok
  match t with
  | "nan" => pure EF.nan
  | "inf" => pure EF.pinf
  | "-inf" => pure EF.ninf
  | _ =>
    match parseRat t with
    | some q => pure (EF.fin q)
    | none => throw s!"bad-ef:{t}"

def showEF : EF Rat → String
  | EF.nan => "nan"
  | EF.pinf => "inf"
  | EF.ninf => "-inf"
  | EF.fin q => showRat q

def showEFs (l : List (EF Rat)) : String :=
  " ".intercalate ((toString l.length) :: l.map showEF)

def showToks (l : List String) : String :=
  " ".intercalate ((toString l.length) :: l)

/-- `n {chi2}*  n {av}*  n {sc}*  n {name}*  n {model_id}*  hasflux [n {n {f}*}*]` -/
def readRows : Rd (FitRows Rat) := do
  let chi2 ← listOf ef
  let av ← listOf rat
  let sc ← listOf rat
  let name ← listOf tok
  let mid ← listOf nat
  let hf ← nat
  let fl ← if hf = 0 then pure none else do
    let f ← listOf (listOf rat)
    pure (some f)
  pure { av := av, sc := sc, chi2 := chi2, name := name, fluxes := fl, modelId := mid }

def showRows (x : FitRows Rat) : String :=
  let fl := match x.fluxes with
    | none => "0"
    | some f => " ".intercalate ("1" :: toString f.length :: f.map showRats)
  " ".intercalate [showEFs x.chi2, showRats x.av, showRats x.sc, showToks x.name, showNats x.modelId, fl]

/-- `sortrows <rows>` → `<rows>` after `FitInfo.sort` -/
def opSortRows : Rd String := do
  let x ← readRows
  pure (showRows (sortRows x))

/-- selector `form number`; `N` applies Python's `int()` to a non-negative finite number -/
def readSel : Rd (Sel Rat) := do
  let form ← tok
  match form with
  | "A" => let _ ← tok; pure Sel.A
  | "N" =>
    let v ← ef
    match v with
    | EF.fin q => if q < 0 then throw "negative-n" else pure (Sel.N q.floor.toNat)
    | _ => throw "int-of-nonfinite"
  | "C" => let v ← ef; pure (Sel.C v)
  | "D" => let v ← ef; pure (Sel.D v)
  | "E" => let v ← ef; pure (Sel.E v)
  | "F" => let v ← ef; pure (Sel.F v)
  | _ => throw s!"unknown-format:{form}"

/-- `keep k {form number}*  nflags {flag}*  <rows>` → `k {n_fits}*  <rows>` (`n_fits = len(chi2)` after each step): the selectors applied
    one after the other (left to right) to a result whose source has the given flags -/
def opKeep : Rd String := do
  let sels ← listOf readSel
  let flags ← listOf nat
  let x ← readRows
  let (ns, y) := sels.foldl (fun (acc : List Nat × FitRows Rat) s =>
    let y := keepSrc s flags acc.2
    (acc.1 ++ [y.chi2.length], y)) ([], x)
  pure (showNats ns ++ " " ++ showRows y)

def optEf : Rd (Option (EF Rat)) := do
  let t ← tok
  if t = "none" then pure none else do
    match (ef.run [t]) with
    | .ok (v, _) => pure (some v)
    | .error e => throw e

/-- `partition chi cpd n { n {chi2}* n {flag}* }*` → `ok ngood {idx}* nbad {idx}*` or `raise indexError` -/
def opPartition : Rd String := do
  let chi ← optEf
  let cpd ← optEf
  let recs ← listOf (do let c ← listOf ef; let f ← listOf nat; pure (c, f))
  let input : List (OutRec Rat Nat) :=
    (List.range recs.length).zipWith (fun i (cf : List (EF Rat) × List Nat) => ⟨cf.1, cf.2, i⟩) recs
  match filterOutput chi cpd input with
  | .ok (g, b) => pure ("ok " ++ showNats (g.map (·.rest)) ++ " " ++ showNats (b.map (·.rest)))
  | .error _ => pure "raise indexError"

end C04

def handleC04 (op : String) : Option (Rd String) :=
  match op with
  | "sortrows" => some C04.opSortRows
  | "keep" => some C04.opKeep
  | "partition" => some C04.opPartition
  | _ => none

end Drv
