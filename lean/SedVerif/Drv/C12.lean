import SedVerif.Model.RoundTrip
import SedVerif.Drv.Proto
/-! Driver ops for C12: round trips of SED / cube / convolved-flux objects.  Cell values are opaque
payload (the harness sends one distinct integer id per cell); wavelengths and frequencies are the
exact rationals of the floats the implementation received. -/
namespace Drv.C12
open SF SF.RT

def readOrder : Rd Order := do
  let t ← tok
  match t with
  | "nu" => pure .nu
  | "wav" => pure .wav
  | _ => throw s!"bad-order:{t}"

def showRows (rows : List (List Rat)) : String :=
  " ".intercalate (toString rows.length :: rows.map showRats)

def showCube3 (v : List (List (List Rat))) : String :=
  " ".intercalate (toString v.length :: v.map showRows)

def tiny30 : Rat := 1 / (10 : Rat) ^ 30

/-- `sedrt order {wav} {nu} hasaps {aps} {flux rows} haserr {err rows}`
    → `ok|raise  {wav} {nu} {aps} {flux rows} {err rows}` as read back -/
def opSedRt : Rd String := do
  let o ← readOrder
  let wav ← listOf rat
  let nu ← listOf rat
  let hasAps ← nat
  let aps ← listOf rat
  let flux ← listOf (listOf rat)
  let hasErr ← nat
  let err ← listOf (listOf rat)
  let s : Sed Rat := { name := "m", wav := wav, nu := nu, aps := if hasAps = 1 then some aps else none,
                       flux := flux, err := if hasErr = 1 then some err else none }
  match sedWrite tiny30 s with
  | none => pure "raise-write"
  | some f =>
    match sedRead o f with
    | none => pure "raise-read"
    | some r =>
      pure s!"read {showRats r.wav} {showRats r.nu} {showRats (r.aps.getD [])} {showRows r.flux} {showRows (r.err.getD [])}"

def readCube : Rd (Cube Rat) := do
  let names ← listOf tok
  let wav ← listOf rat
  let hasAps ← nat
  let aps ← listOf rat
  let val ← listOf (listOf (listOf rat))
  let hasUnc ← nat
  let unc ← listOf (listOf (listOf rat))
  pure { names := names, wav := wav, aps := if hasAps = 1 then some aps else none, val := val,
         unc := if hasUnc = 1 then some unc else none }

def toNuR (w : Rat) : Rat := 1 / w

/-- `cubert order <cube>` → `read {wav} hasaps {aps} {val} hasunc {unc}` -/
def opCubeRt : Rd String := do
  let o ← readOrder
  let c ← readCube
  match cubeRead toNuR o (cubeWrite toNuR c) with
  | none => pure "raise-read"
  | some r =>
    let a := match r.aps with | none => "0 0" | some l => s!"1 {showRats l}"
    let u := match r.unc with | none => "0 0" | some l => s!"1 {showCube3 l}"
    pure s!"read {showRats r.wav} {a} {showCube3 r.val} {u}"

/-- `getsed order name <cube>` → the SED extracted from the cube as read back:
    `sed {wav} hasaps {aps} {flux rows} haserr {err rows}` or `raise` -/
def opGetSed : Rd String := do
  let o ← readOrder
  let name ← tok
  let c ← readCube
  match cubeRead toNuR o (cubeWrite toNuR c) with
  | none => pure "raise-read"
  | some r =>
    match getSed toNuR r name with
    | none => pure "raise-getsed"
    | some s =>
      let a := match s.aps with | none => "0 0" | some l => s!"1 {showRats l}"
      let e := match s.err with | none => "0 0" | some l => s!"1 {showRows l}"
      pure s!"sed {showRats s.wav} {a} {showRows s.flux} {e}"

def showConv (r : Conv Rat) : String :=
  let ws := match r.wavelength with | none => "0 0" | some x => s!"1 {showRat x}"
  let a := match r.aps with | none => "0 0" | some l => s!"1 {showRats l}"
  let ns := " ".intercalate (toString r.names.length :: r.names)
  s!"read {ws} {ns} {a} {showRows r.flux} {showRows r.err}"

/-- `convrt haswav wav {names} hasaps {aps} {flux rows} {err rows}`
    → `read haswav wav {names} hasaps {aps} {flux rows} {err rows}` -/
def opConvRt : Rd String := do
  let hasW ← nat
  let w ← rat
  let names ← listOf tok
  let hasAps ← nat
  let aps ← listOf rat
  let flux ← listOf (listOf rat)
  let err ← listOf (listOf rat)
  let c : Conv Rat := { wavelength := if hasW = 1 then some w else none, names := names,
                        aps := if hasAps = 1 then some aps else none, flux := flux, err := err }
  match convRead (convWrite c) with
  | none => pure "raise-read"
  | some r => pure (showConv r)

/-- `convread1d haswav wav {names} hasaps {aps} {flux column} {err column}`: a file with scalar columns
    → `read …` as `convrt`, or `raise-read` -/
def opConvRead1d : Rd String := do
  let hasW ← nat
  let w ← rat
  let names ← listOf tok
  let hasAps ← nat
  let aps ← listOf rat
  let flux ← listOf rat
  let err ← listOf rat
  let f : ConvFile Rat := { filtwav := if hasW = 1 then some w else none, names := names,
                            aps := if hasAps = 1 then some aps else none, flux := .d1 flux, err := .d1 err }
  match convRead f with
  | none => pure "raise-read"
  | some r => pure (showConv r)

end Drv.C12

namespace Drv

def handleC12 (op : String) : Option (Rd String) :=
  match op with
  | "sedrt" => some C12.opSedRt
  | "cubert" => some C12.opCubeRt
  | "getsed" => some C12.opGetSed
  | "convrt" => some C12.opConvRt
  | "convread1d" => some C12.opConvRead1d
  | _ => none

end Drv
