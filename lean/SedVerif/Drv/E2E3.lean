import SedVerif.Model.Pipeline3
import SedVerif.Drv.Proto
import SedVerif.Drv.Approx
import SedVerif.Drv.C01
import SedVerif.Drv.C02
import SedVerif.Drv.C04
import SedVerif.Drv.C07
import SedVerif.Drv.E2E
/-!
Driver op for the end-to-end pipeline model of cube packages in the distance-dependent mode
(`Model/Pipeline3.lean`).

`e2e3.pipeline lo hi V ntab {wav chi}* dmin dmax step nDataMin {form number} {form number}
   nfilt { theta kind ( kind=0: norm wav nnodes {nu R}*  |  kind=1: w0 ) }*
   nnames {name}*  nwav {wav}*  nwav {nu}*  naps {ap}*
   nm { nap { nw {val}* }* }*  hasUnc [ nm { nap { nw {unc}* }* }* ]
   nrow  { name ncol {value}* }*
   nsrc  { name nb {flag flux err}* }*`
(`naps = 0`: the cube has no aperture list; `nu[i]` is the frequency the code derives from `wav[i]` —
the driver's `toNu` looks it up, so that the rebinning sees the very floats the code sees; names are
encoded as in `Drv/C07.lean`)

→ `nfilt { filtwav nearestMargin nrows { name nap {flux error}* }* }*
   ndist ceilMargin belowMargin {d}*
   nmod { name ndist { nb {log10 flux}* }* }*
   nsrc  { name n_data n_fits  nrows { fit_id name chi2 av sc npar {value}* }*
           nrec { name chi2 av sc }*
           nmod { name av sc chi2 bi gap clampM limM avScale chiScale nviol nlim fcond dchi dav }* }*`
`error` is the variance for a broadband entry and `unc[:, :, j]` for a wavelength entry; `nrec` rows are
the record of the fit output file (after `output_format`); `nmod` rows are the unranked per-model results in
cube order with the decision margins of `Drv/C02.lean` (`fit3`).  `nearestMargin` is the relative gap
between the two smallest `|wav − λ₀|` (1 for a broadband entry).
A refusal of the model is `err <P3Err>`.
-/
namespace Drv
open SF SF.Match SF.Pipe SF.Pipe3
namespace E2E3
open DistOps

def readEntry : Rd (Filt3 Rat) := do
  let theta ← rat
  let kind ← nat
  if kind = 0 then
    let f ← E2E.readFilter
    pure { entry := .band f, theta := theta }
  else
    let w0 ← rat
    pure { entry := .mono w0, theta := theta }

def read3 : Rd (List (List (List Rat))) := listOf (listOf (listOf rat))

structure CubeIn where
  cube : RT.Cube Rat
  nuTab : List (Rat × Rat)

def readCubeIn : Rd CubeIn := do
  let names ← listOf nameTok
  let wav ← listOf rat
  let nu ← listOf rat
  let aps ← listOf rat
  let val ← read3
  let hu ← nat
  let unc ← if hu = 0 then pure none else do
    let u ← read3
    pure (some u)
  pure { cube := { names := names, wav := wav, aps := if aps.isEmpty then none else some aps, val := val, unc := unc },
         nuTab := wav.zip nu }

/-- `λ ↦ c/λ` as the code evaluates it: the tabulated float, `c/λ` (µm, Hz) off the table -/
def toNuOf (tab : List (Rat × Rat)) (w : Rat) : Rat :=
  match tab.lookup w with
  | some v => v
  | none => (299792458 * 1000000 : Rat) / w

structure Req where
  env : P3Env Rat
  inp : P3Input Rat

def readReq : Rd Req := do
  let lo ← rat; let hi ← rat
  let v ← rat
  let tab ← listOf readPair
  let dmin ← rat; let dmax ← rat; let step ← rat
  let ndm ← nat
  let selFit ← C04.readSel
  let selOut ← C04.readSel
  let filters ← listOf readEntry
  let c ← readCubeIn
  let table ← listOf E2E.readTableRow
  let sources ← listOf E2E.readSource
  pure { env := { lg := lg, exp10 := exp10, ln10 := ln10, big := BIG, ln1m := ln1m, ceilK := ceilNat,
                  toNu := toNuOf c.nuTab },
         inp := { cube := c.cube, table := table, filters := filters, ext := tab, v := v, dmin := dmin,
                  dmax := dmax, step := step, sources := sources, lo := lo, hi := hi, nDataMin := ndm,
                  selFit := selFit, selOut := selOut } }

/-- relative gap between the two smallest `|w − w0|` -/
def nearestMargin (ws : List Rat) (w0 : Rat) : Rat :=
  let ds := (ws.map (fun w => absR (w - w0))).mergeSort (fun a b => decide (a ≤ b))
  match ds with
  | a :: b :: _ => (b - a) / (absR w0 + b)
  | _ => 1

def showConv3 (margin : Rat) (c : Conv Rat (List Rat)) : String :=
  let rows := (c.names.zip (c.flux.zip c.error)).map (fun (n, f, e) =>
    " ".intercalate (encodeNameTok n :: toString f.length ::
      (f.zip e).map (fun (x, y) => s!"{showRat x} {showRat y}")))
  " ".intercalate (showRat c.filtwav :: showRat margin :: toString rows.length :: rows)

def showModel (m : ModelRow3 Rat) : String :=
  " ".intercalate (encodeNameTok m.name :: toString m.mfss.length :: m.mfss.map showRats)

/-- unranked per-model results with the margins of `Drv/C02.lean` -/
def showModels3 (r : Req) (out : P3Out Rat) (bands : List (Obs Rat)) : String :=
  let inp := r.inp
  let lo := inp.lo
  let hi := inp.hi
  let lobs := bands.map (logTransform lg ln10)
  let ks := ksOf3 inp out.conv
  let logd := out.dists.map lg
  let rows := out.models.zipIdx.map (fun (m, i) =>
    let tabs := tabsOf inp.filters out.conv i
    let fcond : Rat := out.dists.foldl (fun acc d =>
      match modelFluxes tabs d with
      | .ok fl => (List.zipWith (fun (t : BandTab Rat) f => (t.row.foldl max 0) / (f * (d * d))) tabs fl).foldl max acc
      | .error _ => acc) 1
    let pss := pssOf lobs ks m.mfss
    let (a, s, c, bi) := fit3 BIG ln1m lo hi logd pss
    let per := fit3PerDist BIG ln1m lo hi pss
    let gap := argminGap (per.map (·.2)) bi c
    let ps := pss.getD bi []
    let A := optAv ps
    let clampM := min (absR (A - lo)) (absR (A - hi))
    let limM := limitMargin lo hi pss
    let avScale := sumBy (fun p => absR (p.r * p.k * p.w)) ps / sumBy (fun p => p.k * p.k * p.w) ps
    let chiScale := sumBy (fun p => (absR p.r + absR (a * p.k)) * (absR p.r + absR (a * p.k)) * p.w) ps
    let nviol := (ps.filter (fun p => (p.flag = 2 ∧ a * p.k < p.r) ∨ (p.flag = 3 ∧ p.r < a * p.k))).length
    let nlim := (ps.filter (fun p => p.flag = 2 ∨ p.flag = 3)).length
    let dchi := sumBy (fun p => 2 * (absR p.r + absR (a * p.k)) * p.w) ps
    let dav := sumBy (fun p => absR (p.k * p.w)) ps / sumBy (fun p => p.k * p.k * p.w) ps
    s!"{encodeNameTok m.name} {showRat a} {showRat s} {showRat c} {bi} {showRat gap} {showRat clampM} {showRat limM} {showRat avScale} {showRat chiScale} {nviol} {nlim} {showRat fcond} {showRat dchi} {showRat dav}")
  " ".intercalate (toString rows.length :: rows)

def opPipeline3 : Rd String := do
  let r ← readReq
  let inp := r.inp
  match runPipeline3 r.env inp with
  | .error e => throw e.toString
  | .ok out =>
    let wavs := (rdCube r.env inp).wav
    let convs := (out.conv.zip inp.filters).map (fun (c, f) =>
      let mg : Rat := match f.entry with
        | .band _ => 1
        | .mono w0 => nearestMargin wavs w0
      showConv3 mg c)
    let ceilM : Rat := if inp.dmin = inp.dmax then 1 else intMargin (1 + (lg inp.dmax - lg inp.dmin) / inp.step)
    let d0 := out.dists.headD inp.dmin
    let belowM : Rat := (List.zipWith (fun (f : Filt3 Rat) (c : Conv Rat (List Rat)) =>
        let a0 := (c.apertures.getD []).headD 1
        (f.theta * (thousandK * d0) - a0) / a0) inp.filters out.conv).foldl min 1
    let blocks := (out.listings.zip ((fittedSources3 inp).zip out.fits)).map (fun (l, s, rec) =>
      " ".intercalate [encodeNameTok l.source, toString l.nData, toString l.nFits,
        toString l.rows.length, " ".intercalate (l.rows.map E2E.showRow),
        E2E.showRec rec, showModels3 r out s.2])
    pure (" ".intercalate ([toString out.conv.length] ++ convs ++
      [toString out.dists.length, showRat ceilM, showRat belowM] ++ out.dists.map showRat ++
      [toString out.models.length] ++ out.models.map showModel ++
      [toString blocks.length] ++ blocks))

end E2E3

def handleE2E3 (op : String) : Option (Rd String) :=
  match op with
  | "e2e3.pipeline" => some E2E3.opPipeline3
  | _ => none

end Drv
