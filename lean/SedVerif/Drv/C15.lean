import SedVerif.Model.Units
import SedVerif.Drv.Proto
/-! Driver op for C15: `convert_flux` over the `(aperture, frequency)` array of one SED. -/
namespace Drv
open SF

def c15ReadUnit : Rd (FUnit Rat) := do
  let f ← tok
  let s ← rat
  match f with
  | "fnu" => pure ⟨some .fnu, s⟩
  | "flux" => pure ⟨some .flux, s⟩
  | "lum" => pure ⟨some .lum, s⟩
  | "none" => pure ⟨none, s⟩
  | _ => throw s!"bad-family:{f}"

def c15ConvertRows (d : Rat) (A B : FUnit Rat) (nus : List Rat) : List (List Rat) → Except UnitErr (List (List Rat))
  | [] => .ok []
  | row :: rows =>
    match convertRow d A B nus row, c15ConvertRows d A B nus rows with
    | .ok r, .ok rs => .ok (r :: rs)
    | .error e, _ => .error e
    | _, .error e => .error e

/-- `c15.convert famA sA famB sB d nnu {nu}* nap {n v*}*` → `converted nap {n v*}*` | `refused` -/
def c15OpConvert : Rd String := do
  let A ← c15ReadUnit
  let B ← c15ReadUnit
  let d ← rat
  let nus ← listOf rat
  let rows ← listOf (listOf rat)
  if rows.any (fun r => r.length ≠ nus.length) then throw "shape-mismatch"
  match c15ConvertRows d A B nus rows with
  | .ok out => pure (" ".intercalate ("converted" :: toString out.length :: out.map showRats))
  | .error .unsupported => pure "refused"

def handleC15 (op : String) : Option (Rd String) :=
  match op with
  | "c15.convert" => some c15OpConvert
  | _ => none

end Drv
