import SedVerif.Model.Match
import SedVerif.Drv.Proto
/-!
Driver ops for the name-matching family (C07, C09).

Model names travel as one token each: the decimal code points joined by `.` (`109.49` = "m1"),
`-` for the empty name, so that blanks inside / after a name survive the whitespace-split protocol.
-/
namespace Drv
open SF.Match

def decodeNameTok (t : String) : Option String :=
  if t = "-" then some ""
  else ((t.splitOn ".").mapM (fun (p : String) => p.toNat?.map Char.ofNat)).map String.ofList

def encodeNameTok (s : String) : String :=
  if s.isEmpty then "-" else ".".intercalate (s.toList.map (fun c => toString c.toNat))

def nameTok : Rd String := do
  let t ← tok
  match decodeNameTok t with
  | some s => pure s
  | none => throw s!"bad-name:{t}"

def showNameToks (l : List String) : String :=
  " ".intercalate (toString l.length :: l.map encodeNameTok)

def liftMErr {α : Type} (e : Except MErr α) : Rd α :=
  match e with
  | .ok a => pure a
  | .error m => throw m.toString

/-- `ordermatch nA {name}* nR {name}*`: `sort_to_match` on rows tagged with their position
    → `k {source position of new row i}* k {new name}*`, or `err sortFailed|indexError` -/
def opOrderMatch : Rd String := do
  let a ← listOf nameTok
  let req ← listOf nameTok
  let tags := List.range a.length
  let c : Conv Nat Nat := { names := a, apertures := none, filtwav := 0, flux := tags, error := tags }
  let c' ← liftMErr (sortToMatch c req)
  if c'.flux ≠ c'.error then throw "flux-error-misaligned"
  pure s!"{showNats c'.flux} {showNameToks c'.names}"

/-- `convnames v nAp nL {name}* nT {name}*`: `v` = 1 per-file (`{name}*` of the SED files in
    directory-listing order), 2 cube (cube order); SED `m`, aperture `ia` is the tag `100 m + ia`,
    its uncertainty `100 m + ia + 50`; the filter functionals are the identity.
    → `k {name}* {nAp flux tags, nAp error tags}*` or `err …` -/
def opConvNames : Rd String := do
  let v ← nat
  let nAp ← nat
  let src ← listOf nameTok
  let table ← listOf nameTok
  let aps : Option (List Nat) := some (List.range nAp)
  let sedOf (m : Nat) : Nat → Ap Nat := fun ia => ⟨100 * m + ia, 100 * m + ia + 50⟩
  let r ← liftMErr (
    if v = 1 then
      convolveV1 (K := Nat) id id 0 (src.zipIdx.map (fun (n, m) => ⟨n, aps, sedOf m⟩)) table
    else
      convolveV2 (K := Nat) id id 0 ⟨src, aps, (List.range src.length).map sedOf⟩ table)
  let rows := List.zipWith (fun f e => s!"{showNats f} {showNats e}") r.flux r.error
  pure (" ".intercalate (showNameToks r.names :: rows))

def readNameDict : Rd (List (String × Rat)) :=
  listOf (do let n ← nameTok; let v ← rat; pure (n, v))

/-- `filtertable prep nT {name}* nM {name}* nAdd {nE {name value}*}*`: table rows are tagged with their
    position in the list given; `prep` = 1 applies the strip + sort-by-name step first
    → `k {table position of output row i}* k {name of output row i}* {nAdd {value}*}*` or `err …` -/
def opFilterTable : Rd String := do
  let prep ← nat
  let tnames ← listOf nameTok
  let mn ← listOf nameTok
  let addl ← listOf readNameDict
  let rows : List (String × Nat) := tnames.zipIdx
  let table := if prep = 1 then prepTable rows else rows
  let r ← liftMErr (filterTableAdd table mn addl)
  let ex := r.map (fun x => showRats x.2.2)
  pure (" ".intercalate (showNats (r.map (·.2.1)) :: showNameToks (r.map (·.1)) :: ex))

/-- a double as a token: `nan`, `inf`, `-inf` or a rational -/
def efTok : Rd (SF.EF Rat) := do
  let t ← tok
  match t with
  | "nan" => pure SF.EF.nan
  | "inf" => pure SF.EF.pinf
  | "-inf" => pure SF.EF.ninf
  | _ =>
    match parseRat t with
    | some q => pure (SF.EF.fin q)
    | none => throw s!"bad-ef:{t}"

def showEfTok : SF.EF Rat → String
  | SF.EF.nan => "nan"
  | SF.EF.pinf => "inf"
  | SF.EF.ninf => "-inf"
  | SF.EF.fin q => showRat q

/-- `ranges n {x}*` (each `x` a rational, `nan`, `inf` or `-inf`) → `1 min best max`
    (`np.nanmin`, `[0]`, `np.nanmax`), or `0` for an empty selection -/
def opParRanges : Rd String := do
  let xs ← listOf efTok
  match paramRangesEF xs with
  | none => pure "0"
  | some (lo, best, hi) => pure s!"1 {showEfTok lo} {showEfTok best} {showEfTok hi}"

/-- `filtertablefull prep nC {column name}* nT {name}* nM {name}* nAdd {key nE {name value}*}*`:
    `filter_table` with its guards (`MODEL_NAME` column, post-check, "already exists", `KeyError`);
    column names and keys travel like model names
    → as `filtertable`, or `err noModelName|sortFailed|indexError|dupColumn|keyError` -/
def opFilterTableFull : Rd String := do
  let prep ← nat
  let cols ← listOf nameTok
  let tnames ← listOf nameTok
  let mn ← listOf nameTok
  let addl ← listOf (do let k ← nameTok; let d ← readNameDict; pure (k, d))
  let rows : List (String × Nat) := tnames.zipIdx
  let table := if prep = 1 then prepTable rows else rows
  let r ← liftMErr (filterTableFull cols table mn addl)
  let ex := r.map (fun x => showRats x.2.2)
  pure (" ".intercalate (showNats (r.map (·.2.1)) :: showNameToks (r.map (·.1)) :: ex))

/-- `parcounts n {flag}* nfits` → `n_data n_fits` -/
def opParCounts : Rd String := do
  let flags ← listOf nat
  let k ← nat
  let c := counts flags (List.range k)
  pure s!"{c.1} {c.2}"

def handleC07 (op : String) : Option (Rd String) :=
  match op with
  | "ordermatch" => some opOrderMatch
  | "convnames" => some opConvNames
  | "filtertable" => some opFilterTable
  | "filtertablefull" => some opFilterTableFull
  | "ranges" => some opParRanges
  | "parcounts" => some opParCounts
  | _ => none

end Drv
