import SedVerif.Model.Dist
import SedVerif.Model.Extinction
import SedVerif.Drv.Proto
import SedVerif.Drv.Approx
import SedVerif.Drv.C01
/-! Driver ops for the distance-dependent mode (C02) and aperture interpolation (C13). -/
namespace Drv
open SF
namespace DistOps

/-- `ceil` for the driver.  `Drv.lg` is accurate to about 2⁻¹⁵⁰, so a value within 2⁻¹²⁰ of an integer
    cannot be told from that integer (for decimal inputs such as 1..10 kpc with step 0.25 it *is* that
    integer); it is rounded to it.  The harness compares such cases strictly only when the float
    computation of the code is itself exact, and otherwise counts them as margin cases. -/
def ceilNat (x : Rat) : Nat :=
  let r : Int := Rat.floor (x + 1/2)
  let d := x - (r : Rat)
  let ad := if d < 0 then -d else d
  if ad < 1 / (2 : Rat) ^ 120 then r.toNat else (Rat.ceil x).toNat

/-- `C02_grid_ends`: with the true `log10` / `10 ** x` the trial distances start at `dmin` and end at `dmax`.
    The driver's `lg` / `exp10` are 2⁻¹⁵⁰-accurate approximations, so the two end points are pinned to the
    values the theorem gives (a radius `θ·dmin` that sits exactly on a tabulated aperture stays on it). -/
def pinEnds (dmin dmax : Rat) (ds : List Rat) : List Rat :=
  match ds with
  | [] => []
  | [d] => [d]
  | _ :: rest => dmin :: (rest.dropLast ++ [dmax])

def showErr : ApErr → String
  | .tooSmall => "tooSmall"
  | .outOfRange => "outOfRange"
  | .badTable => "badTable"

/-- one band of the package: tabulated apertures (AU) and, per model, the fluxes over apertures -/
def readBand : Rd (List Rat × List (List Rat)) := do
  let aps ← listOf rat
  let rows ← listOf (listOf rat)
  pure (aps, rows)

def minL (d : Rat) (l : List Rat) : Rat := l.foldl min d

/-- distance of `x` from the nearest integer -/
def intMargin (x : Rat) : Rat :=
  let f := x - (Rat.floor x : Rat)
  min f (1 - f)

/-- smallest chi² over the distances other than `bi`, minus the smallest -/
def argminGap (chis : List Rat) (bi : Nat) (bc : Rat) : Rat :=
  let others := (chis.zipIdx.filter (fun p => p.2 ≠ bi)).map (·.1)
  match others with
  | [] => BIG
  | c :: cs => minL c cs - bc

/-- smallest distance of a limit band from its threshold, over all trial distances -/
def limitMargin (lo hi : Rat) (pss : List (List (Pt Rat))) : Rat :=
  pss.foldl (fun acc ps =>
    let a := clipAv lo hi (optAv ps)
    ps.foldl (fun acc p =>
      if p.flag = 2 ∨ p.flag = 3 then min acc (absR (a * p.k - p.r)) else acc) acc) BIG

/-- `fit3 lo hi  V ntab {wav chi}*  nb {wavelength}*  nb {theta}*  nb {nap {ap}* nm {nap flux*}*}*
          dmin dmax step  nsrc {nb {flag flux err}*}*`
    → `E <err>`  or
      `V n_distances ceilMargin belowMargin  n {logd}*  nsrc { nm { av sc chi2 bi gap clampMargin limitMargin avScale chiScale nViolatedLimits nLimits fluxCond dChi/dr dAv/dr  nb {predicted log flux}* }* }*` -/
def opFit3 : Rd String := do
  let lo ← rat; let hi ← rat
  let v ← rat
  let tab ← listOf readPair
  let wavs ← listOf rat
  let thetas ← listOf rat
  let bands ← listOf readBand
  let dmin ← rat; let dmax ← rat; let step ← rat
  let srcs ← listOf (listOf readObs)
  let ks := wavs.map (getAv tab v)
  let dists := pinEnds dmin dmax (distancesKpc lg exp10 ceilNat dmin dmax step)
  let nm := match bands with
    | [] => 0
    | b :: _ => b.2.length
  let ceilM : Rat := if dmin = dmax then 1 else intMargin (1 + (lg dmax - lg dmin) / step)
  let d0 := dists.headD dmin
  let belowM : Rat := (List.zipWith (fun θ (b : List Rat × List (List Rat)) =>
      let a0 := b.1.headD 1
      (θ * (thousandK * d0) - a0) / a0) thetas bands).foldl min 1
  -- per model: band tables
  let modelTabs : List (List (BandTab Rat)) := (List.range nm).map (fun i =>
    List.zipWith (fun θ (b : List Rat × List (List Rat)) =>
      ({ theta := θ, aps := b.1, row := b.2.getD i [] } : BandTab Rat)) thetas bands)
  -- log10 of the model fluxes does not depend on the source: compute the cube once
  let cube : Except ApErr (List (List (List Rat))) :=
    seqE (modelTabs.map (fun tabs => modelLogFluxes lg tabs dists))
  -- conditioning of the linear interpolation: largest tabulated flux of a band / interpolated flux
  let conds : List Rat := modelTabs.map (fun tabs => dists.foldl (fun acc d =>
    match modelFluxes tabs d with
    | .ok fl => (List.zipWith (fun (t : BandTab Rat) f => (t.row.foldl max 0) / (f * (d * d))) tabs fl).foldl max acc
    | .error _ => acc) 1)
  match cube with
  | .error e => pure s!"E {showErr e}"
  | .ok cube =>
    let logd := dists.map lg
    let outS := srcs.map (fun obs =>
      let lobs := obs.map (logTransform lg ln10)
      let outM := (cube.zip conds).map (fun (lfs, fcond) =>
        let pss := lfs.map (fun lf => mkPts lobs lf ks)
        let (a, s, c, bi) := fit3 BIG ln1m lo hi logd pss
        let per := fit3PerDist BIG ln1m lo hi pss
        let gap := argminGap (per.map (·.2)) bi c
        let ps := pss.getD bi []
        let A := optAv ps
        let clampM := min (absR (A - lo)) (absR (A - hi))
        let limM := limitMargin lo hi pss
        let avScale := sumBy (fun p => absR (p.r * p.k * p.w)) ps / sumBy (fun p => p.k * p.k * p.w) ps
        let chiScale := sumBy (fun p => (absR p.r + absR (a * p.k)) * (absR p.r + absR (a * p.k)) * p.w) ps
        let nviol := (ps.filter (fun p => (p.flag = 2 ∧ a * p.k < p.r) ∨ (p.flag = 3 ∧ p.r < a * p.k))).length
        let nlim := (ps.filter (fun p => p.flag = 2 ∨ p.flag = 3)).length
        -- predicted log fluxes stored with the row: `(model + model_fluxes)[best]`, `model = av · av_law`
        let pred := List.zipWith (fun k lf => a * k + lf) ks (lfs.getD bi [])
        let dchi := sumBy (fun p => 2 * (absR p.r + absR (a * p.k)) * p.w) ps
        let dav := sumBy (fun p => absR (p.k * p.w)) ps / sumBy (fun p => p.k * p.k * p.w) ps
        s!"{showRat a} {showRat s} {showRat c} {bi} {showRat gap} {showRat clampM} {showRat limM} {showRat avScale} {showRat chiScale} {nviol} {nlim} {showRat fcond} {showRat dchi} {showRat dav} {showRats pred}")
      " ".intercalate (toString outM.length :: outM))
    pure (" ".intercalate (["V", toString dists.length, showRat ceilM, showRat belowM, showRats logd, toString outS.length] ++ outS))

/-- `grid dmin dmax step` → `n ceilMargin  n {log10 d}*  n {d}*` -/
def opGrid : Rd String := do
  let dmin ← rat; let dmax ← rat; let step ← rat
  let dists := pinEnds dmin dmax (distancesKpc lg exp10 ceilNat dmin dmax step)
  let ceilM : Rat := if dmin = dmax then 1 else intMargin (1 + (lg dmax - lg dmin) / step)
  let g := if dmin = dmax then [lg dmin] else distGrid ceilNat (lg dmin) (lg dmax) step
  pure s!"{dists.length} {showRat ceilM} {showRats g} {showRats dists}"

def showRows (m : List (List Rat)) : String :=
  " ".intercalate (toString m.length :: m.map showRats)

/-- `interp wav  nn {name}*  nap {ap}*  nm {n flux*}*  nm {n err*}*  nreq {req}*`
    → `E err` or `V wav nn {name}* {apertures} {flux rows} {error rows}` -/
def opInterp : Rd String := do
  let w ← rat
  let names ← listOf tok
  let aps ← listOf rat
  let flux ← listOf (listOf rat)
  let err ← listOf (listOf rat)
  let req ← listOf rat
  match convInterpolate ({ wav := w, names := names, aps := aps, flux := flux, err := err } : ConvTab Rat) req with
  | .error e => pure s!"E {showErr e}"
  | .ok c =>
    pure (" ".intercalate (["V", showRat c.wav, toString c.names.length] ++ c.names
      ++ [showRats c.aps, showRows c.flux, showRows c.err]))

def readSed : Rd (SedTab Rat) := do
  let wav ← listOf rat
  let aps ← listOf rat
  let flux ← listOf (listOf rat)
  pure { wav := wav, aps := aps, flux := flux }

/-- `sedinterp  nw {wav}*  nap {ap}*  nap' {nw flux*}*  nreq {req}*` → `E err` or `V rows[wavelength][request]` -/
def opSedInterp : Rd String := do
  let s ← readSed
  let req ← listOf rat
  match sedInterpolate s req with
  | .error e => pure s!"E {showErr e}"
  | .ok m => pure s!"V {showRows m}"

/-- `interpvar  <sed>  nf {filter wav}*  nf {filter aperture}*` → `E err` or `V n {flux}*` -/
def opInterpVar : Rd String := do
  let s ← readSed
  let fw ← listOf rat
  let fa ← listOf rat
  match interpVariable lg exp10 s fw fa with
  | .error e => pure s!"E {showErr e}"
  | .ok l => pure s!"V {showRats l}"

/-- `interp1 nap {ap}* nap {flux}* x` → `E err` or `V value` (the scalar `interpClamp`) -/
def opInterp1 : Rd String := do
  let xs ← listOf rat
  let ys ← listOf rat
  let x ← rat
  match interpClamp xs ys x with
  | .error e => pure s!"E {showErr e}"
  | .ok y => pure s!"V {showRat y}"

end DistOps
open DistOps in
def handleC02 (op : String) : Option (Rd String) :=
  match op with
  | "fit3" => some opFit3
  | "grid" => some opGrid
  | "interp" => some opInterp
  | "sedinterp" => some opSedInterp
  | "interpvar" => some opInterpVar
  | "interp1" => some opInterp1
  | _ => none

end Drv
