/-!
# Line protocol helpers for the driver (no Mathlib)

One request per line: `op tok tok …`.  Rationals are `n/d` or `n` (decimal integers, optional
sign); lists are length-prefixed.  One response line per request: `ok tok…` or `err <reason>`.
-/
namespace Drv

abbrev Rd := StateT (List String) (Except String)

def tok : Rd String := do
  match (← get) with
  | [] => throw "eol"
  | t :: ts => set ts; pure t

def nat : Rd Nat := do
  let t ← tok
  match t.toNat? with
  | some n => pure n
  | none => throw s!"bad-nat:{t}"

def int : Rd Int := do
  let t ← tok
  match t.toInt? with
  | some n => pure n
  | none => throw s!"bad-int:{t}"

def parseRat (t : String) : Option Rat :=
  match t.splitOn "/" with
  | [n] => n.toInt?.map (fun (i : Int) => (i : Rat))
  | [n, d] => do
      let i ← n.toInt?
      let j ← d.toNat?
      if j = 0 then none else some (mkRat i j)
  | _ => none

def rat : Rd Rat := do
  let t ← tok
  match parseRat t with
  | some q => pure q
  | none => throw s!"bad-rat:{t}"

def listN {α : Type} (p : Rd α) : Nat → Rd (List α)
  | 0 => pure []
  | n + 1 => do
      let x ← p
      let xs ← listN p n
      pure (x :: xs)

/-- length-prefixed list -/
def listOf {α : Type} (p : Rd α) : Rd (List α) := do
  let n ← nat
  listN p n

def done : Rd Unit := do
  match (← get) with
  | [] => pure ()
  | t :: _ => throw s!"trailing:{t}"

def showRat (q : Rat) : String :=
  if q.den = 1 then toString q.num else s!"{q.num}/{q.den}"

def showRats (l : List Rat) : String :=
  " ".intercalate ((toString l.length) :: l.map showRat)

def showNats (l : List Nat) : String :=
  " ".intercalate ((toString l.length) :: l.map toString)

def runRd {α : Type} (p : Rd α) (toks : List String) : Except String α :=
  (do let x ← p; done; pure x).run' toks

end Drv
