import SedVerif.Model.Parse
import SedVerif.Drv.Hex
/-! Driver ops for C20: source-line parsing and formatting over exact rationals. -/
namespace Drv.C20
open SF SF.Parse Drv.Hex

def errName : PErr → String
  | .eof => "eof"
  | .badColumns => "badColumns"
  | .badFlag => "badFlag"
  | .badNumber => "badNumber"

def showX : XNum → String
  | .fin q => showRat q
  | .pinf => "inf"
  | .ninf => "-inf"
  | .nan => "nan"

/-- `flux₀ err₀ flux₁ err₁ …` -/
def interleave : List XNum → List XNum → List XNum
  | f :: fs, e :: es => f :: e :: interleave fs es
  | _, _ => []

/-- `parse <hex of the line>` → `S <hex name> x y n flag* flux₀ err₀ …` | `E <kind>` -/
def opParse : Rd String := do
  let line ← textTok
  match fromAscii parsePy line with
  | .error e => pure s!"E {errName e}"
  | .ok s =>
    pure (" ".intercalate (["S", showText s.name, showX s.x, showX s.y, toString s.valid.length]
      ++ s.valid.map toString ++ (interleave s.flux s.error).map showX))

/-- `split <hex of the line>` → `n <hex token>*` -/
def opSplit : Rd String := do
  let line ← textTok
  let toks := splitWs line
  pure (" ".intercalate (toString toks.length :: toks.map showText))

/-- `fmt <rat>` → `<hex of "%.3e" % v> <hex of "{:11.3e}".format(v)>` -/
def opFmt : Rd String := do
  let v ← rat
  pure s!"{showText (fmtE3 v)} {showText (padLeft 11 (fmtE3 v))}"

/-- `fmtf <rat>` → `<hex of "%.5f" % v> <hex of "{:9.5f}".format(v)>` -/
def opFmtF : Rd String := do
  let v ← rat
  pure s!"{showText (fmtF5 v)} {showText (padLeft 9 (fmtF5 v))}"

def readSrc : Rd (Src Rat) := do
  let name ← textTok
  let x ← rat
  let y ← rat
  let valid ← listOf int
  let flux ← listOf rat
  let error ← listOf rat
  pure ⟨name, x, y, valid, flux, error⟩

/-- `toascii <hex name> x y n flag* n flux* n err*` → `S <hex of to_ascii()>` | `E index` -/
def opToAscii : Rd String := do
  let s ← readSrc
  match toAscii fmtF5 fmtE3 s with
  | none => pure "E index"
  | some l => pure s!"S {showText l}"

/-- `roundtrip <source>` → `from_ascii(to_ascii(s))` in the model, answer as for `parse` -/
def opRoundTrip : Rd String := do
  let s ← readSrc
  match toAscii fmtF5 fmtE3 s with
  | none => pure "E index"
  | some l =>
    match fromAscii parsePy l with
    | .error e => pure s!"E {errName e}"
    | .ok s =>
      pure (" ".intercalate (["S", showText s.name, showX s.x, showX s.y, toString s.valid.length]
        ++ s.valid.map toString ++ (interleave s.flux s.error).map showX))

/-- `dict <source>` → `from_dict(to_dict(s))`: `S` when it returns the same six fields, else `E …` -/
def opDict : Rd String := do
  let s ← readSrc
  match fromDict (toDict s) with
  | .error .keyError => pure "E keyError"
  | .error .typeError => pure "E typeError"
  | .error .valueError => pure "E valueError"
  | .ok t =>
    if t.name = s.name ∧ t.x = s.x ∧ t.y = s.y ∧ t.valid = s.valid ∧ t.flux = s.flux ∧ t.error = s.error
    then pure "S same" else pure "S different"

def handle (op : String) : Option (Rd String) :=
  match op with
  | "parse" => some opParse
  | "split" => some opSplit
  | "fmt" => some opFmt
  | "fmtf" => some opFmtF
  | "toascii" => some opToAscii
  | "roundtrip" => some opRoundTrip
  | "dict" => some opDict
  | _ => none

end Drv.C20

namespace Drv
def handleC20 : String → Option (Rd String) := C20.handle
end Drv
