import SedVerif.Model.Fit
import SedVerif.Model.Extinction
import SedVerif.Drv.Proto
import SedVerif.Drv.Approx
/-! Driver ops for the fitting family (C01, C03, C04, C08, C11): distance-independent mode. -/
namespace Drv
open SF

def BIG : Rat := (10 : Rat) ^ 30

def ln1m (c : Rat) : Rat := ln (1 - c)

def readObs : Rd (Obs Rat) := do
  let f ← nat; let x ← rat; let e ← rat
  pure ⟨f, x, e⟩

def readPair : Rd (Rat × Rat) := do
  let a ← rat; let b ← rat; pure (a, b)

def absR (x : Rat) : Rat := if x < 0 then -x else x

/-- decision margins of one distance-independent fit: distance of the unclamped A_V from both ends of
    the range, and of every limit band from its threshold -/
def margins2 (lo hi : Rat) (ps : List (Pt Rat)) (a s : Rat) : Rat :=
  let A := (linreg ps).1
  let m0 := min (absR (A - lo)) (absR (A - hi))
  ps.foldl (fun acc p =>
    if p.flag = 2 ∨ p.flag = 3 then min acc (absR (a * p.k + s * p.q - p.r)) else acc) m0

/-- `fit2 lo hi  V ntab {wav chi}*  nb {wavelength}* nb {flag flux err}*  nm {nb mflux*}*`
    → per model `av sc chi2 margin cond` then predicted log fluxes -/
def opFit2 : Rd String := do
  let lo ← rat; let hi ← rat
  let v ← rat
  let tab ← listOf readPair
  let wavs ← listOf rat
  let obs ← listOf readObs
  let models ← listOf (listOf rat)
  let ks := wavs.map (getAv tab v)
  let lobs := obs.map (logTransform lg ln10)
  let out := models.map (fun mf =>
    let ps := mkPts lobs (mf.map lg) ks
    let (a, s, c) := fit2Full BIG ln1m lo hi ps
    let det := m11 ps * m22 ps - m12 ps * m12 ps
    let cond := if det = 0 then 0 else m11 ps * m22 ps / det
    let pred := predicted2 a s ps (mf.map lg)
    s!"{showRat a} {showRat s} {showRat c} {showRat (margins2 lo hi ps a s)} {showRat cond} {showRats pred}")
  pure (" ".intercalate (toString models.length :: out))

/-- `getav V ntab {wav chi}* n {x}*` → A_V pattern at each x -/
def opGetAv : Rd String := do
  let v ← rat
  let tab ← listOf readPair
  let xs ← listOf rat
  pure (showRats (xs.map (getAv tab v)))

/-- `logt n {flag flux err}*` → per band `flag lf le w` -/
def opLogT : Rd String := do
  let obs ← listOf readObs
  let l := obs.map (logTransform lg ln10)
  pure (" ".intercalate (toString l.length :: l.map (fun o =>
    s!"{o.flag} {showRat o.lf} {showRat o.le} {showRat o.w}")))

def handleC01 (op : String) : Option (Rd String) :=
  match op with
  | "fit2" => some opFit2
  | "getav" => some opGetAv
  | "logt" => some opLogT
  | _ => none

end Drv
