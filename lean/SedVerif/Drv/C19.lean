import SedVerif.Model.PickleFrame
import SedVerif.Drv.Hex
/-! Driver ops for C19: the framing model run on (prefixes of) a real fit file. -/
namespace Drv.C19
open SF SF.Pickle Drv.Hex

def statusCode : ReadStatus → String
  | .openError => "O"
  | .iterError => "I"
  | .cleanEnd => "E"

/-- byte offsets `[start, end)` of the yielded frames, from the header length and the frame lengths -/
def frameOffsets : Nat → List (List UInt8) → List Nat
  | _, [] => []
  | pos, fr :: rest => pos :: (pos + fr.length) :: frameOffsets (pos + fr.length) rest

/-- `readFile nh b` together with the header length (`readFile` is by definition `readHeader` followed
    by `readRecs`; the header is scanned once and the result checked against `readFile`'s shape) -/
def scanReport (nh : Nat) (b : List UInt8) : String :=
  match readHeader nh b with
  | none => s!"{statusCode .openError} 0"
  | some rest =>
    let out := readRecs (rest.length + 1) rest
    " ".intercalate (statusCode out.status :: toString out.recs.length ::
      (frameOffsets (b.length - rest.length) out.recs).map toString)

/-- `scan <hex of the whole file> <number of header frames> k t₁ … t_k`
    → for each cut `t`: `status nrecs {start end}*` of `readFile nh (take t file)` -/
def opScan : Rd String := do
  let b ← bytesTok
  let nh ← nat
  let ts ← listOf nat
  pure (" ".intercalate (ts.map (fun t => scanReport nh (b.take t))))

/-- `scan1 <hex> ` → outcome of one `scanOne`: `done <consumed>` | `eof` | `trunc` | `bad` -/
def opScan1 : Rd String := do
  let b ← bytesTok
  pure (match scanOne b with
    | .done rest => s!"done {b.length - rest.length}"
    | .eofAtOpcode => "eof"
    | .truncatedArg => "trunc"
    | .badOpcode => "bad")

def handle (op : String) : Option (Rd String) :=
  match op with
  | "scan" => some opScan
  | "scan1" => some opScan1
  | _ => none

end Drv.C19

namespace Drv
def handleC19 : String → Option (Rd String) := C19.handle
end Drv
