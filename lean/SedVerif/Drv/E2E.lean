import SedVerif.Model.Pipeline
import SedVerif.Drv.Proto
import SedVerif.Drv.Approx
import SedVerif.Drv.C01
import SedVerif.Drv.C04
import SedVerif.Drv.C07
/-!
Driver op for the end-to-end pipeline model (`Model/Pipeline.lean`).

`e2e.pipeline lo hi V ntab {wav chi}* nDataMin {form number} {form number}
   nfilt { norm wav nnodes {nu R}* }*
   nsed  { name nwav {wav}* nnu {nu}* naps {ap}* nrows { n {F}* }* hasErr [ nrows { n {E}* }* ] }*
   nrow  { name ncol {value}* }*
   nsrc  { name nb {flag flux err}* }*`
(`naps = 0`: the SED has no aperture list; names are encoded as in `Drv/C07.lean`)

→ `nfilt { filtwav nrows { name nap {flux variance}* }* }*
   nsrc  { name n_data n_fits  nrows { fit_id name chi2 av sc npar {value}* }*
           nrec { name chi2 av sc }*
           nmod { name av sc chi2 margin cond }* }*`
where `nrec` rows are the record of the fit output file (after `output_format`), and `nmod` rows are
the unranked per-model results in the row order of the convolved files, with the decision margins of
`Drv/C01.lean` (`margins2`) and the condition estimate of the normal equations.
A refusal of the model is `err <PErr>`.
-/
namespace Drv
open SF SF.Match SF.Pipe
namespace E2E

def env : PEnv Rat := { lg := lg, ln10 := ln10, big := BIG, ln1m := ln1m, tiny := 1 / (10 : Rat) ^ 30 }

def readFilter : Rd (PFilter Rat) := do
  let norm ← nat
  let wav ← rat
  let nodes ← listOf readPair
  pure { norm := norm = 1, nodes := nodes, wav := wav }

def readSedObj : Rd (RT.Sed Rat) := do
  let name ← nameTok
  let wav ← listOf rat
  let nu ← listOf rat
  let aps ← listOf rat
  let flux ← listOf (listOf rat)
  let he ← nat
  let err ← if he = 0 then pure none else do
    let e ← listOf (listOf rat)
    pure (some e)
  pure { name := name, wav := wav, nu := nu, aps := if aps.isEmpty then none else some aps,
         flux := flux, err := err }

def readTableRow : Rd (String × List Rat) := do
  let n ← nameTok
  let vals ← listOf rat
  pure (n, vals)

def readSource : Rd (String × List (Obs Rat)) := do
  let n ← nameTok
  let bands ← listOf readObs
  pure (n, bands)

def readInput : Rd (PInput Rat) := do
  let lo ← rat; let hi ← rat
  let v ← rat
  let tab ← listOf readPair
  let ndm ← nat
  let selFit ← C04.readSel
  let selOut ← C04.readSel
  let filters ← listOf readFilter
  let seds ← listOf readSedObj
  let table ← listOf readTableRow
  let sources ← listOf readSource
  pure { seds := seds, table := table, filters := filters, ext := tab, v := v, sources := sources,
         lo := lo, hi := hi, nDataMin := ndm, selFit := selFit, selOut := selOut }

def showConv (c : Conv Rat (List Rat)) : String :=
  let rows := (c.names.zip (c.flux.zip c.error)).map (fun (n, f, e) =>
    " ".intercalate (encodeNameTok n :: toString f.length ::
      (f.zip e).map (fun (x, y) => s!"{showRat x} {showRat y}")))
  " ".intercalate (showRat c.filtwav :: toString rows.length :: rows)

def showRow (r : ListRow Rat) : String :=
  s!"{r.fitId} {encodeNameTok r.name} {C04.showEF r.chi2} {showRat r.av} {showRat r.sc} {showRats r.pars}"

def showRec (x : FitRows Rat) : String :=
  let rows := (x.name.zip (x.chi2.zip (x.av.zip x.sc))).map (fun (n, c, a, s) =>
    s!"{encodeNameTok n} {C04.showEF c} {showRat a} {showRat s}")
  " ".intercalate (toString rows.length :: rows)

def showModels (inp : PInput Rat) (ks : List Rat) (models : List (ModelRow Rat)) (bands : List (Obs Rat)) :
    String :=
  let lobs := bands.map (logTransform lg ln10)
  let rows := models.map (fun m =>
    let ps := mkPts lobs m.mf ks
    let (a, s, c) := fit2Full BIG ln1m inp.lo inp.hi ps
    let det := m11 ps * m22 ps - m12 ps * m12 ps
    let cond := if det = 0 then 0 else m11 ps * m22 ps / det
    s!"{encodeNameTok m.name} {showRat a} {showRat s} {showRat c} {showRat (margins2 inp.lo inp.hi ps a s)} {showRat cond}")
  " ".intercalate (toString rows.length :: rows)

def opPipeline : Rd String := do
  let inp ← readInput
  match runPipeline env inp with
  | .error e => throw e.toString
  | .ok out =>
    -- the intermediate tables, recomputed with the same model functions, only to print margins
    let (ks, models) :=
      match convStage env.tiny inp with
      | .ok convs =>
        (ksOf inp convs, match readModels env.lg convs with | .ok m => m | .error _ => [])
      | .error _ => ([], [])
    let blocks := (out.listings.zip ((fittedSources inp).zip out.fits)).map (fun (l, s, rec) =>
      " ".intercalate [encodeNameTok l.source, toString l.nData, toString l.nFits,
        toString l.rows.length, " ".intercalate (l.rows.map showRow),
        showRec rec, showModels inp ks models s.2])
    pure (" ".intercalate ([toString out.conv.length] ++ out.conv.map showConv ++
      [toString blocks.length] ++ blocks))

end E2E

def handleE2E (op : String) : Option (Rd String) :=
  match op with
  | "e2e.pipeline" => some E2E.opPipeline
  | _ => none

end Drv
