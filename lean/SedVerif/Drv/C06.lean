import SedVerif.Model.Integrate
import SedVerif.Drv.Proto
/-! Driver ops for C06: `integrate_subset`, `Filter.normalize` + `Filter.rebin`, broadband sums. -/
namespace Drv
open SF

def c06ReadNode : Rd (Rat × Rat) := do
  let a ← rat; let b ← rat; pure (a, b)

/-- the filter as the code holds it: optional `normalize()` first -/
def c06ReadFilter : Rd (List (Rat × Rat)) := do
  let norm ← nat
  let flt ← listOf c06ReadNode
  pure (if norm = 1 then normalize flt else flt)

def c06RebinOrThrow (flt : List (Rat × Rat)) (nus : List Rat) : Rd (List Rat) :=
  match rebinE flt nus with
  | .ok rs => pure rs
  | .error .emptyTable => throw "emptyTable"

/-- `c06.integ nflt {x y}* a b` → `integrate_subset(x, y, a, b)` -/
def c06OpInteg : Rd String := do
  let flt ← listOf c06ReadNode
  let a ← rat; let b ← rat
  pure (showRat (integrateSubset flt a b))

/-- `c06.cumint nflt {x y}* t` → spec: integral of the interpolant of increasing nodes from the first node to `t` -/
def c06OpCumInt : Rd String := do
  let flt ← listOf c06ReadNode
  let t ← rat
  pure (showRat (cumInt flt t))

/-- `c06.rebin norm nflt {nu R}* nnu {nu}*` → `n R_1 … R_n  ΣR` -/
def c06OpRebin : Rd String := do
  let flt ← c06ReadFilter
  let nus ← listOf rat
  let rs ← c06RebinOrThrow flt nus
  pure s!"{showRats rs} {showRat (sumBy id rs)}"

def c06ReadAp : Rd (List Rat × List Rat) := do
  let f ← listOf rat; let e ← listOf rat; pure (f, e)

/-- `c06.convolve norm nflt {nu R}* nnu {nu}* nap {nF F* nE E*}*` → `nap {flux variance}*` -/
def c06OpConvolve : Rd String := do
  let flt ← c06ReadFilter
  let nus ← listOf rat
  let aps ← listOf c06ReadAp
  let rs ← c06RebinOrThrow flt nus
  if aps.any (fun ap => ap.1.length ≠ rs.length ∨ ap.2.length ≠ rs.length) then throw "shape-mismatch"
  let out := aps.map (fun ap => s!"{showRat (broadband flt nus ap.1)} {showRat (broadbandVar flt nus ap.2)}")
  pure (" ".intercalate (toString aps.length :: out))

def handleC06 (op : String) : Option (Rd String) :=
  match op with
  | "c06.integ" => some c06OpInteg
  | "c06.cumint" => some c06OpCumInt
  | "c06.rebin" => some c06OpRebin
  | "c06.convolve" => some c06OpConvolve
  | _ => none

end Drv
