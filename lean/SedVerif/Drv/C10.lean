import SedVerif.Model.History
import SedVerif.Drv.Proto
/-!
Driver ops for C10.

* `records nMin conv n {tok}*` — one token per data line: a number = `n_data` of the source on that
  line, `e` = a line on which `Source.from_ascii` raises `EOFError` (blank / fewer than 3 columns),
  `b` = a line on which it raises something else.  Runs `fitMany` (record = line index + "predicted
  fluxes present"), serialises the frames with a toy codec and reads them back with `readAll`.
  Answer: `error <e>` | `empty` | `file <n_hdr_frames> <k> {idx flux}*k read <k'> {idx flux}*k'`.
* `history mode nobj {nrows best bestpd}* ncalls {call}*` — two-level caller heap: objects `0..nobj-1`,
  object `i` points at the cells `4i..4i+3` (rows `0..nrows-1`, source, best chi², best chi² per data
  point); `mode` = `copy` | `alias`;
  call = `<op> <arg> <input>` with op ∈ `wp wr ex pl p1 p2` (arg = `nobj k_0 … k_{nobj-1}`: keep the
  first `k_i` rows of source `i`), `fo chi`, `fc cpd`, `fb chi cpd` (filter_output), or the negative
  control `ip <sel> fld p` (keep, then write in place through attribute `fld`);
  input = `file k i_1 … i_k` (a file holding the records of these objects) | `obj i` | `list k i_1 … i_k`.
  Answer: per call `p n {src k rows*}*` | `s ng {src k rows*}* nb {src k rows*}*` | `x <err>`, then
  `heap nobj {k rows*}*` (what the caller's references lead to afterwards; `-1` for a lost one), then
  `cells 0|1 objs 0|1` (1 = every caller cell / object binding is what it was).
-/
namespace Drv
open SF.Hist

def errName : Err → String
  | .eof => "eof" | .badLine => "badLine" | .metaMismatch => "metaMismatch" | .truncated => "truncated"
  | .fuel => "fuel" | .badRef => "badRef" | .noFits => "noFits" | .badState => "badState" | .badValue => "badValue"

/-- a data line as the driver sees it -/
inductive LineTok
  | src (idx nData : Nat)
  | eofLine
  | badLine

def readLineToks : Nat → Nat → Rd (List LineTok)
  | 0, _ => pure []
  | n + 1, i => do
      let t ← tok
      let l ← match t with
        | "e" => pure LineTok.eofLine
        | "b" => pure LineTok.badLine
        | _ => match t.toNat? with
          | some k => pure (LineTok.src i k)
          | none => throw s!"bad-line-token:{t}"
      let ls ← readLineToks n (i + 1)
      pure (l :: ls)

/-- record = (line index, predicted fluxes present, selector applied) -/
abbrev DRec := Nat × Nat × Nat

def recCfg (nMin : Int) (conv : Bool) : FitCfg LineTok (Nat × Nat) Nat DRec where
  parse := fun l => match l with
    | .src i k => .ok (i, k)
    | .eofLine => .error .eof
    | .badLine => .error .badLine
  nData := fun s => s.2
  fitOne := fun s => (s.1, 1, 0)
  dropFluxes := fun r => (r.1, 0, r.2.2)
  keepSel := fun r => (r.1, r.2.1, 1)
  hdr := 77
  nMin := nMin
  conv := conv

def encRec (r : DRec) : List Nat := [r.1, r.2.1, r.2.2]
def decRec : List Nat → Dec DRec Nat
  | [] => .eof
  | a :: b :: c :: rest => .ok (a, b, c) rest
  | _ => .bad
def encHdr (h : Nat) : List Nat := [h]
def decHdr : List Nat → Dec Nat Nat
  | [] => .eof
  | a :: rest => .ok a rest

def showRecs (rs : List DRec) : String :=
  " ".intercalate (toString rs.length :: rs.map (fun r => s!"{r.1} {r.2.1}"))

def opRecords : Rd String := do
  let nMin ← int
  let conv ← nat
  let n ← nat
  let lines ← readLineToks n 0
  match fitMany (recCfg nMin (conv != 0)) lines with
  | .error e => pure s!"error {errName e}"
  | .ok [] => pure "empty"
  | .ok fs =>
    let nh := (fs.filter Frame.isHdr).length
    let recs := fs.filterMap (fun f => match f with | .recd r => some r | .hdr _ => none)
    -- every record must have gone through keep (third component 1)
    if recs.any (fun r => r.2.2 != 1) then throw "model-bug:keep-not-applied" else
    match readAll decHdr decRec (serialize encHdr encRec fs) with
    | .error e => pure s!"file {nh} {showRecs recs} readerror {errName e}"
    | .ok (h, rs) =>
      if h != 77 then throw "model-bug:header" else
      pure s!"file {nh} {showRecs recs} read {showRecs rs}"

abbrev HRec := CRec Rat
abbrev HX := CX Rat
abbrev HOp := Op (Nat → Nat) (Option Rat × Option Rat) Nat
abbrev HIn := Input HX

def readObj : Rd (Nat × Rat × Rat) := do
  let n ← nat; let b ← rat; let c ← rat; pure (n, b, c)

def readInput (objs : List HRec) : Rd HIn := do
  let t ← tok
  match t with
  | "file" => do
      let l ← listOf nat
      if l.any (fun i => i ≥ objs.length) then throw "bad-file-index" else
      pure (.file (l.filterMap (fun i => (objs[i]?).map CRec.toV)))
  | "obj" => do let i ← nat; pure (.obj i)
  | "list" => do let l ← listOf nat; pure (.list l)
  | _ => throw s!"bad-input:{t}"

def readSel (nobj : Nat) : Rd (Nat → Nat) := do
  let l ← listOf nat
  if l.length != nobj then throw "bad-sel-length" else
  pure (fun i => l.getD i 0)

def readCall (nobj : Nat) (objs : List HRec) : Rd (HOp × HIn) := do
  let t ← tok
  let op ← match t with
    | "wp" => do let s ← readSel nobj; pure (Op.writeParameters s)
    | "wr" => do let s ← readSel nobj; pure (Op.writeRanges s)
    | "ex" => do let s ← readSel nobj; pure (Op.extract s)
    | "pl" => do let s ← readSel nobj; pure (Op.plot s)
    | "p1" => do let s ← readSel nobj; pure (Op.plotParams1d s)
    | "p2" => do let s ← readSel nobj; pure (Op.plotParams2d s)
    | "fo" => do let q ← rat; pure (Op.filterOutput (some q, none))
    | "fc" => do let q ← rat; pure (Op.filterOutput (none, some q))
    | "fb" => do let q ← rat; let c ← rat; pure (Op.filterOutput (some q, some c))
    | "ip" => do let s ← readSel nobj; let f ← nat; let k ← nat; pure (Op.inplace s f k)
    | _ => throw s!"bad-op:{t}"
  let inp ← readInput objs
  pure (op, inp)

def showRows (k : List Nat) : String := " ".intercalate (toString k.length :: k.map toString)

def showViews (vs : List (Option (Nat × List Nat))) : String :=
  " ".intercalate (toString vs.length :: vs.map (fun v => match v with
    | some v => s!"{v.1} {showRows v.2}"
    | none => "malformed"))

def showOut : Except Err (Out (Option (Nat × List Nat)) (RecV HX)) → String
  | .error e => s!"x {errName e}"
  | .ok (.printed vs) => s!"p {showViews vs}"
  | .ok (.split g b) =>
    let f := fun (r : RecV HX) => (CRec.ofV r).map (fun c => (c.src, c.rows))
    s!"s {showViews (g.map f)} {showViews (b.map f)}"

/-- the caller's store: object `i` has the attribute cells `4i … 4i+3` -/
def mkStore (objs : List HRec) : Store HX :=
  { objs := objs.map (fun r => (r.src, [⟨4 * r.src, some r.rows.length⟩, ⟨4 * r.src + 1, none⟩,
                                        ⟨4 * r.src + 2, none⟩, ⟨4 * r.src + 3, none⟩])),
    cells := objs.flatMap (fun r => [(4 * r.src, r.rows.map CX.row), (4 * r.src + 1, [CX.src r.src]),
                                     (4 * r.src + 2, [CX.best r.best]), (4 * r.src + 3, [CX.bestpd r.bestpd])]) }

def opHistory : Rd String := do
  let m ← tok
  let mode ← match m with
    | "copy" => pure Iter.copy
    | "alias" => pure Iter.alias
    | _ => throw s!"bad-mode:{m}"
  let objs0 ← listOf readObj
  let nobj := objs0.length
  let objs : List HRec := (List.range nobj).zip objs0 |>.map (fun p => ⟨p.1, List.range p.2.1, p.2.2.1, p.2.2.2⟩)
  let st0 := mkStore objs
  let nc ← nat
  let calls ← listN (readCall nobj objs) nc
  let r := run (csem (K := Rat)) mode st0 calls
  let outs := r.2.map showOut
  let fin := (List.range nobj).map (fun i => match (deref r.1 i).bind CRec.ofV with
    | none => "-1"
    | some v => showRows v.rows)
  -- every cell (array / source / meta) the caller can reach holds what it held
  let cellsSame := (List.range (4 * nobj)).all (fun a => lookupRef a r.1.cells == lookupRef a st0.cells)
  let objsSame := (List.range nobj).all (fun i => lookupRef i r.1.objs == lookupRef i st0.objs)
  pure (" ".intercalate (outs ++ ["heap", toString nobj] ++ fin ++
    ["cells", if cellsSame then "1" else "0", "objs", if objsSame then "1" else "0"]))

def handleC10 (op : String) : Option (Rd String) :=
  match op with
  | "records" => some opRecords
  | "history" => some opHistory
  | _ => none

end Drv
