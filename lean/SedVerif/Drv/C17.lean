import SedVerif.Model.Plot
import SedVerif.Model.Extinction
import SedVerif.Drv.Proto
import SedVerif.Drv.Approx
/-! Driver ops for C17 (plotted model SEDs). -/
namespace Drv
open SF SF.Plt

def readMode17 : Rd SedType := do
  let t ← tok
  match t with
  | "interp" => pure .interp
  | "largest" => pure .largest
  | "largest+smallest" => pure .largestSmallest
  | "all" => pure .all
  | _ => throw s!"bad-mode:{t}"

def readPair17 : Rd (Rat × Rat) := do
  let a ← rat; let b ← rat; pure (a, b)

/-- common context: `c dOld kpc  naps {ap}*  nf {fwav theta}*` -/
def readCtx17 : Rd (PlotCtx Rat) := do
  let c ← rat; let dOld ← rat; let kpc ← rat
  let aps ← listOf rat
  let filt ← listOf readPair17
  pure { c := c, dOld := dOld, kpc := kpc, aps := aps, fwav := filt.map (·.1), theta := filt.map (·.2) }

/-- one fit: `sc av nrows {wav nu nflux {flux}*}*`; the extinction law is evaluated with the model of
    `Extinction.get_av` -/
def readFit17 (tab : List (Rat × Rat)) (v : Rat) : Rd (PlotFit Rat) := do
  let sc ← rat; let av ← rat
  let rows ← listOf (do
    let w ← rat; let nu ← rat; let fl ← listOf rat
    pure ({ wav := w, nu := nu, k := getAv tab v w, flux := fl } : SedRow Rat))
  pure { sc := sc, av := av, rows := rows }

def showCurve17 (c : Curve Rat) : String :=
  " ".intercalate (toString c.length :: c.map (fun p => s!"{showRat p.1} {showRat p.2}"))

/-- `curves mode <ctx> V ntab {wav chi}* nfits {fit}*` (fits best first)
    → `R ncurves {npts {wav val}*}*` | `E tooSmall` | `E shape` -/
def opCurves17 : Rd String := do
  let mode ← readMode17
  let P ← readCtx17
  let v ← rat
  let tab ← listOf readPair17
  let fits ← listOf (readFit17 tab v)
  match curves lg exp10 P mode fits with
  | .error .tooSmall => pure "E tooSmall"
  | .error .shape => pure "E shape"
  | .ok cs => pure (" ".intercalate ("R" :: toString cs.length :: cs.map showCurve17))

/-- `curve <ctx> sc av  nb {theta k nu ncell {cell}*}*`: the right-hand side of `C17_through` for every
    fitted band: stored predicted log flux (`predStored3` at the grid distance `10**sc` for a
    multi-aperture package, `predStored2` otherwise) and the curve value
    `10**pred · ν · c · (dOld/KPC)²`  →  `nb {pred value}*` -/
def opCurve17 : Rd String := do
  let P ← readCtx17
  let sc ← rat; let av ← rat
  let bands ← listOf (do
    let th ← rat; let k ← rat; let nu ← rat; let cell ← listOf rat
    pure (th, k, nu, cell))
  let rho := P.dOld / P.kpc
  let out := bands.map (fun (th, k, nu, cell) =>
    let pred := if P.aps.length ≤ 1 then predStored2 lg cell sc av k
                else predStored3 lg P.aps cell th (exp10 sc) av k
    s!"{showRat pred} {showRat (exp10 pred * (nu * P.c) * (rho * rho))}")
  pure (" ".intercalate (toString bands.length :: out))

def handleC17 (op : String) : Option (Rd String) :=
  match op with
  | "curves" => some opCurves17
  | "curve" => some opCurve17
  | _ => none

end Drv
