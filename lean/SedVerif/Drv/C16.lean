import SedVerif.Model.Mono
import SedVerif.Drv.Proto
/-! Driver ops for C16: window → index range, chunk loop, rows of the monochromatic files, nearest
tabulated wavelength.  Flux / error cells are opaque payload (integer ids chosen by the harness). -/
namespace Drv.C16
open SF SF.Mono

/-- a window end: a rational, or `inf` / `-inf` / `none` for the infinite default -/
def readEnd : Rd (Option Rat) := do
  let t ← tok
  if t = "inf" ∨ t = "-inf" ∨ t = "none" then pure none
  else match parseRat t with
    | some q => pure (some q)
    | none => throw s!"bad-end:{t}"

def showInts (l : List Int) : String :=
  " ".intercalate (toString l.length :: l.map toString)

def showRowsR (rows : List (List Rat)) : String :=
  " ".intercalate (toString rows.length :: rows.map showRats)

def errName : Mono.Err → String
  | .zeroStep => "zeroStep"
  | .indexError => "indexError"
  | .sortFailed => "sortFailed"
  | .emptyArgmin => "emptyArgmin"
  | .noSeds => "noSeds"
  | .fileExists => "fileExists"

/-- `window {ws} wmin wmax` → `jlo jhi` (ws as read with order='nu') -/
def opWindow : Rd String := do
  let ws ← listOf rat
  let wmin ← readEnd
  let wmax ← readEnd
  let (jlo, jhi) := windowIdx ws wmin wmax
  pure s!"{jlo} {jhi}"

/-- `chunksize nwav maxram nmodels nap jlo jhi` → `ramfloor first_min chunk` -/
def opChunkSize : Rd String := do
  let nWav ← nat
  let maxRam ← rat
  let nModels ← nat
  let nAp ← nat
  let jlo ← int
  let jhi ← int
  let rf := ramFloor maxRam nModels nAp
  pure s!"{rf} {min (nWav : Int) rf} {chunkSize nWav rf jlo jhi}"

/-- `chunks jlo jhi size` → `ok {emitted} npass {jmin jmax}*` or `raise <err>` -/
def opChunks : Rd String := do
  let jlo ← int
  let jhi ← int
  let size ← int
  match chunks jlo jhi size, emitted jlo jhi size with
  | .ok cs, .ok js =>
    let ps := " ".intercalate (toString cs.length :: cs.map (fun c => s!"{c.1} {c.2}"))
    pure s!"ok {showInts js} {ps}"
  | .error e, _ => pure s!"raise {errName e}"
  | _, .error e => pure s!"raise {errName e}"

def stripS (s : String) : String := s.trimAscii.toString
def u30 (s : String) : String := String.ofList (s.toList.take 30)

def readSedIn : Rd (SedIn String Rat) := do
  let name ← tok
  let flux ← listOf (listOf rat)
  let err ← listOf (listOf rat)
  pure { name := name, flux := flux, err := err }

/-- `monofiles {ws} {aps} nseds {name {flux rows} {err rows}}* {ref names} jlo jhi size`
    → `ok nfiles {index filtwav {names} {flux rows} {err rows}}*` or `raise <err>`;
    seds in directory-listing order, arrays as read with order='nu' -/
def opMonoFiles : Rd String := do
  let ws ← listOf rat
  let aps ← listOf rat
  let seds ← listOf readSedIn
  let ref ← listOf tok
  let jlo ← int
  let jhi ← int
  let size ← int
  match monoRows stripS u30 ws aps seds ref jlo jhi size with
  | .error e => pure s!"raise {errName e}"
  | .ok fs =>
    let one (f : MonoFile String Rat) : String :=
      let ns := " ".intercalate (toString f.names.length :: f.names)
      s!"{f.index} {showRat f.filtwav} {ns} {showRowsR f.flux} {showRowsR f.err}"
    pure (" ".intercalate ("ok" :: toString fs.length :: fs.map one))

/-- `monorun {ws} {aps} nseds {name {flux rows} {err rows}}* {ref names} wmin wmax maxram`
    → `ok nfiles {index filtwav {names} {flux rows} {err rows}}* ntable {name|-}*` or `raise <err>`:
    the whole call (window → chunk size → loop → files → table) -/
def opMonoRun : Rd String := do
  let ws ← listOf rat
  let aps ← listOf rat
  let seds ← listOf readSedIn
  let ref ← listOf tok
  let wmin ← readEnd
  let wmax ← readEnd
  let maxRam ← rat
  match monoRun stripS u30 ws aps seds ref wmin wmax maxRam with
  | .error e => pure s!"raise {errName e}"
  | .ok res =>
    let one (f : MonoFile String Rat) : String :=
      let ns := " ".intercalate (toString f.names.length :: f.names)
      s!"{f.index} {showRat f.filtwav} {ns} {showRowsR f.flux} {showRowsR f.err}"
    let tab := res.tableFilter.map (fun n => if n = "" then "-" else n)
    pure (" ".intercalate (["ok", toString res.files.length] ++ res.files.map one ++
      [toString tab.length] ++ tab))

/-- `monorunin overwrite {existing indices} <arguments of monorun>` → as `monorun`, or `raise fileExists` -/
def opMonoRunIn : Rd String := do
  let ow ← nat
  let existing ← listOf nat
  let ws ← listOf rat
  let aps ← listOf rat
  let seds ← listOf readSedIn
  let ref ← listOf tok
  let wmin ← readEnd
  let wmax ← readEnd
  let maxRam ← rat
  match monoRunIn (ow = 1) existing stripS u30 ws aps seds ref wmin wmax maxRam with
  | .error e => pure s!"raise {errName e}"
  | .ok res => pure s!"ok {showNats (res.files.map (·.index))}"

/-- `nearest {ws} w0` → `idx margin` (margin = gap between the smallest and the second smallest
    distance, relative to the smallest spacing scale; 0 means a tie) or `raise <err>` -/
def opNearest : Rd String := do
  let ws ← listOf rat
  let w0 ← rat
  match nearestIdx ws w0 with
  | .error e => pure s!"raise {errName e}"
  | .ok i =>
    let d := ws.map (fun w => absK (w - w0))
    let best := d.getD i 0
    let others := (d.zipIdx.filter (fun p => p.2 ≠ i)).map (·.1)
    let second := others.foldl (fun acc x => if x < acc then x else acc) (others.headD (best + 1))
    pure s!"ok {i} {showRat (second - best)}"

end Drv.C16

namespace Drv

def handleC16 (op : String) : Option (Rd String) :=
  match op with
  | "window" => some C16.opWindow
  | "chunksize" => some C16.opChunkSize
  | "chunks" => some C16.opChunks
  | "monofiles" => some C16.opMonoFiles
  | "monorun" => some C16.opMonoRun
  | "monorunin" => some C16.opMonoRunIn
  | "nearest" => some C16.opNearest
  | _ => none

end Drv
