import SedVerif.Drv.Proto
/-! Hex transport of byte strings and of text (UTF-8) through the line protocol. -/
namespace Drv.Hex

def hexVal (c : Char) : Option Nat :=
  if '0' ≤ c ∧ c ≤ '9' then some (c.toNat - 48)
  else if 'a' ≤ c ∧ c ≤ 'f' then some (c.toNat - 87)
  else if 'A' ≤ c ∧ c ≤ 'F' then some (c.toNat - 55)
  else none

def hexBytes : List Char → Option (List UInt8)
  | [] => some []
  | [_] => none
  | a :: b :: r => do
    let x ← hexVal a
    let y ← hexVal b
    let t ← hexBytes r
    pure (UInt8.ofNat (16 * x + y) :: t)

/-- a hex token (`-` = empty) -/
def bytesTok : Rd (List UInt8) := do
  let t ← tok
  if t = "-" then pure [] else
  match hexBytes t.toList with
  | some b => pure b
  | none => throw "bad-hex"

/-- a hex token holding UTF-8 text -/
def textTok : Rd (List Char) := do
  let b ← bytesTok
  match String.fromUTF8? (ByteArray.mk b.toArray) with
  | some s => pure s.toList
  | none => throw "bad-utf8"

def hexDigit (n : Nat) : Char := if n < 10 then Char.ofNat (48 + n) else Char.ofNat (87 + n)

/-- text → hex of its UTF-8 bytes (`-` = empty) -/
def showText (cs : List Char) : String :=
  if cs = [] then "-" else
  String.ofList ((String.ofList cs).toUTF8.toList.flatMap
    (fun b => [hexDigit (b.toNat / 16), hexDigit (b.toNat % 16)]))

end Drv.Hex
