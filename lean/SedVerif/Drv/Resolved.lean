import SedVerif.Model.Resolved
import SedVerif.Model.Extinction
import SedVerif.Drv.Proto
import SedVerif.Drv.Approx
import SedVerif.Drv.C01
import SedVerif.Drv.C02
import SedVerif.Drv.C04
/-! Driver ops for the resolved-source rule (`remove_resolved=True`): `resolved.radius`, `resolved.fit`. -/
namespace Drv
open SF
namespace ResOps
open DistOps

def showBools (l : List Bool) : String :=
  " ".intercalate (toString l.length :: l.map (fun b => if b then "1" else "0"))

/-- magnitude entering `sigma[i]`: `(|F_i| + |F_{i-1}|) / |a_i² − a_{i-1}²|` (`|F_0| / a_0²` for `i = 0`); its product
    with the unit round-off bounds the rounding error of the float `sigma[i]`.  `0` where the divisor is zero. -/
def sigmaScales (aps flux : List Rat) : List Rat :=
  match aps, flux with
  | a0 :: as, f0 :: fs =>
    let rec go : Rat → Rat → List Rat → List Rat → List Rat
      | pa, pf, a :: as, f :: fs =>
        let den := absR (a * a - pa * pa)
        (if den = 0 then 0 else (absR f + absR pf) / den) :: go a f as fs
      | _, _, _, _ => []
    (if a0 = 0 then 0 else absR f0 / (a0 * a0)) :: go a0 f0 as fs
  | _, _ => []

structure RadInfo where
  radius : EF Rat
  sigma : List (EF Rat)
  thr : EF Rat
  /-- smallest `|sigma_i − thr| / (S_i + S_max)` over the finite `sigma_i` -/
  sigMargin : Rat
  /-- smallest relative distance of a grid aperture from the radius (apertures equal to an exactly assigned radius
      — the last-aperture override, or `a_ia + 0` next to a `−inf` — are compared exactly and not counted) -/
  radMargin : Rat
  /-- how the radius arose: 0 = none (`radius = 0`), 1 = inside the loop, 2 = last-aperture override, 3 = not finite -/
  kind : Nat

/-- index and neighbours at which the backwards loop assigns: the largest `ia ≤ n−2` with `sigma[ia] > thr`
    (only meaningful when the radius comes from the loop) -/
def loopIndex (thr : EF Rat) (sig : List (EF Rat)) : Option Nat :=
  ((List.range (sig.length - 1)).reverse).find? (fun i => EF.lt thr (sig.getD i EF.nan))

def radInfo (fraction : Rat) (aps flux : List Rat) : Option RadInfo :=
  match findRadiusSigma fraction aps flux, sigmaProfile aps flux with
  | some r, s0 :: ss =>
    let sig := s0 :: ss
    let thr := EF.mulK (maxSigma s0 ss) fraction
    let sc := sigmaScales aps flux
    let smax := sc.foldl max 0
    let sigM := (sig.zip sc).foldl (fun acc (p : EF Rat × Rat) =>
      match p.1, thr with
      | EF.fin s, EF.fin t => if p.2 + smax = 0 then acc else min acc (absR (s - t) / (p.2 + smax))
      | _, _ => acc) BIG
    let over := EF.lt thr (lastD ss s0)
    let (kind, radM) : Nat × Rat :=
      match r with
      | EF.fin x =>
        if x = 0 then (0, BIG)
        else if over then
          (2, aps.foldl (fun acc a => if a = x then acc else min acc (absR (a - x) / x)) BIG)
        else
          match loopIndex thr sig with
          | none => (1, 0)
          | some ia =>
            match sig.getD ia EF.nan, sig.getD (ia + 1) EF.nan, thr with
            | EF.fin s, EF.fin s', EF.fin _ =>
              let a := aps.getD ia 0
              let da := aps.getD (ia + 1) 0 - a
              let amp := if s = s' then BIG else (sc.getD ia 0 + sc.getD (ia + 1) 0 + smax) * 2 / absR (s - s')
              let rscale := absR x + da * amp
              (1, aps.foldl (fun acc a => min acc (absR (a - x) / rscale)) BIG)
            | _, _, _ =>
              -- next to a `−inf`: the value is `a_ia + 0` exactly
              (1, aps.foldl (fun acc a => if a = x then acc else min acc (absR (a - x) / x)) BIG)
      | _ => (3, 0)
    some { radius := r, sigma := sig, thr := thr, sigMargin := sigM, radMargin := radM, kind := kind }
  | _, _ => none

/-- `resolved.radius fraction  n {aperture}*  n {flux}*`
    → `N` (no apertures / shape mismatch) or
      `V radius kind sigMargin radMargin thr  n {sigma}*  n {mask}*` -/
def opRadius : Rd String := do
  let f ← rat
  let aps ← listOf rat
  let flux ← listOf rat
  match radInfo f aps flux with
  | none => pure "N"
  | some i =>
    pure s!"V {C04.showEF i.radius} {i.kind} {showRat i.sigMargin} {showRat i.radMargin} {C04.showEF i.thr} {C04.showEFs i.sigma} {showBools (maskOf aps i.radius)}"

/-- smallest chi² over the kept distances other than `bi`, minus `bc` -/
def keptGap (chis : List (EF Rat)) (bi : Nat) (bc : EF Rat) : Rat :=
  match bc with
  | EF.fin c =>
    (chis.zipIdx.foldl (fun acc (p : EF Rat × Nat) =>
      match p.1 with
      | EF.fin x => if p.2 = bi then acc else min acc (x - c)
      | _ => acc) BIG)
  | _ => BIG

/-- `resolved.fit lo hi  V ntab {wav chi}*  nb {wavelength}*  nb {theta}*  nb {nap {ap}* nm {nap flux*}*}*
          dmin dmax step  nsrc {nb {flag flux err}*}*`   (the input of `fit3`, fitter built with remove_resolved=True)
    → `E <err>`  or
      `V n_distances ceilMargin belowMargin topMargin  n {logd}*
         nm { nb { radius kind sigMargin radMargin  nd {mask}* }* }*
         nsrc { nm { av sc chi2 bi keptGap  av0 sc0 chi0 bi0 gap0  nRemoved  nd {reset}*
                     clampMargin limitMargin avScale chiScale fluxCond dChi dAv }* }*`
    `(av0, sc0, chi0, bi0)` is the plain C02 result (`fit3`, no mask) of the same model. -/
def opFit : Rd String := do
  let lo ← rat; let hi ← rat
  let v ← rat
  let tab ← listOf readPair
  let wavs ← listOf rat
  let thetas ← listOf rat
  let bands ← listOf readBand
  let dmin ← rat; let dmax ← rat; let step ← rat
  let srcs ← listOf (listOf readObs)
  let ks := wavs.map (getAv tab v)
  let dists := distancesKpc lg exp10 ceilNat dmin dmax step
  let nm := match bands with
    | [] => 0
    | b :: _ => b.2.length
  let ceilM : Rat := if dmin = dmax then 1 else intMargin (1 + (lg dmax - lg dmin) / step)
  let d0 := dists.headD dmin
  let belowM : Rat := (List.zipWith (fun θ (b : List Rat × List (List Rat)) =>
      let a0 := b.1.headD 1
      (θ * (thousandK * d0) - a0) / a0) thetas bands).foldl min 1
  -- closeness of an unclamped `θ·d` to the largest tabulated aperture
  let topM : Rat := (List.zipWith (fun θ (b : List Rat × List (List Rat)) =>
      let al := lastD b.1 1
      dists.foldl (fun acc d => min acc (absR (θ * (thousandK * d) - al) / al)) BIG) thetas bands).foldl min BIG
  let modelTabs : List (List (BandTab Rat)) := (List.range nm).map (fun i =>
    List.zipWith (fun θ (b : List Rat × List (List Rat)) =>
      ({ theta := θ, aps := b.1, row := b.2.getD i [] } : BandTab Rat)) thetas bands)
  let cube : Except ApErr (List (List (List Rat))) :=
    seqE (modelTabs.map (fun tabs => modelLogFluxes lg tabs dists))
  let conds : List Rat := modelTabs.map (fun tabs => dists.foldl (fun acc d =>
    match modelFluxes tabs d with
    | .ok fl => (List.zipWith (fun (t : BandTab Rat) f => (t.row.foldl max 0) / (f * (d * d))) tabs fl).foldl max acc
    | .error _ => acc) 1)
  -- masks: per model, per band
  let masks : Except ApErr (List (List (List Bool))) := seqE (modelTabs.map (fun tabs => extendedMask tabs dists))
  match cube, masks with
  | .error e, _ => pure s!"E {showErr e}"
  | _, .error e => pure s!"E {showErr e}"
  | .ok cube, .ok masks =>
    let logd := dists.map lg
    let radS := modelTabs.map (fun tabs =>
      let per := tabs.map (fun t =>
        match bandFluxes t dists with
        | .ok fl =>
          match radInfo halfK (apGrid t dists) fl with
          | some i => s!"{C04.showEF i.radius} {i.kind} {showRat i.sigMargin} {showRat i.radMargin} {showBools (maskOf (apGrid t dists) i.radius)}"
          | none => "nan 3 0 0 0"
        | .error _ => "nan 3 0 0 0")
      " ".intercalate (toString per.length :: per))
    let outS := srcs.map (fun obs =>
      let lobs := obs.map (logTransform lg ln10)
      let outM := ((cube.zip conds).zip masks).map (fun ((lfs, fcond), ext) =>
        let pss := lfs.map (fun lf => mkPts lobs lf ks)
        let reset := resetResolved (lobs.map (·.flag)) ext dists.length
        let (a, s, c, bi) := fit3Ext BIG ln1m lo hi logd pss reset
        let (a0, s0, c0, bi0) := fit3 BIG ln1m lo hi logd pss
        let per := fit3PerDist BIG ln1m lo hi pss
        let gapK := keptGap (maskChi per reset) bi c
        let gap0 := argminGap (per.map (·.2)) bi0 c0
        let nrem := (reset.filter id).length
        let ps := pss.getD bi []
        let A := optAv ps
        let clampM := min (absR (A - lo)) (absR (A - hi))
        let limM := limitMargin lo hi pss
        let avScale := sumBy (fun p => absR (p.r * p.k * p.w)) ps / sumBy (fun p => p.k * p.k * p.w) ps
        let chiScale := sumBy (fun p => (absR p.r + absR (a * p.k)) * (absR p.r + absR (a * p.k)) * p.w) ps
        let dchi := sumBy (fun p => 2 * (absR p.r + absR (a * p.k)) * p.w) ps
        let dav := sumBy (fun p => absR (p.k * p.w)) ps / sumBy (fun p => p.k * p.k * p.w) ps
        s!"{showRat a} {showRat s} {C04.showEF c} {bi} {showRat gapK} {showRat a0} {showRat s0} {showRat c0} {bi0} {showRat gap0} {nrem} {showBools reset} {showRat clampM} {showRat limM} {showRat avScale} {showRat chiScale} {showRat fcond} {showRat dchi} {showRat dav}")
      " ".intercalate (toString outM.length :: outM))
    pure (" ".intercalate (["V", toString dists.length, showRat ceilM, showRat belowM, showRat topM, showRats logd,
      toString radS.length] ++ radS ++ [toString outS.length] ++ outS))

end ResOps
open ResOps in
def handleResolved (op : String) : Option (Rd String) :=
  match op with
  | "resolved.radius" => some opRadius
  | "resolved.fit" => some opFit
  | _ => none

end Drv
