import SedVerif.Drv.C01
import SedVerif.Drv.C02
import SedVerif.Drv.C04
import SedVerif.Drv.C06
import SedVerif.Drv.C07
import SedVerif.Drv.C10
import SedVerif.Drv.C12
import SedVerif.Drv.C15
import SedVerif.Drv.C16
import SedVerif.Drv.C17
import SedVerif.Drv.C19
import SedVerif.Drv.C20
import SedVerif.Drv.E2E
import SedVerif.Drv.E2E3
import SedVerif.Drv.Resolved
/-!
Line-protocol driver: `lake env lean --run Driver.lean`.  Imports only model files (no Mathlib).
-/
open Drv

def handlers : List (String → Option (Rd String)) := [handleC01, handleC02, handleC04, handleC06, handleC07, handleC10, handleC12, handleC15, handleC16, handleC17, handleC19, handleC20, handleE2E, handleE2E3, handleResolved]

def dispatch (op : String) : Option (Rd String) :=
  handlers.findSome? (fun h => h op)

def answer (line : String) : String :=
  match (line.trimAscii.toString.splitOn " ").filter (· ≠ "") with
  | [] => "err empty"
  | op :: args =>
    match dispatch op with
    | none => s!"err unknown-op:{op}"
    | some p =>
      match runRd p args with
      | .ok s => s!"ok {s}"
      | .error e => s!"err {e}"

partial def loop (h : IO.FS.Stream) (out : IO.FS.Stream) : IO Unit := do
  let line ← h.getLine
  if line.isEmpty then return ()
  out.putStrLn (answer line)
  out.flush
  loop h out

def main : IO Unit := do
  loop (← IO.getStdin) (← IO.getStdout)
