"""C06 — broadband convolution is the binned integral of F_nu * R_nu.

Correspondence:
  observable 0: the Filter object (in memory or Filter.read of a text file listed by increasing or decreasing
                wavelength, asymmetric curves) holds exactly the (frequency, response) pairs that were written.
  observable 1a: utils.integrate.integrate_subset(x, y, a, b) on the curve in stored order, limits equal / swapped / on
                knots / on the table ends / generic (inside the table), against driver op `c06.integ`.
  observable 1: Filter.rebin(nu).response for filters built in memory (from frequencies or wavelengths,
                normalised or not) or read through Filter.read from a generated two-column text file,
                against driver op `rebin` (normalize + rebin of the model, exact rationals, on the float
                frequencies the Filter object actually holds).
  observable 2: convolved/<filter>.fits written by convolve_model_dir for a small per-file package, read
                back with ConvolvedFluxes.read, against driver op `convolve` (flux and error^2).
Falsifier (`search`): per-bin exact integral, conservation of the filter integral over the overlap and the
flat-spectrum identity, evaluated on the real `rebin` output with exact sums (Fractions), independent of
the Lean model.
"""
import bisect
import copy
import gzip
import math
import os
import pickle
import shutil
import tempfile

import numpy as np

from . import common
from .common import CaseResult, rat, rats, case_rng, nice, Fraction
from . import packages as pk

PID = 'C06'
RULE = ('cases = (filter curve, SED frequency grid[, small per-file SED package]) drawn from the quantifier of C06: '
        'filters 2..60 samples, irregular spacing, zero / non-zero edge values, either storage order, in memory or '
        'through Filter.read; grids 2..80 frequencies, either order, coarser/finer, partially/fully overlapping, bin '
        'edges directed onto filter end points and nodes; per-file packages with one grid for all models or with per-model '
        'grids (same length and end points, different interior points; other lengths) in file-listing order; a history on the '
        'one Filter object after its first rebin (normalize / assign response / assign nu and response / another grid, a '
        'rebin after each step, the package stage last). A case is non-trivial when at least one bin has a non-zero '
        'response; distinct = distinct canonical hash of the generated inputs')
REQUIRED_BRANCHES = ['filter_increasing_nu', 'filter_decreasing_nu', 'sed_increasing', 'sed_decreasing',
                     'partial_overlap', 'full_overlap', 'edge_on_node', 'from_file', 'nonzero_edges',
                     'package', 'package_same_ends_other_interior', 'package_files', 'package_cube_memmap_on',
                     'package_cube_memmap_off', 'package_unit_mJy', 'package_unit_Jy', 'package_unit_cgs', 'package_unit_MJy', 'package_unit_kJy',
                     'package_unit_uJy', 'package_unit_nJy', 'package_unit_W/m2/Hz', 'package_error_unit_MJy',
                     'grid_unit_Hz', 'grid_unit_GHz', 'grid_unit_THz', 'filter_nu_unit_Hz', 'filter_nu_unit_GHz',
                     'filter_nu_unit_THz', 'file_wav_increasing', 'file_wav_decreasing',
                     'file_asymmetric', 'response_dtype_f8', 'response_dtype_f4', 'response_dtype_i8', 'response_dtype_i4', 'low_frequency_filter',
                     'integer_response_low_frequency', 'package_cube_error_unit_differs', 'package_files_error_unit_differs', 'leak_tail_filter', 'bin_far_below_sum', 'package_cube_many_models', 'package_overwrite_stale', 'filter_construct_kw', 'filter_construct_positional',
                     'filter_construct_attrs', 'filter_via_copy', 'filter_via_deepcopy', 'filter_via_pickle', 'shared_arrays', 'shared_arrays_f8', 'shared_arrays_readonly', 'shared_response_readonly', 'integ_generic', 'integ_swapped', 'integ_equal_inside', 'integ_equal_knot', 'integ_equal_first_end',
                     'integ_equal_last_end', 'integ_table_ends', 'integ_table_ends_swapped', 'integ_both_knots',
                     'integ_end_to_inside', 'integ_inside_to_end', 'integ_knot_to_inside', 'integ_decreasing_storage',
                     'integ_increasing_storage', 'package_seds_gz', 'package_seds_subdir', 'package_seds_subdir_1', 'package_seds_subdir_2',
                     'package_seds_subdir_3', 'sed_from_wav_and_nu', 'sed_from_nu_only', 'sed_from_wav_only', 'cube_from_nu_only',
                     'cube_from_wav_only',
                     'notch_filter', 'rebinned_interior_zero', 'package_cube_interior_zero', 'package_files_interior_zero',
                     'hist_normalize', 'hist_assign_response', 'hist_assign_both', 'hist_grid']
ASSUMPTIONS = ['every R_i is also compared on its own scale: |impl - model| <= 1e-9 |R_i| + 1e-13 w_i ymax_i + 1e-15 nu_i ymax_i + 1e-20 sum|R| (w_i the '
               'clipped bin width, ymax_i the largest response among the nodes in / bracketing the bin), so that bins in a leak tail '
               '13-15 decades below the main lobe are checked to their own magnitude',
               'IEEE rounding is not modelled: responses compared within 1e-9 of sum|R_i|, fluxes within 1e-9 of '
               'sum|F_i R_i|, variances within 4e-9 relative',
               'filter frequencies strictly monotonic, SED frequencies strictly monotonic, all values finite '
               '(integrate() replacing NaN by 0 in place is outside the quantifier)',
               'in-memory filters may hold their response samples as int64 / int32 / float32 / float64; the model gets the exact '
               'stored values; for float32 samples the unchanged code interpolates and sums in single precision (observed up to '
               '3e-8 of sum|R|), so those curves and their convolved fluxes are compared within 1e-6',
               'Filter.normalize needs a writable response array: integrate() replaces NaNs in place, which numpy refuses on a '
               'read-only array even without NaNs (ValueError on the unchanged tree); read-only responses are only re-binned',
               'a filter whose responses are all zero re-bins to zeros (checked, not normalised); Filter.normalize of such a '
               'filter is 0/0 (NaN responses on the unchanged tree) and is outside the quantifier',
               'cube packages hold spectral flux densities (Jy, mJy): _convolve_model_dir_2 scales with val.unit.to(mJy), which '
               'raises for erg-based cubes (not supported by the code, left out); '
               'per-file packages are stored in mJy, Jy or erg/cm^2/s (read with unit_flux=mJy); stored values are expressed '
               'in mJy exactly (rationals) on the harness side',
               'SED.write/SED.read round trip of the package (C12) is taken as is: the model receives the fluxes '
               'the harness generated, ordered by the frequencies it computed with astropy']
N = {'quick': 1000, 'thorough': 60000}
C_UM_HZ = 2.99792458e14          # only used to place grids relative to a filter given in micron
SIZES_F = [2, 2, 3, 3, 4, 5, 6, 8, 10, 12, 16, 20, 30, 45, 60]
GRID_KINDS = ['cover_coarse', 'cover_fine', 'partial_low', 'partial_high', 'inside', 'any']
EDGE_KINDS = ['first_on_end', 'last_on_end', 'both_on_ends', 'mid_on_node', 'mid_on_end']
FREQ_FACTOR = {'Hz': 1., 'GHz': 1e9, 'THz': 1e12}
R_DTYPES = {'f8': np.float64, 'f4': np.float32, 'i8': np.int64, 'i4': np.int32}
# single-precision samples: the code's own interpolation / trapezium arithmetic is then carried out in float32
# (eps = 2**-23), so those curves are compared within 1e-6 instead of 1e-9
TOL_R = {'f8': 1e-9, 'f4': 1e-6, 'i8': 1e-9, 'i4': 1e-9}
FLUX_UNITS = ['mJy', 'Jy', 'cgs']      # units the SED files of a package may be stored in
# further spectral-flux-density units, among them strings that differ from another unit only by case (MJy / mJy):
# value of one unit in mJy, exactly
FNU_IN_MJY = {'mJy': Fraction(1), 'Jy': Fraction(10 ** 3), 'MJy': Fraction(10 ** 9), 'kJy': Fraction(10 ** 6),
              'uJy': Fraction(1, 10 ** 3), 'nJy': Fraction(1, 10 ** 6), 'W/m2/Hz': Fraction(10 ** 29)}
FNU_UNITS = list(FNU_IN_MJY)


# ----------------------------------------------------------------------------- generation

def _strict(xs):
    out = []
    for x in xs:
        if not out or x > out[-1]:
            out.append(x)
    return out


def gen_filter(rng, mode, n=None, zero_edges=None, order=None, normalize=None, nu_unit=None, allow_zero=False,
               notch=None, r_dtype=None, lowfreq=False, leak=None):
    n = n or rng.choice(SIZES_F)
    if notch is None:
        notch = n >= 8 and rng.random() < 0.2
    if notch and n < 8:
        n = rng.choice([8, 12, 20, 30, 45])
    if notch == 'wide':
        n = rng.choice([12, 20, 30])
    steps = [rng.choice([0.05, 0.2, 1., 1., 1., 3.]) * rng.uniform(0.3, 1.) for _ in range(n - 1)]
    tot = sum(steps)
    cum = [0.]
    for s in steps:
        cum.append(cum[-1] + s / tot)
    if mode == 'nu':
        base = nice(rng, 1e12, 1e15, 3)
        width = base * nice(rng, 0.02, 1.5, 2)
        q = 1e7 if width / n > 1e9 else 1e5
        if lowfreq:
            # a low-frequency curve (a few Hz ... kHz): the bin integrals are of order 1, not 1e10
            base = nice(rng, 1., 1e3, 3)
            width = base * nice(rng, 0.5, 3., 2)
            q = 10. ** (math.floor(math.log10(width / n)) - 2)
        xs = _strict([round((base + width * c) / q) * q for c in cum])
        if lowfreq:
            xs = _strict([float('%.6g' % x) for x in xs])
    else:
        base = nice(rng, 0.3, 300., 3)
        width = base * nice(rng, 0.02, 1.5, 2)
        xs = _strict([float('%.6g' % (base + width * c)) for c in cum])
    while len(xs) < 2:
        xs.append(xs[-1] * 1.5)
    n = len(xs)
    # files get curves that are clearly not symmetric under reversal of the sample order
    shape = rng.choice(['ramp', 'skew', 'ramp', 'random'] if mode == 'file' else ['bell', 'random', 'box', 'ramp', 'skew'])
    up = rng.random() < 0.5
    rs = []
    for i in range(n):
        t = (i + 0.5) / n
        if shape == 'ramp':
            v = (0.1 + 0.9 * (t if up else 1 - t)) * rng.uniform(0.9, 1.)
        elif shape == 'skew':
            tt = t if up else 1 - t
            v = (tt ** 3) * math.exp(-4 * tt) * 30 * rng.uniform(0.9, 1.) + 0.02
        elif shape == 'bell':
            v = math.exp(-8 * (t - 0.5) ** 2) * rng.uniform(0.7, 1.)
        elif shape == 'box':
            v = rng.choice([1., 1., 0.9, 0.95])
        else:
            v = rng.random()
        rs.append(float('%.3g' % max(v, 1e-3)))
    if n >= 4 and rng.random() < 0.15:
        rs[rng.randrange(1, n - 1)] = 0.
    if zero_edges is None:
        zero_edges = rng.random() < 0.5
    if zero_edges and n >= 3:
        rs[0] = 0.
        rs[-1] = 0.
    elif zero_edges:
        rs[rng.randrange(2)] = 0.
    if notch and n >= 6:
        # double-peaked / notch curves: 1-3 stretches of exactly zero response in the middle (several nodes wide, so
        # that whole SED bins fall inside them), sometimes a zero stretch at an edge as well
        for _ in range(1 if notch == 'wide' else rng.randint(1, 3)):
            ln = rng.randint(max(2, n // 3), max(2, n // 2)) if notch == 'wide' else rng.randint(2, max(2, n // 3))
            st = rng.randint(2, max(2, n - 2 - ln))
            for k in range(st, min(st + ln, n - 2)):
                rs[k] = 0.
        if rng.random() < 0.3:
            for k in range(rng.randint(2, 3)):
                rs[k if rng.random() < 0.5 else n - 1 - k] = 0.
        rs[1] = rs[1] or 0.4
        rs[n - 2] = rs[n - 2] or 0.6
    if leak is None:
        leak = n >= 8 and rng.random() < 0.12
    if leak and n >= 6:
        # a main lobe plus a leak tail 13-15 decades below the peak over several nodes at one end: the SED bins that lie
        # inside the tail have R_i far below sum R_i
        k = rng.randint(3, max(3, n // 2))
        lvl = max(rs) * 10. ** rng.uniform(-15, -13)
        tail = range(n - k, n) if rng.random() < 0.5 else range(0, k)
        for j in tail:
            rs[j] = float('%.3g' % (lvl * rng.uniform(0.5, 2.)))
    if not any(r > 0 for r in rs):
        rs[len(rs) // 2] = 0.5
    if mode == 'file' and n >= 4 and rs == rs[::-1]:
        rs[1] = float('%.3g' % (rs[1] * 0.5 + 0.05))
    scale = rng.choice([1., 1., 1e-3, 37., 1e4])
    rs = [float('%.3g' % (r * scale)) for r in rs]
    order = order or rng.choice(['inc', 'dec'])
    if order == 'dec':
        xs = xs[::-1]
        rs = rs[::-1]
    if normalize is None:
        normalize = rng.random() < 0.5
    central = float('%.4g' % (C_UM_HZ / xs[len(xs) // 2] if mode == 'nu' else xs[len(xs) // 2]))
    flt = dict(mode=mode, x=xs, r=rs, normalize=bool(normalize), central=central, leak=bool(leak and n >= 6))
    if mode == 'nu':
        # numeric type of the response samples handed to Filter(...): the model gets the exact stored values
        flt['r_dtype'] = r_dtype or rng.choice(['f8', 'f8', 'f8', 'f4', 'i8', 'i4'])
        if flt['r_dtype'] == 'f4':
            flt['r'] = [float(np.float32(r)) for r in rs]
        elif flt['r_dtype'] in ('i8', 'i4'):
            top = max(rs)
            ints = [float(int(round(9 * r / top))) for r in rs]
            if not any(v > 0 for v in ints):
                ints[rs.index(top)] = 1.
            flt['r'] = ints
        flt['lowfreq'] = bool(lowfreq)
        flt['construct'] = rng.choice(['kw', 'kw', 'positional', 'attrs'])
    flt['dup'] = rng.choice([None, None, None, 'copy', 'deepcopy', 'pickle'])
    if mode == 'nu':
        # the frequencies may be handed over in another frequency unit (the code converts with .to(u.Hz))
        flt['nu_unit'] = nu_unit or rng.choice(['Hz', 'Hz', 'GHz', 'THz'])
        if flt['nu_unit'] != 'Hz':
            flt['x'] = [float(repr(x / FREQ_FACTOR[flt['nu_unit']])) for x in xs]
        if allow_zero and not flt['normalize'] and rng.random() < 0.04:
            flt['r'] = [0.] * len(xs)          # an all-zero curve re-bins to zeros (normalising it is 0/0: excluded)
    return flt


def filter_nu_approx(flt):
    """approximate frequencies of the filter nodes (exact in 'nu' mode), increasing"""
    if flt['mode'] == 'nu':
        fac = FREQ_FACTOR[flt.get('nu_unit', 'Hz')]
        return sorted(x * fac for x in flt['x'])
    return sorted(C_UM_HZ / x for x in flt['x'])


def gen_grid(rng, kind, nodes, exact, m=None, order=None):
    """SED frequency grid (Hz) placed relative to the filter range; `exact`: the node values are the exact
    floats of the filter (integers below 2**53), so edges can be put exactly on them"""
    flo, fhi = nodes[0], nodes[-1]
    w = fhi - flo
    q = 1e5 if exact else None

    def rnd(x):
        return round(x / q) * q if q else float('%.7g' % x)

    pts = None
    if kind in EDGE_KINDS and exact:
        d = max(q, rnd(w * rng.choice([0.01, 0.03, 0.1])))
        below = [rnd(flo - w * rng.uniform(0.2, 1.5))]
        above = [rnd(fhi + w * rng.uniform(0.2, 1.5))]
        inner = [rnd(flo + w * rng.uniform(0.05, 0.95)) for _ in range(rng.randint(0, 6))]
        if kind == 'first_on_end':
            pts = [flo] + inner + above
        elif kind == 'last_on_end':
            pts = below + inner + [fhi]
        elif kind == 'both_on_ends':
            pts = [flo] + inner + [fhi]
        elif kind == 'mid_on_end':
            pts = below + [flo - d, flo + d] + inner + [fhi - d, fhi + d] + above
        else:
            pts = below + above
            interior = nodes[1:-1] or nodes
            for x in rng.sample(interior, min(len(interior), rng.randint(1, 4))):
                gaps = [abs(x - y) for y in nodes if y != x]
                dd = max(q, rnd(min(gaps) * rng.choice([0.1, 0.25, 0.4])))
                pts += [x - dd, x + dd]
        pts = sorted(set(p for p in pts if p > 0))
        # keep the pairs adjacent: drop anything that fell strictly between a pair
    else:
        if kind == 'any' or kind in EDGE_KINDS:
            kind = rng.choice(GRID_KINDS[:-1])
        if kind == 'cover_coarse':
            m = m or rng.randint(2, 6)
            lo, hi = flo - w * rng.uniform(0.05, 2.), fhi + w * rng.uniform(0.05, 2.)
        elif kind == 'cover_fine':
            m = m or rng.randint(20, 80)
            lo, hi = flo - w * rng.uniform(0.05, 2.), fhi + w * rng.uniform(0.05, 2.)
        elif kind == 'cover_tight':
            m = m or rng.randint(40, 80)
            lo, hi = flo - w * rng.uniform(0.05, 0.3), fhi + w * rng.uniform(0.05, 0.3)
        elif kind == 'partial_low':
            m = m or rng.randint(2, 80)
            lo, hi = flo - w * rng.uniform(0.1, 1.), flo + w * rng.uniform(0.1, 0.9)
        elif kind == 'partial_high':
            m = m or rng.randint(2, 80)
            lo, hi = flo + w * rng.uniform(0.1, 0.9), fhi + w * rng.uniform(0.1, 1.)
        else:
            m = m or rng.randint(2, 80)
            lo, hi = flo + w * rng.uniform(0.02, 0.4), fhi - w * rng.uniform(0.02, 0.4)
        lo = max(lo, flo * 0.05)
        steps = [rng.choice([0.1, 1., 1., 4.]) * rng.uniform(0.3, 1.) for _ in range(m - 1)]
        tot = sum(steps)
        c = 0.
        pts = [rnd(lo)]
        for s in steps:
            c += s / tot
            pts.append(rnd(lo + (hi - lo) * c))
        pts = _strict(pts)
    while len(pts) < 2:
        pts.append(rnd(pts[-1] * 1.3 + 1e6))
    order = order or rng.choice(['inc', 'dec'])
    if order == 'dec':
        pts = pts[::-1]
    return [float(p) for p in pts[:80]]


def respace(rng, wav, how):
    """another grid with the same length and the same end points as `wav` (increasing) but different
    interior points: linear / logarithmic / irregular spacing"""
    n = len(wav)
    a, b = wav[0], wav[-1]
    if n < 3:
        return list(wav)
    if how == 'lin':
        pts = [a + (b - a) * k / (n - 1) for k in range(n)]
    elif how == 'log':
        pts = [a * (b / a) ** (k / (n - 1.)) for k in range(n)]
    else:
        cuts = sorted(rng.uniform(0.02, 0.98) for _ in range(n - 2))
        pts = [a] + [a + (b - a) * c for c in cuts] + [b]
    out = [a] + [float('%.7g' % x) for x in pts[1:-1]] + [b]
    return out if all(out[k] < out[k + 1] for k in range(n - 1)) else list(wav)


def unit_level(unit):
    """about 1 mJy expressed in `unit`"""
    return 1e-12 if unit == 'cgs' else float(1 / FNU_IN_MJY[unit])


def gen_many_package(rng, nodes):
    """a cube with more than 1000 models (not a multiple of 1000) and few wavelengths, stored compactly: model m is the
    base SED times (0.5 + ((37 m) mod 101) / 100)"""
    pkg = gen_package(rng, nodes, hetero=False, fmt='cube')
    nus = gen_grid(rng, 'cover_coarse', nodes, False, m=rng.randint(3, 6), order='inc')
    wav = _strict(sorted(float('%.7g' % (C_UM_HZ / v)) for v in nus))
    nap = len(pkg['flux'][0])
    level = pkg['flux'][0][0][0]
    base_f = [[float('%.4g' % (level * rng.uniform(0.3, 3.))) for _ in wav] for _ in range(nap)]
    base_e = [[float('%.3g' % (f * rng.uniform(0.01, 0.5) * (1. if pkg['unit_err'] == pkg['unit'] else
                                                              unit_level(pkg['unit_err']) / unit_level(pkg['unit']))))
               for f in row] for row in base_f]
    n = rng.choice([1001, 1030, 1999, 2001, 2500])
    return dict(pkg, wavs=[wav], flux=[base_f], err=[base_e], names=[], table=[], gz=[], many=dict(n=n))


def expand_package(pkg):
    """the full package dict of a compactly stored many-model cube"""
    if not pkg.get('many'):
        return pkg
    n = pkg['many']['n']
    mult = [0.5 + ((37 * m) % 101) / 100. for m in range(n)]
    names = ['m%04d' % m for m in range(n)]
    return dict(pkg, names=names, table=list(names), wavs=[pkg['wavs'][0]] * n, gz=[False] * n,
                flux=[[[v * k for v in row] for row in pkg['flux'][0]] for k in mult],
                err=[[[v * k for v in row] for row in pkg['err'][0]] for k in mult])


def gen_package(rng, nodes, hetero=None, fmt=None, fine=False, unit=None):
    """small per-file package whose wavelength grid(s) overlap the filter.  `hetero`: consecutive models
    (in file-listing order) get grids with the same length and end points but different interior points,
    and sometimes a grid of another length, so that the filters have to be re-binned between models"""
    kind = 'cover_tight' if fine else rng.choice(GRID_KINDS[:-1])
    if fmt is None:
        fmt = 'cube' if rng.random() < 0.25 else 'files'
    if fmt == 'cube':
        hetero = False                      # a cube has one spectral axis for all models
    if hetero is None:
        hetero = rng.random() < 0.4
    m = rng.randint(4, 25) if hetero else (rng.randint(2, 40) if kind != 'cover_coarse' else None)
    if fine:
        m = rng.randint(40, 80)             # narrow bins: some lie entirely inside a zero stretch of the filter
    nus = gen_grid(rng, kind, nodes, False, m=m, order='inc')
    wav = _strict(sorted(float('%.7g' % (C_UM_HZ / v)) for v in nus))
    if len(wav) < 2:
        wav = [wav[0], float('%.7g' % (wav[0] * 1.5))]
    nm = rng.randint(2, 4) if hetero else rng.randint(1, 3)
    nap = rng.randint(1, 3)
    wavs = []
    hows = ['lin', 'log', 'irr', 'irr']
    rng.shuffle(hows)
    for k in range(nm):
        w = list(wav)
        if hetero and k > 0:
            w = respace(rng, wav, hows[k % len(hows)])
            if rng.random() < 0.2 and len(w) > 3:
                del w[rng.randrange(1, len(w) - 1)]       # another length, same end points
        if hetero and k == 0:
            w = respace(rng, wav, hows[0])
        if rng.random() < 0.5:
            w = w[::-1]
        wavs.append(w)
    if not hetero and rng.random() < 0.5:
        wavs = [w[::-1] for w in wavs] if wavs[0][0] < wavs[0][-1] else wavs
    if not hetero:
        wavs = [list(wavs[0]) for _ in range(nm)]
    # stored flux unit: per-file SEDs are read with unit_flux=mJy (any supported unit); a cube is scaled by
    # val.unit.to(mJy) (spectral flux densities only)
    unit = unit or rng.choice(['mJy', 'Jy'] + FNU_UNITS if fmt == 'cube' else ['mJy', 'mJy', 'Jy', 'cgs'] + FNU_UNITS)
    level = nice(rng, 1e-3, 1e3, 2) * unit_level(unit)
    flux = [[[float('%.4g' % (level * rng.uniform(0.1, 10.))) for _ in wavs[k]] for _ in range(nap)] for k in range(nm)]
    err = [[[float('%.3g' % (f * rng.uniform(0.01, 0.5))) for f in row] for row in mod] for mod in flux]
    # the uncertainties carry their own unit (cube: UNCERTAINTIES BUNIT; per-file: TOTAL_FLUX_ERR column unit)
    unit_err = unit if rng.random() < 0.5 else rng.choice([k for k in (FNU_UNITS if fmt == 'cube' else FLUX_UNITS + FNU_UNITS[2:]) if k != unit])
    if unit_err != unit:
        elevel = nice(rng, 1e-4, 1e2, 2) * unit_level(unit_err)
        err = [[[float('%.3g' % (elevel * rng.uniform(0.1, 10.))) for _ in row] for row in mod] for mod in flux]
    # model names: a common prefix (m00, m01, ...) or distinct first characters; per-file SEDs may live in
    # seds/<first k characters of the name>/ (length_subdir = k, the layout of the published grids)
    if rng.random() < 0.5:
        names = ['m%02d' % i for i in range(nm)]
    else:
        names = ['%s%d%s' % ('abcd'[i], i, rng.choice(['x', 'yy', 'model'])) for i in range(nm)]
    subdir = 0 if fmt == 'cube' else rng.choice([0, 0, 1, 2, 3])
    # how the spectral axis of the SEDs / the cube is defined: both arrays, frequencies alone, wavelengths alone
    axes = rng.choice(['nu_only', 'wav_only'] if fmt == 'cube' else ['both', 'both', 'nu_only', 'wav_only'])
    table = list(names)
    rng.shuffle(table)
    aps = sorted({float('%.3g' % nice(rng, 10., 1e5, 3)) for _ in range(nap)})
    while len(aps) < nap:
        aps.append(aps[-1] * 2)
    if fmt == 'cube':
        table = list(names)                 # the cube path requires the parameter table in cube order
    return dict(wavs=wavs, names=names, table=table, flux=flux, err=err, apertures=aps if nap > 1 else None,
                hetero=bool(hetero), fmt=fmt, unit=unit, unit_err=unit_err, memmap=bool(rng.random() < 0.5),
                gz=[bool(fmt != 'cube' and rng.random() < 0.25) for _ in range(nm)], subdir=subdir, axes=axes,
                stale=bool(rng.random() < 0.3),
                nu_unit=rng.choice(['Hz', 'Hz', 'GHz', 'THz']))


DIRECTED = [
    # (filter mode, filter order, zero edges, normalize, grid kind, grid order, package)
    ('nu', 'inc', True, False, 'cover_coarse', 'inc', False),
    ('nu', 'dec', False, True, 'cover_fine', 'dec', False),
    ('nu', 'inc', False, True, 'partial_low', 'dec', False),
    ('nu', 'dec', True, False, 'partial_high', 'inc', False),
    ('nu', 'inc', True, True, 'inside', 'inc', False),
    ('nu', 'inc', False, False, 'first_on_end', 'inc', False),
    ('nu', 'dec', False, False, 'last_on_end', 'dec', False),
    ('nu', 'dec', True, True, 'both_on_ends', 'inc', False),
    ('nu', 'inc', False, True, 'mid_on_node', 'dec', False),
    ('nu', 'dec', False, False, 'mid_on_node', 'inc', False),
    ('nu', 'inc', True, False, 'mid_on_end', 'inc', False),
    ('nu', 'dec', False, True, 'mid_on_end', 'dec', False),
    ('wav', 'inc', False, True, 'cover_fine', 'inc', True),
    ('wav', 'dec', True, True, 'cover_coarse', 'dec', True),
    ('file', 'inc', False, False, 'partial_low', 'inc', True),
    ('file', 'dec', True, True, 'cover_fine', 'dec', True),
    ('file', 'inc', False, True, 'inside', 'dec', False),
    ('wav', 'inc', False, False, 'partial_high', 'dec', True),
    ('file', 'dec', False, False, 'cover_coarse', 'inc', False),
    ('file', 'dec', False, True, 'partial_high', 'dec', True),
    ('file', 'inc', True, False, 'cover_fine', 'inc', False),
    ('file', 'dec', False, True, 'cover_fine', 'inc', False),
    ('nu', 'inc', False, True, 'cover_fine', 'inc', 'cube'),
    ('wav', 'dec', False, True, 'partial_low', 'dec', 'cube'),
    ('file', 'dec', True, False, 'cover_coarse', 'inc', 'cube'),
    ('nu', 'dec', False, False, 'inside', 'inc', 'cube'),
    ('nu', 'inc', False, True, 'cover_fine', 'inc', 'hetero'),
    ('wav', 'dec', True, True, 'cover_coarse', 'inc', 'hetero'),
    ('file', 'inc', False, False, 'cover_fine', 'dec', 'hetero'),
    ('nu', 'dec', False, False, 'partial_low', 'inc', 'hetero'),
    ('wav', 'inc', False, True, 'inside', 'dec', 'hetero'),
    ('nu', 'inc', True, True, 'partial_high', 'inc', 'hetero'),
]


# notch / double-peaked filters (zero stretches in the middle) on fine grids, through every stage
DIRECTED_NOTCH = [
    ('nu', 'inc', False, True, 'cover_fine', 'inc', 'cube'),
    ('nu', 'dec', True, False, 'cover_fine', 'dec', 'cube'),
    ('wav', 'inc', False, True, 'cover_fine', 'inc', 'cube'),
    ('file', 'dec', False, False, 'cover_fine', 'inc', 'cube'),
    ('file', 'inc', True, True, 'cover_fine', 'dec', True),
    ('nu', 'inc', False, False, 'cover_fine', 'inc', True),
    ('wav', 'dec', False, True, 'cover_fine', 'dec', 'hetero'),
    ('nu', 'dec', False, True, 'partial_low', 'inc', 'cube'),
]
# response samples of other numeric types (in-memory filters), at ordinary and at low frequencies
DIRECTED_DTYPE = [
    # (dtype, low-frequency curve, normalize, grid kind, package)
    ('i8', True, False, 'cover_fine', False), ('i4', True, False, 'cover_coarse', False),
    ('i8', True, False, 'partial_low', True), ('i4', True, False, 'inside', 'cube'),
    ('i8', False, False, 'cover_fine', False), ('i4', False, True, 'cover_fine', True),
    ('i8', True, True, 'cover_fine', False),
    ('f4', True, False, 'cover_fine', False), ('f4', False, True, 'cover_coarse', True),
    ('f4', True, True, 'partial_high', 'cube'), ('f8', True, False, 'cover_fine', True),
    ('f8', True, True, 'cover_tight', 'cube'),
]
# packages stored in flux-density units whose FITS strings differ from another unit only by case, and in other prefixes
DIRECTED_UNITS = [('leak', False), ('leak', False), ('leak', True), ('leak', 'cube'), ('mJy', 'many'), ('Jy', 'many'), ('MJy', True), ('MJy', 'cube'), ('kJy', True), ('uJy', 'cube'), ('nJy', True), ('W/m2/Hz', 'cube'),
                  ('MJy', 'hetero'), ('W/m2/Hz', True)]
HIST_OPS = ['normalize', 'assign_response', 'assign_response', 'assign_both', 'grid']
HIST_DIRECTED = [['normalize'], ['assign_response', 'normalize'], ['assign_both'], ['grid', 'assign_response'], [],
                 ['normalize', 'grid'], ['assign_both', 'normalize', 'assign_response']]


def gen_step(rng, op, flt, nodes):
    """one step of a history on the ONE Filter object after its first rebin; every step is followed by a rebin"""
    if op == 'assign_response':
        r = [float('%.3g' % (v * rng.uniform(0.2, 3.) + rng.choice([0., 0.05]) * max(flt['r']))) for v in flt['r']]
        if not any(v > 0 for v in r):
            r[len(r) // 2] = 0.5
        if len(r) >= 4:
            r[rng.randrange(len(r))] *= 0.25        # not a multiple of the old curve
        return dict(op=op, r=r)
    if op == 'assign_both':
        new = gen_filter(rng, 'nu', nu_unit='Hz', normalize=False)
        return dict(op=op, x=new['x'], r=new['r'])
    if op == 'grid':
        g = gen_grid(rng, rng.choice(GRID_KINDS), nodes, False)
        unit = rng.choice(['Hz', 'Hz', 'GHz', 'THz'])
        if unit != 'Hz':
            g = [float(repr(v / FREQ_FACTOR[unit])) for v in g]
        return dict(op=op, grid=g, unit=unit)
    return dict(op=op)


def gen_case(rng, directed=None, small=False, hist=None, notch=None, r_dtype=None, lowfreq=None, pkg_unit=None, leak=None):
    if directed:
        mode, forder, zero, norm, gkind, gorder, with_pkg = directed
        n = rng.choice([2, 3, 5, 9]) if small else None
    else:
        mode = rng.choice(['nu', 'nu', 'wav', 'file'])
        forder = zero = norm = gorder = None
        gkind = rng.choice(GRID_KINDS + (EDGE_KINDS if mode == 'nu' else []))
        with_pkg = rng.random() < 0.3
        n = None
    exact = mode == 'nu' and gkind in EDGE_KINDS      # edges placed exactly on nodes need integer Hz values
    if lowfreq and exact:
        gkind, exact = 'cover_fine', False
    flt = gen_filter(rng, mode, n=n, zero_edges=zero, order=forder, normalize=norm,
                     nu_unit='Hz' if exact else None, allow_zero=not directed,
                     notch=notch if notch is not None else (False if directed else None),
                     leak=leak if leak is not None else (False if directed else None),
                     r_dtype=r_dtype if r_dtype else ('f8' if directed else None),
                     lowfreq=lowfreq if lowfreq is not None else (not exact and mode == 'nu' and rng.random() < 0.25))
    nodes = filter_nu_approx(flt)
    grid = gen_grid(rng, gkind, nodes, exact, order=gorder)
    grid_unit = 'Hz' if exact else rng.choice(['Hz', 'Hz', 'GHz', 'THz'])
    if grid_unit != 'Hz':
        grid = [float(repr(g / FREQ_FACTOR[grid_unit])) for g in grid]
    case = dict(kind=gkind, filter=flt, grid=grid, grid_unit=grid_unit, package=None,
                integ_fracs=[round(rng.uniform(0.01, 0.99), 3), round(rng.uniform(0.01, 0.99), 3)])
    if mode == 'nu' and any(r > 0 for r in flt['r']) and (directed or rng.random() < 0.35):
        # several Filter objects built from the SAME numpy arrays (response, nu) on different frequency grids
        fac = rng.choice([1.37, 0.61, 2.5])
        case['shared'] = dict(x2=[float('%.7g' % (x * fac)) for x in flt['x']], readonly=bool(rng.random() < 0.4), readonly_r=bool(rng.random() < 0.4))
    if hist is None:
        hist = [rng.choice(HIST_OPS) for _ in range(rng.choice([0, 1, 1, 2, 3]))]
    case['history'] = [gen_step(rng, op, flt, nodes) for op in hist]
    if with_pkg == 'many':
        case['package'] = gen_many_package(rng, nodes)
    elif with_pkg:
        case['package'] = gen_package(rng, nodes, hetero=True if with_pkg == 'hetero' else (False if directed else None),
                                      fmt='cube' if with_pkg == 'cube' else ('files' if directed else None),
                                      fine=bool(notch), unit=pkg_unit)
    return case


def gen_cases(seed, tier):
    n = N[tier]
    for i in range(n):
        rng = case_rng(seed, PID, i)
        if i < len(DIRECTED):
            yield gen_case(rng, DIRECTED[i], hist=HIST_DIRECTED[i % len(HIST_DIRECTED)])
        elif i < 2 * len(DIRECTED):
            yield gen_case(rng, DIRECTED[i - len(DIRECTED)], small=True, hist=HIST_DIRECTED[(i + 3) % len(HIST_DIRECTED)])
        elif i < 2 * len(DIRECTED) + len(DIRECTED_NOTCH):
            k = i - 2 * len(DIRECTED)
            yield gen_case(rng, DIRECTED_NOTCH[k], hist=[[], ['normalize'], ['grid']][k % 3], notch='wide')
        elif i < 2 * len(DIRECTED) + len(DIRECTED_NOTCH) + len(DIRECTED_DTYPE):
            k = i - 2 * len(DIRECTED) - len(DIRECTED_NOTCH)
            dt, lf, norm, gk, pkgf = DIRECTED_DTYPE[k]
            yield gen_case(rng, ('nu', ['inc', 'dec'][k % 2], bool(k % 3 == 0), norm, gk, ['inc', 'dec'][(k // 2) % 2], pkgf),
                           hist=[[], ['grid'], ['normalize']][k % 3], r_dtype=dt, lowfreq=lf)
        elif i < 2 * len(DIRECTED) + len(DIRECTED_NOTCH) + len(DIRECTED_DTYPE) + len(DIRECTED_UNITS):
            k = i - 2 * len(DIRECTED) - len(DIRECTED_NOTCH) - len(DIRECTED_DTYPE)
            un, pkgf = DIRECTED_UNITS[k]
            yield gen_case(rng, (['nu', 'wav', 'file'][k % 3], ['inc', 'dec'][k % 2], False, bool(k % 2), 'cover_fine',
                                 'inc', pkgf), hist=[], pkg_unit=None if pkgf == 'many' or un == 'leak' else un,
                           leak=True if un == 'leak' else None, r_dtype='f8' if un == 'leak' else None)
        else:
            yield gen_case(rng)


# ----------------------------------------------------------------------------- real side

def freq_unit(name):
    from astropy import units as u
    return {'Hz': u.Hz, 'GHz': u.GHz, 'THz': u.THz}[name]


def to_hz(vals, unit):
    """frequencies given in `unit` as the float Hz values the code works with (`.to(u.Hz).value`)"""
    from astropy import units as u
    return [float(v) for v in (np.array(vals, dtype=float) * freq_unit(unit)).to(u.Hz).value]


def written_nu(flt):
    """the frequencies of the samples as written / passed in, in that order (c / lambda by astropy, in float,
    exactly the operation make_filter and Filter.read apply)"""
    from astropy import units as u
    if flt['mode'] == 'nu':
        return to_hz(flt['x'], flt.get('nu_unit', 'Hz'))
    return [float(v) for v in (np.array(flt['x'], dtype=float) * u.micron).to(u.Hz, equivalencies=u.spectral()).value]


def build_filter(flt, d):
    """the Filter object under test, through the public constructors.  Returns (filter, why): `why` describes a
    Filter that does not hold the samples that were written (frequency / response pairs in written order)"""
    from astropy import units as u
    from sedfitter.filter import Filter
    if flt['mode'] == 'nu':
        nu_q = np.array(flt['x'], dtype=float) * freq_unit(flt.get('nu_unit', 'Hz'))
        resp = np.array(flt['r'], dtype=R_DTYPES[flt.get('r_dtype', 'f8')])
        how = flt.get('construct', 'kw')
        if how == 'positional':
            f = Filter('FLT', flt['central'] * u.micron, nu_q, resp)
        elif how == 'attrs':
            f = Filter()
            f.name = 'FLT'
            f.central_wavelength = flt['central'] * u.micron
            f.nu = nu_q
            f.response = resp
        else:
            f = Filter(name='FLT', central_wavelength=flt['central'] * u.micron, nu=nu_q, response=resp)
    elif flt['mode'] == 'wav':
        f = pk.make_filter('FLT', flt['central'], flt['x'], flt['r'], normalize=False)
    else:
        path = os.path.join(d, 'FLT.txt')
        with open(path, 'w') as fh:
            fh.write('# wav = %r\n' % flt['central'])
            for x, r in zip(flt['x'], flt['r']):
                fh.write('%r %r\n' % (x, r))
        f = Filter.read(path)
    # the object may travel through copy / deepcopy / pickle before it is used
    if flt.get('dup'):
        f = {'copy': copy.copy, 'deepcopy': copy.deepcopy, 'pickle': lambda o: pickle.loads(pickle.dumps(o))}[flt['dup']](f)
    why = None
    want_nu = written_nu(flt)
    got_nu = held_nu(f)
    got_r = [float(v) for v in np.asarray(f.response, dtype=float)]
    if len(got_nu) != len(want_nu) or len(got_r) != len(want_nu):
        why = 'Filter holds %d frequencies / %d responses for %d samples' % (len(got_nu), len(got_r), len(want_nu))
    else:
        for i, (a, b, ra, rb) in enumerate(zip(got_nu, want_nu, got_r, flt['r'])):
            if not (abs(a - b) <= 1e-14 * abs(b)) or ra != rb:
                why = ('sample %d of the filter (%s, written as %r %s with response %r): the Filter object pairs nu = %r Hz '
                       'with response %r; c/lambda = %r Hz' % (i, flt['mode'], flt['x'][i],
                                                             flt.get('nu_unit', 'Hz') if flt['mode'] == 'nu' else 'micron', flt['r'][i], a, ra, b))
                break
    if flt['normalize']:
        f.normalize()
    return f, why


def held_nu(f):
    from astropy import units as u
    return [float(v) for v in f.nu.to(u.Hz).value]


def filter_line(flt, nus_held):
    """`norm nflt {nu R}*` — raw responses; the model applies normalize itself"""
    out = ['1' if flt['normalize'] else '0', str(len(nus_held))]
    for v, r in zip(nus_held, flt['r']):
        out += [rat(v), rat(r)]
    return ' '.join(out)


# ----------------------------------------------------------------------------- independent exact oracle

def exact_nodes(flt, nus_held):
    """increasing exact nodes of the filter as held (normalised exactly when requested)"""
    xs = [Fraction(v) for v in nus_held]
    ys = [Fraction(r) for r in flt['r']]
    if flt['normalize']:
        t = sum((xs[i + 1] - xs[i]) * (ys[i + 1] + ys[i]) / 2 for i in range(len(xs) - 1))
        ys = [y / abs(t) for y in ys]
    nodes = sorted(zip(xs, ys))
    return nodes


def exact_integral(nodes, a, b):
    """integral of the piecewise-linear interpolant of increasing `nodes` over [a, b] ∩ table range"""
    if a > b:
        a, b = b, a
    tot = Fraction(0)
    for (x0, y0), (x1, y1) in zip(nodes[:-1], nodes[1:]):
        lo, hi = max(a, x0), min(b, x1)
        if lo < hi:
            ylo = y0 + (y1 - y0) * (lo - x0) / (x1 - x0)
            yhi = y0 + (y1 - y0) * (hi - x0) / (x1 - x0)
            tot += (hi - lo) * (ylo + yhi) / 2
    return tot


def exact_bins(nodes, grid):
    """the property's right-hand side: exact integral over each midpoint bin"""
    g = [Fraction(v) for v in grid]
    edges = [g[0]] + [(g[i] + g[i + 1]) / 2 for i in range(len(g) - 1)] + [g[-1]]
    return [exact_integral(nodes, edges[i], edges[i + 1]) for i in range(len(g))]


def property_on_rebin(flt, nus_held, grid, resp):
    """evaluate C06's statements on the real rebin output; returns None or a description of the failure"""
    nodes = exact_nodes(flt, nus_held)
    want = exact_bins(nodes, grid)
    scale = sum(abs(w) for w in want)
    got = [Fraction(float(r)) for r in resp]
    tol9 = Fraction(1, 10 ** 6) if flt.get('r_dtype') == 'f4' else Fraction(1, 10 ** 9)
    budget = bin_budgets(dict(flt, nus=nus_held), grid) if flt.get('r_dtype') != 'f4' and len(got) == len(want) else None
    for i, (a, b) in enumerate(zip(got, want)):
        if budget is not None and abs(float(a) - float(b)) > 1e-9 * abs(float(b)) + budget[i] + 1e-20 * float(sum(abs(float(x)) for x in want)):
            return ('bin %d: Filter.rebin gives R_i = %r, exact integral of the response over the bin is %r: off by %.3g of the '
                    'bin\'s own value (rounding budget of this bin %.3g; sum|R| = %r)'
                    % (i, float(a), float(b), abs(float(a) - float(b)) / abs(float(b)) if b else float('inf'), budget[i],
                       float(scale)))
        if abs(a - b) > tol9 * scale:
            return ('bin %d: Filter.rebin gives R_i = %r, exact integral of the response over the bin is %r '
                    '(sum|R| = %r)' % (i, float(a), float(b), float(scale)))
    if len(got) != len(want):
        return 'rebin returned %d responses for %d frequencies' % (len(got), len(want))
    total = exact_integral(nodes, min(Fraction(v) for v in grid), max(Fraction(v) for v in grid))
    if abs(sum(got) - total) > tol9 * abs(total):
        return ('conservation: sum_i R_i = %r, filter integral over the overlap = %r'
                % (float(sum(got)), float(total)))
    if flt['normalize'] and min(grid) <= min(nus_held) and max(nus_held) <= max(grid):
        c = Fraction(7, 2)
        if abs(sum(c * r for r in got) - c) > tol9 * c:
            return 'flat spectrum F=3.5 through a normalised filter inside the SED range gives %r' % float(sum(c * r for r in got))
    return None


# ----------------------------------------------------------------------------- one case

def grid_branches(nus_held, grid, flt):
    b = set()
    b.add('filter_increasing_nu' if nus_held[-1] > nus_held[0] else 'filter_decreasing_nu')
    b.add('sed_increasing' if grid[-1] > grid[0] else 'sed_decreasing')
    lo, hi = min(nus_held), max(nus_held)
    b.add('full_overlap' if min(grid) <= lo and hi <= max(grid) else 'partial_overlap')
    g = np.array(grid, dtype=float)
    edges = [g[0]] + [0.5 * (g[i] + g[i + 1]) for i in range(len(g) - 1)] + [g[-1]]
    held = set(nus_held)
    if any(float(e) in held for e in edges):
        b.add('edge_on_node')
    if flt['mode'] == 'file':
        b.add('from_file')
        b.add('file_wav_increasing' if flt['x'][-1] > flt['x'][0] else 'file_wav_decreasing')
        if flt['r'] != flt['r'][::-1]:
            b.add('file_asymmetric')
    r_first, r_last = flt['r'][0], flt['r'][-1]
    if r_first != 0 and r_last != 0:
        b.add('nonzero_edges')
    else:
        b.add('zero_edges')
    if flt['normalize']:
        b.add('normalized')
    if flt['mode'] == 'nu':
        b.add('filter_nu_unit_' + flt.get('nu_unit', 'Hz'))
        b.add('response_dtype_' + flt.get('r_dtype', 'f8'))
        if flt.get('lowfreq'):
            b.add('low_frequency_filter')
            if flt.get('r_dtype') in ('i8', 'i4') and not flt['normalize']:
                b.add('integer_response_low_frequency')
    if flt['mode'] == 'nu':
        b.add('filter_construct_' + flt.get('construct', 'kw'))
    if flt.get('dup'):
        b.add('filter_via_' + flt['dup'])
    if flt.get('leak'):
        b.add('leak_tail_filter')
    if not any(r > 0 for r in flt['r']):
        b.add('all_zero_filter')
    elif interior_zero(flt['r']):
        b.add('notch_filter')
    return b


def interior_zero(rs):
    """a zero response between two non-zero ones"""
    nz = [i for i, r in enumerate(rs) if r != 0]
    return bool(nz) and any(rs[i] == 0 for i in range(nz[0], nz[-1]))


def bin_budgets(cur, grid):
    """per bin: 1e-13 x (clipped width) x ymax + 1e-15 x nu x ymax, ymax = largest response among the nodes inside the
    clipped bin and the two nodes bracketing it (the rounding a direct evaluation of the bin integral can incur)"""
    nodes = [(float(x), float(y)) for x, y in exact_nodes(cur, cur['nus'])]
    xs = [n[0] for n in nodes]
    lo, hi = xs[0], xs[-1]
    g = [float(v) for v in grid]
    edges = [g[0]] + [0.5 * (g[i] + g[i + 1]) for i in range(len(g) - 1)] + [g[-1]]
    out = []
    for i in range(len(g)):
        c1, c2 = sorted((min(max(edges[i], lo), hi), min(max(edges[i + 1], lo), hi)))
        k1 = max(bisect.bisect_right(xs, c1) - 1, 0)
        k2 = min(bisect.bisect_left(xs, c2), len(xs) - 1)
        ymax = max(abs(y) for _, y in nodes[k1:k2 + 1])
        out.append(1e-13 * (c2 - c1) * ymax + 1e-15 * max(abs(c1), abs(c2)) * ymax)
    return out


def check_rebin(f, cur, grid_in, gunit, drv, label, info=None):
    """Filter.rebin of the object `f` on one grid against the model for the curve `cur` (frequencies in Hz in held
    order, raw responses, normalised or not) the object holds now.  Returns (failing CaseResult or None, sum R, scale)"""
    grid = to_hz(grid_in, gunit)           # the float Hz values rebin works with (nu_new.to(u.Hz).value)
    try:
        with common.quiet():
            resp = np.array(f.rebin(np.array(grid_in, dtype=float) * freq_unit(gunit)).response, dtype=float)
    except Exception as e:
        return CaseResult(False, violates=True,
                          detail='%s: rebinning an in-domain filter raised %s: %s' % (label, type(e).__name__, e)), None, 0.
    t = drv.ask('c06.rebin %s %s' % (filter_line(cur, cur['nus']), rats(grid)))
    model = t.rats()
    total = t.rat()
    scale = float(sum(abs(m) for m in model))
    if info is not None and interior_zero(model):
        info.add('rebinned_interior_zero')
    bad = None
    if len(model) != len(resp):
        bad = 'length: impl %d model %d' % (len(resp), len(model))
    elif cur.get('r_dtype', 'f8') != 'f4':
        # every R_i on its own scale: relative to the bin's own magnitude, plus the rounding of the interpolation and of the
        # bin edges measured against the largest response the bin (and its bracketing nodes) sees — not against sum|R|
        budget = bin_budgets(cur, grid)
        for i, (a, m) in enumerate(zip(resp, model)):
            # (+ 1e-20 sum|R|: a bin edge displaced by one ulp next to a node whose response is 0 changes the integral
            # by slope x ulp^2 - second order, invisible to the first-order budget; fourteen and more orders of
            # magnitude below the leak tails (1e-13 .. 1e-15 of the peak) this criterion exists for)
            if not abs(float(a) - float(m)) <= 1e-9 * abs(float(m)) + budget[i] + 1e-20 * scale:
                bad = ('bin %d (nu=%r): Filter.rebin R_i = %r, model (exact integral over the clipped bin) = %r: off by %.3g of '
                       'the bin\'s own value (rounding budget of this bin %.3g, sum|R| = %r)'
                       % (i, grid[i], float(a), float(m), abs(float(a) - float(m)) / abs(float(m)) if float(m) else float('inf'),
                          budget[i], scale))
                break
            if float(m) != 0 and abs(float(m)) < 1e-9 * scale:
                info is not None and info.add('bin_far_below_sum')
    if bad is None and len(model) == len(resp):
        for i, (a, m) in enumerate(zip(resp, model)):
            if not (abs(float(a) - float(m)) <= TOL_R[cur.get('r_dtype', 'f8')] * scale) or not np.isfinite(a):
                bad = ('bin %d (nu=%r): Filter.rebin R_i = %r, model (exact integral over the clipped bin) = %r, '
                       'sum|R| = %r' % (i, grid[i], float(a), float(m), scale))
                break
    if bad is not None:
        why = property_on_rebin(cur, cur['nus'], grid, resp)
        return CaseResult(False, violates=True if why else None,
                          detail=label + ': ' + bad + (' | property check on the real output: ' + why if why else
                                                       ' | the independent exact integral agrees with the implementation')), total, scale
    return None, total, scale


def check_integ(cur, fracs, drv, branches):
    """direct calls of utils.integrate.integrate_subset on the curve (stored order) against driver op `c06.integ`
    (SF.integrateSubset): equal limits (inside a segment, on a knot, at either end), limits in decreasing order, both
    limits on knots, limits equal to the table ends, generic limits.  Limits outside the table are not in C06's reach
    (Filter.rebin clips to the table first; integrate_subset indexes out of range there) and are left out."""
    from sedfitter.utils.integrate import integrate_subset
    xs = [float(v) for v in cur['nus']]
    ys = [float(v) for v in cur['r']]
    if len(xs) < 2:
        return None
    lo, hi = min(xs), max(xs)
    inc = sorted(xs)
    fa, fb = sorted(fracs)
    inside = lambda t: lo + (hi - lo) * t
    calls = [('integ_generic', inside(fa), inside(fb) if fb > fa else hi),
             ('integ_swapped', inside(fb) if fb > fa else hi, inside(fa)),
             ('integ_equal_inside', 0.5 * (inc[0] + inc[1]), 0.5 * (inc[0] + inc[1])),
             ('integ_equal_first_end', lo, lo), ('integ_equal_last_end', hi, hi),
             ('integ_table_ends', lo, hi), ('integ_table_ends_swapped', hi, lo),
             ('integ_end_to_inside', lo, inside(fb)), ('integ_inside_to_end', inside(fa), hi)]
    if len(inc) >= 3:
        k = 1 + int(fa * (len(inc) - 2)) % (len(inc) - 2)
        calls += [('integ_equal_knot', inc[k], inc[k]), ('integ_both_knots', inc[0], inc[k]),
                  ('integ_both_knots', inc[k], inc[-1]), ('integ_knot_to_inside', inc[k], inside(fb) if inside(fb) != inc[k] else hi)]
    if len(inc) >= 4:
        calls.append(('integ_both_knots', inc[2], inc[1]))
    scale = sum(abs(0.5 * (inc[i + 1] - inc[i])) * (abs(ys[xs.index(inc[i])]) + abs(ys[xs.index(inc[i + 1])]))
                for i in range(len(inc) - 1))
    nodes_txt = ' '.join('%s %s' % (rat(x), rat(y)) for x, y in zip(xs, ys))
    branches.add('integ_decreasing_storage' if xs[-1] < xs[0] else 'integ_increasing_storage')
    tol = TOL_R[cur.get('r_dtype', 'f8')]
    for name, a, b in calls:
        try:
            got = float(integrate_subset(np.array(xs, dtype=float), np.array(ys, dtype=float), a, b))
        except Exception as e:
            return CaseResult(False, violates=True,
                              detail='integrate_subset(x, y, %r, %r) with limits inside the table raised %s: %s'
                              % (a, b, type(e).__name__, e))
        want = drv.ask('c06.integ %d %s %s %s' % (len(xs), nodes_txt, rat(a), rat(b))).rat()
        branches.add(name)
        if not (abs(got - float(want)) <= tol * scale and np.isfinite(got)) or (a == b and got != 0.):
            nodes = sorted(zip([Fraction(x) for x in xs], [Fraction(y) for y in ys]))
            indep = exact_integral(nodes, Fraction(a), Fraction(b))
            viol = not abs(got - float(indep)) <= tol * scale
            return CaseResult(False, violates=True if viol else None,
                              detail=('%s: integrate_subset(x, y, %r, %r) = %r; exact integral of the piecewise-linear curve '
                                      'between the limits = %r (model) / %r (independent); %d nodes stored in %s order'
                                      % (name, a, b, got, float(want), float(indep), len(xs),
                                         'decreasing' if xs[-1] < xs[0] else 'increasing')))
    return None


def shared_arrays_stage(case, drv, branches):
    """Filters A, B, C built from the same response array object (A and C also from the same frequency Quantity, B on
    another grid), normalised and re-binned in turn; every rebin is compared with the model for that filter's own curve
    and the caller's arrays must come out bit-identical"""
    from astropy import units as u
    from sedfitter.filter import Filter
    sh = case.get('shared')
    flt = case['filter']
    if not sh or flt['mode'] != 'nu':
        return None
    unit = freq_unit(flt.get('nu_unit', 'Hz'))
    r_arr = np.array(flt['r'], dtype=R_DTYPES[flt.get('r_dtype', 'f8')])
    x_a = np.array(flt['x'], dtype=float)
    x_b = np.array(sh['x2'], dtype=float)
    if sh.get('readonly'):
        # read-only frequency arrays; a read-only RESPONSE array can be re-binned but not normalised on the unchanged
        # tree (integrate() fixes NaNs in place, `y[isnan(y)] = 0.`, which numpy refuses on a read-only array even when
        # there is nothing to fix), so with a read-only response the normalize steps are left out
        x_a.setflags(write=False)
        x_b.setflags(write=False)
        branches.add('shared_arrays_readonly')
        if sh.get('readonly_r'):
            r_arr.setflags(write=False)
            branches.add('shared_response_readonly')
    before = (r_arr.tobytes(), x_a.tobytes(), x_b.tobytes())
    q_a = u.Quantity(x_a, unit, copy=False)
    q_b = u.Quantity(x_b, unit, copy=False)
    cw = flt['central'] * u.micron
    rd = flt.get('r_dtype', 'f8')
    curs = {'A': dict(mode='nu', nus=to_hz(flt['x'], flt.get('nu_unit', 'Hz')), r=list(flt['r']), normalize=False, r_dtype=rd),
            'B': dict(mode='nu', nus=to_hz(sh['x2'], flt.get('nu_unit', 'Hz')), r=list(flt['r']), normalize=False, r_dtype=rd)}
    curs['C'] = dict(curs['A'])
    grids = {'A': (case['grid'], case.get('grid_unit', 'Hz')), 'C': (case['grid'], case.get('grid_unit', 'Hz'))}
    lo, hi = min(curs['B']['nus']), max(curs['B']['nus'])
    grids['B'] = ([float('%.7g' % (lo - 0.3 * (hi - lo) + k * 1.6 * (hi - lo) / 11.)) for k in range(12)
                   if lo - 0.3 * (hi - lo) + k * 1.6 * (hi - lo) / 11. > 0], 'Hz')
    try:
        with common.quiet():
            fs = {'A': Filter(name='A', central_wavelength=cw, nu=q_a, response=r_arr),
                  'B': Filter(name='B', central_wavelength=cw, nu=q_b, response=r_arr),
                  'C': Filter(name='C', central_wavelength=cw, nu=q_a, response=r_arr)}
    except Exception as e:
        return CaseResult(False, violates=True, detail='building filters from shared arrays raised %s: %s' % (type(e).__name__, e))
    done = []
    for op, key in (('rebin', 'A'), ('normalize', 'A'), ('rebin', 'A'), ('rebin', 'C'), ('normalize', 'B'), ('rebin', 'B'),
                    ('rebin', 'A'), ('normalize', 'C'), ('rebin', 'C'), ('rebin', 'A'), ('rebin', 'B')):
        done.append('%s(%s)' % (op, key))
        if op == 'normalize' and sh.get('readonly') and sh.get('readonly_r'):
            continue
        if op == 'normalize':
            try:
                with common.quiet():
                    fs[key].normalize()
            except Exception as e:
                return CaseResult(False, violates=True,
                                  detail='filters sharing their arrays, %s: raised %s: %s' % (' '.join(done), type(e).__name__, e))
            curs[key] = dict(curs[key], normalize=True)
            continue
        bad, _, _ = check_rebin(fs[key], curs[key], grids[key][0], grids[key][1], drv,
                                'three filters built from the same response array (A, C same nu; B another grid), after %s'
                                % ' '.join(done))
        if bad is not None:
            return bad
    after = (r_arr.tobytes(), x_a.tobytes(), x_b.tobytes())
    if after != before:
        which = [n for n, a, b in zip(('response', 'nu of A/C', 'nu of B'), after, before) if a != b]
        return CaseResult(False, violates=True,
                          detail='the caller\'s %s array was modified by normalize / rebin of filters built from it' % ', '.join(which))
    branches.add('shared_arrays')
    branches.add('shared_arrays_' + rd)
    return None


def apply_filter_step(f, step, cur):
    """one change of the SAME Filter object through its public attributes; returns the curve it holds afterwards"""
    from astropy import units as u
    op = step['op']
    if op == 'normalize':
        if not any(r > 0 for r in cur['r']):
            return None                     # 0/0: outside the quantifier
        f.normalize()
        return dict(cur, normalize=True)
    if op == 'assign_response':
        if len(step['r']) != len(cur['r']):
            return None
        f.response = np.array(step['r'], dtype=float)
        return dict(cur, r=list(step['r']), normalize=False, r_dtype='f8')
    if op == 'assign_both':
        f.nu = np.array(step['x'], dtype=float) * u.Hz
        f.response = np.array(step['r'], dtype=float)
        return dict(cur, nus=[float(v) for v in step['x']], r=list(step['r']), normalize=False, r_dtype='f8')
    return cur


def run_case(case):
    d = tempfile.mkdtemp(prefix='c06_')
    flt = case['filter']
    grid_in = case['grid']
    gunit = case.get('grid_unit', 'Hz')
    grid = to_hz(grid_in, gunit)
    try:
        drv = common.driver()
        try:
            with common.quiet():
                f, why = build_filter(flt, d)
        except Exception as e:
            return CaseResult(False, violates=True,
                              detail='building an in-domain filter raised %s: %s' % (type(e).__name__, e))
        # the model works on the samples the harness wrote (frequencies by c/lambda in written order);
        # the Filter object must hold exactly those pairs
        nus_held = written_nu(flt)
        branches = grid_branches(nus_held, grid, flt)
        branches.add('grid_unit_' + gunit)
        if why:
            return CaseResult(False, violates=True, branches=sorted(branches), detail=why)
        cur = dict(mode=flt['mode'], nus=nus_held, r=list(flt['r']), normalize=flt['normalize'],
                   r_dtype=flt.get('r_dtype', 'f8'))
        bad, total, scale = check_rebin(f, cur, grid_in, gunit, drv, 'fresh filter', branches)
        if bad is not None:
            bad.branches = sorted(branches)
            return bad
        nontrivial = scale > 0
        # ---- the integration helper itself, on the un-normalised samples
        bad = check_integ(dict(cur, normalize=False), case.get('integ_fracs', [0.23, 0.71]), drv, branches)
        if bad is not None:
            bad.branches = sorted(branches)
            return bad
        # ---- history on the one Filter object: rebin has been called; change the curve and rebin again
        done = []
        for step in case.get('history', []):
            try:
                with common.quiet():
                    nxt = apply_filter_step(f, step, cur)
            except Exception as e:
                return CaseResult(False, violates=True, branches=sorted(branches),
                                  detail='after rebin, step %r raised %s: %s' % (step['op'], type(e).__name__, e))
            if nxt is None:
                continue
            cur = nxt
            if step['op'] == 'grid':
                grid_in, gunit = step['grid'], step['unit']
            done.append(step['op'])
            branches.add('hist_' + step['op'])
            bad, total2, _ = check_rebin(f, cur, grid_in, gunit, drv,
                                         'same Filter object after rebin and then %s' % ' -> '.join(done), branches)
            if bad is not None:
                bad.branches = sorted(branches)
                return bad
        bad = shared_arrays_stage(case, drv, branches)
        if bad is not None:
            bad.branches = sorted(branches)
            return bad
        # ---- observable 2: convolved fluxes of a package, with the filter as it is now
        pkg = case.get('package')
        if pkg:
            res = run_package(case, f, cur, cur['nus'], d, drv)
            if res is not None:
                res.branches = sorted(set(res.branches) | branches)
                return res
            branches.add('package')
            branches.add('package_cube_memmap_%s' % ('on' if pkg.get('memmap') else 'off') if pkg.get('fmt') == 'cube'
                         else 'package_files')
            branches.add('package_unit_' + pkg.get('unit', 'mJy'))
            branches.add('package_error_unit_' + pkg.get('unit_err', pkg.get('unit', 'mJy')))
            if pkg.get('unit_err', pkg.get('unit', 'mJy')) != pkg.get('unit', 'mJy'):
                branches.add('package_%s_error_unit_differs' % ('cube' if pkg.get('fmt') == 'cube' else 'files'))
            if pkg.get('many'):
                branches.add('package_cube_many_models')
            if pkg.get('stale'):
                branches.add('package_overwrite_stale')
            if any(pkg.get('gz') or []):
                branches.add('package_seds_gz')
            if pkg.get('subdir'):
                branches.add('package_seds_subdir')
                branches.add('package_seds_subdir_%d' % pkg['subdir'])
            ax = pkg.get('axes', 'wav_only' if pkg.get('fmt') == 'cube' else 'both')
            branches.add('%s_from_%s' % ('cube' if pkg.get('fmt') == 'cube' else 'sed',
                                         {'both': 'wav_and_nu', 'nu_only': 'nu_only', 'wav_only': 'wav_only'}[ax]))
            if interior_zero(cur['r']):
                # does the filter, re-binned on the package grid, have zero bins between non-zero ones?
                nu0 = to_hz_wav(package_grids(pkg)[0])
                t = drv.ask('c06.rebin %s %s' % (filter_line(cur, cur['nus']), rats(sorted(nu0))))
                if interior_zero(t.rats()):
                    branches.add('package_%s_interior_zero' % ('cube' if pkg.get('fmt') == 'cube' else 'files'))
            grids = package_grids(pkg)
            if any(sorted(grids[k]) != sorted(grids[k + 1]) for k in range(len(grids) - 1)):
                branches.add('package_grids_differ')
            if any(sorted(grids[k]) != sorted(grids[k + 1]) and len(grids[k]) == len(grids[k + 1])
                   and min(grids[k]) == min(grids[k + 1]) and max(grids[k]) == max(grids[k + 1])
                   for k in range(len(grids) - 1)):
                branches.add('package_same_ends_other_interior')
            branches.add('apertures_%d' % (len(pkg['apertures']) if pkg['apertures'] else 1))
        sample = dict(kind=case['kind'], filter_mode=flt['mode'], n_filter=len(flt['x']), n_grid=len(grid),
                      normalize=flt['normalize'], sum_R=float(total), package=bool(pkg), history=done)
        return CaseResult(True, branches=sorted(branches), key=common.canon_hash(case), nontrivial=nontrivial,
                          sample=sample)
    finally:
        shutil.rmtree(d, ignore_errors=True)


def to_hz_wav(wav_um):
    from astropy import units as u
    return [float(v) for v in (np.array(wav_um, dtype=float) * u.micron).to(u.Hz, equivalencies=u.spectral()).value]


def in_mjy(vals, nus, unit):
    """stored values in mJy, exactly (F_nu = F / nu; 1 mJy = 1e-26 erg/cm^2/s/Hz; 1 Jy = 1000 mJy)"""
    if unit in FNU_IN_MJY:
        return [Fraction(float(v)) * FNU_IN_MJY[unit] for v in vals]
    if unit == 'mJy':
        return [Fraction(float(v)) for v in vals]
    if unit == 'Jy':
        return [Fraction(float(v)) * 1000 for v in vals]
    return [Fraction(float(v)) / Fraction(float(n)) * 10 ** 26 for v, n in zip(vals, nus)]


def given_nu(wav_um, pkg):
    """the frequencies handed to an SED / cube defined by `nu` alone: c/lambda by astropy, in the package's frequency unit"""
    from astropy import units as u
    q = (np.array(wav_um, dtype=float) * u.micron).to(u.Hz, equivalencies=u.spectral())
    return q.to(freq_unit(pkg.get('nu_unit', 'Hz')))


def rebin_grid_hz(wav_um, pkg, cube, axes):
    """the float Hz frequencies the filters are re-binned on for this SED / cube, in written order, derived as the code does"""
    from astropy import units as u
    if axes == 'nu_only':
        nu = given_nu(wav_um, pkg)
        if cube:
            # the cube file keeps the wavelengths derived from nu; the reader derives nu from them again
            wav = nu.to(u.micron, equivalencies=u.spectral())
            return [float(v) for v in wav.to(u.Hz, equivalencies=u.spectral()).value]
        return [float(v) for v in nu.to(u.Hz).value]
    return to_hz_wav(wav_um)


def one_axis_sed(sed, axes, nu):
    """the same SED built from its frequencies alone or from its wavelengths alone"""
    from sedfitter.sed import SED
    s2 = SED()
    s2.name = sed.name
    s2.distance = sed.distance
    if axes == 'nu_only':
        s2.nu = nu
    else:
        s2.wav = sed.wav
    if sed.apertures is not None:
        s2.apertures = sed.apertures
    s2.flux = sed.flux
    s2.error = sed.error
    return s2


def package_grids(pkg):
    """per-model wavelength grids (older replay files carry one shared grid under 'wav')"""
    return pkg['wavs'] if 'wavs' in pkg else [pkg['wav']] * len(pkg['names'])


def run_package(case, f, flt, nus_held, d, drv):
    """returns None when implementation and model agree, else a failing CaseResult"""
    from astropy import units as u
    from sedfitter.convolve import convolve_model_dir
    from sedfitter.convolved_fluxes import ConvolvedFluxes
    pkg = expand_package(case['package'])
    md = os.path.join(d, 'models')
    os.makedirs(os.path.join(md, 'seds'))
    wavs = package_grids(pkg)
    nap = len(pkg['flux'][0])
    unit = pkg.get('unit', 'mJy')
    unit_err = pkg.get('unit_err', unit)
    AU = {'mJy': u.mJy, 'Jy': u.Jy, 'cgs': u.erg / u.cm ** 2 / u.s, 'MJy': u.MJy, 'kJy': u.kJy, 'uJy': u.uJy,
          'nJy': u.nJy, 'W/m2/Hz': u.W / u.m ** 2 / u.Hz}
    aunit = AU[unit]
    cube = pkg.get('fmt') == 'cube'
    axes = pkg.get('axes', 'wav_only' if cube else 'both')
    try:
        with common.quiet():
            if pkg.get('stale'):
                # a convolved file left over from an earlier run is replaced (documented option overwrite=True)
                pk.write_convolved(md, f.name, 1., ['stale_model'], [[123.] * nap], [[4.] * nap],
                                   apertures_au=pkg['apertures'])
            if cube:
                # cube package (version 2): one spectral axis, values and uncertainties in `unit`
                cb = pk.make_cube(pkg['names'], wavs[0], np.array(pkg['flux'], dtype=float),
                                  np.array(pkg['err'], dtype=float), pkg['apertures'], unit=aunit)
                if axes == 'nu_only':
                    cb.nu = given_nu(wavs[0], pkg)       # the cube is defined by its frequencies alone
                if unit_err != unit:
                    cb.unc = np.array(pkg['err'], dtype=float) * AU[unit_err]
                pk.write_conf(md, aperture_dependent=nap > 1, version=2)
                cb.write(os.path.join(md, 'flux.fits'), overwrite=True)
                pk.write_parameters(md, list(pkg['names']), {'PAR1': [float(i) for i in range(len(pkg['names']))]})
                if pkg.get('stale'):
                    convolve_model_dir(md, [f], True, bool(pkg.get('memmap')))       # positional: overwrite, memmap
                else:
                    convolve_model_dir(md, [f], memmap=bool(pkg.get('memmap')))
            else:
                # per-file package; file-listing order = order of `names`; every model has its own grid
                ksub = int(pkg.get('subdir') or 0)
                pk.write_conf(md, aperture_dependent=nap > 1, version=1, length_subdir=ksub)
                for k, name in enumerate(pkg['names']):
                    sed = pk.make_sed(name, wavs[k], pkg['flux'][k], pkg['err'][k], pkg['apertures'], unit=aunit)
                    if unit_err != unit:
                        sed.error = np.array(pkg['err'][k], dtype=float).reshape(sed.flux.shape) * AU[unit_err]
                    if axes != 'both':
                        sed = one_axis_sed(sed, axes, given_nu(wavs[k], pkg))
                    sdir = os.path.join(md, 'seds', name[:ksub]) if ksub else os.path.join(md, 'seds')
                    os.makedirs(sdir, exist_ok=True)
                    spath = os.path.join(sdir, name + '_sed.fits')
                    sed.write(spath, overwrite=True)
                    if pkg.get('gz') and pkg['gz'][k]:
                        # seds/*.fits.gz are globbed by convolve_model_dir as well
                        with open(spath, 'rb') as fi, gzip.open(spath + '.gz', 'wb') as fo:
                            shutil.copyfileobj(fi, fo)
                        os.remove(spath)
                pk.write_parameters(md, list(pkg['table']), {'PAR1': [float(pkg['names'].index(n)) for n in pkg['table']]})
                convolve_model_dir(md, [f], overwrite=bool(pkg.get('stale')))
            c = ConvolvedFluxes.read(os.path.join(md, 'convolved', f.name + '.fits'))
            got_names = [str(n).strip() for n in c.model_names]
            got_flux = np.asarray(c.flux.to(u.mJy).value, dtype=float)
            got_err = np.asarray(c.error.to(u.mJy).value, dtype=float)
    except Exception as e:
        return CaseResult(False, violates=True,
                          detail='convolve_model_dir / ConvolvedFluxes.read raised %s: %s' % (type(e).__name__, e))
    fl = filter_line(flt, nus_held)
    if sorted(got_names) != sorted(pkg['names']):
        return CaseResult(False, violates=True, detail='convolved file lists models %r, package has %r' % (got_names, pkg['names']))
    if got_flux.shape != (len(pkg['names']), nap):
        return CaseResult(False, violates=True, detail='convolved flux array has shape %r for %d models x %d apertures'
                          % (got_flux.shape, len(pkg['names']), nap))
    many_R = None
    if pkg.get('many'):
        nu0 = np.array(rebin_grid_hz(wavs[0], pkg, cube, axes))
        many_R = drv.ask('c06.rebin %s %s' % (fl, rats(sorted(float(v) for v in nu0)))).rats()
    for mi, name in enumerate(pkg['names']):
        # this model's own grid, as SED.write stores it (sorted by frequency)
        nu = np.array(rebin_grid_hz(wavs[mi], pkg, cube, axes))
        order = np.argsort(nu)
        nus = [float(v) for v in nu[order]]
        flux = np.array(pkg['flux'][mi], dtype=float).reshape(nap, -1)
        err = np.array(pkg['err'][mi], dtype=float).reshape(nap, -1)
        if many_R is not None:
            # more than a thousand models on one grid: sum_i F_i R_i and sum_i (E_i R_i)^2 exactly, with the model's R_i
            toks = [str(nap)]
            for a in range(nap):
                fa = in_mjy(flux[a, order], nus, unit)
                ea = in_mjy(err[a, order], nus, unit_err)
                toks += [rat(sum(x * r for x, r in zip(fa, many_R))), rat(sum((x * r) ** 2 for x, r in zip(ea, many_R)))]
            t = common.Toks(toks)
        else:
            line = ['c06.convolve', fl, rats(nus), str(nap)]
            for a in range(nap):
                line += [rats(in_mjy(flux[a, order], nus, unit)), rats(in_mjy(err[a, order], nus, unit_err))]
            t = drv.ask(' '.join(line))
        n = t.nat()
        row = got_names.index(name)
        for a in range(n):
            mf = t.rat()
            mv = t.rat()
            gf = float(got_flux[row, a])
            ge = float(got_err[row, a])
            tolr = TOL_R[flt.get('r_dtype', 'f8')]
            okf = abs(gf - float(mf)) <= tolr * abs(float(mf)) and np.isfinite(gf)
            okv = abs(ge * ge - float(mv)) <= 4 * tolr * abs(float(mv)) and np.isfinite(ge)
            if not (okf and okv):
                return CaseResult(False, violates=True,
                                  detail=('model %s (#%d of %d in file order, %d wavelengths %r..%r) aperture %d: convolved file has '
                                          'flux %r mJy, error %r mJy (error^2 %r); sum_i F_i R_i = %r, sum_i (E_i R_i)^2 = %r with '
                                          'R_i the exact bin integrals on this model\'s own frequency grid; package %s in %s'
                                          % (name, mi, len(pkg['names']), len(nus), wavs[mi][0], wavs[mi][-1], a, gf, ge, ge * ge,
                                             float(mf), float(mv), 'cube (memmap=%s)' % pkg.get('memmap') if cube else 'per-file',
                                             unit if unit_err == unit else '%s (uncertainties in %s)' % (unit, unit_err))))
    return None


# ----------------------------------------------------------------------------- falsifier

def search(seed, tier, disagreeing_cases):
    """C06's statements evaluated directly on the real `rebin` output (exact sums, no Lean model)"""
    from astropy import units as u
    found = []
    tried = 0
    sweep = []
    for i, c in enumerate(gen_cases(seed, 'thorough')):
        if i >= 300:
            break
        sweep.append(c)
    for case in list(disagreeing_cases) + sweep:
        if 'filter' not in case:
            continue
        d = tempfile.mkdtemp(prefix='c06s_')
        try:
            tried += 1
            flt = case['filter']
            try:
                with common.quiet():
                    f, why0 = build_filter(flt, d)
                    nus_held = written_nu(flt)
                    grid_hz = to_hz(case['grid'], case.get('grid_unit', 'Hz'))
                    resp = np.array(f.rebin(np.array(case['grid'], dtype=float) * freq_unit(case.get('grid_unit', 'Hz'))).response,
                                    dtype=float)
            except Exception as e:
                found.append((dict(case, package=None), 'in-domain rebin raised %s: %s' % (type(e).__name__, e)))
                continue
            why = why0 or property_on_rebin(flt, nus_held, grid_hz, resp)
            if not why:
                # history on the same object, against the exact integral for the curve it holds now
                cur = dict(mode=flt['mode'], nus=nus_held, r=list(flt['r']), normalize=flt['normalize'])
                g_in, g_unit = case['grid'], case.get('grid_unit', 'Hz')
                done = []
                try:
                    for step in case.get('history', []):
                        with common.quiet():
                            nxt = apply_filter_step(f, step, cur)
                            if nxt is None:
                                continue
                            cur = nxt
                            if step['op'] == 'grid':
                                g_in, g_unit = step['grid'], step['unit']
                            done.append(step['op'])
                            resp = np.array(f.rebin(np.array(g_in, dtype=float) * freq_unit(g_unit)).response, dtype=float)
                        why = property_on_rebin(cur, cur['nus'], to_hz(g_in, g_unit), resp)
                        if why:
                            why = 'same Filter object after rebin and then %s: %s' % (' -> '.join(done), why)
                            break
                except Exception as e:
                    why = 'history step raised %s: %s' % (type(e).__name__, e)
            if why:
                found.append((dict(case, package=None), why))
        finally:
            shutil.rmtree(d, ignore_errors=True)
        if len(found) >= 5:
            break
    return found, tried


def shrink(case):
    """drop the package, then shorten grid and filter while the case still fails"""
    def fails(c):
        # a smaller case counts only if the PROPERTY fails on it too - not if shortening made the case inconsistent
        # (e.g. a filter shorter than the arrays it shares) and the harness itself trips over it
        try:
            r = run_case(c)
        except Exception:
            return False
        return (not r.ok) and r.violates is True and 'raised ValueError: r has incorrect length' not in (r.detail or '')
    cur = case
    if not fails(cur):
        return case
    if cur.get('package'):
        c = dict(cur, package=None)
        if fails(c):
            cur = c
    changed = True
    while changed:
        changed = False
        g = cur['grid']
        for i in range(len(g)):
            if len(g) > 2:
                c = dict(cur, grid=g[:i] + g[i + 1:])
                if fails(c):
                    cur = c
                    changed = True
                    break
        if changed:
            continue
        flt = cur['filter']
        for i in range(len(flt['x'])):
            if len(flt['x']) > 2 and not cur.get('shared'):
                f2 = dict(flt, x=flt['x'][:i] + flt['x'][i + 1:], r=flt['r'][:i] + flt['r'][i + 1:])
                if any(r > 0 for r in f2['r']):
                    c = dict(cur, filter=f2)
                    if fails(c):
                        cur = c
                        changed = True
                        break
    return cur
