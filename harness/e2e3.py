"""E2E3 — the whole pipeline on CUBE packages in the distance / aperture dependent mode against the composed
Lean model (`Model/Pipeline3.lean`, op `e2e3.pipeline`).

Real side: cube (version 2) package written with sedfitter's own writers (`SEDCube.write`, parameters.fits in cube
order) -> `convolve_model_dir(model_dir, filters, memmap=False)` for the broadband entries -> `Fitter(entries, ...)`
where an entry is a filter name or a wavelength `Quantity` (`Models._read_version_2`: distance grid, nearest
wavelength slice, aperture interpolation at theta*d, (kpc/d)^2) -> per source line `Source.from_ascii`,
`n_data >= n_data_min`, `Fitter.fit`, `model_fluxes = None`, `keep(output_format)`, `FitInfoFile.write` ->
`write_parameters(file | list of FitInfo, txt, select_format)` -> text.  A small share of the cases runs the same
through `sedfitter.fit()` (always `use_memmap=True`: float32 model fluxes, compared with the float32 budget).

Model side: ONE driver request with the raw inputs (cube arrays as held, frequencies the code derives, filter
nodes as held, table rows, source lines as parsed, extinction table, A_V range, distance range in kpc as the code
converts it, logd_step, both selectors); the answer is the convolved / sliced flux table of every entry, the
distance grid, log10 of `fitter.models.fluxes`, every record of the fit file and every row of the listing.

Compared: every cell of every `convolved/<filter>.fits`; `fitter.models.names / distances / fluxes`; every
record of the fit file; every row of the text (fit_id, name, chi2 / av / scale to `%10.3f`, parameters as the
`%10.3e` strings).  Rows are compared by model name (any order inside a group of equal chi2 is accepted) and the
chi2 at every rank is compared with the model's ranking.
"""
import math
import os
import shutil
import tempfile

import numpy as np

from . import common
from .common import CaseResult, rat, rats, case_rng, nice, Fraction
from . import packages as pk
from .e2e import gen_selector, enc, dec, fmt_sel, ef, chi_tol, crit_margin, parse_text

PID = 'E2E3'
# Every row of every listing is compared with the pipeline model; most of that is the business of other properties, so a
# disagreement is reported as a broken correspondence of the pipeline model under C02, not as an input violating C02.
E2E3_VERDICT = None
RULE = ('cases = (cube package of 2-5 models in arbitrary cube order, 2-5 apertures, 5-15 wavelengths in either stored '
        'order, uncertainties, parameters.fits in cube order with 2-3 columns; 1-5 entries, each a broadband filter '
        '(3-6 nodes, either stored order, normalised or not, convolved from the cube) or a wavelength Quantity (on a '
        'tabulated wavelength / between two / exactly midway / outside the axis; micron, nm, Angstrom or mm); per-entry '
        'aperture theta with theta*dmin >= 1.001 x smallest aperture (directed: exactly on it), theta*dmax inside / beyond '
        'the table; extinction law; A_V range (wide / positive / narrow / point); distance range in kpc or pc, '
        'dmin = dmax or up to ~30 grid points, logd_step 0.02-0.3 (directed: log-width an exact multiple of the step); '
        '1-3 sources with flags from {0,1,2,3,4,9}, some below n_data_min; output_format and select_format from '
        'A/N/C/D/E/F; directed: noise-free photometry planted from one model at one grid distance). A case is '
        'non-trivial when at least one source is fitted and listed with >= 1 row; distinct = distinct canonical hash')
REQUIRED_BRANCHES = ['wav_increasing', 'wav_decreasing', 'entry_band', 'entry_mono', 'mixed_entries', 'mono_only', 'band_only',
                     'mono_on_knot', 'mono_between', 'mono_outside', 'nearest_tie', 'mono_other_unit',
                     'filter_normalized', 'filter_raw', 'filter_inc_nu', 'filter_dec_nu',
                     'range_kpc', 'range_pc', 'dmin_eq_dmax', 'multi_distance', 'exact_multiple',
                     'beyond_largest', 'inside_table', 'theta_dmin_on_knot',
                     'clamped', 'unclamped', 'best_first', 'best_last', 'best_inner',
                     'flag0', 'flag1', 'flag2', 'flag3', 'flag4', 'flag9', 'limit_violated', 'limit_ok',
                     'source_skipped', 'sel_cuts', 'sel_keeps_all', 'sel_A', 'sel_N', 'sel_C', 'sel_D', 'sel_E', 'sel_F',
                     'multi_row_listing', 'via_fitter_file', 'via_fitter_list', 'via_fit_float32', 'planted_first',
                     'last_entry_band', 'last_entry_mono']
ASSUMPTIONS = ['IEEE rounding is not modelled: convolved fluxes within 1e-9 relative (variances 4e-9), log10 of the model '
               'fluxes within 1e-9 + 1e-13 x (conditioning of the aperture interpolation), av / chi2 with the budget of C02 '
               '(1e-9 x condition scale), sc within 1e-9; text columns additionally within half a unit of the last printed digit',
               'decisions whose margin is below 1e-7 (ceil of the grid length, argmin gap between the two best distances, '
               'A_V clamp, limit side, theta*dmin against the smallest aperture, nearest-wavelength gap, selector threshold, '
               'chi2 gaps between ranks) are compared in the relaxed form (either branch) and counted in margin_relaxed',
               'cases run through sedfitter.fit() hold model fluxes as float32 (use_memmap=True): compared with the first-order '
               'float32 budget of C07 (f32_budget), argmin / rank decisions inside that budget are relaxed',
               'every tabulated model flux is positive, the cube has uncertainties and >= 2 increasing apertures, '
               'theta*dmin is not below the smallest aperture (quantifier of C02), at least one source reaches n_data_min',
               'remove_resolved=False (the default)']
TRUSTED_EXTRA = ['SEDCube, Filter objects and the parameter table are built with sedfitter / astropy constructors; the model '
                 'receives the float arrays those objects hold and the kpc floats astropy derives from the distance range']
N = {'quick': 300, 'thorough': 5000}
LETTERS = 'abcdefghijklmnopqrstuvwxyz0123456789'
PAR_NAMES = ['MASS', 'TEMP', 'LUMIN']
MARGIN = 1e-7
UNIT_FACTORS = {'micron': 1., 'nm': 1e3, 'AA': 1e4, 'mm': 1e-3}


# ----------------------------------------------------------------------------- generation

def law_k(tw, chi, w):
    return -0.4 * float(np.interp(w, tw, chi, left=0., right=0.)) / float(np.interp(0.55, tw, chi))


def interp_ap(aps, row, x):
    return float(np.interp(min(x, aps[-1]), aps, row))


def mono_um(e):
    """the micron float the code derives from a wavelength entry"""
    from astropy import units as u
    return float((e['w'] * u.Unit(e['unit'])).to(u.micron).value)


RANDOM_DIRECTED = [
    dict(exact=True),
    dict(akind='on_knot', same_theta=True),
    dict(tie=True, kinds=['mono', 'mono'], mono=['tie', 'between'], units=['micron', 'micron']),
    dict(planted=True, kinds=['mono', 'mono', 'mono'], mono=['knot', 'between', 'knot'], units=['micron'] * 3, nsrc=1),
]


def gen_case(rng, directed=None):
    if directed is None and rng.random() < 0.12:
        # a share of the random cases is aimed at the rare branches, everything else about them stays random
        directed = rng.choice(RANDOM_DIRECTED)
    directed = directed or {}
    nm = directed.get('nm', rng.randint(2, 5))
    names = set()
    while len(names) < nm:
        names.add('m' + ''.join(rng.choice(LETTERS) for _ in range(rng.randint(1, 6))))
    names = sorted(names)
    rng.shuffle(names)
    if names == sorted(names) and nm > 1:
        names[0], names[1] = names[1], names[0]
    nap = directed.get('nap', rng.randint(2, 5))
    nw = rng.randint(5, 15)
    lo_w = nice(rng, 0.3, 1., 2)
    hi_w = float('%.3g' % (lo_w * nice(rng, 100., 1000., 2)))
    if directed.get('tie'):
        # small integers: |w - w0| is exact in floats
        wav = sorted(rng.sample([1., 2., 4., 6., 10., 16., 24., 40., 64., 100., 160., 250., 400.], min(max(nw, 6), 13)))
        lo_w, hi_w = wav[0], wav[-1]
    else:
        ws = {lo_w, hi_w}
        while len(ws) < nw:
            ws.add(nice(rng, lo_w, hi_w, 3))
        wav = sorted(ws)
    nw = len(wav)
    order = directed.get('order', rng.choice(['inc', 'dec']))
    # distance range and step
    step = directed.get('step', rng.choice([0.02, 0.05, 0.1, 0.2, 0.3, nice(rng, 0.02, 0.3, 2)]))
    dmin = nice(rng, 0.1, 10., 2)
    npts = directed.get('npts', rng.choice([1, 2, 3, 4, 5, 8, 12, 20, 30]))
    if npts == 1:
        dmax = dmin
    else:
        span = step * (npts - 1) * rng.uniform(0.55, 0.98)
        dmax = float('%.4g' % (dmin * 10 ** span))
        if dmax <= dmin:
            dmax = float('%.4g' % (dmin * 1.5))
    if directed.get('exact'):
        step = rng.choice([0.25, 0.5, 0.125])
        dmin = rng.choice([1., 10., 100.])        # exact powers of ten: log10 is exact in floats and in the model
        dmax = dmin * rng.choice([10., 100.])
    dunit = directed.get('dunit', 'kpc' if directed.get('exact') else rng.choice(['kpc', 'kpc', 'pc']))
    if dunit == 'pc':
        du = [float('%.4g' % (dmin * 1000.)), float('%.4g' % (dmax * 1000.))]
        if npts == 1:
            du[1] = du[0]
        dmin, dmax = pk.to_kpc(du, 'pc')
        if dmax < dmin or (npts != 1 and dmax == dmin):
            dunit = 'kpc'
    if dunit == 'kpc':
        du = [dmin, dmax]
    # entries
    ne = directed.get('ne', rng.choice([1, 2, 2, 2, 3, 3, 3, 3, 4, 4, 4, 5, 5]))
    kinds = directed.get('kinds') or [rng.choice(['band', 'mono', 'mono']) for _ in range(ne)]
    ne = len(kinds)
    entries = []
    cens = []
    for j in range(ne):
        for attempt in range(300):
            if kinds[j] == 'band':
                cen = nice(rng, lo_w * 2.5, hi_w / 2.5, 3)
            else:
                mk = (directed.get('mono') or [None] * ne)[j] or rng.choice(['knot', 'between', 'between', 'outside'])
                if mk == 'knot':
                    cen = rng.choice(wav)
                elif mk == 'tie':
                    i = rng.randrange(nw - 1)
                    cen = 0.5 * (wav[i] + wav[i + 1])
                elif mk == 'outside':
                    cen = float('%.3g' % (lo_w * rng.uniform(0.5, 0.9))) if rng.random() < 0.5 else float('%.3g' % (hi_w * rng.uniform(1.1, 2.)))
                else:
                    cen = nice(rng, lo_w, hi_w, 3)
            if all(abs(math.log(cen / c)) > 0.25 for c in cens) or attempt > 250:
                break
        cens.append(cen)
        theta = nice(rng, 0.5, 30., 2)
        if kinds[j] == 'band':
            half = rng.uniform(1.15, 1.8)
            npt = rng.randint(3, 6)
            fw = sorted({float('%.4g' % (cen / half)), float('%.4g' % (cen * half))} |
                        {float('%.4g' % (cen * half ** rng.uniform(-1, 1))) for _ in range(npt - 2)})
            resp = [round(rng.uniform(0.1, 1.), 2) for _ in fw]
            if rng.random() < 0.3 and len(resp) >= 3:
                resp[0] = 0.
                resp[-1] = 0.
            fdec = (directed.get('fdec') or [rng.random() < 0.5] * ne)[j]
            if fdec:
                fw, resp = fw[::-1], resp[::-1]
            normalize = bool((directed.get('norm') or [rng.random() < 0.6] * ne)[j])
            scale = 1. if normalize else rng.choice([1., 1e-13, 1e-14])
            entries.append(dict(kind='band', name='F%d' % j, cen=cen, wav=fw, resp=[float('%.3g' % (r * scale)) for r in resp],
                                normalize=normalize, theta=theta))
        else:
            unit = (directed.get('units') or [None] * ne)[j] or ('micron' if (mk in ('knot', 'tie') or rng.random() < 0.75)
                                                                 else rng.choice(['nm', 'AA', 'mm']))
            w = cen if unit == 'micron' else float('%.4g' % (cen * UNIT_FACTORS[unit]))
            entries.append(dict(kind='mono', w=w, unit=unit, mk=mk, theta=theta))
    if directed.get('same_theta'):
        for e in entries:
            e['theta'] = entries[0]['theta']
    thetas = [e['theta'] for e in entries]
    # apertures (AU): smallest <= theta*dmin*1000 / 1.001 for every entry
    akind = directed.get('akind', rng.choice(['inside', 'beyond', 'beyond', 'mixed']))
    rmin = min(thetas) * dmin * 1000.
    rmax = max(thetas) * dmax * 1000.
    if akind == 'on_knot':
        a0 = rmin
    else:
        a0 = float('%.3g' % (rmin * rng.uniform(0.2, 0.95)))
        if not a0 * 1.001 <= rmin:
            a0 = rmin * 0.5
    if akind == 'inside':
        top = rmax * rng.uniform(1.1, 3.)
    elif akind == 'mixed':
        top = rmax * rng.uniform(0.5, 2.)
    else:
        top = rmin + (rmax - rmin) * rng.uniform(0.2, 0.8) if rmax > rmin * 1.2 else a0 * rng.uniform(1.5, 4.)
    top = max(top, a0 * 1.3)
    aps = [a0]
    for i in range(1, nap):
        aps.append(float('%.5g' % (a0 * (top / a0) ** (i / (nap - 1.)))))
    for i in range(1, nap):
        if aps[i] <= aps[i - 1]:
            aps[i] = aps[i - 1] * 1.01
    # cube values [model][aperture][wavelength] (wavelengths increasing here; stored order applied at the end)
    mono_ap = rng.random() < 0.5
    val, unc = [], []
    for i in range(nm):
        alpha = rng.uniform(-2., 2.)
        amp = nice(rng, 0.1, 100., 2)
        w0 = nice(rng, lo_w, hi_w, 2)
        g = sorted(rng.uniform(0.2, 1.) for _ in range(nap)) if mono_ap else [rng.uniform(0.2, 1.) for _ in range(nap)]
        rows, urows = [], []
        for a in range(nap):
            row = [float('%.4g' % (amp * g[a] * (w / w0) ** alpha * (1. + 3. * math.exp(-0.5 * math.log(w / w0) ** 2))
                                   * 10 ** rng.uniform(-0.3, 0.3))) for w in wav]
            rows.append(row)
            urows.append([float('%.3g' % (x * rng.uniform(0.01, 0.5))) for x in row])
        val.append(rows)
        unc.append(urows)
    ncol = rng.randint(2, 3)
    cols = {}
    for c in range(ncol):
        vals = set()
        while len(vals) < nm:
            vals.add(nice(rng, 1e-3, 1e5, 3) * rng.choice([1., 1., -1.]))
        vals = sorted(vals)
        rng.shuffle(vals)
        cols[PAR_NAMES[c]] = vals
    # extinction law: strictly decreasing opacity, clearly different coefficients at the entries
    ecen = [e['cen'] if e['kind'] == 'band' else mono_um(e) for e in entries]
    tw = chi = None
    for attempt in range(200):
        tw_c = sorted({0.02, 9000.} | {nice(rng, 0.05, 5000., 3) for _ in range(rng.randint(4, 10))})
        top_c = nice(rng, 1e3, 1e5, 3)
        beta = rng.uniform(0.3, 0.9) if attempt < 40 else 0.6
        chi_c = sorted({float('%.3g' % (top_c * (w / 0.02) ** (-beta) * 10 ** rng.uniform(-0.05, 0.05))) for w in tw_c}, reverse=True)
        if len(chi_c) != len(tw_c):
            continue
        kk = [law_k(tw_c, chi_c, w) for w in ecen]
        gaps = [abs(a - b) for i, a in enumerate(kk) for b in kk[i + 1:]] or [1.]
        tw, chi = tw_c, chi_c
        if min(gaps) >= 0.02:
            break
    if tw is None:
        tw = [0.02, 0.1, 0.55, 3., 30., 300., 9000.]
        chi = [float('%.3g' % (3e4 * (w / 0.02) ** -0.6)) for w in tw]
    ks = [law_k(tw, chi, w) for w in ecen]
    av_kind = directed.get('av', rng.choice(['wide', 'wide', 'pos', 'narrow', 'point']))
    if av_kind == 'wide':
        av = [-round(rng.uniform(20, 60), 1), round(rng.uniform(20, 80), 1)]
    elif av_kind == 'pos':
        av = [0., float(rng.choice([5, 10, 20, 40]))]
    elif av_kind == 'narrow':
        a = round(rng.uniform(0, 8), 1)
        av = [a, round(a + rng.uniform(0.1, 2.), 1)]
    else:
        a = round(rng.uniform(0, 8), 1)
        av = [a, a]

    def level(m, j, d):
        """rough flux of model m through entry j at distance d kpc (nearest wavelength, aperture interpolation, d^-2)"""
        e = entries[j]
        c = ecen[j]
        jn = min(range(nw), key=lambda q: abs(wav[q] - c)) if e['kind'] == 'mono' else min(range(nw), key=lambda q: abs(math.log(wav[q] / c)))
        row = [val[m][a][jn] for a in range(nap)]
        f = interp_ap(aps, row, e['theta'] * d * 1000.) / d ** 2
        if e['kind'] == 'band' and not e['normalize']:
            fnu = [2.99792458e14 / x for x in e['wav']]
            f *= abs(sum(0.5 * (fnu[q + 1] - fnu[q]) * (e['resp'][q + 1] + e['resp'][q]) for q in range(len(fnu) - 1)))
        return f

    # grid as the code builds it (for planted photometry)
    if dmin == dmax:
        grid = [dmin]
    else:
        n = int(np.ceil(1 + (np.log10(dmax) - np.log10(dmin)) / step))
        grid = [float(x) for x in np.logspace(np.log10(dmin), np.log10(dmax), n)]
        grid[0], grid[-1] = float(dmin), float(dmax)      # the code pins the two ends of the grid
    n_data_min = min(ne, directed.get('n_data_min', rng.choice([1, 2, 2, 3])))
    nsrc = directed.get('nsrc', rng.randint(1, 3))
    sources = []
    planted = None
    for si in range(nsrc):
        flagset = directed.get('flags') or [0, 1, 1, 1, 2, 3, 4, 4, 9]
        flags = [rng.choice(flagset) for _ in range(ne)]
        want_fitted = ne if directed.get('all_fitted') else rng.choice([ne, ne, max(2, ne - 1), 2, rng.randint(0, ne)])
        if si == 0:
            want_fitted = max(want_fitted, n_data_min, min(2, ne))
        idx = list(range(ne))
        rng.shuffle(idx)
        nfit = 0
        for j in idx:
            if nfit < want_fitted:
                if flags[j] not in (1, 4):
                    flags[j] = rng.choice([1, 1, 4])
                nfit += 1
            elif flags[j] in (1, 4):
                flags[j] = rng.choice([0, 2, 3, 9])
        m = rng.randrange(nm)
        plant = directed.get('planted') and si == 0
        if plant:
            i0 = rng.randrange(len(grid))
            d = grid[i0]
            av0 = round(rng.uniform(av[0], av[1]), 2) if av[0] < av[1] else av[0]
            noise = 0.
            flags = [rng.choice([1, 4]) for _ in range(ne)]
            planted = dict(src=0, m=m, i0=i0, av0=av0)
        else:
            d = dmin * (dmax / dmin) ** rng.random()
            av0 = rng.uniform(av[0], av[1]) if rng.random() < 0.7 else rng.uniform(av[0] - 10, av[1] + 10)
            noise = directed.get('noise', rng.choice([0.02, 0.1, 0.3]))
        bands = []
        for j in range(ne):
            logf = math.log10(level(m, j, d)) + av0 * ks[j] + (rng.gauss(0., noise) if noise else 0.)
            f = float('%.6g' % (10. ** logf)) if plant else float('%.4g' % (10. ** logf))
            fl = flags[j]
            if fl == 4:
                bands.append([4, float('%.6f' % logf) if plant else float('%.4f' % logf), 1e-3 if plant else nice(rng, 1e-2, 0.3, 2)])
            elif fl in (2, 3):
                off = 10 ** rng.choice([-0.5, 0.5, -0.05, 0.05])
                bands.append([fl, float('%.4g' % (f * off)), rng.choice([0., 0.5, 0.9, 0.99, 1., round(rng.random(), 2)])])
            elif fl == 1:
                bands.append([1, f, float('%.3g' % (f * (2e-3 if plant else nice(rng, 1e-2, 0.5, 2))))])
            elif fl == 9:
                bands.append([9, rng.choice([f, 0., -1.]), float('%.3g' % (f * 0.1))])
            else:
                bands.append([0, rng.choice([f, 0., -999.]), rng.choice([0., -999., 1.])])
        sources.append(dict(name='src_%d' % si, bands=bands))
    sel_fit = directed.get('sel_fit') or gen_selector(rng, nm, loose=rng.random() < 0.7)
    sel_out = directed.get('sel_out') or gen_selector(rng, nm)
    path = directed.get('path') or rng.choice(['fitter_file', 'fitter_file', 'fitter_list', 'fitter_list', 'fitter_file', 'fit_f32'])
    if order == 'dec':
        wav = wav[::-1]
        val = [[row[::-1] for row in mm] for mm in val]
        unc = [[row[::-1] for row in mm] for mm in unc]
    return dict(names=names, wav=wav, aps=aps, val=val, unc=unc, cols=cols, step=step, entries=entries,
                tab_w=tw, tab_chi=chi, av=av, drange=du, dunit=dunit, dmin=dmin, dmax=dmax, akind=akind,
                n_data_min=n_data_min, sources=sources, sel_fit=sel_fit, sel_out=sel_out, path=path, planted=planted)


A, N_ = ['A', 0.], None
DIRECTED = [
    dict(order='inc', kinds=['band', 'mono', 'mono'], mono=[None, 'knot', 'between'], nsrc=2, av='wide', sel_fit=['A', 0.], sel_out=['A', 0.],
         all_fitted=True, path='fitter_file', dunit='kpc', npts=5, akind='inside', norm=[1, 1, 1], fdec=[0, 0, 0]),
    dict(order='dec', kinds=['mono', 'band', 'band'], mono=['outside', None, None], nsrc=2, av='pos', sel_fit=['N', 10.], sel_out=['N', 2.],
         nm=4, path='fitter_list', dunit='pc', npts=8, akind='beyond', norm=[0, 0, 1], fdec=[1, 1, 0]),
    dict(order='inc', kinds=['mono', 'mono'], mono=['tie', 'knot'], tie=True, nsrc=2, av='wide', sel_fit=['A', 0.], sel_out=['A', 0.],
         path='fitter_file', npts=4, all_fitted=True, units=['micron', 'micron']),
    dict(order='dec', kinds=['mono', 'mono', 'mono'], mono=['tie', 'between', 'knot'], tie=True, nsrc=1, av='pos', sel_fit=['A', 0.],
         sel_out=['N', 3.], path='fitter_list', npts=3, units=['micron', 'micron', 'micron']),
    dict(kinds=['band', 'band'], nsrc=2, av='narrow', sel_fit=['F', 1e6], sel_out=['C', 50.], path='fitter_file', npts=12, norm=[1, 0], fdec=[1, 0]),
    dict(kinds=['mono', 'mono', 'mono'], mono=['between', 'knot', 'between'], units=['nm', 'micron', 'AA'], nsrc=2, av='point',
         sel_fit=['A', 0.], sel_out=['D', 30.], path='fitter_file', npts=1, dunit='kpc'),
    dict(kinds=['band', 'mono'], mono=[None, 'between'], nsrc=2, npts=1, dunit='pc', sel_fit=['A', 0.], sel_out=['E', 100.], av='wide',
         path='fit_f32', all_fitted=True),
    dict(kinds=['mono', 'band', 'mono'], mono=['knot', None, 'outside'], nsrc=3, npts=20, sel_fit=['E', 1e5], sel_out=['F', 20.], av='wide',
         flags=[1, 4], path='fit_f32', akind='mixed'),
    dict(kinds=['mono', 'mono'], mono=['between', 'between'], akind='on_knot', same_theta=True, nsrc=1, npts=3, sel_fit=['A', 0.],
         sel_out=['A', 0.], path='fitter_file', av='wide'),
    dict(kinds=['band', 'mono', 'mono', 'band'], mono=[None, 'knot', 'between', None], exact=True, nsrc=2, sel_fit=['D', 1e6],
         sel_out=['A', 0.], path='fitter_list', av='wide', npts=5),
    dict(kinds=['mono', 'mono', 'mono'], mono=['knot', 'between', 'knot'], planted=True, nsrc=2, npts=8, av='pos', nm=4,
         sel_fit=['A', 0.], sel_out=['A', 0.], path='fitter_file', akind='beyond', units=['micron'] * 3),
    dict(kinds=['mono', 'mono', 'mono', 'mono'], mono=['knot', 'knot', 'between', 'between'], planted=True, nsrc=1, npts=5, av='wide',
         nm=5, sel_fit=['N', 4.], sel_out=['N', 2.], path='fitter_list', akind='inside', units=['micron'] * 4),
    dict(nsrc=3, flags=[2, 3, 2, 3, 1, 4], ne=4, av='wide', sel_fit=['A', 0.], sel_out=['A', 0.], path='fitter_file', npts=5),
    dict(nsrc=3, flags=[0, 9, 2, 3], ne=4, n_data_min=3, sel_fit=['C', 1e7], sel_out=['N', 3.], path='fitter_list', npts=3),
    dict(nsrc=2, nm=5, sel_fit=['A', 0.], sel_out=['F', 5.], noise=0.02, all_fitted=True, npts=12, av='wide', ne=3),
    dict(nsrc=2, nm=5, sel_fit=['A', 0.], sel_out=['C', 200.], noise=0.02, all_fitted=True, flags=[1, 4], npts=12, av='wide', ne=3),
    dict(nsrc=2, nm=5, sel_fit=['A', 0.], sel_out=['D', 100.], noise=0.02, all_fitted=True, flags=[1, 4], npts=8, av='wide', ne=3),
    dict(nsrc=2, nm=5, sel_fit=['A', 0.], sel_out=['E', 50.], noise=0.02, all_fitted=True, flags=[1, 4], npts=8, av='narrow', ne=3),
    dict(nsrc=2, nm=3, kinds=['band', 'band', 'mono'], mono=[None, None, 'knot'], sel_fit=['A', 0.], sel_out=['A', 0.], noise=0.02,
         all_fitted=True, npts=30, av='pos', step=0.02, path='fitter_file'),
    dict(nsrc=2, nm=3, kinds=['mono', 'mono', 'band'], mono=['between', 'knot', None], sel_fit=['A', 0.], sel_out=['A', 0.], noise=0.02,
         all_fitted=True, npts=12, av='pos', path='fitter_list', akind='beyond'),
]


def gen_cases(seed, tier):
    for i in range(N[tier]):
        rng = case_rng(seed, PID, i)
        yield gen_case(rng, DIRECTED[i] if i < len(DIRECTED) else None)


# ----------------------------------------------------------------------------- real side

def fit_entries(case):
    """the filter list handed to Fitter / fit(): names of broadband filters, Quantities for wavelengths"""
    from astropy import units as u
    out = []
    for e in case['entries']:
        out.append(e['name'] if e['kind'] == 'band' else e['w'] * u.Unit(e['unit']))
    return out


def data_lines(case):
    return ['%s 0.0 0.0 %s %s\n' % (src['name'], ' '.join(str(b[0]) for b in src['bands']),
                                    ' '.join('%r %r' % (b[1], b[2]) for b in src['bands'])) for src in case['sources']]


def build_package(case, d):
    cols = {c: list(case['cols'][c]) for c in case['cols']}
    pk.write_cube_package(d, case['names'], case['wav'], case['val'], case['unc'], apertures_au=case['aps'], params=cols,
                          aperture_dependent=True, logd_step=case['step'])


class TooSmall(Exception):
    pass


def run_real(case, d):
    from astropy import units as u
    from sedfitter import fit, write_parameters
    from sedfitter.fit import Fitter
    from sedfitter.source import Source
    from sedfitter.sed import SEDCube
    from sedfitter.convolve import convolve_model_dir
    from sedfitter.convolved_fluxes import ConvolvedFluxes
    from sedfitter.fit_info import FitInfoFile
    with common.quiet():
        build_package(case, d)
        cube = SEDCube.read(os.path.join(d, 'flux.fits'), order='nu', memmap=False)
        nu_of = {float(w): float(v) for w, v in zip(cube.wav.to(u.micron).value, cube.nu.to(u.Hz).value)}
        bands = [e for e in case['entries'] if e['kind'] == 'band']
        filt = [pk.make_filter(e['name'], e['cen'], e['wav'], e['resp'], normalize=e['normalize']) for e in bands]
        held = {e['name']: [float(v) for v in f.nu.to(u.Hz).value] for e, f in zip(bands, filt)}
        if filt:
            convolve_model_dir(d, filt, memmap=False)
    conv = {}
    for e in bands:
        c = ConvolvedFluxes.read(os.path.join(d, 'convolved', e['name'] + '.fits'))
        conv[e['name']] = dict(names=[str(n).strip() for n in c.model_names],
                               wav=float(c.central_wavelength.to(u.micron).value),
                               aps=[float(a) for a in c.apertures.to(u.au).value],
                               flux=np.asarray(c.flux.to(u.mJy).value, dtype=float),
                               err=np.asarray(c.error.to(u.mJy).value, dtype=float))
    ext = pk.make_extinction(case['tab_w'], case['tab_chi'])
    entries = fit_entries(case)
    thetas = np.array([e['theta'] for e in case['entries']], dtype=float) * u.arcsec
    drange = np.array(case['drange'], dtype=float) * u.Unit(case['dunit'])
    out = os.path.join(d, 'fits.fitinfo')
    txt = os.path.join(d, 'parameters.txt')
    sel_fit = (case['sel_fit'][0], case['sel_fit'][1])
    sel_out = (case['sel_out'][0], case['sel_out'][1])
    # the Fitter object is built in every path: its model arrays are observables of their own
    try:
        with common.quiet():
            fitter = Fitter(entries, thetas, d, extinction_law=ext, av_range=tuple(case['av']), distance_range=drange,
                            use_memmap=False)
    except Exception as e:       # noqa: BLE001
        if 'too small' in str(e):
            raise TooSmall(str(e))
        raise
    models = dict(names=[str(n) for n in fitter.models.names],
                  distances=[float(x) for x in fitter.models.distances.to(u.kpc).value],
                  logd=[float(x) for x in fitter.models.logd],
                  wavelengths=[float(x) for x in fitter.models.wavelengths.to(u.micron).value],
                  fluxes=np.asarray(fitter.models.fluxes.to(u.mJy).value, dtype=float))
    records_mem = None
    if case['path'] == 'fit_f32':
        datafile = os.path.join(d, 'data.txt')
        with open(datafile, 'w') as fh:
            fh.writelines(data_lines(case))
        with common.quiet():
            fit(datafile, entries, thetas, d, out, n_data_min=case['n_data_min'], extinction_law=ext,
                av_range=tuple(case['av']), distance_range=drange, output_format=sel_fit)
            write_parameters(out, txt, select_format=sel_out)
    else:
        infos = []
        fout = FitInfoFile(out, 'w')
        with common.quiet():
            for line in data_lines(case):
                s = Source.from_ascii(line)
                if s.n_data >= case['n_data_min']:
                    info = fitter.fit(s)
                    info.model_fluxes = None
                    info.keep(sel_fit)
                    fout.write(info)
                    infos.append(info)
        fout.close()
        with common.quiet():
            if case['path'] == 'fitter_list':
                write_parameters(infos, txt, select_format=sel_out)
            else:
                write_parameters(out, txt, select_format=sel_out)
        # the caller's objects after write_parameters (must be untouched: C10)
        records_mem = [dict(source=i.source.name, **pk.fit_arrays(i)) for i in infos]
    records = []
    fin = FitInfoFile(out, 'r')
    for info in fin:
        records.append(dict(source=info.source.name, **pk.fit_arrays(info)))
    fin.close()
    return dict(nu_of=nu_of, held=held, conv=conv, models=models, records=records, records_mem=records_mem,
                text=open(txt).read().splitlines(), av_law=np.asarray(fitter.av_law, dtype=float))


# ----------------------------------------------------------------------------- model side

def model_line(case, real):
    line = ['e2e3.pipeline', rat(case['av'][0]), rat(case['av'][1]), rat(0.55), str(len(case['tab_w']))]
    for w, c in zip(case['tab_w'], case['tab_chi']):
        line += [rat(w), rat(c)]
    line += [rat(case['dmin']), rat(case['dmax']), rat(case['step'])]
    line += [str(case['n_data_min']), fmt_sel(case['sel_fit']), fmt_sel(case['sel_out'])]
    line.append(str(len(case['entries'])))
    for e in case['entries']:
        line.append(rat(e['theta']))
        if e['kind'] == 'band':
            nus = real['held'][e['name']]
            line += ['0', '1' if e['normalize'] else '0', rat(e['cen']), str(len(nus))]
            for v, r in zip(nus, e['resp']):
                line += [rat(v), rat(r)]
        else:
            line += ['1', rat(mono_um(e))]
    line.append(str(len(case['names'])))
    line += [enc(n) for n in case['names']]
    line.append(rats(case['wav']))
    line.append(rats([real['nu_of'][float(w)] for w in case['wav']]))
    line.append(rats(case['aps']))
    for arr in (case['val'], case['unc']):
        if arr is case['unc']:
            line.append('1')
        line.append(str(len(arr)))
        for mm in arr:
            line.append(str(len(mm)))
            line += [rats(row) for row in mm]
    line.append(str(len(case['names'])))
    for i, n in enumerate(case['names']):
        line += [enc(n), rats([case['cols'][c][i] for c in case['cols']])]
    line.append(str(len(case['sources'])))
    for src in case['sources']:
        line += [enc(src['name']), str(len(src['bands']))]
        for fl, x, e in src['bands']:
            if fl in (0, 9):
                x, e = 0., 0.         # never reach the fit (theorem C03_ignored); may be non-finite / non-positive
            line += [str(fl), rat(x), rat(e)]
    return ' '.join(line)


def ask_model(case, real):
    t = common.driver().ask(model_line(case, real))
    conv = []
    for _ in range(t.nat()):
        wav = t.rat()
        margin = float(t.rat())
        rows = []
        for _ in range(t.nat()):
            name = dec(t.tok())
            nap = t.nat()
            rows.append((name, [(t.rat(), t.rat()) for _ in range(nap)]))
        conv.append(dict(wav=wav, margin=margin, rows=rows))
    nd = t.nat()
    ceil_m = float(t.rat())
    below_m = float(t.rat())
    dists = [t.rat() for _ in range(nd)]
    models = []
    for _ in range(t.nat()):
        name = dec(t.tok())
        lfs = []
        for _ in range(t.nat()):
            lfs.append([float(x) for x in t.rats()])
        models.append(dict(name=name, lfs=lfs))
    blocks = []
    for _ in range(t.nat()):
        b = dict(source=dec(t.tok()), n_data=t.nat(), n_fits=t.nat(), rows=[], rec=[], models={})
        for _ in range(t.nat()):
            b['rows'].append(dict(fit_id=t.nat(), name=dec(t.tok()), chi2=ef(t.tok()), av=t.rat(), sc=t.rat(), pars=t.rats()))
        for _ in range(t.nat()):
            b['rec'].append(dict(name=dec(t.tok()), chi2=ef(t.tok()), av=t.rat(), sc=t.rat()))
        order = []
        for _ in range(t.nat()):
            name = dec(t.tok())
            b['models'][name] = dict(av=t.rat(), sc=t.rat(), chi2=t.rat(), bi=t.nat(), gap=float(t.rat()),
                                     clamp_m=float(t.rat()), lim_m=float(t.rat()), av_scale=float(t.rat()),
                                     chi_scale=float(t.rat()), nviol=t.nat(), nlim=t.nat(), fcond=float(t.rat()),
                                     dchi=float(t.rat()), dav=float(t.rat()))
            order.append(name)
        b['model_order'] = order
        blocks.append(b)
    if not t.done():
        raise common.DriverError('trailing tokens in e2e3.pipeline answer')
    return dict(conv=conv, nd=nd, ceil_m=ceil_m, below_m=below_m, dists=dists, models=models, blocks=blocks)


# ----------------------------------------------------------------------------- comparison

def budgets(case, pm, f32, src, av_law, lmax):
    """(tolerance on av, on sc, on chi2, relaxed?) for one model of one source, as in harness/c02.py; with float32
    model fluxes (`fit()`) the first-order budget of harness/c07.py `f32_budget` is added"""
    lo, hi = case['av']
    c2 = float(pm['chi2'])
    dr = 1e-13 * pm['fcond']
    ctol = 1e-9 * (1. + abs(c2)) + 1e-13 * pm['chi_scale'] + dr * pm['dchi']
    ascale = 1. + abs(float(pm['av'])) + pm['av_scale'] + 1e9 * dr * pm['dav']
    atol = 1e-9 * ascale
    stol = 1e-9
    if f32:
        d32 = 2. ** -24 * (1. / np.log(10.) + 3. * lmax)
        w = []
        for (fl, x, e) in src['bands']:
            if fl == 1:
                w.append((np.log(10.) * x / e) ** 2 if e != 0 else 0.)
            elif fl == 4:
                w.append(1. / e ** 2 if e != 0 else 0.)
            else:
                w.append(0.)
        w = np.array(w)
        k = np.abs(av_law)
        sw, skw, skkw = float(np.sum(w)), float(np.sum(k * w)), float(np.sum(k * k * w))
        atol += 2. * d32 * (skw / skkw if skkw > 0 else 0.)
        ctol += 2. * (2. * np.sqrt(abs(c2) * sw) * d32 + sw * d32 ** 2) + 1e-12
    relaxed = (pm['gap'] < MARGIN * (1. + abs(c2)) + 100. * ctol or pm['lim_m'] < MARGIN or
               (lo < hi and pm['clamp_m'] < MARGIN * ascale + (100. * atol if f32 else 0.)))
    return atol, stol, ctol, relaxed


def compare_ranked(what, impl_rows, model_rows, blk, tol, relaxed_n):
    """impl_rows / model_rows: lists of dict(name, chi2, av, sc).  Rows are matched by name; the chi2 at each rank must be
    the model's chi2 at that rank (so any order inside a group of equal chi2 is accepted).
    tol: name -> (atol, stol, ctol, relaxed).  returns (error or None, number of relaxed comparisons)"""
    relaxed = 0
    if len(impl_rows) != len(model_rows) and not relaxed_n:
        return '%s: %d rows; model keeps %d' % (what, len(impl_rows), len(model_rows)), 0
    seen = set()
    for i, r in enumerate(impl_rows):
        pm = blk['models'].get(r['name'])
        if pm is None:
            return '%s row %d: model name %r is not a model of the package' % (what, i, r['name']), relaxed
        if r['name'] in seen:
            return '%s: model %r listed twice' % (what, r['name']), relaxed
        seen.add(r['name'])
        atol, stol, ctol, rx = tol[r['name']]
        if rx:
            relaxed += 1
            continue
        slack = r.get('slack', 0.)
        if i < len(model_rows) and not relaxed_n:
            cm = float(model_rows[i]['chi2'])
            if not abs(float(pm['chi2']) - cm) <= 2 * ctol + 2 * chi_tol(cm):
                return ('%s row %d: lists model %s, whose chi2 is %r; the model at this rank is %s with chi2 %r'
                        % (what, i, r['name'], float(pm['chi2']), model_rows[i]['name'], cm)), relaxed
        ok = (abs(float(r['av']) - float(pm['av'])) <= atol + slack and abs(float(r['sc']) - float(pm['sc'])) <= stol + slack
              and abs(float(r['chi2']) - float(pm['chi2'])) <= ctol + slack and np.isfinite(r['chi2']))
        if not ok:
            return ('%s row %d (model %s): (chi2, av, sc) = (%r, %r, %r); fit3 over the distance grid of that model\'s own cube '
                    'rows gives (%r, %r, %r) at grid index %d (argmin gap %.3g)'
                    % (what, i, r['name'], float(r['chi2']), float(r['av']), float(r['sc']),
                       float(pm['chi2']), float(pm['av']), float(pm['sc']), pm['bi'], pm['gap'])), relaxed
    return None, relaxed


def describe(case):
    return ('entries %r, theta %r arcsec, distance range %r %s = [%r, %r] kpc, logd_step %r, apertures %r AU, A_V range %r, '
            'wavelengths %r' % ([e['name'] if e['kind'] == 'band' else '%r %s' % (e['w'], e['unit']) for e in case['entries']],
                                [e['theta'] for e in case['entries']], case['drange'], case['dunit'], case['dmin'], case['dmax'],
                                case['step'], case['aps'], case['av'], case['wav']))


def run_case(case):
    d = tempfile.mkdtemp(prefix='e2e3_')
    key = common.canon_hash(case)
    branches = set()
    try:
        on_knot_kind = case.get('akind') == 'on_knot'
        real = None
        try:
            real = run_real(case, d)
        except TooSmall as e:
            # the first trial distance is dmin itself: a refusal is a margin case only when the float product
            # arcsec x pc of some entry really rounds below the smallest aperture
            ref_below = any(en['theta'] * (case['dmin'] * 1000.) < case['aps'][0] for en in case['entries'])
            if not (on_knot_kind and ref_below):
                return CaseResult(False, violates=E2E3_VERDICT, key=key,
                                  detail='Fitter(...) raised "%s" although theta*dmin is not below the smallest aperture (%s)' % (e, describe(case)))
        except Exception as e:      # noqa: BLE001
            import traceback
            return CaseResult(False, violates=E2E3_VERDICT, key=key,
                              detail='the pipeline raised on an in-domain input: %r (%s)\n%s' % (e, describe(case), traceback.format_exc()[-1500:]))
        if real is None:
            # theta*dmin sits on the smallest aperture and the float product rounds below it
            return CaseResult(True, branches=['theta_dmin_on_knot'], key=key, nontrivial=True, relaxed=1)
        try:
            mod = ask_model(case, real)
        except common.DriverError as e:
            if 'outOfDomain' in str(e) or 'singleAperture' in str(e):
                return CaseResult(True, key=key, nontrivial=False, branches=['skipped_out_of_domain'])
            if 'tooSmall' in str(e) and on_knot_kind:
                return CaseResult(True, branches=['theta_dmin_on_knot'], key=key, nontrivial=True, relaxed=1)
            raise
        if abs(mod['below_m']) < MARGIN:
            branches.add('theta_dmin_on_knot')
        names = case['names']
        nm = len(names)
        relaxed = 0
        f32 = case['path'] == 'fit_f32'
        # ---------------- convolved / sliced tables
        if len(mod['conv']) != len(case['entries']):
            return CaseResult(False, key=key, detail='model has %d tables for %d entries' % (len(mod['conv']), len(case['entries'])))
        wav_read = sorted(case['wav'], reverse=True)            # order='nu': wavelength decreasing
        for j, (e, mc) in enumerate(zip(case['entries'], mod['conv'])):
            mnames = [r[0] for r in mc['rows']]
            if mnames != names:
                return CaseResult(False, key=key, detail='model table %d lists %r; cube order is %r' % (j, mnames, names))
            if e['kind'] == 'band':
                branches.add('entry_band')
                branches.add('filter_normalized' if e['normalize'] else 'filter_raw')
                nus = real['held'][e['name']]
                branches.add('filter_inc_nu' if nus[0] < nus[-1] else 'filter_dec_nu')
                rc = real['conv'][e['name']]
                if rc['names'] != names:
                    return CaseResult(False, violates=E2E3_VERDICT, key=key,
                                      detail='convolved/%s.fits lists rows %r; the cube (and parameter table) order is %r' % (e['name'], rc['names'], names))
                if not common.close(rc['wav'], mc['wav'], 1e-12) or rc['aps'] != [float(a) for a in case['aps']]:
                    return CaseResult(False, violates=E2E3_VERDICT, key=key,
                                      detail='convolved/%s.fits central wavelength %r, apertures %r; filter has %r, cube has %r'
                                      % (e['name'], rc['wav'], rc['aps'], float(mc['wav']), case['aps']))
                if rc['flux'].shape != (nm, len(case['aps'])):
                    return CaseResult(False, violates=E2E3_VERDICT, key=key, detail='convolved/%s.fits flux shape %r' % (e['name'], rc['flux'].shape))
                for i, (nme, cells) in enumerate(mc['rows']):
                    for a, (mf, mv) in enumerate(cells):
                        gf, ge = float(rc['flux'][i, a]), float(rc['err'][i, a])
                        okf = abs(gf - float(mf)) <= 1e-9 * abs(float(mf)) and np.isfinite(gf)
                        okv = abs(ge * ge - float(mv)) <= 4e-9 * abs(float(mv)) and np.isfinite(ge)
                        if not (okf and okv):
                            return CaseResult(False, violates=E2E3_VERDICT, key=key,
                                              detail=('convolved/%s.fits row %d (%s) aperture %d: flux %r mJy, error %r mJy (error^2 %r); the '
                                                      'convolution of cube row %d, aperture %d gives flux %r, error^2 %r (%s)'
                                                      % (e['name'], i, nme, a, gf, ge, ge * ge, i, a, float(mf), float(mv), describe(case))))
            else:
                branches.add('entry_mono')
                if e['unit'] != 'micron':
                    branches.add('mono_other_unit')
                w0 = mono_um(e)
                if mc['margin'] < 1e-9:
                    # two tabulated wavelengths equidistant from the request: strict only if the tie is exact in floats too
                    dist = sorted(abs(w - w0) for w in case['wav'])
                    if mc['margin'] == 0. and dist[0] == dist[1]:
                        branches.add('nearest_tie')
                    else:
                        return CaseResult(True, branches=branches, key=key, nontrivial=True, relaxed=1)
                jn = min(range(len(wav_read)), key=lambda q: (abs(wav_read[q] - w0), q))
                wn = wav_read[jn]
                branches.add('mono_on_knot' if wn == w0 else 'mono_outside' if (w0 < min(case['wav']) or w0 > max(case['wav'])) else 'mono_between')
                # the model's slice must be the cube column at that wavelength value (sanity of the driver output)
                js = case['wav'].index(wn)
                for i, (nme, cells) in enumerate(mc['rows']):
                    for a, (mf, mu) in enumerate(cells):
                        if float(mf) != case['val'][i][a][js] or float(mu) != case['unc'][i][a][js]:
                            return CaseResult(False, key=key, detail='model slice for entry %d is not the cube column at %r um' % (j, wn))
        kinds = {e['kind'] for e in case['entries']}
        branches.add('mixed_entries' if len(kinds) == 2 else 'mono_only' if kinds == {'mono'} else 'band_only')
        branches.add('last_entry_' + case['entries'][-1]['kind'])
        branches.add('wav_increasing' if case['wav'][0] < case['wav'][-1] else 'wav_decreasing')
        branches.add('range_' + case['dunit'])
        # ---------------- the arrays the fitter holds
        rm = real['models']
        if rm['names'] != names:
            return CaseResult(False, violates=E2E3_VERDICT, key=key, detail='fitter.models.names %r; cube order %r' % (rm['names'], names))
        ecen = [e['cen'] if e['kind'] == 'band' else mono_um(e) for e in case['entries']]
        if not all(common.close(a, b, 1e-12) for a, b in zip(rm['wavelengths'], ecen)):
            return CaseResult(False, violates=E2E3_VERDICT, key=key, detail='fitter.models.wavelengths %r; entries are at %r um' % (rm['wavelengths'], ecen))
        if mod['ceil_m'] < MARGIN:
            x_float = 1 + (np.log10(case['dmax']) - np.log10(case['dmin'])) / case['step']
            if mod['ceil_m'] < 1e-30 and x_float == round(x_float):
                branches.add('exact_multiple')
            else:
                return CaseResult(True, branches=branches, key=key, nontrivial=True, relaxed=1)
        nd = mod['nd']
        if len(rm['distances']) != nd:
            return CaseResult(False, violates=E2E3_VERDICT, key=key,
                              detail='grid length: fitter.models.distances has %d points, the minimal grid with spacing <= step has %d (%s)'
                              % (len(rm['distances']), nd, describe(case)))
        for i in range(nd):
            if not common.close(rm['distances'][i], mod['dists'][i], 1e-12) or not abs(rm['logd'][i] - math.log10(float(mod['dists'][i]))) <= 1e-12:
                return CaseResult(False, violates=E2E3_VERDICT, key=key,
                                  detail='trial distance %d: %r kpc (logd %r); the grid gives %r (%s)' % (i, rm['distances'][i], rm['logd'][i], float(mod['dists'][i]), describe(case)))
        branches.add('dmin_eq_dmax' if case['dmin'] == case['dmax'] else 'multi_distance')
        if any(e['theta'] * case['dmax'] * 1000. > case['aps'][-1] for e in case['entries']):
            branches.add('beyond_largest')
        if any(e['theta'] * case['dmin'] * 1000. < case['aps'][-1] for e in case['entries']):
            branches.add('inside_table')
        if rm['fluxes'].shape != (nm, nd, len(case['entries'])):
            return CaseResult(False, violates=E2E3_VERDICT, key=key, detail='fitter.models.fluxes shape %r' % (rm['fluxes'].shape,))
        fcond = {}
        for blk in mod['blocks']:
            for n, pm in blk['models'].items():
                fcond[n] = pm['fcond']
        lmax = 0.
        for i, mm in enumerate(mod['models']):
            if mm['name'] != names[i]:
                return CaseResult(False, key=key, detail='model flux table row %d is %r' % (i, mm['name']))
            tol = 1e-9 + 1e-13 * fcond.get(mm['name'], 1.)
            for k in range(nd):
                for j in range(len(case['entries'])):
                    g = rm['fluxes'][i, k, j]
                    lf = mm['lfs'][k][j]
                    lmax = max(lmax, abs(lf))
                    if not (g > 0 and abs(math.log10(g) - lf) <= tol):
                        return CaseResult(False, violates=E2E3_VERDICT, key=key,
                                          detail=('fitter.models.fluxes[%d (%s), distance %d, entry %d] = %r mJy; cube row %d through that entry, '
                                                  'interpolated to theta*d = %r AU and scaled by (kpc/d)^2 gives %r (%s)'
                                                  % (i, names[i], k, j, float(g), i, case['entries'][j]['theta'] * float(mod['dists'][k]) * 1000.,
                                                     10. ** lf, describe(case))))
        # ---------------- fit file records and listing
        header, text_blocks = parse_text(real['text'])
        expect_cols = ['fit_id', 'model_name', 'chi2', 'av', 'scale'] + [c.lower() for c in case['cols']]
        if header != expect_cols:
            return CaseResult(False, violates=E2E3_VERDICT, key=key, detail='write_parameters header %r; expected %r' % (header, expect_cols))
        blocks = mod['blocks']
        if [r['source'] for r in real['records']] != [b['source'] for b in blocks] or \
                [b[0] for b in text_blocks] != [b['source'] for b in blocks]:
            return CaseResult(False, violates=E2E3_VERDICT, key=key,
                              detail='sources in fit file %r / text %r; sources with n_data >= %d are %r'
                              % ([r['source'] for r in real['records']], [b[0] for b in text_blocks], case['n_data_min'],
                                 [b['source'] for b in blocks]))
        params = {n: [case['cols'][c][i] for c in case['cols']] for i, n in enumerate(names)}
        listed_any = False
        lo, hi = case['av']
        for bi_, (blk, rec, tb) in enumerate(zip(blocks, real['records'], text_blocks)):
            src = [s for s in case['sources'] if s['name'] == blk['source']][0]
            flags = [b[0] for b in src['bands']]
            nd_src = sum(1 for f in flags if f in (1, 4))
            tol = {n: budgets(case, pm, f32, src, real['av_law'], lmax) for n, pm in blk['models'].items()}
            ranked = sorted(blk['models'][n]['chi2'] for n in blk['models'])
            cmax = max(t[2] for t in tol.values())
            near_tie = any(0 < float(b - a) <= 2 * chi_tol(a) + 2 * cmax for a, b in zip(ranked, ranked[1:]))
            m_fit = crit_margin(case['sel_fit'], nd_src, ranked)
            m_out = crit_margin(case['sel_out'], nd_src, ranked)
            small = any(t[3] for t in tol.values())
            sel_tol = 1e-7 + (10. * cmax if f32 else 0.)
            relax_n = (m_fit < sel_tol) or (m_out < sel_tol) or small or near_tie
            if relax_n:
                relaxed += 1
            irows = [dict(name=rec['name'][i], chi2=rec['chi2'][i], av=rec['av'][i], sc=rec['sc'][i]) for i in range(len(rec['name']))]
            what = 'fit file, source %s' % blk['source']
            err, rx = compare_ranked(what, irows, blk['rec'], blk, tol, relax_n)
            relaxed += rx
            if err:
                return CaseResult(False, violates=E2E3_VERDICT, key=key, detail=err + ' (%s)' % describe(case), branches=branches)
            if not (len(rec['chi2']) == len(rec['av']) == len(rec['sc']) == len(rec['name']) == len(rec['model_id'])):
                return CaseResult(False, violates=E2E3_VERDICT, key=key, detail=what + ': per-fit arrays of different lengths')
            if any(rec['chi2'][i] > rec['chi2'][i + 1] for i in range(len(rec['chi2']) - 1)):
                return CaseResult(False, violates=E2E3_VERDICT, key=key, detail=what + ': chi2 not non-decreasing: %r' % (list(rec['chi2']),))
            if real['records_mem'] is not None:
                mem = real['records_mem'][bi_]
                if mem['name'] != rec['name'] or list(mem['chi2']) != list(rec['chi2']):
                    return CaseResult(False, violates=E2E3_VERDICT, key=key,
                                      detail='%s: the FitInfo handed to write_parameters now holds %r; it was written as %r'
                                      % (what, mem['name'], rec['name']))
            # every reported scale is log10 of a grid distance (E2E3_grid)
            for i, nme in enumerate(rec['name']):
                if not any(abs(rec['sc'][i] - x) <= 1e-9 for x in rm['logd']):
                    return CaseResult(False, violates=E2E3_VERDICT, key=key,
                                      detail='%s: model %s reports scale %r, which is not log10 of a trial distance %r' % (what, nme, float(rec['sc'][i]), rm['logd']))
            what = 'listing, source %s' % blk['source']
            if tb[1] != blk['n_data']:
                return CaseResult(False, violates=E2E3_VERDICT, key=key, detail='%s: n_data %d; flags %r have %d fitted points'
                                  % (what, tb[1], flags, blk['n_data']))
            if tb[2] != len(tb[3]):
                return CaseResult(False, violates=E2E3_VERDICT, key=key, detail='%s: n_fits %d but %d rows' % (what, tb[2], len(tb[3])))
            if tb[2] != blk['n_fits'] and not relax_n:
                return CaseResult(False, violates=E2E3_VERDICT, key=key, detail='%s: n_fits %d; the selectors %r then %r keep %d of the ranking %r'
                                  % (what, tb[2], case['sel_fit'], case['sel_out'], blk['n_fits'], [float(c) for c in ranked]))
            trows = []
            for i, row in enumerate(tb[3]):
                if len(row) != 5 + len(case['cols']) or row[0] != str(i + 1):
                    return CaseResult(False, violates=E2E3_VERDICT, key=key, detail='%s: row %d is %r' % (what, i, row))
                trows.append(dict(name=row[1], chi2=float(row[2]), av=float(row[3]), sc=float(row[4]), slack=5.001e-4, pars=row[5:]))
            err, rx = compare_ranked(what, trows, blk['rows'], blk, tol, relax_n)
            relaxed += rx
            if err:
                return CaseResult(False, violates=E2E3_VERDICT, key=key, detail=err + ' (%s)' % describe(case), branches=branches)
            for i, r in enumerate(trows):
                want = [('%10.3e' % v).strip() for v in params[r['name']]]
                if r['pars'] != want:
                    return CaseResult(False, violates=E2E3_VERDICT, key=key,
                                      detail='%s row %d (model %s): parameter columns %r; that model\'s row of parameters.fits is %r'
                                      % (what, i, r['name'], r['pars'], want))
                if i < len(irows) and irows[i]['name'] == r['name']:
                    for col in ('chi2', 'av', 'sc'):
                        if ('%10.3f' % irows[i][col]).strip() != tb[3][i][{'chi2': 2, 'av': 3, 'sc': 4}[col]]:
                            return CaseResult(False, violates=E2E3_VERDICT, key=key,
                                              detail='%s row %d: %s printed as %r; the fit file holds %r'
                                              % (what, i, col, tb[3][i], irows[i][col]))
            for r in blk['rows']:
                if [float(v) for v in r['pars']] != params[r['name']]:
                    return CaseResult(False, key=key, detail='model listing row %r does not carry the parameters of its name' % (r,))
            # ---- planted model first (E2E3_planted, in floating point: chi2 tiny instead of 0)
            pl = case.get('planted')
            if pl and pl['src'] == bi_ and blk['source'] == case['sources'][0]['name'] and not relax_n and trows:
                pm = blk['models'][names[pl['m']]]
                others = [float(blk['models'][n]['chi2']) for n in names if n != names[pl['m']]]
                if float(pm['chi2']) < 1e-3 * min(others + [1e300]) and pm['bi'] == pl['i0']:
                    branches.add('planted_first')
                    if trows[0]['name'] != names[pl['m']] or abs(trows[0]['sc'] - rm['logd'][pl['i0']]) > 6e-4:
                        return CaseResult(False, violates=E2E3_VERDICT, key=key,
                                          detail='%s: photometry planted from model %s at grid distance %d (log d %r); row 1 is %r'
                                          % (what, names[pl['m']], pl['i0'], rm['logd'][pl['i0']], tb[3][0]))
            # ---- branches
            if blk['rows']:
                listed_any = True
            if len(blk['rows']) > 1:
                branches.add('multi_row_listing')
            branches.add('sel_cuts' if blk['n_fits'] < len(ranked) else 'sel_keeps_all')
            for n, pm in blk['models'].items():
                if tol[n][3]:
                    continue
                if lo < hi:
                    branches.add('clamped' if float(pm['av']) in (lo, hi) else 'unclamped')
                if nd > 1:
                    branches.add('best_first' if pm['bi'] == 0 else 'best_last' if pm['bi'] == nd - 1 else 'best_inner')
                if pm['nviol'] > 0:
                    branches.add('limit_violated')
                if pm['nlim'] > pm['nviol']:
                    branches.add('limit_ok')
            for f in flags:
                branches.add('flag%d' % f)
        if any(sum(1 for b in s['bands'] if b[0] in (1, 4)) < case['n_data_min'] for s in case['sources']):
            branches.add('source_skipped')
        branches.add('sel_' + case['sel_fit'][0])
        branches.add('sel_' + case['sel_out'][0])
        branches.add({'fitter_file': 'via_fitter_file', 'fitter_list': 'via_fitter_list', 'fit_f32': 'via_fit_float32'}[case['path']])
        sample = dict(n_models=nm, n_apertures=len(case['aps']), n_wav=len(case['wav']),
                      entries=[e['name'] if e['kind'] == 'band' else '%r %s' % (e['w'], e['unit']) for e in case['entries']],
                      n_distances=nd, distance_range=[case['drange'], case['dunit']], step=case['step'], path=case['path'],
                      sel_fit=case['sel_fit'], sel_out=case['sel_out'], n_sources=len(case['sources']),
                      fitted=[b['source'] for b in blocks], first_row=real['text'][4] if len(real['text']) > 4 else None)
        return CaseResult(True, branches=sorted(branches), key=key, nontrivial=listed_any, sample=sample, relaxed=relaxed)
    finally:
        shutil.rmtree(d, ignore_errors=True)


def shrink(case):
    """fewer sources while the case still fails"""
    def fails(c):
        try:
            return not run_case(c).ok
        except Exception:      # noqa: BLE001
            return True
    cur = dict(case)
    changed = True
    while changed and len(cur['sources']) > 1:
        changed = False
        for i in range(len(cur['sources'])):
            c = dict(cur)
            c['sources'] = cur['sources'][:i] + cur['sources'][i + 1:]
            if cur.get('planted') and i == 0:
                continue
            if any(sum(1 for b in s['bands'] if b[0] in (1, 4)) >= c['n_data_min'] for s in c['sources']) and fails(c):
                cur = c
                changed = True
                break
    return cur
