"""C20 — source lines are parsed by the documented column layout or rejected.

Correspondence (batches of lines / sources per case):
* `columns`  : for n in 0..12, EVERY column count 0..3n+6, three token fillings each;
* `flags`    : all flag vectors over {0,1,2,3,4,9} for n <= 3 (thorough: n <= 5), invalid flag values
               (5,6,7,8,-1,10) at every position for n in 1..12, random vectors for larger n;
* `values`   : fluxes/errors over 60 decades incl. negatives and -999 placeholders in several spellings,
               names up to 40 characters without spaces, mixed whitespace (spaces, tabs, newline at the end);
* `roundtrip`: Source -> to_ascii -> from_ascii (text equal to the model's `toAscii`, driver `fmt` equal to
               Python's %11.3e, name/flags exact, values within half a unit of the 4th significant digit,
               coordinates within 0.5e-5);
* `state`    : to_dict/from_dict, pickle (protocols 0..5) and deepcopy round trips, all six fields equal.
Real side: `Source.from_ascii(line)` (fields, or error class: EOFError -> eof, anything else -> error),
`Source.to_ascii()`, `to_dict/from_dict`, pickle.  Model side: driver ops `parse`, `toascii`, `roundtrip`,
`fmt`, `fmtf`, `dict` (`Model/Parse.lean` over exact rationals).  Property side: the expected reading is
computed from the generated token list itself (name = tok[0], ..., flux[i] = tok[3+n+2i], ...).
"""
import copy
import math
import pickle

import numpy as np

from . import common
from .common import CaseResult, case_rng, Fraction
from . import packages as pk

PID = 'C20'
RULE = ('cases = batches of data lines / sources drawn from the quantifier of C20 (n in 0..12, every column count 0..3n+6, '
        'all flag vectors for small n, invalid flags, values over 60 decades incl. negatives and -999, names <= 40 chars, '
        'mixed whitespace); a case is non-trivial when it contains at least one accepted line with n >= 1 or one rejected '
        'line; distinct = distinct canonical hash of the generated batch')
REQUIRED_BRANCHES = ['eof', 'reject_columns_mod1', 'reject_columns_mod2', 'reject_flag', 'reject_flag_noninteger', 'reject_number', 'accept_n0',
                     'accept', 'roundtrip', 'name_longer_than_30', 'placeholder_999', 'negative_value', 'mixed_whitespace',
                     'dict_roundtrip', 'pickle_roundtrip', 'n12', 'fmt_text', 'parse_format_parse', 'valid_float_array',
                     'flux_int_error_float', 'flux_float_error_int', 'array_int_dtype', 'array_float32', 'array_big_endian',
                     'array_list_or_tuple', 'array_readonly', 'kept_sources_same_columns', 'kept_sources_mixed_columns',
                     'source_via_copy', 'parse_after_rejected_line', 'keyword_call',
                     'spelling_inf_nan', 'spelling_underscore', 'spelling_flag']
ASSUMPTIONS = ['IEEE negative zero is excluded from the formatted sources: the rational model has a single zero, Python prints -0.0 '
               'as "-0.00000" / "-0.000e+00" (a sign the model cannot carry), and both texts read back as a value equal to 0, '
               'so nothing the property states depends on it; tokens such as "-0.0" are still parsed and compared',
               'Python float()/int() and %e/%f formatting are compared with the model\'s exact decimal arithmetic by correspondence only',
               'number tokens: decimal literals, PEP 515 underscores, inf/infinity/nan in any case are modelled and compared; '
               'non-ASCII digits and overflow of huge exponents are not; names contain no whitespace']
EXHAUSTIVE = {'quick': False, 'thorough': True}
VALID = [0, 1, 2, 3, 4, 9]
INVALID = [5, 6, 7, 8, -1, 10]
NAME_CHARS = [chr(c) for c in range(33, 127)] + ['é', 'α', '中', 'ß']
SEPS = [' ', ' ', ' ', '  ', '   ', '\t', ' \t', '\t ', '        ']
EXOTIC = ['\x0b', '\x0c', '\x1c', '\x1f', '\x85', '\xa0', '\u2003', '\u3000', '\r']


# ----------------------------------------------------------------------------- generation

def gen_name(rng, maxlen=40):
    k = rng.choice([1, 2, 5, 8, 12, 29, 30, 31, 40, rng.randint(1, maxlen)])
    return ''.join(rng.choice(NAME_CHARS) for _ in range(k))


def gen_value(rng):
    r = rng.random()
    if r < 0.08:
        return -999.
    if r < 0.12:
        return 0.
    mag = math.exp(rng.uniform(math.log(1e-30), math.log(1e30)))
    v = float('%.*g' % (rng.choice([1, 2, 3, 4, 6, 9, 17]), mag))
    return -v if rng.random() < 0.2 else v


# how a caller may hand the three arrays to a Source: the setters take lists, tuples and 1-d arrays of any dtype
FLOAT_KINDS = ['f8', 'list_float', 'tuple_float', 'f4', '>f8', 'readonly']
INT_KINDS = ['list_int', 'tuple_int', 'i4', 'i8', '>i4']
VALID_KINDS = ['i8', 'list_int', 'tuple_int', 'i4', '>i4', 'u1', 'f4', 'readonly_int']
NP_DTYPE = {'f8': 'float64', 'list_float': 'float64', 'tuple_float': 'float64', 'f4': 'float32', '>f8': '>f8', 'readonly': 'float64',
            'list_int': 'int64', 'tuple_int': 'int64', 'i4': 'int32', 'i8': 'int64', '>i4': '>i4', 'u1': 'uint8',
            'readonly_int': 'int64'}


def gen_int_value(rng):
    r = rng.random()
    if r < 0.15:
        return -999
    if r < 0.2:
        return 0
    v = rng.randint(1, 10 ** rng.randint(1, 9))
    return -v if rng.random() < 0.2 else v


def with_repr(rng, sd, kinds=None):
    """give the source dict a representation for valid / flux / error and values that fit it"""
    n = len(sd['valid'])
    kv, kf, ke = kinds or (rng.choice(VALID_KINDS), rng.choice(FLOAT_KINDS + INT_KINDS), rng.choice(FLOAT_KINDS + INT_KINDS))
    sd['repr'] = dict(valid=kv, flux=kf, error=ke)
    if kf in INT_KINDS:
        sd['flux'] = [gen_int_value(rng) for _ in range(n)]
    if ke in INT_KINDS:
        sd['error'] = [gen_int_value(rng) for _ in range(n)]
    else:
        # non-integer errors, so that a conversion to the flux dtype cannot go unnoticed
        sd['error'] = [v if v != int(v) else v + 0.25 for v in sd['error']]
    return sd


def container(kind, vals):
    dt = NP_DTYPE[kind]
    if kind.startswith('list'):
        return [int(v) if 'int' in kind else float(v) for v in vals]
    if kind.startswith('tuple'):
        return tuple(int(v) if 'int' in kind else float(v) for v in vals)
    a = np.array(vals, dtype=dt)
    if kind.startswith('readonly'):
        a.flags.writeable = False
    return a


def effective(sd):
    """the source dict with the values its arrays really hold (float32 rounds; everything else is exact)"""
    r = sd.get('repr')
    if not r:
        return sd
    e = dict(sd)
    e['valid'] = [int(v) for v in np.array(sd['valid'], dtype=NP_DTYPE[r['valid']])]
    e['flux'] = [float(v) for v in np.array(sd['flux'], dtype=NP_DTYPE[r['flux']])]
    e['error'] = [float(v) for v in np.array(sd['error'], dtype=NP_DTYPE[r['error']])]
    return e


def repr_branches(sd):
    r = sd.get('repr')
    out = set()
    if not r or not sd['valid']:
        return out
    ks = [r['valid'], r['flux'], r['error']]
    if r['flux'] in INT_KINDS and r['error'] not in INT_KINDS:
        out.add('flux_int_error_float')
    if r['flux'] not in INT_KINDS and r['error'] in INT_KINDS:
        out.add('flux_float_error_int')
    if any(k in ('i4', 'i8', '>i4', 'u1') for k in ks[1:]) or r['valid'] in ('i4', '>i4', 'u1'):
        out.add('array_int_dtype')
    if 'f4' in ks:
        out.add('array_float32')
    if '>f8' in ks or '>i4' in ks:
        out.add('array_big_endian')
    if any(k.startswith('list') or k.startswith('tuple') for k in ks):
        out.add('array_list_or_tuple')
    if any(k.startswith('readonly') for k in ks):
        out.add('array_readonly')
    return out


def spell(rng, v):
    """one of several decimal spellings of a float that Python's float() reads back"""
    k = rng.randrange(7)
    if k == 0:
        return repr(v)
    if k == 1:
        return '%.3e' % v
    if k == 2:
        return '%.10E' % v
    if k == 3:
        return '%.17g' % v
    if k == 4 and v == int(v) and abs(v) < 1e15:
        return rng.choice(['%d', '%d.', '+%d', '%d.0'] if v >= 0 else ['%d', '%d.', '%d.0']) % int(v)
    if k == 5 and 1e-4 < abs(v) < 1e6:
        return ('%.8f' % v)
    if k == 6 and 0 < abs(v) < 1:
        s = '%.12f' % abs(v)
        return ('-' if v < 0 else '') + s[1:]          # ".5" style, no leading zero
    return repr(v)


def layout(rng, toks, exotic=False):
    seps = SEPS + (EXOTIC if exotic else [])
    lead = rng.choice(['', '', '', ' ', '\t', '  '])
    trail = rng.choice(['', '\n', ' \n', '\r\n', ' ', '\t\n'])
    out = lead
    for i, t in enumerate(toks):
        out += t
        if i + 1 < len(toks):
            out += rng.choice(seps)
    return out + trail


def good_tokens(rng, n, flags=None):
    toks = [gen_name(rng), spell(rng, round(rng.uniform(-360, 360), rng.randint(0, 7))),
            spell(rng, round(rng.uniform(-90, 90), rng.randint(0, 7)))]
    flags = flags if flags is not None else [rng.choice(VALID) for _ in range(n)]
    toks += [str(f) for f in flags]
    for _ in range(n):
        toks += [spell(rng, gen_value(rng)), spell(rng, gen_value(rng))]
    return toks


def lines_columns(rng, n):
    """every column count 0..3n+6, three fillings"""
    out = []
    base = good_tokens(rng, n)
    for c in range(0, 3 * n + 7):
        # (a) the well-formed n-line cut short / extended by more numbers
        toks = (base + [spell(rng, gen_value(rng)) for _ in range(c)])[:c]
        out.append(toks)
        # (b) digits everywhere a flag could be expected (accepted whenever the count fits)
        toks = [gen_name(rng), '1.5', '-2'] + [str(rng.choice(VALID)) for _ in range(max(0, c - 3))]
        out.append(toks[:c])
        # (c) a fresh line that is well-formed for the n' the count implies, if any, else numbers
        if c >= 3 and c % 3 == 0:
            out.append(good_tokens(rng, (c - 3) // 3))
        else:
            out.append(good_tokens(rng, max(0, (c - 3)) // 3 + 1)[:c])
    return out


def gen_cases(seed, tier):
    idx = [0]

    def rng_next():
        r = case_rng(seed, PID, idx[0])
        idx[0] += 1
        return r
    # directed / enumerated block (the enumerations are complete in both tiers)
    for n in range(0, 13):
        rng = rng_next()
        yield dict(type='lines', what='columns', n=n,
                   lines=[layout(rng, t) for t in lines_columns(rng, n)], toks=None, seed=seed)
    maxn = 3 if tier == 'quick' else 5
    for n in range(0, maxn + 1):
        rng = rng_next()
        vecs = [[]]
        for _ in range(n):
            vecs = [v + [f] for v in vecs for f in VALID]
        for i in range(0, len(vecs), 432):
            yield dict(type='lines', what='flags_all', n=n,
                       lines=[layout(rng, good_tokens(rng, n, flags=v)) for v in vecs[i:i + 432]], seed=seed)
    for n in range(1, 13):
        rng = rng_next()
        lines = []
        for pos in range(n):
            for bad in INVALID:
                fl = [rng.choice(VALID) for _ in range(n)]
                fl[pos] = bad
                lines.append(layout(rng, good_tokens(rng, n, flags=fl)))
        yield dict(type='lines', what='flags_invalid', n=n, lines=lines, seed=seed)
    rng = rng_next()
    junk = ['abc', '1.5.2', '1e', '--1', '1,5', '0x10', 'e5', '.', '+', '1.5e+']
    lines = []
    for j in junk:
        for n in (1, 3):
            for pos in range(1, 3 * n + 3):
                t = good_tokens(rng, n)
                t[pos] = j
                lines.append(layout(rng, t))
    for f in ['1.0', '1e0', '2.', 'x']:        # a number that is no integer in a flag column
        t = good_tokens(rng, 2)
        t[3] = f
        lines.append(layout(rng, t))
    yield dict(type='lines', what='junk', n=3, lines=lines, seed=seed)
    rng = rng_next()
    yield dict(type='lines', what='whitespace', n=2,
               lines=['', ' ', '\n', '\t \n', 'name', 'name 1.0', ' name 1.0 \n', 'name 1 2', 'name 1 2\n'] +
                     [layout(rng, good_tokens(rng, rng.randint(0, 4)), exotic=True) for _ in range(60)], seed=seed)
    # what Python's float() / int() accept beyond plain decimals is part of the glue
    rng = rng_next()
    lines = []
    for tok in ['inf', '-inf', '+inf', 'Infinity', 'INF', '-INFINITY', 'nan', 'NaN', '-nan', '+NAN',
                '1_0', '1_000.5', '1e1_0', '1_0.', '.5_5', '-1_2.3_4e-0_5',
                '1__0', '_1', '1_', '1_.5', '1._5', '1e_5', '1_e5', 'infin', 'na', 'in', 'infinity_', '+-999', '-+1']:
        for n in (1, 2):
            for pos in sorted({1, 2, 3 + n, 3 * n + 2}):
                t = good_tokens(rng, n)
                t[pos] = tok
                lines.append(layout(rng, t))
    for tok in ['01', '+1', '001', '+0', '-0', '0_1', '00_9', '+4', '1_0', '0_5', '1.0', '1e0', '1.', '+', '1_', '_1', '-1', '+9', '09',
                '2.7', '9.5', '4.999', '3.2e-5', '0.5', '-0.3', '9.99e0', '1e-30', '4.', 'nan', 'inf', spell(rng, gen_value(rng))]:
        for n in (1, 3):
            for pos in (0, n - 1):
                t = good_tokens(rng, n)
                t[3 + pos] = tok
                lines.append(layout(rng, t))
    yield dict(type='lines', what='spellings', n=3, lines=lines, seed=seed)
    # random blocks
    nrand = 100 if tier == 'quick' else 2500
    for k in range(nrand):
        rng = rng_next()
        yield dict(type='lines', what='values', n=None,
                   lines=[layout(rng, good_tokens(rng, rng.choice([0, 1, 2, 3, 5, 8, 12, rng.randint(0, 12)])))
                          for _ in range(50)], seed=seed)
    for k in range(nrand):
        rng = rng_next()
        srcs = []
        for _ in range(30):
            n = rng.choice([0, 1, 2, 3, 7, 12, rng.randint(0, 12)])
            # "+ 0.0": no negative zero (IEEE -0.0 prints as "-0.00000"; the rational model has one zero)
            srcs.append(dict(name=gen_name(rng), x=round(rng.uniform(-360, 360), rng.randint(0, 9)) + 0.0,
                             y=round(rng.uniform(-90, 90), rng.randint(0, 9)) + 0.0,
                             valid=[rng.choice(VALID) for _ in range(n)],
                             flux=[gen_value(rng) for _ in range(n)], error=[gen_value(rng) for _ in range(n)]))
        if k % 5 == 4:
            for sd in srcs:
                sd['valid_float'] = True       # flags held as an integer-valued float array (the setter admits it)
        elif k % 4 in (1, 2):
            for sd in srcs:
                with_repr(rng, sd)             # lists / tuples / int32 / int64 / float32 / big-endian / read-only arrays
        yield dict(type='roundtrip' if k % 3 else 'state', sources=srcs, seed=seed, via_copies=(k % 2 == 1))
    # every (flux representation, error representation) pair, formatted and through dict / pickle
    for typ in ('roundtrip', 'state'):
        rng = rng_next()
        srcs = []
        for kf in FLOAT_KINDS + INT_KINDS:
            for ke in FLOAT_KINDS + INT_KINDS:
                n = rng.randint(1, 4)
                sd = dict(name=gen_name(rng), x=round(rng.uniform(-360, 360), 4) + 0.0, y=round(rng.uniform(-90, 90), 4) + 0.0,
                          valid=[rng.choice(VALID) for _ in range(n)], flux=[gen_value(rng) for _ in range(n)],
                          error=[gen_value(rng) for _ in range(n)])
                srcs.append(with_repr(rng, sd, (rng.choice(VALID_KINDS), kf, ke)))
        yield dict(type=typ, sources=srcs, seed=seed)
    # call histories: the sources of a data file read into a list, inspected after all later lines were parsed
    for k in range(max(3, nrand // 10)):
        rng = rng_next()
        same = k % 2 == 0
        n0 = rng.randint(1, 6)
        lines = []
        for _ in range(rng.randint(4, 12)):
            n = n0 if (same or rng.random() < 0.5) else rng.randint(0, 6)
            lines.append(layout(rng, good_tokens(rng, n)))
            if rng.random() < 0.3:     # a malformed line in between (rejected), the parser is used again afterwards
                bad = good_tokens(rng, n0)
                if rng.random() < 0.5 or n0 == 0:
                    bad = bad[:-1] if len(bad) > 3 else bad + ['1.5']
                else:
                    bad[3] = rng.choice(['5', '7', '-1', '2.5'])
                lines.append(layout(rng, bad))
        yield dict(type='kept', same_columns=same, lines=lines, seed=seed)
    # parse -> format -> parse: the sources are the ones from_ascii builds (np.float64 x/y, platform-int flags)
    for k in range(max(4, nrand // 4)):
        rng = rng_next()
        yield dict(type='chain', seed=seed,
                   lines=[layout(rng, good_tokens(rng, rng.choice([0, 1, 2, 3, 5, 12, rng.randint(0, 12)]))) for _ in range(30)])
    rng = rng_next()
    # values sitting next to a rounding tie of the 4th significant digit, and the carry 9.9995 -> 1.000e+01
    near = []
    for _ in range(60):
        m = rng.randrange(1000, 10000)
        e = rng.randrange(-30, 30)
        near.append((m + 0.5) * 10.0 ** (e - 3))
    near += [9.9995, 9.99949999, 0.00099995, 999.95, 99995., 1e-30, 1e30, 0.5, 1.0005, 1.0015, 2.5e-5]
    yield dict(type='roundtrip', seed=seed,
               sources=[dict(name='tie%d' % i, x=0.000005, y=-0.000015, valid=[1], flux=[v], error=[-v])
                        for i, v in enumerate(near)])


# ----------------------------------------------------------------------------- the property's own reading

def py_tokens(line):
    """the generator's own tokenisation (a token = maximal run of non-whitespace characters)"""
    toks, cur = [], ''
    for ch in line:
        if ch.isspace():
            if cur:
                toks.append(cur)
            cur = ''
        else:
            cur += ch
    if cur:
        toks.append(cur)
    return toks


def spec(toks):
    """('eof',) | ('error', why, strict) | ('ok', fields) — the documented layout applied to the token list"""
    c = len(toks)
    if c < 3:
        return ('eof',)
    if c % 3 != 0:
        return ('error', 'columns_mod%d' % (c % 3), True)
    n = (c - 3) // 3
    try:
        flags = [int(t) for t in toks[3:3 + n]]
    except ValueError:
        # a flag column that is no integer at all ('2.7', '3.2e-5', a flux slid into a flag slot, 'x') is certainly
        # not one of {0,1,2,3,4,9}: the property demands rejection, accepting it (e.g. truncated to 2) is a failure
        return ('error', 'flag_noninteger', True)
    if any(f not in VALID for f in flags):
        return ('error', 'flag', True)
    try:
        x = float(toks[1])
        y = float(toks[2])
        flux = [float(toks[3 + n + 2 * i]) for i in range(n)]
        err = [float(toks[3 + n + 2 * i + 1]) for i in range(n)]
    except ValueError:
        return ('error', 'number', False)
    return ('ok', dict(name=toks[0], x=x, y=y, valid=flags, flux=flux, error=err))


def impl_parse(line):
    from sedfitter.source import Source
    try:
        s = Source.from_ascii(line)
    except EOFError:
        return ('eof',)
    except Exception as e:        # noqa: every other exception is "rejected with an error"
        return ('error', type(e).__name__)
    return ('ok', fields(s))


def fields(s):
    return dict(name=s.name, x=float(s.x), y=float(s.y), valid=[int(v) for v in s.valid],
                flux=[float(v) for v in s.flux], error=[float(v) for v in s.error])


def unhex(t):
    return '' if t == '-' else bytes.fromhex(t).decode('utf-8')


def hx(s):
    return s.encode('utf-8').hex() or '-'


def model_answer(t):
    tag = t.tok()
    if tag == 'E':
        k = t.tok()
        return ('eof',) if k == 'eof' else ('error', k)
    def xnum():
        w = t.tok()
        return float(w) if w in ('inf', '-inf', 'nan') else Fraction(w)
    name = unhex(t.tok())
    x = xnum()
    y = xnum()
    n = t.nat()
    valid = [int(t.tok()) for _ in range(n)]
    rest = []
    while not t.done():
        rest.append(xnum())
    return ('ok', dict(name=name, x=x, y=y, valid=valid, flux=rest[0::2], error=rest[1::2]))


def to_float(q):
    return float(q)       # Fraction -> nearest double, the same correctly rounded value float(str) gives


def same_fields(got, exp):
    """got: floats from the implementation; exp: floats or exact Fractions"""
    if got['name'] != exp['name'] or got['valid'] != list(exp['valid']):
        return False
    if len(got['flux']) != len(exp['flux']) or len(got['error']) != len(exp['error']):
        return False
    pairs = [(got['x'], exp['x']), (got['y'], exp['y'])] + list(zip(got['flux'], exp['flux'])) + list(zip(got['error'], exp['error']))
    return all(a == to_float(b) or (a != a and to_float(b) != to_float(b)) for a, b in pairs)


def src_line(s):
    return '%s %s %s %s %s %s' % (hx(s['name']), common.rat(s['x']), common.rat(s['y']),
                                  ' '.join([str(len(s['valid']))] + [str(v) for v in s['valid']]),
                                  common.rats(s['flux']), common.rats(s['error']))


def dec_exp(v):
    """e with 10^e <= |v| < 10^(e+1), exactly"""
    a = abs(Fraction(v))
    e = int(math.floor(math.log10(float(a))))
    while Fraction(10) ** e > a:
        e -= 1
    while Fraction(10) ** (e + 1) <= a:
        e += 1
    return e


def within_print(v, w):
    """|w - v| <= half a unit of the 4th significant digit of v (plus the rounding of reading w back)"""
    if v == 0:
        return w == 0
    tol = Fraction(1, 2) * Fraction(10) ** (dec_exp(v) - 3)
    return abs(Fraction(w) - Fraction(v)) <= tol * (1 + Fraction(1, 10 ** 9))


# ----------------------------------------------------------------------------- running

def run_lines(case, with_model=True):
    branches = set()
    nontrivial = False
    drv = common.driver() if with_model else None
    for line in case['lines']:
        toks = py_tokens(line)
        sp = spec(toks)
        got = impl_parse(line)
        if any(ch in line for ch in '\t') or '  ' in line.strip():
            branches.add('mixed_whitespace')
        # ---- the property on the implementation
        if sp[0] == 'eof':
            branches.add('eof')
            if got[0] != 'eof':
                return False, True, 'line %r has %d columns (< 3): expected EOFError, got %r' % (line, len(toks), got), branches, nontrivial
        elif sp[0] == 'error':
            nontrivial = True
            branches.add({'columns_mod1': 'reject_columns_mod1', 'columns_mod2': 'reject_columns_mod2',
                          'flag': 'reject_flag', 'flag_noninteger': 'reject_flag_noninteger',
                          'number': 'reject_number'}[sp[1]])
            if got[0] != 'error':
                return (False, True if sp[2] else None,
                        'line %r (%d columns, %s; flag columns %r) must be rejected with an error; from_ascii gave %r'
                        % (line, len(toks), sp[1], toks[3:3 + max(0, (len(toks) - 3) // 3)], got),
                        branches, nontrivial)
        else:
            f = sp[1]
            n = len(f['valid'])
            branches.add('accept_n0' if n == 0 else 'accept')
            if n >= 1:
                nontrivial = True
            if n == 12:
                branches.add('n12')
            vals = [f['x'], f['y']] + f['flux'] + f['error']
            if any(v != v or v in (float('inf'), float('-inf')) for v in vals):
                branches.add('spelling_inf_nan')
            if any('_' in t for t in toks[1:]):
                branches.add('spelling_underscore')
            if any(t != str(int(t)) for t in toks[3:3 + n]):
                branches.add('spelling_flag')
            if len(f['name']) > 30:
                branches.add('name_longer_than_30')
            if -999. in f['flux'] + f['error']:
                branches.add('placeholder_999')
            if any(v < 0 and v != -999. for v in f['flux'] + f['error']):
                branches.add('negative_value')
            if got[0] != 'ok' or not same_fields(got[1], f):
                return (False, True, 'line %r has 3*(%d+1) columns with valid flags: documented reading %r; from_ascii gave %r'
                        % (line, n, f, got), branches, nontrivial)
        # ---- correspondence with the model
        if with_model:
            m = model_answer(drv.ask('parse ' + hx(line)))
            if m[0] != got[0] or (m[0] == 'ok' and not same_fields(got[1], m[1])):
                return False, None, 'line %r: from_ascii gave %r; model gave %r' % (line, got, m), branches, nontrivial
            mt = drv.ask('split ' + hx(line))
            k = mt.nat()
            if [unhex(mt.tok()) for _ in range(k)] != line.split():
                return False, None, 'line %r: str.split() and the model\'s splitWs differ' % (line,), branches, nontrivial
    return True, None, '', branches, nontrivial


def via_copy(src, via):
    """the source as a caller may hold it: itself, or a shallow / deep / pickled copy"""
    if via == 'copy':
        return copy.copy(src)
    if via == 'deepcopy':
        return copy.deepcopy(src)
    if via == 'pickle':
        return pickle.loads(pickle.dumps(src, 2))
    return src


def make_src(s):
    src = pk.make_source(s['name'], s['valid'], s['flux'], s['error'], x=s['x'], y=s['y'])
    if s.get('valid_float'):
        src.valid = np.array(s['valid'], dtype=float)
    r = s.get('repr')
    if r:
        from sedfitter.source import Source
        src = Source()
        src.name = s['name']
        src.x = s['x']
        src.y = s['y']
        src.valid = container(r['valid'], s['valid'])
        src.flux = container(r['flux'], s['flux'])
        src.error = container(r['error'], s['error'])
    return src


def run_roundtrip(case, with_model=True):
    from sedfitter.source import Source
    branches = set()
    drv = common.driver() if with_model else None
    for i0, s0 in enumerate(case['sources']):
        via = [None, 'copy', 'deepcopy', 'pickle'][i0 % 4] if case.get('via_copies') else None
        src = via_copy(make_src(s0), via)
        if via:
            branches.add('source_via_copy')
        s = effective(s0)
        branches |= repr_branches(s0)
        try:
            line = src.to_ascii()
            back = Source.from_ascii(line=line) if i0 % 2 else Source.from_ascii(line)
            branches.add('keyword_call')
        except Exception as e:        # noqa
            return False, True, 'to_ascii/from_ascii raised %s: %s on %r' % (type(e).__name__, e, s), branches
        branches.add('roundtrip')
        if s.get('valid_float') and s['valid']:
            branches.add('valid_float_array')
        if len(s['name']) > 30:
            branches.add('name_longer_than_30')
        b = fields(back)
        ok = (b['name'] == s['name'] and b['valid'] == s['valid'] and len(b['flux']) == len(s['flux']) and
              len(b['error']) == len(s['error']) and
              abs(Fraction(b['x']) - Fraction(s['x'])) <= Fraction(1, 200000) * (1 + Fraction(1, 10 ** 9)) and
              abs(Fraction(b['y']) - Fraction(s['y'])) <= Fraction(1, 200000) * (1 + Fraction(1, 10 ** 9)) and
              all(within_print(v, w) for v, w in zip(s['flux'], b['flux'])) and
              all(within_print(v, w) for v, w in zip(s['error'], b['error'])))
        if not ok:
            return False, True, ('round trip through %r changed the source: wrote %r (held as %r), read back %r'
                                 % (line, s, s0.get('repr', 'float64 arrays'), b)), branches
        if -999. in s['flux'] + s['error']:
            branches.add('placeholder_999')
        if with_model:
            t = drv.ask('toascii ' + src_line(s))
            tag = t.tok()
            mline = unhex(t.tok()) if tag == 'S' else None
            if mline != line:
                return False, None, 'to_ascii text differs: impl %r, model %r' % (line, mline), branches
            m = model_answer(drv.ask('roundtrip ' + src_line(s)))
            if m[0] != 'ok' or not same_fields(b, m[1]):
                return False, None, 'from_ascii(to_ascii()) differs: impl %r, model %r' % (b, m), branches
            for v in s['flux'] + s['error']:
                t = drv.ask('fmt ' + common.rat(v))
                a = unhex(t.tok())
                p = unhex(t.tok())
                if a != '%.3e' % v or p != '{0:11.3e}'.format(v):
                    return False, None, 'fmt %r: Python %r, model %r' % (v, '{0:11.3e}'.format(v), p), branches
                branches.add('fmt_text')
            for v in (s['x'], s['y']):
                t = drv.ask('fmtf ' + common.rat(v))
                a = unhex(t.tok())
                p = unhex(t.tok())
                if p != '{0:9.5f}'.format(v):
                    return False, None, 'fmtf %r: Python %r, model %r' % (v, '{0:9.5f}'.format(v), p), branches
    return True, None, '', branches


def run_kept(case):
    """the lines of a data file parsed into a list; every source is inspected after ALL lines were parsed, then the
    first source's arrays are overwritten in place and the others inspected again (no shared storage)"""
    from sedfitter.source import Source
    branches = set()
    kept = []
    for line in case['lines']:
        sp = spec(py_tokens(line))
        if sp[0] != 'ok':
            if impl_parse(line)[0] == 'error' and kept:
                branches.add('parse_after_rejected_line')
            continue
        try:
            kept.append((line, sp[1], Source.from_ascii(line=line) if len(kept) % 2 else Source.from_ascii(line)))
        except Exception as e:        # noqa
            return False, True, 'from_ascii raised %s: %s on line %r' % (type(e).__name__, e, line), branches
    for stage in ('after all lines were parsed', 'after the arrays of the first source were overwritten in place'):
        for i, (line, f, src) in enumerate(kept):
            if stage.startswith('after the arrays') and i == 0:
                continue
            got = fields(src)
            if not same_fields(got, f):
                return False, True, ('source %d of %d kept from line %r reads %r %s; documented reading %r'
                                     % (i, len(kept), line, got, stage, f)), branches
        if kept and stage.startswith('after all'):
            first = kept[0][2]
            for a in (first.valid, first.flux, first.error):
                if len(a):
                    a[...] = 7
    if len(kept) >= 2:
        branches.add('kept_sources_same_columns' if case.get('same_columns') else 'kept_sources_mixed_columns')
    return True, None, '', branches


def neg_zero(v):
    return v == 0 and math.copysign(1., v) < 0


def run_chain(case, with_model=True):
    """from_ascii(line) -> to_ascii -> from_ascii (-> to_ascii -> from_ascii): the formatted object is the one the
    parser builds (np.float64 coordinates, platform-int flag array)"""
    from sedfitter.source import Source
    branches = set()
    drv = common.driver() if with_model else None
    for line in case['lines']:
        sp = spec(py_tokens(line))
        if sp[0] != 'ok':
            continue                   # only well-formed lines enter the chain (the others are compared in `lines` cases)
        try:
            p = Source.from_ascii(line)
            l2 = p.to_ascii()
            q = Source.from_ascii(l2)
            l3 = q.to_ascii()
            r = Source.from_ascii(l3)
        except Exception as e:        # noqa
            return False, True, 'parse -> format -> parse raised %s: %s on line %r' % (type(e).__name__, e, line), branches
        branches.add('parse_format_parse')
        fp, fq, fr = fields(p), fields(q), fields(r)
        ok = (fq['name'] == fp['name'] and fq['valid'] == fp['valid'] and len(fq['flux']) == len(fp['flux']) and
              len(fq['error']) == len(fp['error']) and
              abs(Fraction(fq['x']) - Fraction(fp['x'])) <= Fraction(1, 200000) * (1 + Fraction(1, 10 ** 9)) and
              abs(Fraction(fq['y']) - Fraction(fp['y'])) <= Fraction(1, 200000) * (1 + Fraction(1, 10 ** 9)) and
              all(within_print(v, w) for v, w in zip(fp['flux'], fq['flux'])) and
              all(within_print(v, w) for v, w in zip(fp['error'], fq['error'])))
        if not ok:
            return False, True, ('line %r parsed as %r, formatted as %r, parsed back as %r: not preserved to the printed precision'
                                 % (line, fp, l2, fq)), branches
        if fr != fq or l3 != l2:
            return False, None, 'a second format/parse pass is not a fixed point: %r -> %r -> %r' % (l2, fq, l3), branches
        if with_model:
            sd = dict(fp)
            m = model_answer(drv.ask('roundtrip ' + src_line(sd)))
            if m[0] != 'ok' or not same_fields(fq, m[1]):
                return False, None, 'from_ascii(to_ascii(from_ascii(%r))): impl %r, model %r' % (line, fq, m), branches
            if not any(neg_zero(v) for v in [fp['x'], fp['y']] + fp['flux'] + fp['error']):
                t = drv.ask('toascii ' + src_line(sd))
                tag = t.tok()
                mline = unhex(t.tok()) if tag == 'S' else None
                if mline != l2:
                    return False, None, 'to_ascii text of the parsed source differs: impl %r, model %r' % (l2, mline), branches
    return True, None, '', branches


def src_equal(a, b):
    """lossless in the property's sense: the six fields hold the same values"""
    return fields(a) == fields(b)


def src_same_types(a, b):
    """beyond the property (reported as model/implementation disagreement only): same container and element types"""
    return (type(a.name) is type(b.name) and type(a.x) is type(b.x) and type(a.y) is type(b.y) and
            all(type(getattr(a, k)) is type(getattr(b, k)) and
                # numpy itself stores arrays in native byte order for pickle protocols < 5: byte order is not compared
                np.asarray(getattr(a, k)).dtype.newbyteorder('=') == np.asarray(getattr(b, k)).dtype.newbyteorder('=')
                for k in ('valid', 'flux', 'error')))


def run_state(case, with_model=True):
    from sedfitter.source import Source
    branches = set()
    drv = common.driver() if with_model else None
    for i0, s0 in enumerate(case['sources']):
        via = [None, 'copy', 'deepcopy', 'pickle'][i0 % 4] if case.get('via_copies') else None
        src = via_copy(make_src(s0), via)
        if via:
            branches.add('source_via_copy')
        s = effective(s0)
        branches |= repr_branches(s0)
        held = fields(src)
        if (held['valid'], held['flux'], held['error']) != (s['valid'], s['flux'], s['error']):
            return False, True, 'the setters changed the values of %r (held as %r): %r' % (s, s0.get('repr'), held), branches
        try:
            d = src.to_dict()
            back = Source.from_dict(source_dict=d) if i0 % 2 else Source.from_dict(d)
        except Exception as e:        # noqa
            return False, True, 'to_dict/from_dict raised %s: %s on %r' % (type(e).__name__, e, s), branches
        if sorted(d) != ['error', 'flux', 'name', 'valid', 'x', 'y'] or not src_equal(src, back):
            return False, True, 'to_dict/from_dict changed the source %r: %r' % (s, fields(back)), branches
        if not src_same_types(src, back):
            return False, None, 'to_dict/from_dict changed a field type of %r' % (s,), branches
        if s.get('valid_float') and s['valid']:
            branches.add('valid_float_array')
        branches.add('dict_roundtrip')
        for proto in range(0, pickle.HIGHEST_PROTOCOL + 1):
            try:
                back = pickle.loads(pickle.dumps(src, proto))
            except Exception as e:    # noqa
                return False, True, 'pickle protocol %d raised %s: %s on %r' % (proto, type(e).__name__, e, s), branches
            if not src_equal(src, back):
                return False, True, 'pickle protocol %d changed the source %r: %r' % (proto, s, fields(back)), branches
            if not src_same_types(src, back):
                return False, None, 'pickle protocol %d changed a field type of %r' % (proto, s), branches
        # deepcopy goes through __getstate__/__setstate__ too, but is not named by the property: disagreement only
        back = copy.deepcopy(src)
        if not (src_equal(src, back) and src_same_types(src, back)):
            return False, None, 'deepcopy changed the source %r: %r' % (s, fields(back)), branches
        branches.add('pickle_roundtrip')
        if with_model:
            t = drv.ask('dict ' + src_line(s))
            if (t.tok(), t.tok()) != ('S', 'same'):
                return False, None, 'model fromDict(toDict s) is not the identity on %r' % (s,), branches
    return True, None, '', branches


def evaluate(case, with_model=True):
    if case['type'] == 'lines':
        ok, viol, detail, branches, nontrivial = run_lines(case, with_model)
    elif case['type'] == 'roundtrip':
        ok, viol, detail, branches = run_roundtrip(case, with_model)
        nontrivial = True
    elif case['type'] == 'chain':
        ok, viol, detail, branches = run_chain(case, with_model)
        nontrivial = True
    elif case['type'] == 'kept':
        ok, viol, detail, branches = run_kept(case)
        nontrivial = True
    else:
        ok, viol, detail, branches = run_state(case, with_model)
        nontrivial = True
    return ok, viol, detail, branches, nontrivial


def run_case(case):
    ok, viol, detail, branches, nontrivial = evaluate(case, True)
    if case['type'] in ('chain', 'kept'):
        sample = dict(type=case['type'], n_lines=len(case['lines']), first=case['lines'][:2])
    elif case['type'] == 'lines':
        sample = dict(type=case['type'], what=case['what'], n=case['n'], n_lines=len(case['lines']), first=case['lines'][:2])
    else:
        sample = dict(type=case['type'], n_sources=len(case['sources']), first=case['sources'][0])
    return CaseResult(ok, detail=detail, branches=branches, key=common.canon_hash(case), nontrivial=nontrivial,
                      sample=sample, violates=viol)


def search(seed, tier, disagreeing_cases):
    """the property evaluated directly on the implementation (no model): the disagreeing batches, then a fresh sweep"""
    found = []
    tried = 0
    for c in list(disagreeing_cases) + list(gen_cases(seed + 104729, tier)):
        ok, viol, detail, _, _ = evaluate(c, with_model=False)
        tried += len(c.get('lines') or c.get('sources'))
        if viol:
            found.append((c, detail))
            if len(found) >= 3:
                break
    return found, tried


def shrink(case):
    """keep only the first failing line / source of the batch"""
    if case['type'] == 'kept':
        return case
    key = 'lines' if case['type'] in ('lines', 'chain') else 'sources'
    items = case[key]
    for i in range(len(items)):
        c = dict(case)
        c[key] = [items[i]]
        try:
            ok, viol, _, _, _ = evaluate(c, with_model=False)
        except Exception:
            continue
        if viol:
            return c
    return case
