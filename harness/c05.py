"""C05 — selection tuples keep exactly the fits the syntax page promises.

Real side: `FitInfo.keep(selector)` on FitInfo objects built directly (public attributes) with a ranked
chi² vector and identifiable payloads in all six per-fit arrays; `n_fits` and every sliced array are
observed.  Model side: driver op `keep` (= `nData`, `nFits`, `keep` of Model/Select.lean over EF Rat).
Property side (independent of the model): the doc-page definition evaluated directly — the kept fits
must be exactly those whose criterion is below v, as a prefix, all arrays cut alike; selecting twice /
with a looser selector first must equal selecting once (metamorphic, on copies).
"""
import copy
import itertools
import os
import shutil
import tempfile
import math

import numpy as np

from . import common
from .common import CaseResult, case_rng, Fraction
from . import ef
from . import packages as pk
from . import c01

PID = 'C05'
RULE = ('cases = (ranked chi² vector over {1, 2, 3.5, +inf, NaN} of length 0..5 or a random longer ranked vector, '
        'source flag vector, one selector or a composition of two); thresholds lie on a quarter-integer grid (or '
        'between attained values) and never equal an attained criterion value; a case is non-trivial when the '
        'vector is non-empty; distinct = distinct canonical hash of (vector, flags, selectors)')
REQUIRED_BRANCHES = ['form_A', 'form_N', 'form_C', 'form_D', 'form_E', 'form_F', 'empty', 'tie', 'inf', 'nan',
                     'nan_first', 'inf_first', 'n_gt_total', 'n_fractional', 'keeps_none', 'keeps_all', 'keeps_some',
                     'cut_between_distinct', 'flags_non_fitted', 'ndata0_E', 'ndata0_F', 'ndata0_empty_flags', 'thr_pinf', 'thr_ninf', 'thr_nan', 'num_int', 'num_np_float64',
                     'num_np_int64', 'num_np_float32', 'fitted', 'fitted_from_fitter', 'fitted_from_file', 'fitted_pair', 'photometry_tiny_flux', 'photometry_huge_error', 'photometry_flag4_huge_error', 'keep_tuple', 'keep_list', 'keep_keyword', 'info_via_copy', 'info_via_deepcopy', 'info_via_pickle',
                     'nfits_read_before_keep', 'nfits_read_between_keeps', 'flags_edited_in_place', 'flags_edited_shared_array',
                     'flags_replaced_by_setter', 'ndata_changed_by_edit', 'fitted_flags_edited', 'pair_idem', 'pair_looser', 'pair_stricter', 'long']
ASSUMPTIONS = ['rounding of (chi2 - chi2[0]) / n_data is not modelled: thresholds are kept at least 1e-6 (relative) away '
               'from every attained criterion value, so the float and the exact comparison cannot differ',
               'n_data = 0 (no point flagged 1 or 4) is in the domain: chi2 / 0 follows IEEE (x/0 = +inf for x > 0, 0/0 = nan), '
               'so E and F keep nothing there; chi² values in the cases are never negative',
               "('N', n) with negative n is outside the property"]
EXHAUSTIVE = {'quick': False, 'thorough': True}
FORMS = ['A', 'N', 'C', 'D', 'E', 'F']
GRID = [q / 4. for q in range(-1, 17)]          # -0.25 .. 4.0
N_GRID = [0, 1, 2, 2.7, 3, 4, 5, 6, 9]
FLAG_SETS = [[1], [1, 4], [1, 1, 4], [1, 2, 4, 9, 1, 0, 3], [0, 2, 3, 9], []]      # n_data = 1, 2, 3, 3, 0, 0
N_QUICK = 3000
N_FITTED = {'quick': 25, 'thorough': 400}
NUMTYPES = ['float', 'float', 'float', 'int', 'np.float64', 'np.int64', 'np.float32']
SPECIAL_THR = [ef.INF, -ef.INF, ef.NAN]


# ----------------------------------------------------------------------------- the property, directly

def n_data_of(flags):
    return sum(1 for f in flags if f in (1, 4))


def ieee_div(x, n):
    """x / n in IEEE arithmetic for an integer n >= 0 (python raises on a zero divisor)"""
    if n != 0:
        return x / n
    if math.isnan(x) or x == 0:
        return ef.NAN
    return ef.INF if x > 0 else -ef.INF


def crit_value(form, c, c0, nd):
    """the quantity of the syntax page, in IEEE arithmetic (python floats)"""
    if form == 'C':
        return c
    if form == 'D':
        return c - c0
    if form == 'E':
        return ieee_div(c, nd)
    if form == 'F':
        return ieee_div(c - c0, nd)
    raise ValueError(form)


def attained(form, chi2, nd):
    """criterion values attained, as exact Fractions where finite (for the grid) and floats otherwise"""
    out = []
    for c in chi2:
        if nd == 0 and form in ('E', 'F'):
            out.append(crit_value(form, c, chi2[0], nd))        # +inf or nan: never equal to a finite threshold
            continue
        if form in ('D', 'F') and not (math.isfinite(c) and math.isfinite(chi2[0])):
            out.append(crit_value(form, c, chi2[0], nd))
            continue
        if not math.isfinite(c):
            out.append(crit_value(form, c, chi2[0], nd))
            continue
        x = Fraction(c)
        if form in ('D', 'F'):
            x = x - Fraction(chi2[0])
        if form in ('E', 'F'):
            x = x / nd
        out.append(x)
    return out


def avoids(form, v, chi2, nd):
    """v is not (nearly) equal to an attained criterion value"""
    if form in ('A', 'N') or v is None:
        return True
    if not math.isfinite(v):
        # +inf / -inf equal only an attained infinity of the same sign; NaN equals nothing
        return not any((not isinstance(a, Fraction)) and a == v for a in attained(form, chi2, nd))
    for a in attained(form, chi2, nd):
        if isinstance(a, Fraction):
            if abs(float(a) - v) <= 1e-6 * (1. + abs(v)):
                return False
        elif a == v:
            return False
    return True


def expected_count(sel, chi2, nd):
    """number of fits the syntax page says survive (they must be the first ones of the ranking)"""
    form, v = sel
    n = len(chi2)
    if form == 'A':
        return n
    if form == 'N':
        return min(int(v), n)
    keepers = [crit_value(form, c, chi2[0], nd) < v for c in chi2]
    k = sum(keepers)
    if keepers != [True] * k + [False] * (n - k):
        return None        # not a prefix: cannot happen for a ranked vector (C05_threshold)
    return k


# ----------------------------------------------------------------------------- generation

def ranked_vectors(maxlen=5):
    for n in range(maxlen + 1):
        for combo in itertools.combinations_with_replacement(range(len(ef.ALPHABET)), n):
            yield [ef.ALPHABET[i] for i in combo]


def selectors_for(chi2, flags):
    """every selector form with every grid threshold that avoids the attained values"""
    nd = n_data_of(flags)
    out = [('A', None)]
    out += [('N', n) for n in N_GRID]
    for form in 'CDEF':
        for v in GRID + SPECIAL_THR:
            if avoids(form, v, chi2, nd):
                out.append((form, v))
    return out


def typed_ok(form, v, numtype):
    """can the selector's number be given in this type without changing its value?"""
    if v is None or numtype == 'float':
        return True
    if numtype in ('int', 'np.int64'):
        return math.isfinite(v) and abs(v) < 2 ** 53 and v == int(v)
    if numtype == 'np.float32':
        return math.isnan(v) or float(np.float32(v)) == v
    return True


def typed_number(v, numtype):
    if v is None:
        return None
    if numtype == 'int':
        return int(v)
    if numtype == 'np.int64':
        return np.int64(int(v))
    if numtype == 'np.float64':
        return np.float64(v)
    if numtype == 'np.float32':
        return np.float32(v)
    return float(v)


EDIT_MODES = ['source', 'shared', 'setter']
# positive, finite photometry at the ends of the decades: the fitting weight of such a point underflows to 0, but it is
# still a point flagged 1 / 4 and n_data counts flags, not weights.  (Zero flux and infinite errors are outside C01-C03.)
PHOTOMETRY = {'tiny_flux': (1e-200, 1e-40), 'huge_error': (1e-150, 1e150), 'flag4_huge_error': (2.5, 1e200)}


def with_photometry(case, which):
    case['photometry'] = which
    return case


def set_photometry(info, which):
    """give the first point flagged 1 (or 4 for the flag-4 variant) the extreme values"""
    flux, err = PHOTOMETRY[which]
    want = 4 if which == 'flag4_huge_error' else 1
    v = np.asarray(info.source.valid)
    idx = [j for j in range(len(v)) if v[j] == want] or [j for j in range(len(v)) if v[j] in (1, 4)]
    if not idx:
        return False
    f = np.array(info.source.flux, dtype=float)
    e = np.array(info.source.error, dtype=float)
    f[idx[0]] = flux
    e[idx[0]] = err
    info.source.flux = f
    info.source.error = e
    return True



def with_flag_edit(case, flags_before, mode):
    """history on ONE Source object: it is created with `flags_before`, n_data is read (as fit() does for every source),
    then the flags become case['flags'] - edited in place through source.valid[i] = f ('source'), through the array the
    caller handed to the setter and still holds ('shared'), or by assigning a new array ('setter')"""
    assert len(flags_before) == len(case['flags'])
    case['flags_before'] = list(flags_before)
    case['edit'] = mode
    return case


def rand_flags_before(rng, flags):
    out = list(flags)
    for _ in range(rng.randint(1, max(1, len(flags)))):
        i = rng.randrange(len(flags))
        out[i] = rng.choice([0, 1, 2, 3, 4, 9])
    return out


def mk_case(chi2, flags, sels, tag=None, numtypes=None):
    """sels: (form, number) pairs; numtypes: per selector the Python type the number is passed in"""
    js = []
    for i, (f, v) in enumerate(sels):
        nt = (numtypes or ['float'] * len(sels))[i]
        if not typed_ok(f, v, nt):
            nt = 'float'
        js.append([f, None if v is None else ef.js(v)] + ([nt] if nt != 'float' else []))
    c = dict(chi2=[ef.js(x) for x in chi2], flags=list(flags), sels=js)
    if tag:
        c['tag'] = tag
    return c


def directed():
    """one block that reaches every branch the quantifier names"""
    I, Nn = ef.INF, ef.NAN
    yield mk_case([], [1, 1], [('N', 3)])
    yield mk_case([], [1, 1], [('D', 3.25)])
    yield mk_case([1, 2, 2, I, Nn], [1, 4, 2], [('A', None)])
    yield mk_case([1, 2, 2, I, Nn], [1, 4, 2], [('N', 9)])
    yield mk_case([1, 2, 2, I, Nn], [1, 4, 2], [('N', 2.7)])
    yield mk_case([1, 2, 2, I, Nn], [1, 4, 2], [('C', 2.5)])
    yield mk_case([1, 2, 2, I, Nn], [1, 4, 2], [('D', 0.5)])
    yield mk_case([1, 2, 2, I, Nn], [1, 4, 9, 0, 3, 1], [('E', 0.75)])
    yield mk_case([1, 2, 2, I, Nn], [1, 4, 9, 0, 3, 1], [('F', 0.25)])
    yield mk_case([I, I, Nn], [1], [('D', 1.)])
    # no fitted point at all: n_data = 0, chi2 / 0 is +inf (or nan for 0/0) and nothing is below v
    yield mk_case([1, 2, 2, I, Nn], [0, 2, 3, 9], [('E', 3.25)])
    yield mk_case([1, 2, 2, I, Nn], [0, 2, 3, 9], [('F', 3.25)])
    yield mk_case([1, 2, 3.5], [], [('E', 4.)])
    yield mk_case([1, 1, 2], [9, 9], [('F', 0.25), ('F', 0.25)])
    yield mk_case([1, 2, 3.5], [2, 3], [('N', 2), ('E', 3.75)])
    yield mk_case([Nn, Nn], [1], [('C', 10.)])
    yield mk_case([2, 2, 2], [1, 1], [('D', -0.25)])
    yield mk_case([2, 2, 2], [1, 1], [('F', 0.25)])
    yield mk_case([1, 2, 3.5, 3.5, I], [1, 1], [('C', 3.75), ('C', 3.75)])
    yield mk_case([1, 2, 3.5, 3.5, I], [1, 1], [('N', 4), ('F', 0.75)])
    yield mk_case([1, 2, 3.5, 3.5, I], [1, 1], [('C', 1.5), ('D', 2.)])
    yield mk_case([1, 2, 3.5, 3.5, I], [1, 4, 4], [('E', 1.), ('F', 0.25)])
    # thresholds +inf / -inf / NaN (not equal to any attained value), numbers given as int / numpy scalars
    yield mk_case([1, 2, 2, 3.5], [1, 4], [('C', I)])
    yield mk_case([1, 2, 2, 3.5, Nn], [1, 4], [('E', I), ('D', -I)])
    yield mk_case([1, 2, 2, I, Nn], [1, 4], [('F', Nn), ('C', Nn)])
    yield mk_case([1, 2, 2, I, Nn], [1, 4], [('D', -I)])
    yield mk_case([1, 2, 2, I, Nn], [1, 4, 2], [('N', 3), ('C', 3)], numtypes=['int', 'int'])
    yield mk_case([1, 2, 2, I, Nn], [1, 4, 2], [('N', 2), ('D', 0.5)], numtypes=['np.int64', 'np.float64'])
    yield mk_case([1, 2, 2, I, Nn], [1, 4, 2], [('E', 1.25), ('N', 2.5)], numtypes=['np.float32', 'np.float32'])
    yield mk_case([1, 2, 2, I, Nn], [1, 4, 2], [('F', 1), ('C', 4)], numtypes=['np.int64', 'int'])
    # a fitted point whose weight underflows is still a fitted point: thresholds between chi2/3 and chi2/2
    yield with_photometry(mk_case([1, 2, 3.5], [1, 1, 1], [('E', 1.5)]), 'tiny_flux')
    yield with_photometry(mk_case([1, 2, 3.5], [1, 1, 1], [('F', 1.)]), 'huge_error')
    yield with_photometry(mk_case([1, 2, 3.5, 3.5], [1, 4, 2], [('E', 1.5), ('F', 0.75)]), 'flag4_huge_error')
    yield with_photometry(mk_case([2, 2, 3.5, I], [4, 1, 0, 9], [('E', 1.5)]), 'tiny_flux')
    # the flags of the same Source object change between uses: n_data must follow the flags as they are now
    yield with_flag_edit(mk_case([1, 2, 2, 3.5, I], [1, 0, 0, 1], [('E', 0.75)]), [1, 1, 1, 1], 'source')
    yield with_flag_edit(mk_case([1, 2, 2, 3.5, I], [1, 0, 0, 1], [('F', 0.75)]), [1, 1, 1, 1], 'shared')
    yield with_flag_edit(mk_case([1, 2, 2, 3.5, I], [1, 4, 1, 1], [('E', 0.75), ('F', 0.5)]), [1, 0, 9, 2], 'source')
    yield with_flag_edit(mk_case([1, 2, 2, 3.5, I], [2, 3, 0, 9], [('E', 3.75)]), [1, 1, 4, 4], 'shared')
    yield with_flag_edit(mk_case([1, 2, 2, 3.5, I], [1, 0, 0, 1], [('E', 0.75)]), [1, 1, 1, 1], 'setter')
    for i in range(3):
        yield fitted_case(case_rng(0, PID, 'directed-fitted-%d' % i))
    rng = case_rng(0, PID, 'directed-long')
    yield long_case(rng, pair=False)
    yield long_case(rng, pair=True)


def long_case(rng, pair):
    n = rng.randint(6, 40)
    vals = []
    for _ in range(n):
        u = rng.random()
        if u < 0.08:
            vals.append(ef.INF)
        elif u < 0.14:
            vals.append(ef.NAN)
        elif u < 0.3 and vals and math.isfinite(vals[-1]):
            vals.append(vals[-1])                 # a tie
        else:
            vals.append(float('%.3g' % (10 ** rng.uniform(-1, 3))))
    vals.sort(key=ef.sort_key)
    nf = rng.randint(1, 7)
    flags = [rng.choice([0, 1, 1, 2, 3, 4, 9]) for _ in range(nf)]
    if n_data_of(flags) == 0 and rng.random() < 0.5:
        flags[rng.randrange(nf)] = rng.choice([1, 4])
    if rng.random() < 0.08:
        flags = [f for f in flags if f not in (1, 4)]           # n_data = 0
    sels = [rand_sel(rng, vals, flags) for _ in range(2 if pair else 1)]
    if pair and rng.random() < 0.3:
        sels[1] = sels[0]
    c = mk_case(vals, flags, sels, tag='long', numtypes=[rng.choice(NUMTYPES) for _ in sels])
    if flags and rng.random() < 0.25:
        with_flag_edit(c, rand_flags_before(rng, flags), rng.choice(EDIT_MODES))
    return c


def fitted_case(rng):
    """a result produced by Fitter.fit (and the same result read back from a fit file): the package, the law
    and the sources come from the C01 generator; the selectors are drawn at run time from `sel_seed` once the
    chi² values are known (thresholds between attained values)"""
    e2e = c01.gen_case(rng)
    return dict(kind='fitted', e2e=e2e, sel_seed=rng.randrange(10 ** 9))


def rand_sel(rng, chi2, flags):
    nd = n_data_of(flags)
    form = rng.choice(FORMS)
    if form == 'A':
        return ('A', None)
    if form == 'N':
        return ('N', rng.choice([0, 1, 2, 3, len(chi2), len(chi2) + 2, rng.randint(0, len(chi2) + 1) + 0.5]))
    fin = sorted({float(a) for a in attained(form, chi2, nd) if isinstance(a, Fraction)})
    for _ in range(50):
        if fin and rng.random() < 0.8:
            # between two attained values, or just outside the attained range
            i = rng.randint(0, len(fin))
            lo = fin[i - 1] if i > 0 else fin[0] - 1.
            hi = fin[i] if i < len(fin) else fin[-1] + 1.
            v = float('%.4g' % (lo + (hi - lo) * rng.uniform(0.2, 0.8)))
        else:
            v = rng.choice(GRID)
        if avoids(form, v, chi2, nd):
            return (form, v)
    return ('A', None)


def all_single_cases():
    for chi2 in ranked_vectors():
        for flags in FLAG_SETS:
            forms_nd = 'AN CDEF' if flags == FLAG_SETS[0] else 'EF'   # A, N, C, D do not read n_data
            for sel in selectors_for(chi2, flags):
                if sel[0] in forms_nd:
                    yield mk_case(chi2, flags, [sel])


def flag_edit_cases(chi2, rng):
    """E / F selectors on a source whose flags were edited after n_data had been read (all three ways)"""
    for before, after in (([1, 1, 1, 1], [1, 0, 0, 1]), ([1, 0, 9, 2], [1, 4, 1, 1]), ([1, 4], [2, 3]), ([0, 9], [1, 4])):
        sels = [x for x in selectors_for(chi2, after) if x[0] in 'EF']
        for mode in EDIT_MODES:
            for x in rng.sample(sels, min(3, len(sels))):
                yield with_flag_edit(mk_case(chi2, after, [x]), before, mode)


def pair_cases_for(chi2, flags, rng, per_pair):
    sels = selectors_for(chi2, flags)
    by_form = {f: [s for s in sels if s[0] == f] for f in FORMS}
    for f1 in FORMS:
        for f2 in FORMS:
            if not by_form[f1] or not by_form[f2]:
                continue
            for _ in range(per_pair):
                yield mk_case(chi2, flags, [rng.choice(by_form[f1]), rng.choice(by_form[f2])])
        # the same selector twice
        if by_form[f1]:
            s = rng.choice(by_form[f1])
            yield mk_case(chi2, flags, [s, s])


def gen_cases(seed, tier):
    for c in directed():
        yield c
    if tier == 'thorough':
        for c in all_single_cases():
            yield c
        i = 0
        for chi2 in ranked_vectors():
            rng = case_rng(seed, PID, 'pairs-%d' % i)
            i += 1
            for c in pair_cases_for(chi2, rng.choice(FLAG_SETS), rng, per_pair=3):
                yield c
            if chi2:
                for c in flag_edit_cases(chi2, rng):
                    yield c
        for k in range(4000):
            rng = case_rng(seed, PID, 'long-%d' % k)
            yield long_case(rng, pair=(k % 2 == 1))
        for k in range(N_FITTED[tier]):
            yield fitted_case(case_rng(seed, PID, 'fitted-%d' % k))
        return
    else:
        vecs = list(ranked_vectors())
        for k in range(N_QUICK):
            rng = case_rng(seed, PID, k)
            u = rng.random()
            if u < 0.12:
                yield long_case(rng, pair=rng.random() < 0.5)
                continue
            chi2 = rng.choice(vecs)
            flags = rng.choice(FLAG_SETS)
            sels = selectors_for(chi2, flags)
            if u < 0.55:
                c = mk_case(chi2, flags, [rng.choice(sels)], numtypes=[rng.choice(NUMTYPES)])
            else:
                s1 = rng.choice(sels)
                s2 = s1 if rng.random() < 0.25 else rng.choice(sels)
                c = mk_case(chi2, flags, [s1, s2], numtypes=[rng.choice(NUMTYPES), rng.choice(NUMTYPES)])
            if flags and rng.random() < 0.2:
                with_flag_edit(c, rand_flags_before(rng, flags), rng.choice(EDIT_MODES))
            elif n_data_of(flags) and rng.random() < 0.25:
                with_photometry(c, rng.choice(sorted(PHOTOMETRY)))
            yield c
    for k in range(N_FITTED[tier]):
        yield fitted_case(case_rng(seed, PID, 'fitted-%d' % k))


# ----------------------------------------------------------------------------- one case

def sel_tuple(s):
    """(form, number as float) of a JSON selector"""
    form, v = s[0], s[1]
    return (form, None if v is None else ef.unjs(v))


def sel_typed(s):
    """(form, number in the Python type the case asks for): what is handed to FitInfo.keep"""
    form, v = sel_tuple(s)
    return (form, typed_number(v, s[2] if len(s) > 2 else 'float'))


def sel_tok(s):
    form, v = s
    if form == 'A':
        return 'A 0'
    return '%s %s' % (form, ef.ef_tok(v))


class StaleNFits(Exception):
    pass


KEEP_STYLES = ['tuple', 'list', 'keyword']
VIA = ['none', 'copy', 'deepcopy', 'pickle']
_style_count = [0]


def call_keep(info, s, style):
    """FitInfo.keep(select_format): the selector as a tuple, as a list (any (form, number) pair is unpacked), or by keyword"""
    if style == 'list':
        info.keep(list(s))
    elif style == 'keyword':
        info.keep(select_format=tuple(s))
    else:
        info.keep(tuple(s))


def pass_through(info, via):
    """the result goes through copy.copy / copy.deepcopy / a pickle round trip before it is used"""
    import pickle
    if via == 'copy':
        return copy.copy(info)
    if via == 'deepcopy':
        return copy.deepcopy(info)
    if via == 'pickle':
        return pickle.loads(pickle.dumps(info, 2))
    return info


def apply_real(fresh, sels, peek='after'):
    """FitInfo.keep applied left to right on a fresh object; returns (list of n_fits, final rows).
    `n_fits` is read at the moments `peek` names: 'before' (also once before the first keep), 'after' (after every
    keep, hence also between composed keeps), 'end' (only after the last keep).  Whenever it is read it must be the
    number of fits the arrays hold at that moment."""
    _style_count[0] += 1
    k_ = _style_count[0]
    style = KEEP_STYLES[k_ % 3]
    via = VIA[(k_ // 3) % 4]
    info = pass_through(fresh(), via)
    apply_real.last = (style, via)
    ns = []
    with common.quiet():
        if peek == 'before':
            n0 = int(info.n_fits)
            if n0 != len(info.chi2):
                raise StaleNFits('n_fits = %d before any keep, but the result holds %d fits' % (n0, len(info.chi2)))
        for i, s in enumerate(sels):
            call_keep(info, s, style)
            if peek != 'end' or i == len(sels) - 1:
                n = int(info.n_fits)
                if n != len(info.chi2):
                    raise StaleNFits('after keep(%r)%s n_fits = %d, but chi2 (and every other per-fit array) holds %d fits'
                                     % (s, '' if peek != 'before' else ' (n_fits had been read once before the keep)',
                                        n, len(info.chi2)))
                ns.append(n)
            else:
                ns.append(len(info.chi2))
    return ns, ef.rows_of_info(info)


def cut(pay, chi2, n):
    """the payload and chi2 cut to the first n entries: what the property promises"""
    return dict(chi2=list(chi2[:n]), av=pay['av'][:n], sc=pay['sc'][:n], name=pay['name'][:n],
                model_id=pay['model_id'][:n], fluxes=None if pay['fluxes'] is None else pay['fluxes'][:n])


def evaluate(chi2, pay, flags, sels, typed, fresh, br, what):
    """C05 evaluated directly on the real code for one result and one or two selectors.
    sels: (form, float) pairs (the oracle's view); typed: the same selectors as handed to keep();
    fresh(): a new FitInfo holding the result.  Returns (ok, detail, real_ns, real_rows)."""
    nd = n_data_of(flags)
    n = len(chi2)
    import zlib
    _style_count[0] = zlib.crc32(('%s|%r' % (what, typed)).encode())       # call styles are a function of the case (replayable)
    try:
        singles = []
        for s, ts in zip(sels, typed):
            ns, rows = apply_real(fresh, [ts])
            br.add('keep_' + apply_real.last[0])
            if apply_real.last[1] != 'none':
                br.add('info_via_' + apply_real.last[1])
            how = ' [selector given as %s%s]' % (apply_real.last[0], '' if apply_real.last[1] == 'none'
                                                 else ', result passed through %s first' % apply_real.last[1])
            apply_real(fresh, [ts], peek='before')          # n_fits read once before the keep must not stick
            br.add('nfits_read_before_keep')
            k = expected_count(s, chi2, nd)
            if k is None:
                return False, 'harness: criterion not monotone on a ranked vector %r %r' % (chi2, s), None, None
            want = cut(pay, chi2, k)
            if ns[0] != k or not ef.rows_equal(rows, want):
                return (False, '%s%s: keep(%r) with n_data=%d kept n_fits=%d rows=%r; the property promises '
                        'the first %d fits of the ranking: %r' % (what, how, ts, nd, ns[0], rows, k, want), ns, rows)
            singles.append((ns[0], rows))
            if s[0] in 'CDEF' and n:
                br.add('keeps_none' if k == 0 else 'keeps_all' if k == n else 'keeps_some')
                if k < n and k > 0 and not ef.same(chi2[k - 1], chi2[k]):
                    br.add('cut_between_distinct')
        real_ns, real_rows = [singles[0][0]], singles[0][1]
        if len(sels) == 2:
            real_ns, real_rows = apply_real(fresh, typed)          # n_fits read between the two keeps and after
            br.add('nfits_read_between_keeps')
            apply_real(fresh, typed, peek='before')
            apply_real(fresh, typed, peek='end')
            n1, n2 = singles[0][0], singles[1][0]
            if sels[0] == sels[1]:
                br.add('pair_idem')
            elif n1 >= n2:
                br.add('pair_looser')
            else:
                br.add('pair_stricter')
            if n1 >= n2 and not ef.rows_equal(real_rows, singles[1][1]):
                return (False, '%s: keep(%r) keeps %d >= %d = what keep(%r) keeps, but keep(%r) after keep(%r) '
                        'gives %r while keep(%r) alone gives %r' % (what, typed[0], n1, n2, typed[1], typed[1], typed[0],
                                                                      real_rows, typed[1], singles[1][1]), real_ns, real_rows)
    except StaleNFits as e:
        return False, '%s, selectors %r: %s' % (what, typed, e), None, None
    except Exception as e:
        return False, '%s: FitInfo.keep raised %s: %s, selectors %r' % (what, type(e).__name__, e, typed), None, None
    return True, '', real_ns, real_rows


def property_side(case):
    """evaluate C05 directly on the real code; returns (ok, detail, branches, real_ns, real_rows)"""
    chi2 = [ef.unjs(x) for x in case['chi2']]
    flags = case['flags']
    sels = [sel_tuple(s) for s in case['sels']]
    typed = [sel_typed(s) for s in case['sels']]
    nd = n_data_of(flags)
    n = len(chi2)
    pay = payload_for(case)
    br = set()
    if n == 0:
        br.add('empty')
    if any(ef.same(a, b) for a, b in zip(chi2, chi2[1:])):
        br.add('tie')
    if any(c == ef.INF for c in chi2):
        br.add('inf')
    if any(math.isnan(c) for c in chi2):
        br.add('nan')
    if n and math.isnan(chi2[0]):
        br.add('nan_first')
    if n and chi2[0] == ef.INF:
        br.add('inf_first')
    if any(f not in (1, 4) for f in flags):
        br.add('flags_non_fitted')
    if nd == 0 and n:
        for f_, _ in sels:
            if f_ in ('E', 'F'):
                br.add('ndata0_' + f_)
        if not flags:
            br.add('ndata0_empty_flags')
    if case.get('tag') == 'long':
        br.add('long')
    for s, js in zip(sels, case['sels']):
        br.add('form_' + s[0])
        if s[0] == 'N' and s[1] > n:
            br.add('n_gt_total')
        if s[0] == 'N' and s[1] != int(s[1]):
            br.add('n_fractional')
        if s[0] in 'CDEF' and n:
            if s[1] == ef.INF:
                br.add('thr_pinf')
            elif s[1] == -ef.INF:
                br.add('thr_ninf')
            elif math.isnan(s[1]):
                br.add('thr_nan')
        if len(js) > 2 and s[0] != 'A':
            br.add('num_' + js[2].replace('.', '_'))
    what = 'chi2=%r flags=%r' % (case['chi2'], flags)
    fresh = lambda: ef.build_info(chi2, pay, flags=flags)
    if case.get('photometry'):
        which = case['photometry']
        what += ' (one fitted point has flux, error = %r, %r)' % PHOTOMETRY[which]

        def fresh():
            info = ef.build_info(chi2, pay, flags=flags)
            if set_photometry(info, which):
                br.add('photometry_' + which)
            return info
    if 'flags_before' in case:
        mode = case['edit']
        br.add({'source': 'flags_edited_in_place', 'shared': 'flags_edited_shared_array', 'setter': 'flags_replaced_by_setter'}[mode])
        if n_data_of(case['flags_before']) != nd:
            br.add('ndata_changed_by_edit')
        what += (' (the source was created with flags %r, n_data was read once, then the flags were changed %s)'
                 % (case['flags_before'], {'source': 'in place: source.valid[i] = f', 'setter': 'by assigning a new array',
                                           'shared': 'in place through the array the caller had handed to the setter'}[mode]))

        def fresh():
            info = ef.build_info(chi2, pay, flags=case['flags_before'])
            src = info.source
            arr = np.array(case['flags_before'], dtype=int)
            if mode == 'shared':
                src.valid = arr
            seen = int(src.n_data)
            if seen != n_data_of(case['flags_before']):
                raise StaleNFits('n_data = %d for flags %r' % (seen, case['flags_before']))
            if mode == 'source':
                for i_, f_ in enumerate(flags):
                    src.valid[i_] = f_
            elif mode == 'shared':
                arr[:] = flags
            else:
                src.valid = np.array(flags, dtype=int)
            return info
    ok, detail, ns, rows = evaluate(chi2, pay, flags, sels, typed, fresh, br, what)
    return ok, detail, br, ns, rows


def payload_for(case):
    n = len(case['chi2'])
    # model_id: a fixed derangement-like permutation, so that a slice of the wrong array is visible
    ids = [(3 * i + 1) % n for i in range(n)] if n % 3 else [(i + 1) % n for i in range(n)]
    return ef.payload(n, with_fluxes=(n % 2 == 0 or n > 5), ids=ids)


def ask_model(chi2, pay, flags, sels):
    line = ['keep', str(len(sels))] + [sel_tok(s) for s in sels]
    line += [str(len(flags))] + [str(f) for f in flags]
    line.append(ef.rows_line(chi2, pay))
    t = common.driver().ask(' '.join(line))
    ns = t.nats()
    rows = ef.parse_rows(t)
    return ns, rows


def model_side(case):
    chi2 = [ef.unjs(x) for x in case['chi2']]
    return ask_model(chi2, payload_for(case), case['flags'], [sel_tuple(s) for s in case['sels']])


# ----------------------------------------------------------------------------- results of Fitter.fit

def run_fitted(case, with_model=True):
    """keep() on what Fitter.fit returns (Quantity arrays) and on the same record read back from a fit file"""
    from sedfitter.fit_info import FitInfoFile
    d = tempfile.mkdtemp(prefix='c05_')
    br = {'fitted'}
    key = common.canon_hash(case)
    e2e = case['e2e']
    rng = case_rng(case['sel_seed'], PID, 'fitted-selectors')
    try:
        with common.quiet():
            fitter, names = c01.build(e2e, d)
        done = 0
        for si, src in enumerate(e2e['sources']):
            if c01.singular(e2e, src) or done >= 2:
                continue
            s = pk.make_source('s%d' % si, src['flags'], src['flux'], src['err'])
            with common.quiet():
                info = fitter.fit(s)
            rows = ef.rows_of_info(info)
            if not all(math.isfinite(x) for x in rows['av'] + rows['sc']) or not ef.is_ranked(rows['chi2']):
                continue
            done += 1
            chi2 = rows['chi2']
            pay = dict(av=rows['av'], sc=rows['sc'], name=rows['name'], model_id=rows['model_id'], fluxes=rows['fluxes'])
            flags = [int(f) for f in src['flags']]
            path = os.path.join(d, 'fit%d.fitinfo' % si)
            fout = FitInfoFile(path, 'w')
            fout.write(info)
            fout.close()

            def from_fitter():
                return copy.deepcopy(info)

            def from_file():
                f = FitInfoFile(path, 'r')
                try:
                    return next(iter(f))
                finally:
                    f.close()

            if not ef.rows_equal(ef.rows_of_info(from_file()), rows):
                return CaseResult(False, detail='source %d: the record read back from the fit file differs from what Fitter.fit '
                                  'returned' % si, violates=None, branches=br, key=key)
            # the fitted Source object lives on: n_data read, then one fitted band is dropped in place
            fitted_idx = [j for j, f in enumerate(flags) if f in (1, 4)]
            jdrop = rng.choice(fitted_idx)
            flags_edited = [0 if j == jdrop else f for j, f in enumerate(flags)]

            def edited():
                x = copy.deepcopy(info)
                x.source.n_data
                x.source.valid[jdrop] = 0
                return x

            for origin, fresh in (('fitter', from_fitter), ('file', from_file), ('edited', edited)):
                use_flags = flags_edited if origin == 'edited' else flags
                for trial in range(3):
                    sels = [rand_sel(rng, chi2, use_flags) for _ in range(rng.choice([1, 2]))]
                    if origin == 'edited':
                        sels = [rand_sel(rng, chi2, use_flags) for _ in range(12)]
                        sels = ([x for x in sels if x[0] in 'EF'] or sels)[:2]
                        br.add('fitted_flags_edited')
                    nts = [rng.choice(NUMTYPES) for _ in sels]
                    nts = [nt if typed_ok(f, v, nt) else 'float' for (f, v), nt in zip(sels, nts)]
                    typed = [(f, typed_number(v, nt)) for (f, v), nt in zip(sels, nts)]
                    if origin != 'edited':
                        br.add('fitted_from_' + origin)
                    if len(sels) == 2:
                        br.add('fitted_pair')
                    for f_, _ in sels:
                        br.add('form_' + f_)
                    what = 'result of Fitter.fit (%s) for source %d, chi2=%r, flags=%r' % (
                        {'fitter': 'as returned', 'file': 'read back from a fit file',
                         'edited': 'as returned; n_data read, then source.valid[%d] = 0 on the same Source object' % jdrop}[origin],
                        si, [ef.js(c) for c in chi2], use_flags)
                    ok, detail, ns, got = evaluate(chi2, pay, use_flags, sels, typed, fresh, br, what)
                    if not ok:
                        return CaseResult(False, detail=detail, violates=True, branches=br, key=key)
                    if with_model:
                        m_ns, m_rows = ask_model(chi2, pay, use_flags, sels)
                        if m_ns != ns or not ef.rows_equal(m_rows, got):
                            return CaseResult(False, detail='model and implementation differ (%s, selectors %r): model n_fits=%r rows=%r; '
                                              'impl n_fits=%r rows=%r' % (what, sels, m_ns, m_rows, ns, got),
                                              violates=None, branches=br, key=key)
        return CaseResult(True, branches=br, key=key, nontrivial=done > 0,
                          sample=dict(kind='fitted', n_models=len(e2e['models']), sources_used=done))
    finally:
        shutil.rmtree(d, ignore_errors=True)


def run_case(case):
    if case.get('kind') == 'fitted':
        return run_fitted(case)
    ok, detail, br, real_ns, real_rows = property_side(case)
    key = common.canon_hash(case)
    if not ok:
        return CaseResult(False, detail=detail, violates=True, branches=br, key=key)
    m_ns, m_rows = model_side(case)
    if m_ns != real_ns or not ef.rows_equal(m_rows, real_rows):
        return CaseResult(False, detail='model and implementation differ on %r: model n_fits=%r rows=%r; impl n_fits=%r rows=%r'
                          % (case, m_ns, m_rows, real_ns, real_rows), violates=None, branches=br, key=key)
    return CaseResult(True, branches=br, key=key, nontrivial=len(case['chi2']) > 0,
                      detail='impl n_fits=%r rows=%r\nmodel n_fits=%r rows=%r' % (real_ns, real_rows, m_ns, m_rows),
                      sample=dict(case=case, n_fits=real_ns))


def search(seed, tier, disagreeing):
    """falsifier: the property evaluated on the real code only (no model, no driver)"""
    found = []
    tried = 0
    pool = list(disagreeing) + list(itertools.islice(gen_cases(seed, 'quick'), 1500))
    for case in pool:
        tried += 1
        if case.get('kind') == 'fitted':
            r = run_fitted(case, with_model=False)
            ok, detail = r.ok, r.detail
        else:
            ok, detail, _, _, _ = property_side(case)
        if not ok:
            found.append((case, detail))
            if len(found) >= 5:
                break
    return found, tried


def in_domain(case):
    chi2 = [ef.unjs(x) for x in case['chi2']]
    nd = n_data_of(case['flags'])
    return ef.is_ranked(chi2) and all(avoids(s_[0], None if s_[1] is None else ef.unjs(s_[1]), chi2, nd)
                                      for s_ in case['sels'])


def shrink(case):
    if case.get('kind') == 'fitted':
        return case

    def fails(c):
        try:
            return in_domain(c) and not property_side(c)[0]
        except Exception:
            return False
    cur = case
    changed = True
    while changed:
        changed = False
        for i in range(len(cur['chi2'])):
            c = dict(cur)
            c['chi2'] = cur['chi2'][:i] + cur['chi2'][i + 1:]
            if fails(c):
                cur = c
                changed = True
                break
        if not changed and len(cur['sels']) == 2:
            for i in range(2):
                c = dict(cur)
                c['sels'] = [cur['sels'][i]]
                if fails(c):
                    cur = c
                    changed = True
                    break
    return cur
