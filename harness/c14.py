"""C14 — the extinction law is normalised at V, unit-free and zero outside its table.

Correspondence: Extinction.get_av(wavelengths) for generated opacity tables (2..200 rows, wavelengths in
micron / nm / m, opacities in cm^2/g / m^2/kg / cm^2/kg / m^2/g), used directly, after a pickle round trip, after
to_table/from_table, and after Extinction.from_file with a column selection; queries inside / outside / on
nodes / at V in micron, nm, m.  Model side: driver op `getav` (SF.getAv, exact rationals) on the table,
V = 0.55 micron and the queries converted to the table's wavelength unit in float exactly as the code does.
Metamorphic checks on the implementation alone: chi x constant, opacity unit, wavelength unit.
Falsifier: the formula -0.4*chi(lambda)/chi(V) with exact linear interpolation in Python Fractions.
"""
import bisect
import copy
import math
import os
import pickle
import shutil
import tempfile

import numpy as np

from . import common
from .common import CaseResult, rat, rats, case_rng, nice, Fraction
from . import packages as pk

PID = 'C14'
RULE = ('cases = (opacity table in increasing wavelength covering 0.55 micron, wavelength unit, opacity unit, access '
        'path direct/pickle/table/file+columns, query wavelengths with their unit, and a history on the one object after the '
        'first get_av: chi rescaled / replaced, wav re-assigned (other unit, other grid), table and pickle round trips, aliasing '
        '(the table given to from_table / returned by to_table is modified in place afterwards, the original is changed after '
        'pickling: the law must not change), '
        'get_av after each step); non-trivial when at least one query '
        'falls strictly inside the table away from V; distinct = distinct canonical hash of the generated inputs')
REQUIRED_BRANCHES = ['query_inside', 'query_outside_low', 'query_outside_high', 'query_on_node', 'query_at_V',
                     'tab_micron', 'tab_nm', 'tab_m', 'tab_AA', 'tab_cm', 'tab_mm',
                     'query_micron', 'query_nm', 'query_m', 'query_AA', 'query_cm', 'query_mm',
                     'query_shape_0d', 'query_shape_1d', 'query_shape_2d', 'v_first_node', 'v_last_node', 'end_node_exact_strict', 'end_node_is_V_strict',
                     'chi_cm2_g', 'chi_m2_kg', 'chi_cm2_kg', 'chi_m2_g', 'via_direct', 'via_pickle', 'via_table', 'via_file', 'file_columns_1_0', 'file_columns_0_3', 'file_columns_2_1',
                     'file_positional_call', 'file_keyword_call',
                     'rows_2', 'rows_200',
                     'hist_chi_scale', 'hist_chi_new', 'hist_wav_unit', 'hist_wav_new', 'hist_table', 'hist_pickle',
                     'hist_dup_modify', 'dup_copy_copy_modified', 'dup_copy_original_modified', 'dup_deepcopy_copy_modified',
                     'dup_deepcopy_original_modified', 'dup_pickle_copy_modified', 'dup_pickle_original_modified', 'arr_f8', 'arr_f4', 'arr_i8', 'arr_be', 'arr_ro', 'hist_alias_from_table', 'hist_alias_to_table', 'hist_alias_pickle']
ASSUMPTIONS = ['IEEE rounding is not modelled: patterns compared within 1e-9 relative (exactly 0 outside the table)',
               'decision margin (only for queries given in ANOTHER unit than the table, i.e. when a float unit conversion takes '
               'place; a query in the table\'s own unit is compared strictly, also exactly on the first / last node): '
               'a query (or V used as a query) that, converted exactly to the table unit, lies within 4 ulp of '
               'the first / last node sits on the jump between the tabulated end value and 0; the float unit conversion '
               '(wav.to(self.wav.unit)) decides the side, so either value is accepted there and the query is counted in '
               'margin_relaxed; everywhere else, including V strictly inside the table, the comparison is strict',
               'tables strictly increasing in wavelength, positive opacities, covering 0.55 micron',
               'unit conversions of table / V / queries are done by astropy in float on the harness side exactly as '
               'get_av does (wav.to(self.wav.unit)); the model receives those floats']
N = {'quick': 1000, 'thorough': 80000}
UNIT_EXP = {'micron': 0, 'nm': 3, 'm': -6, 'AA': 4, 'cm': -4, 'mm': -3}     # 1 micron = 10**exp units
BOUNDARY_FINDING = 'Extinction.get_av:boundary-unit-conversion'   # match key for KNOWN_FINDINGS.txt
# a query / V that lies inside the table in exact arithmetic but is moved 1 ulp outside by the float unit conversion
# makes get_av return 0 there.  False: such inputs are counted (branch `boundary_conversion_outside`) and shown in the
# evidence; True: they fail the check with the finding key above.
REPORT_BOUNDARY_FINDING = False
BOUNDARY_NOTES = []
VIAS = ['direct', 'pickle', 'table', 'file']
ARR_KINDS = ['f8', 'f8', 'f8', 'f4', 'i8', 'be', 'ro']
CHI_UNITS = ['cm2/g', 'm2/kg', 'cm2/kg', 'm2/g']


def dec(mant, exp):
    """float with a short decimal representation: mant (string of a decimal number) x 10**exp"""
    return float('%se%d' % (mant, exp))


def in_unit(um_mant, um_exp, unit):
    return dec(um_mant, um_exp + UNIT_EXP[unit])


def gen_mant(rng, lo, hi, digits=3):
    """(mantissa string, exponent) of a number in [lo, hi] micron with few digits"""
    x = nice(rng, lo, hi, digits)
    s = '%.*e' % (digits - 1, x)
    m, e = s.split('e')
    return m, int(e)


def gen_case(rng, directed=None):
    directed = directed or {}
    nrows = directed.get('rows') or rng.choice([2, 2, 3, 4, 5, 8, 12, 20, 40, 80, 200])
    tab_unit = directed.get('tab_unit') or rng.choice(list(UNIT_EXP))
    chi_unit = directed.get('chi_unit') or rng.choice(CHI_UNITS)
    via = directed.get('via') or rng.choice(VIAS)
    # table nodes in micron as (mantissa, exponent); must cover 0.55
    lo = gen_mant(rng, 0.01, 0.5, 2)
    hi = gen_mant(rng, 0.6, 5000., 2)
    v_node = directed.get('v_node') or (rng.choice(['first', 'last']) if rng.random() < 0.08 else None)
    if v_node == 'first':
        lo = ('5.5', -1)                 # the table starts exactly at V
    elif v_node == 'last':
        hi = ('5.5', -1)                 # the table ends exactly at V
    lo_f, hi_f = dec(*lo), dec(*hi)
    nodes = {lo, hi}
    tries = 0
    while len(nodes) < nrows and tries < 20 * nrows:
        tries += 1
        nodes.add(gen_mant(rng, lo_f, hi_f, 4 if nrows > 50 else 3))
    if rng.random() < 0.3 and nrows > 2:
        nodes.add(('5.5', -1))          # V itself is a node
    nodes = sorted(nodes, key=lambda me: dec(*me))
    # strictly increasing as floats in the table unit
    tab = []
    for me in nodes:
        v = in_unit(me[0], me[1], tab_unit)
        if not tab or v > tab[-1][1]:
            tab.append((me, v))
    nodes = [t[0] for t in tab]
    wav = [t[1] for t in tab]
    # opacities: positive, smooth random walk in log space
    c = nice(rng, 1., 1e4, 3)
    chi = []
    for _ in wav:
        c = min(max(c * 10 ** rng.uniform(-0.7, 0.5), 1e-2), 1e6)
        chi.append(float('%.4g' % c))
    # queries
    queries = []
    for qunit in (directed.get('query_units') or rng.sample(list(UNIT_EXP), rng.randint(1, 3))):
        vals = []
        for _ in range(rng.randint(2, 6)):
            vals.append(in_unit(*gen_mant(rng, lo_f, hi_f, 4), unit=qunit))
        vals.append(in_unit(*gen_mant(rng, lo_f * 0.01, lo_f * 0.99, 3), unit=qunit))
        vals.append(in_unit(*gen_mant(rng, hi_f * 1.01, hi_f * 100., 3), unit=qunit))
        for me in rng.sample(nodes, min(len(nodes), 3)) + [nodes[0], nodes[-1]]:
            vals.append(in_unit(me[0], me[1], qunit))
        vals.append(in_unit('5.5', -1, qunit))
        rng.shuffle(vals)
        shape = rng.choice(['1d', '1d', '2d', '0d'])
        if shape == '0d':
            vals = vals[:1] if rng.random() < 0.5 else [in_unit('5.5', -1, qunit)]
        elif shape == '2d' and len(vals) % 2:
            vals = vals[:-1]
        queries.append(dict(unit=qunit, values=vals, shape=shape))
    # numeric representation of the arrays handed to the wav / chi setters: float64, float32, integer opacities,
    # big-endian float64, read-only float64; the model gets the exact stored values
    arr = directed.get('arr') or (rng.choice(ARR_KINDS) if via != 'file' else 'f8')
    if arr == 'f4':
        w32 = [float(np.float32(w)) for w in wav]
        v32 = in_unit('5.5', -1, tab_unit)
        if v_node or not all(a < b for a, b in zip(w32[:-1], w32[1:])) or not (w32[0] < v32 < w32[-1]):
            arr = 'f8'
        else:
            wav = w32
            chi = [float(np.float32(c)) for c in chi]
    elif arr == 'i8':
        chi = [float(max(1, int(round(c)))) for c in chi]
    case = dict(tab_unit=tab_unit, chi_unit=chi_unit, via=via, wav=wav, chi=chi, queries=queries, v_node=v_node, arr=arr,
                chi_factor=rng.choice([2., 0.1, 1e3, 7.3, 1e-4]),
                alt_unit=rng.choice([k for k in UNIT_EXP if k != tab_unit]))
    # history on the one object: each step is followed by get_av on all queries
    hist = directed.get('history')
    if hist is None:
        hist = [rng.choice(HIST_OPS) for _ in range(rng.randint(1, 3))]
    if arr == 'f4':
        # single-precision arrays stay single precision under `chi * c` / `.to(unit)`: keep to steps that hold exact values
        hist = [op for op in hist if op not in ('chi_scale', 'wav_unit')]
    case['history'] = [gen_step(rng, op, len(wav), tab_unit) for op in hist]
    if via == 'file':
        ncols = rng.randint(2, 5)
        cols = rng.sample(range(ncols), 2)
        if directed.get('columns'):
            cols = list(directed['columns'])
            ncols = max(directed.get('ncols', 2), max(cols) + 1)
        case['file'] = dict(ncols=ncols, columns=cols, positional=bool(rng.random() < 0.5), filler=[float('%.3g' % rng.uniform(-5, 5)) for _ in range(ncols)])
    return case


HIST_OPS = ['chi_scale', 'chi_scale', 'chi_new', 'chi_new', 'wav_unit', 'wav_new', 'table', 'pickle',
            'alias_from_table', 'alias_from_table', 'alias_to_table', 'alias_pickle', 'dup_modify', 'dup_modify', 'dup_modify']


def gen_step(rng, op, n, tab_unit):
    if op.startswith('dup_modify:'):
        _, kind, target = op.split(':')
        st = gen_step(rng, 'dup_modify', n, tab_unit)
        return dict(st, kind=kind, target=target)
    if op == 'chi_scale':
        return dict(op=op, c=rng.choice([7.5, 0.1, 1e3, 2., 3e-4]))
    if op == 'chi_new':
        c = nice(rng, 1., 1e4, 3)
        chi = []
        for _ in range(n):
            c = min(max(c * 10 ** rng.uniform(-0.5, 0.7), 1e-2), 1e6)
            chi.append(float('%.4g' % c))
        return dict(op=op, chi=chi)
    if op == 'wav_unit':
        return dict(op=op, unit=rng.choice(list(UNIT_EXP)))
    if op == 'wav_new':
        return dict(op=op, f=rng.choice([0.5, 0.8, 0.25]))
    if op == 'dup_modify':
        c = nice(rng, 1., 1e4, 3)
        chi = []
        for _ in range(n):
            c = min(max(c * 10 ** rng.uniform(-0.5, 0.7), 1e-2), 1e6)
            chi.append(float('%.4g' % c))
        return dict(op=op, kind=rng.choice(['copy', 'copy', 'deepcopy', 'pickle']), target=rng.choice(['copy', 'original']), chi=chi)
    if op.startswith('alias_'):
        return dict(op=op, c=rng.choice([7.5, 0.1, 3.]), unit=rng.choice([k for k in UNIT_EXP if k != tab_unit]))
    return dict(op=op)


DIRECTED = [
    dict(rows=2, tab_unit='micron', chi_unit='cm2/g', via='direct', query_units=['micron', 'nm', 'm'],
         history=['chi_scale', 'alias_from_table', 'dup_modify:copy:copy', 'chi_new'], arr='i8'),
    dict(rows=200, tab_unit='nm', chi_unit='m2/kg', via='pickle', query_units=['nm', 'micron'],
         history=['chi_new', 'dup_modify:copy:original', 'alias_to_table', 'wav_unit', 'chi_scale'], arr='be'),
    dict(rows=5, tab_unit='m', chi_unit='cm2/g', via='table', query_units=['m', 'micron'],
         history=['wav_new', 'dup_modify:deepcopy:copy', 'alias_pickle', 'chi_scale', 'table', 'alias_from_table'], arr='ro'),
    dict(rows=12, tab_unit='micron', chi_unit='m2/kg', via='file', query_units=['micron', 'm'],
         history=['pickle', 'dup_modify:pickle:copy', 'chi_scale', 'dup_modify:deepcopy:original', 'wav_new']),
    dict(rows=200, tab_unit='m', chi_unit='m2/kg', via='file', query_units=['nm'], history=['chi_scale', 'dup_modify:pickle:original']),
    dict(rows=2, tab_unit='nm', chi_unit='cm2/g', via='table', query_units=['nm', 'm'], history=['table', 'pickle']),
    dict(rows=8, tab_unit='nm', chi_unit='m2/kg', via='table', query_units=['nm', 'micron'], arr='f4',
         history=['table', 'chi_new', 'alias_from_table']),
    dict(rows=3, tab_unit='micron', chi_unit='cm2/g', via='pickle', query_units=['micron'],
         history=['wav_unit', 'chi_new', 'wav_new']),
]


# column selections of the text-file reader on files with 2..5 columns
for _cols, _n in (((1, 0), 2), ((0, 3), 4), ((2, 1), 3), ((0, 3), 5), ((1, 0), 5), ((2, 1), 4), ((4, 2), 5), ((0, 1), 2)):
    DIRECTED.append(dict(rows=6, via='file', columns=_cols, ncols=_n, history=['chi_scale']))
# V = 0.55 micron as the first / last node of the table, in every wavelength unit; queries in another unit too
for _k, _unit in enumerate(['micron', 'nm', 'AA', 'cm', 'm', 'mm']):
    _other = ['cm', 'micron', 'micron', 'micron', 'AA', 'nm'][_k]
    DIRECTED.append(dict(rows=[3, 2, 5][_k % 3], tab_unit=_unit, v_node='first', via=VIAS[_k % 4], chi_unit=CHI_UNITS[_k % 4],
                         query_units=[_unit, 'micron', _other], history=['chi_scale']))
    DIRECTED.append(dict(rows=[4, 2, 12][_k % 3], tab_unit=_unit, v_node='last', via=VIAS[(_k + 1) % 4], chi_unit=CHI_UNITS[(_k + 2) % 4],
                         query_units=['micron', _unit, _other], history=['chi_new']))


def gen_cases(seed, tier):
    for i in range(N[tier]):
        rng = case_rng(seed, PID, i)
        yield gen_case(rng, DIRECTED[i] if i < len(DIRECTED) else None)


# ----------------------------------------------------------------------------- real side

def units():
    from astropy import units as u
    return {'micron': u.micron, 'nm': u.nm, 'm': u.m, 'AA': u.AA, 'cm': u.cm, 'mm': u.mm, 'cm2/kg': u.cm ** 2 / u.kg,
            'm2/g': u.m ** 2 / u.g, 'cm2/g': u.cm ** 2 / u.g, 'm2/kg': u.m ** 2 / u.kg}


def build(case, d, wav=None, chi=None, tab_unit=None, chi_unit=None, via=None):
    plain = wav is not None or chi is not None      # metamorphic variants are built from plain float64 arrays
    """the Extinction object under test, through the public API"""
    from astropy import units as u
    from sedfitter.extinction import Extinction
    U = units()
    wav = case['wav'] if wav is None else wav
    chi = case['chi'] if chi is None else chi
    wu = U[tab_unit or case['tab_unit']]
    cu = U[chi_unit or case['chi_unit']]
    via = via or case['via']
    if via == 'file':
        fi = case['file']
        path = os.path.join(d, 'law_%d.txt' % len(os.listdir(d)))
        with open(path, 'w') as fh:
            fh.write('# generated opacity table\n')
            for w, c in zip(wav, chi):
                row = list(fi['filler'])
                row[fi['columns'][0]] = w
                row[fi['columns'][1]] = c
                fh.write(' '.join('%r' % float(v) for v in row) + '\n')
        if fi.get('positional'):
            return Extinction.from_file(path, tuple(fi['columns']), wu, cu)
        return Extinction.from_file(path, columns=tuple(fi['columns']), wav_unit=wu, chi_unit=cu)
    e = Extinction()
    kind = case.get('arr', 'f8') if not plain else 'f8'
    wa = np.array(wav, dtype={'f4': np.float32, 'be': '>f8'}.get(kind, float))
    ca = np.array(chi, dtype={'f4': np.float32, 'be': '>f8', 'i8': np.int64}.get(kind, float))
    if kind == 'ro':
        wa.setflags(write=False)
        ca.setflags(write=False)
    e.wav = wa * wu
    e.chi = ca * cu
    if via == 'pickle':
        e = pickle.loads(pickle.dumps(e))
    elif via == 'table':
        e = Extinction.from_table(e.to_table())
    return e


class PatternUnitError(ValueError):
    pass


def av_values(e, vals, unit, shape='1d'):
    """get_av on a 0-d, 1-d or 2-D Quantity; the result flattened in C order"""
    from astropy import units as u
    a = np.array(vals, dtype=float)
    if shape == '0d':
        q = float(a[0]) * unit
    elif shape == '2d':
        q = a.reshape(2, -1) * unit
    else:
        q = a * unit
    r = e.get_av(q)
    # the pattern is unit-free: a plain array, or a Quantity whose unit is exactly dimensionless-unscaled (scale 1,
    # no bases); its bare numbers (.value) are what multiplies A_V in the fitter and what is compared with the model
    if isinstance(r, u.Quantity):
        if len(r.unit.bases) != 0 or r.unit.scale != 1:
            raise PatternUnitError('get_av returned a Quantity in %r (scale %r) instead of a bare / dimensionless-unscaled '
                                   'pattern; bare numbers %r' % (r.unit.to_string(), r.unit.scale,
                                                                 np.ravel(r.value)[:3].tolist()))
        out = np.asarray(r.value, dtype=float)
    else:
        out = np.asarray(r, dtype=float)
    if shape == '2d' and out.shape != (2, len(vals) // 2):
        raise ValueError('get_av returned shape %r for a (2, %d) query' % (out.shape, len(vals) // 2))
    return out.ravel()


# ----------------------------------------------------------------------------- independent exact oracle

class ExactLaw(object):
    """-0.4*chi(x)/chi(V): chi linear between nodes, 0 outside (numerator), edge value outside (denominator)"""

    def __init__(self, wav, chi):
        self.W = [Fraction(w) for w in wav]
        self.C = [Fraction(c) for c in chi]

    def interp(self, t, left, right):
        W, C = self.W, self.C
        t = Fraction(t)
        if t < W[0]:
            return left
        if t > W[-1]:
            return right
        j = bisect.bisect_left(W, t)
        if W[j] == t:
            return C[j]
        return C[j - 1] + (C[j] - C[j - 1]) * (t - W[j - 1]) / (W[j] - W[j - 1])

    def av(self, v, x):
        return Fraction(-2, 5) * self.interp(x, 0, 0) / self.interp(v, self.C[0], self.C[-1])


def exact_av(wav, chi, v, x):
    return ExactLaw(wav, chi).av(v, x)


def nominal(value):
    """the decimal number a float was written as (shortest repr), exactly"""
    return Fraction(repr(float(value)))


def nominal_in_unit(value, from_unit, to_unit):
    """the nominal (decimal) `value` [from_unit] expressed in `to_unit` with the exact power-of-ten factor"""
    return nominal(value) * Fraction(10) ** (UNIT_EXP[to_unit] - UNIT_EXP[from_unit])


# ----------------------------------------------------------------------------- one case

def same(a, m, tol=1e-9):
    m = float(m)
    return np.isfinite(a) and abs(float(a) - m) <= tol * abs(m)


def compare(e, wav, chi, tab_unit, queries, drv, branches, label, via, relaxed):
    """get_av of the object `e` on all queries against the model for the table (wav, chi) it holds now;
    returns (failing CaseResult or None, nontrivial)"""
    from astropy import units as u
    U = units()
    wu = U[tab_unit]
    v = float(([0.55] * u.micron).to(wu).value[0])
    lo, hi = wav[0], wav[-1]
    nodeset = set(wav)
    tab_txt = ' '.join('%s %s' % (rat(w), rat(c)) for w, c in zip(wav, chi))
    nontrivial = False
    exact = None
    for q in queries:
        qu = U[q['unit']]
        branches.add('query_' + q['unit'])
        branches.add('query_shape_' + q.get('shape', '1d'))
        try:
            with common.quiet():
                got = av_values(e, q['values'], qu, q.get('shape', '1d'))
        except Exception as ex:
            return CaseResult(False, violates=True, branches=sorted(branches),
                              detail=('%s: %s' % (label, ex)) if isinstance(ex, PatternUnitError) else
                              '%s: get_av raised %s: %s' % (label, type(ex).__name__, ex)), nontrivial
        xs = [float(x) for x in (np.array(q['values'], dtype=float) * qu).to(wu).value]
        t = drv.ask('getav %s %d %s %s' % (rat(v), len(wav), tab_txt, rats(xs)))
        model = t.rats()
        if len(got) != len(model):
            return CaseResult(False, violates=True,
                              detail='%s: get_av returned %d values for %d wavelengths' % (label, len(got), len(model))), nontrivial
        for x, g, m, raw in zip(xs, got, model, q['values']):
            if x < lo:
                branches.add('query_outside_low')
            elif x > hi:
                branches.add('query_outside_high')
            elif x in nodeset:
                branches.add('query_on_node')
            else:
                branches.add('query_inside')
                nontrivial = True
            if x == v:
                branches.add('query_at_V')
            # decision margin: the point as written, converted exactly, lies within 4 ulp of an end node of the table,
            # where the pattern jumps between the tabulated end value and 0; the float conversion decides the side
            xe = nominal_in_unit(raw, q['unit'], tab_unit)
            near = [w for w in (lo, hi) if abs(xe - Fraction(w)) <= 4 * Fraction(math.ulp(w))]
            if near and q['unit'] == tab_unit:
                # no unit conversion takes place: the query IS the float it was written as; on an end node the tabulated
                # value is required (strict comparison below), next to it the strict inside / outside value
                near = []
                if x == lo or x == hi:
                    branches.add('end_node_exact_strict')
                    if x == v:
                        branches.add('end_node_is_V_strict')
            if near:
                relaxed[0] += 1
                branches.add('margin_relaxed_end_node')
                if exact is None:
                    exact = ExactLaw([nominal(w) for w in wav], chi)
                end_val = exact.av(nominal_in_unit(0.55, 'micron', tab_unit), nominal(near[0]))
                if not (float(g) == 0. or same(g, end_val) or same(g, m)):
                    return CaseResult(False, violates=True, branches=sorted(branches),
                                      detail=('%s: query %r %s within 4 ulp of the end node %r %s: get_av = %r is neither 0 nor the '
                                              'tabulated end value %r' % (label, raw, q['unit'], near[0], tab_unit, float(g),
                                                                          float(end_val)))), nontrivial
                if float(g) == 0. and (x < lo or x > hi):
                    branches.add('boundary_conversion_outside')
                continue
            if same(g, m) and float(g) == 0. and (x < lo or x > hi):
                # get_av says "outside the table": is the query, as written (decimal, exact power of ten between the
                # units), really outside the table as written?  If not, the float unit conversion moved it out.
                if exact is None:
                    exact = ExactLaw([nominal(w) for w in wav], chi)
                want = exact.av(nominal_in_unit(0.55, 'micron', tab_unit), nominal_in_unit(raw, q['unit'], tab_unit))
                if want != 0:
                    branches.add('boundary_conversion_outside')
                    note = ('%s: query %r %s against table [%r..%r] %s: get_av = %r, but the query as written lies on / inside '
                            'the table and -0.4*chi/chi(V) = %r (the float unit conversion gives x = %r, V = %r)'
                            % (label, raw, q['unit'], lo, hi, tab_unit, float(g), float(want), x, v))
                    BOUNDARY_NOTES.append(note)
                    if REPORT_BOUNDARY_FINDING:
                        return CaseResult(False, violates=True, finding=BOUNDARY_FINDING, branches=sorted(branches),
                                          detail=note), nontrivial
            if not same(g, m):
                ex_av = exact_av(wav, chi, v, x)
                viol = not same(g, ex_av)
                return CaseResult(False, violates=True if viol else None, branches=sorted(branches),
                                  detail=('%s: query %r %s (= %r %s): get_av = %r; -0.4*chi(lambda)/chi(V) = %r (model) / %r '
                                          '(independent exact) for the table the object holds now: %s rows [%r..%r] %s, '
                                          'chi[:3] = %r, built via %s'
                                          % (label, raw, q['unit'], x, tab_unit, float(g), float(m), float(ex_av),
                                             len(wav), lo, hi, tab_unit, chi[:3], via))), nontrivial
    return None, nontrivial


def apply_step(e, step, wav, chi, tab_unit, chi_unit, extras=None):
    """one mutation of the SAME Extinction object (or a table / pickle round trip of it) through the public
    attributes; returns (object, wav, chi, tab_unit) now held, or None when the step does not apply"""
    from astropy import units as u
    from sedfitter.extinction import Extinction
    U = units()
    op = step['op']
    if op == 'chi_scale':
        e.chi = e.chi * step['c']
        chi = [float(x) for x in np.array(chi, dtype=float) * step['c']]
    elif op == 'chi_new':
        new = list(step['chi'])[:len(chi)]
        if len(new) != len(chi):
            return None
        e.chi = np.array(new, dtype=float) * U[chi_unit]
        chi = new
    elif op == 'wav_unit':
        new = [float(x) for x in (np.array(wav, dtype=float) * U[tab_unit]).to(U[step['unit']]).value]
        if not all(a < b for a, b in zip(new[:-1], new[1:])):
            return None
        e.wav = np.array(new, dtype=float) * U[step['unit']]
        wav, tab_unit = new, step['unit']
    elif op == 'wav_new':
        v = float(([0.55] * u.micron).to(U[tab_unit]).value[0])
        new = [float('%.7g' % (v + (w - v) * step['f'])) for w in wav]
        if not (all(a < b for a, b in zip(new[:-1], new[1:])) and new[0] > 0 and new[0] <= v <= new[-1]):
            return None
        e.wav = np.array(new, dtype=float) * U[tab_unit]
        wav = new
    elif op == 'table':
        e = Extinction.from_table(e.to_table())
    elif op == 'pickle':
        e = pickle.loads(pickle.dumps(e))
    elif op == 'dup_modify':
        # a copy (copy.copy / copy.deepcopy / pickle round trip) and the original are independent objects: assigning
        # another table to one of them must leave the other as it was
        dup = {'copy': copy.copy, 'deepcopy': copy.deepcopy,
               'pickle': lambda o: pickle.loads(pickle.dumps(o))}[step['kind']](e)
        new = list(step['chi'])[:len(chi)]
        if len(new) != len(chi):
            return None
        target = dup if step['target'] == 'copy' else e
        target.chi = np.array(new, dtype=float) * U[chi_unit]
        target.wav = np.array(wav, dtype=float) * U[tab_unit]        # the wav setter is exercised as well (same values)
        if step['target'] == 'copy':
            if extras is not None:
                extras.append((dup, wav, new, tab_unit, 'the %s of the law, after another chi was assigned to it' % step['kind']))
        else:
            if extras is not None:
                extras.append((dup, wav, chi, tab_unit, 'the %s taken before another chi was assigned to the original'
                               % step['kind']))
            chi = new
    elif op == 'alias_from_table':
        # law = from_table(t); then t is modified in place: the law must not change
        t = e.to_table()
        e = Extinction.from_table(t)
        scribble_table(t, step, tab_unit)
    elif op == 'alias_to_table':
        # t = law.to_table(); then t is modified in place: the law must not change
        t = e.to_table()
        scribble_table(t, step, tab_unit)
    elif op == 'alias_pickle':
        # a pickled copy must not follow later changes of the original
        e2 = pickle.loads(pickle.dumps(e))
        e.chi = e.chi * step['c']
        e.wav = e.wav.to(U[step['unit']])
        e = e2
    return e, wav, chi, tab_unit


def scribble_table(t, step, tab_unit):
    """modify an astropy Table in place: other opacities, wavelengths converted to another unit"""
    U = units()
    t['chi'][:] = np.asarray(t['chi']) * step['c'] + 1.
    t['wav'].convert_unit_to(U[step['unit']])
    t['wav'][0] = t['wav'][0] * 0.5


def run_case(case):
    d = tempfile.mkdtemp(prefix='c14_')
    if case['via'] == 'file':
        extra_b = {'file_columns_%d_%d' % tuple(case['file']['columns']),
                   'file_positional_call' if case['file'].get('positional') else 'file_keyword_call'}
    else:
        extra_b = set()
    branches = extra_b | {'arr_' + case.get('arr', 'f8'), 'tab_' + case['tab_unit'], 'chi_' + case['chi_unit'].replace('/', '_'), 'via_' + case['via'],
                'rows_%d' % len(case['wav']) if len(case['wav']) in (2, 200) else 'rows_other'}
    try:
        drv = common.driver()
        relaxed = [0]
        try:
            with common.quiet():
                e = build(case, d)
        except Exception as ex:
            return CaseResult(False, violates=True, detail='building the law (%s) raised %s: %s' % (case['via'], type(ex).__name__, ex))
        bad, nontrivial = compare(e, case['wav'], case['chi'], case['tab_unit'], case['queries'], drv, branches,
                                  'fresh object', case['via'], relaxed)
        if bad is not None:
            return bad
        # ---- metamorphic checks on the implementation alone
        why = metamorphic(case, d, e)
        if why:
            return CaseResult(False, violates=True, branches=sorted(branches), detail=why)
        # ---- history on the one object: get_av has been called; now change it and ask again
        wav, chi, tab_unit = list(case['wav']), list(case['chi']), case['tab_unit']
        done = []
        for step in case.get('history', []):
            try:
                with common.quiet():
                    extras = []
                    r = apply_step(e, step, wav, chi, tab_unit, case['chi_unit'], extras)
            except Exception as ex:
                return CaseResult(False, violates=True, branches=sorted(branches),
                                  detail='after get_av, step %r raised %s: %s' % (step['op'], type(ex).__name__, ex))
            if r is None:
                continue
            e, wav, chi, tab_unit = r
            done.append(step['op'])
            branches.add('hist_' + step['op'])
            bad, _ = compare(e, wav, chi, tab_unit, case['queries'], drv, branches,
                             'same object after get_av and then %s' % ' -> '.join(done), case['via'], relaxed)
            if bad is not None:
                return bad
            for obj, w2, c2, u2, label in extras:
                branches.add('dup_%s_%s_modified' % (step['kind'], step['target']))
                bad, _ = compare(obj, w2, c2, u2, case['queries'], drv, branches,
                                 '%s (history %s)' % (label, ' -> '.join(done)), case['via'], relaxed)
                if bad is not None:
                    return bad
        if case.get('v_node'):
            branches.add('v_%s_node' % case['v_node'])
        sample = dict(rows=len(case['wav']), tab_unit=case['tab_unit'], chi_unit=case['chi_unit'], via=case['via'],
                      query_units=[q['unit'] for q in case['queries']], wav0=case['wav'][:3], chi0=case['chi'][:3],
                      history=done)
        return CaseResult(True, branches=sorted(branches), key=common.canon_hash(case), nontrivial=nontrivial, sample=sample,
                          relaxed=relaxed[0])
    finally:
        shutil.rmtree(d, ignore_errors=True)


def metamorphic(case, d, e):
    """chi x constant, opacity unit and wavelength unit must not change the pattern"""
    U = units()
    wu = U[case['tab_unit']]
    q = case['queries'][0]
    qu = U[q['unit']]
    lo, hi = case['wav'][0], case['wav'][-1]
    xs = (np.array(q['values'], dtype=float) * qu).to(wu).value
    # stay away from the two discontinuities at the table ends when the wavelength unit changes
    safe = [val for val, x in zip(q['values'], xs)
            if not (abs(x - lo) <= 1e-9 * lo or abs(x - hi) <= 1e-9 * hi)]
    with common.quiet():
        base = av_values(e, q['values'], qu)
        base_safe = av_values(e, safe, qu)
        # (a) chi multiplied by a constant
        e2 = build(case, d, chi=[c * case['chi_factor'] for c in case['chi']], via='direct')
        r2 = av_values(e2, q['values'], qu)
        # (b) the same opacities expressed in the other opacity unit
        other = CHI_UNITS[(CHI_UNITS.index(case['chi_unit']) + 1) % len(CHI_UNITS)]
        chi_o = (np.array(case['chi'], dtype=float) * U[case['chi_unit']]).to(U[other]).value
        e3 = build(case, d, chi=list(chi_o), chi_unit=other, via='direct')
        r3 = av_values(e3, q['values'], qu)
        # (c) the same wavelengths expressed in another length unit
        wav_o = (np.array(case['wav'], dtype=float) * wu).to(U[case['alt_unit']]).value
        e4 = build(case, d, wav=list(wav_o), tab_unit=case['alt_unit'], via='direct')
        r4 = av_values(e4, safe, qu)
    for name, a, b in (('chi x %r' % case['chi_factor'], base, r2), ('opacity unit %s' % other, base, r3),
                       ('wavelength unit %s' % case['alt_unit'], base_safe, r4)):
        for i, (p, r) in enumerate(zip(a, b)):
            if not (np.isfinite(r) and abs(p - r) <= 1e-9 * abs(p)):
                return ('metamorphic %s: get_av changed from %r to %r at query #%d (%s)'
                        % (name, float(p), float(r), i, q['unit']))
    return None


# ----------------------------------------------------------------------------- falsifier

def search(seed, tier, disagreeing_cases):
    """the formula evaluated with exact interpolation (Fractions) against the real get_av"""
    from astropy import units as u
    U = units()
    found = []
    tried = 0
    sweep = []
    for i, c in enumerate(gen_cases(seed, 'thorough')):
        if i >= 200:
            break
        sweep.append(c)
    for case in list(disagreeing_cases) + sweep:
        if 'wav' not in case:
            continue
        tried += 1
        d = tempfile.mkdtemp(prefix='c14s_')
        try:
            wu = U[case['tab_unit']]
            try:
                with common.quiet():
                    e = build(case, d)
                    v = float(([0.55] * u.micron).to(wu).value[0])
                    for q in case['queries']:
                        got = av_values(e, q['values'], U[q['unit']])
                        xs = (np.array(q['values'], dtype=float) * U[q['unit']]).to(wu).value
                        for raw, x, g in zip(q['values'], xs, got):
                            want = exact_av(case['wav'], case['chi'], v, float(x))
                            if not same(g, want):
                                raise AssertionError('query %r %s: get_av = %r, -0.4*chi/chi(V) = %r'
                                                     % (raw, q['unit'], float(g), float(want)))
                    why = metamorphic(case, d, e)
                    if why:
                        raise AssertionError(why)
                    # history on the same object, against the exact formula for the table it holds now
                    wav, chi, tab_unit = list(case['wav']), list(case['chi']), case['tab_unit']
                    done = []
                    for step in case.get('history', []):
                        r = apply_step(e, step, wav, chi, tab_unit, case['chi_unit'])
                        if r is None:
                            continue
                        e, wav, chi, tab_unit = r
                        done.append(step['op'])
                        vv = float(([0.55] * u.micron).to(U[tab_unit]).value[0])
                        for q in case['queries']:
                            got = av_values(e, q['values'], U[q['unit']])
                            xs = (np.array(q['values'], dtype=float) * U[q['unit']]).to(U[tab_unit]).value
                            for raw, x, g in zip(q['values'], xs, got):
                                want = exact_av(wav, chi, vv, float(x))
                                if not same(g, want):
                                    raise AssertionError('same object after get_av and then %s: query %r %s: get_av = %r, '
                                                         '-0.4*chi/chi(V) = %r' % (' -> '.join(done), raw, q['unit'],
                                                                                  float(g), float(want)))
            except AssertionError as ex:
                found.append((case, str(ex)))
            except Exception as ex:
                found.append((case, 'in-domain get_av raised %s: %s' % (type(ex).__name__, ex)))
        finally:
            shutil.rmtree(d, ignore_errors=True)
        if len(found) >= 5:
            break
    return found, tried
