"""C07 — convolved-flux files keep model identity, identically in both package formats.

Real side: one per-file package (seds/*.fits + parameters.fits) and one cube package (flux.fits) are
written from the *same* SED arrays; `convolve_model_dir` is run on both (cube: memmap on and off) with
2–3 filters at once; every convolved/<filter>.fits is read back (raw FITS tables and
`ConvolvedFluxes.read`); `Fitter.fit` is run on every variant (cube: `use_memmap` on and off).

Independent oracle for "the row labelled X holds the flux and error computed from SED X": the harness
convolves every SED itself (`expected_rows`: its own exact integration of the piecewise-linear, normalised
filter over the frequency bins of the SED grid; nothing of sedfitter is used) and every row of every file
— per-file, cube with memmap=True, cube with memmap=False — is compared with it, flux and error, and
thereby *identified* from its numbers alone and compared with its label.  SEDs are
`c[X][a] * g(nu) * t[X](nu)`, uncertainties `e[X][a] * h(nu) * u[X](nu)`: flat (`g = t = 1`: the exact
convolved flux is `c[X][a]`, C06's flat-spectrum law, which also pins the harness's integrator), common
shape (`t = u = 1`), or general (model- and wavelength-dependent `t`, `u`: uncertainties proportional
neither to the fluxes nor to one another).  The cube files of both memmap settings are each compared
with the per-file package name by name (flux and error, 1e-12).

Reach: per-file SEDs stored in mJy, Jy or erg/cm2/s (`SED.read(unit_flux=mJy)` converts), cubes in mJy or Jy
(`val_factor` / `unc_factor` != 1), values and uncertainties possibly in different units in either format; aperture-less packages (no aperture list: the per-file format carries the
1e-30 cm placeholder of `SED.write`, the cube format no APERTURES table); fits from the per-file package with
`use_memmap=True` as well; a cube package whose parameter table is in another row order is a compared refusal
(the code raises ValueError, the model answers `namesMismatch`; should the code accept it, the files it wrote are
checked like any other: rows in cube order, every label on its own SED's convolution).  Multi-aperture packages
may declare `aperture_dependent = no`: the fits of all variants must still agree and `fitter.models.fluxes` must
be column 0 (the first tabulated aperture) of the convolved files.  Filter central wavelengths are handed over in
micron, Angstrom, nm, mm or cm; FILTWAV of every file and `fitter.models.wavelengths` must be that wavelength in
micron.  Staged history in one process: convolve -> fit -> write_parameters / write_parameter_ranges /
extract_parameters -> convolve again (overwrite, one more filter): every file's rows still follow the parameter
table on disk / the cube.

All fitters of a case (per-file, per-file use_memmap, cube memmap off / on, and in half of the cases a second
memory-mapped fitter on another cube package of the same shape) are built first and stay alive together; the fits are
then made in a shuffled order.

Before the fitters are built, some or all convolved files and / or parameters.fits of both packages may be gzipped in
place (only `<name>.fits.gz` left).  Distance-dependent cases may fit with `remove_resolved=True` (all variants;
fluxes growing with aperture so that the option removes part, all or none of the distance range of a model); the
variants must agree as always.

Re-convolution history (a share of cases, on copies of both packages): the package is revised (every SED rescaled, table
and cube re-ordered) and convolved again — with the default overwrite=False the code must refuse and leave the files
untouched (if it returns, what it left is held against the revised package), with overwrite=True (keyword or
positional, filters possibly deep-copied) every file must follow the revised package.

Model side: driver `ordermatch` (= `sortToMatch`) on (SED names in directory-listing order, table
names) predicts which listing position lands in which row; `convnames 1|2` (= `convolveV1/V2` on tagged
SEDs) predicts names and row contents of both formats (driver op `convnames`).
"""
import copy
import gzip
import hashlib
import itertools
import os
import shutil
import tempfile

import numpy as np

from . import common
from .common import CaseResult, case_rng, nice
from . import packages as pk

PID = 'C07'
RULE = ('cases = (model names <= 30 chars, SED file names fixing the directory-listing order, row order of the '
        'parameter table (names optionally blank-padded), cube order, aperture grid, spectral grid and storage '
        'order of per-file SEDs and of the cube, per-model/per-aperture constants, common spectral shapes, 2-3 '
        'filters, a source) drawn from the quantifier of C07; every case runs both formats, cube convolution with '
        'memmap on and off and fits with use_memmap on and off; non-trivial = at least 2 models, so that rows can '
        'be exchanged; distinct = distinct canonical hash of the generated inputs')
# further correspondence stage: the resolved-source rule (`remove_resolved=True`; Model/Resolved.lean,
# Properties/Resolved.lean) against per-file / cube / memory-mapped fits, which must also agree with each other
EXTRA_HARNESS = ['harness.resolved']

REQUIRED_BRANCHES = ['perfile', 'cube', 'conv_memmap_on', 'conv_memmap_off', 'fit_memmap_on', 'fit_memmap_off',
                     'sed_nu_inc', 'sed_nu_dec', 'cube_nu_inc', 'cube_nu_dec',
                     'listing_ne_table', 'listing_ne_nameorder', 'table_ne_nameorder', 'padded_table_names',
                     'name_len_30', 'nap_1', 'nap_gt1', 'filters_2', 'filters_3', 'flat', 'nonflat',
                     'general_sed', 'err_not_proportional', 'independent_expectation',
                     'cube_memmap_on_vs_perfile', 'cube_memmap_off_vs_perfile',
                     'no_apertures', 'unit_sed_mJy', 'unit_sed_Jy', 'unit_sed_erg', 'unit_cube_mJy', 'unit_cube_Jy',
                     'perfile_fit_memmap_on', 'cube_table_permuted', 'cube_table_same_order',
                     'cube_val_unc_units_differ', 'sed_flux_err_units_differ',
                     'fitters_alive_together', 'second_memmap_fitter_other_package', 'convolved_gz', 'parameters_gz',
                     'remove_resolved_on', 'remove_resolved_changes_fit', 'reconvolve_default_refused', 'reconvolve_overwrite_true',
                     'filter_at_grid_end', 'filter_edge_short_over', 'filter_edge_short_reach', 'filter_edge_long_over',
                     'filter_edge_long_reach', 'filter_edge_both', 'distance_range_exact_multiple_of_step',
                     'table_names_S', 'table_names_U', 'table_name_col_first', 'table_name_col_middle', 'table_name_col_last',
                     'table_col_dtype_f8', 'table_col_dtype_f4', 'table_col_dtype_i4', 'table_col_dtype_i8',
                     'cube_names_str', 'cube_names_bytes', 'cube_names_padded', 'fit_aperture_dependent', 'fit_aperture_independent', 'multi_aperture_fit_aperture_independent',
                     'cube_table_accepted_rows_checked_or_refused',
                     'staged_history', 'staged_history_unsorted_table', 'stage_write_parameters',
                     'stage_write_parameter_ranges', 'stage_extract_parameters',
                     'cw_unit_um', 'cw_unit_AA', 'cw_unit_nm', 'cw_unit_mm', 'cw_unit_cm',
                     'models_1', 'models_8', 'sed_subdir']
ASSUMPTIONS = ['astropy FITS I/O stores float64 columns and string columns faithfully (observed, not proved)',
               'IEEE rounding is not modelled: flat-spectrum and cross-format comparisons use 1e-11 / 1e-12 relative',
               'memmap fits (model fluxes and their log10 held / evaluated as float32): budget '
               '2^-24 (1/ln 10 + 3 |log10 F|max) on each log10 model flux, propagated to first order through the normal '
               'equations (av, sc) and through chi2, safety factor 2 (1e-6 .. 1e-5 relative for these sources)',
               'numpy orders U-strings by code point, as the model orders String',
               'cube packages: the parameter table must list the models in the order of the cube (docs/creating_model_packages.rst); '
               'a cube package with a permuted table is refused by the code ("Model names in SED cube and parameter file do '
               'not match") and is checked as a compared refusal (model: namesMismatch), so "any row permutation of the '
               'parameter table" is exercised on the per-file format only',
               'per-file SEDs are stored in mJy, Jy or erg/cm2/s, cubes in mJy or Jy (the cube path converts with '
               'unit.to(mJy), which only exists for flux densities)']
EXHAUSTIVE = {'quick': False, 'thorough': True}
TRUSTED_EXTRA = ['the per-aperture filter functionals are abstract in the model (cv, ce); their values are pinned '
                 'only by the flat-spectrum / linearity oracle above and by C06']
N = {'quick': 150, 'thorough': 3000}

ALPHABET = 'abcdefghijklmnopqrstuvwxyzABCDEFGHIJKLMNOPQRSTUVWXYZ0123456789_-.+'
EXT_W = [0.05, 0.3, 0.55, 1., 3., 10., 50., 3000.]
EXT_CHI = [2000., 600., 300., 120., 40., 20., 8., 1.]


# ----------------------------------------------------------------------------- generation

def gen_names(rng, n, want30):
    names = []
    stems = ['m', 'M', 'mod', 'model_', '30', 'a', 'Z', 'x.y', 'run-', '']
    while len(names) < n:
        if want30 and not names:
            s = ''.join(rng.choice(ALPHABET) for _ in range(30))
        else:
            pre = rng.choice(stems)
            k = rng.choice([1, 1, 2, 3, 5, 8, 13, 21, 30 - len(pre)])
            s = (pre + ''.join(rng.choice(ALPHABET) for _ in range(k)))[:30]
        if s and s not in names:
            names.append(s)
    return names


def three_orders(rng, names):
    """listing order, table order, (name order is sorted(names)); pairwise different when possible"""
    n = len(names)
    srt = sorted(names)
    for _ in range(200):
        listing = names[:]
        rng.shuffle(listing)
        table = names[:]
        rng.shuffle(table)
        if n >= 3 and (listing == table or listing == srt or table == srt):
            continue
        if n == 2 and listing == table:
            continue
        return listing, table
    return listing, table


def gen_filters(rng, nf, wlo, whi):
    """filters strictly inside the SED range, central wavelengths a factor >= 2.5 apart"""
    import math
    fs = []
    span = math.log(whi / wlo)
    for j in range(nf):
        a = wlo * math.exp(span * (j + 0.12) / nf)
        b = wlo * math.exp(span * (j + 0.55) / nf)
        k = rng.randint(2, 7)
        ws = sorted({nice(rng, a, b, 4) for _ in range(k)} | {float('%.4g' % a), float('%.4g' % b)})
        resp = [nice(rng, 0.05, 1., 2) for _ in ws]
        if rng.random() < 0.3:
            resp[0] = 0.
        if rng.random() < 0.3:
            resp[-1] = 0.
        if rng.random() < 0.5:
            ws, resp = ws[::-1], resp[::-1]
        cw = float('%.4g' % math.sqrt(a * b))
        fs.append(dict(name='F%d' % j, cw=cw, wav=ws, resp=resp,
                       cw_unit=rng.choice(['um', 'um', 'AA', 'nm', 'mm', 'cm'])))
    return fs


def gen_case(rng, n=None, table_perm=None, directed=None):
    directed = directed or {}
    n = n or directed.get('n') or rng.randint(1, 8)
    names = gen_names(rng, n, directed.get('name30', rng.random() < 0.25))
    listing, table = three_orders(rng, names)
    if table_perm is not None:
        table = [names[i] for i in table_perm]
    # file stems whose sorted order is `listing`; optionally some in sub-directories
    subdir = directed.get('subdir', rng.random() < 0.25)
    stems = {}
    for pos, nme in enumerate(listing):
        stem = 'f%02d_%s' % (pos, ''.join(rng.choice('abcxyz') for _ in range(3)))
        stems[nme] = stem
    if subdir and n >= 2:
        # glob order is the sorted order of the full paths: seds/<sub>/x.fits against seds/y.fits
        for pos, nme in enumerate(listing):
            if rng.random() < 0.5:
                stems[nme] = 'f%02d/%s' % (pos, ''.join(rng.choice('abcxyz') for _ in range(3)))
    pad = directed.get('pad', rng.random() < 0.5)
    table_names = [t + (' ' * rng.randint(1, max(1, min(3, 30 - len(t)))) if pad and len(t) < 30 and rng.random() < 0.6 else '')
                   for t in table]
    cube = names[:]
    rng.shuffle(cube)
    # a cube package whose parameter table is in another row order than the cube: the code refuses it
    cube_table = None
    if directed.get('cube_perm', rng.random() < 0.3):
        cube_table = cube[:]
        rng.shuffle(cube_table)
    nap = directed.get('nap') or rng.randint(1, 5)
    aps = sorted({nice(rng, 50., 2e4, 3) for _ in range(nap)})
    while len(aps) < nap:
        aps = sorted(set(aps) | {nice(rng, 50., 2e4, 3)})
    # aperture-less package: SED objects / cube without an aperture list (one unnamed aperture)
    if directed.get('no_aps', nap == 1 and rng.random() < 0.4):
        nap, aps = 1, None
    ap_dep = directed.get('apdep', None if (nap == 1 or rng.random() < 0.6) else False)
    # remove_resolved=True fits (distance-dependent packages only): geometric aperture grid, fluxes growing with
    # aperture (constant surface brightness out to aperture j_m of model m, nearly flat beyond), so that the
    # half-peak surface-brightness radius falls inside / across / beyond the range of requested apertures
    resolved = bool(directed.get('resolved', nap > 1 and ap_dep is None and rng.random() < 0.5))
    if resolved:
        a0 = nice(rng, 50., 2000., 3)
        aps = [float('%.5g' % (a0 * 1.5 ** k)) for k in range(nap)]
    # stored flux units: per-file SEDs in mJy, Jy or erg/cm2/s (nu F_nu); the cube in mJy or Jy
    unit_sed = directed.get('unit_sed', rng.choice(['mJy', 'mJy', 'Jy', 'erg/cm2/s']))
    unit_cube = directed.get('unit_cube', rng.choice(['mJy', 'Jy']))
    # uncertainties may carry another unit than the values (the files store the two units separately)
    unit_sed_err = directed.get('unit_sed_err', rng.choice([unit_sed, unit_sed, 'mJy', 'Jy', 'erg/cm2/s']))
    unit_cube_unc = directed.get('unit_cube_unc', rng.choice([unit_cube, 'mJy', 'Jy']))
    nw = rng.randint(4, 24)
    wav = sorted({nice(rng, 0.08, 900., 4) for _ in range(nw)} | {0.05, 1500.})
    nf = directed.get('nf') or rng.choice([2, 3])
    filters = gen_filters(rng, nf, wav[1] if len(wav) > 4 else wav[0] * 1.1, wav[-2] if len(wav) > 4 else wav[-1] / 1.1)
    # band-passes that reach or overhang an end of the SED's spectral grid (their re-binned response is non-zero in the
    # first / last bin; the part outside the grid is lost, identically in both formats)
    edge = directed.get('edge', rng.choice([None, None, 'short_over', 'short_reach', 'long_over', 'long_reach', 'both']))
    if edge in ('short_over', 'short_reach', 'both'):
        ws = ([0.6 * wav[0]] if edge != 'short_reach' else []) + [wav[0], float('%.5g' % (0.5 * (wav[0] + wav[1]))), wav[1], float('%.5g' % (1.3 * wav[1]))]
        filters[0] = dict(filters[0], wav=ws, resp=[nice(rng, 0.2, 1., 2) for _ in ws], cw=float('%.4g' % max(0.06, wav[1])), inside=False)
    if edge in ('long_over', 'long_reach', 'both'):
        ws = [float('%.5g' % (0.8 * wav[-2])), wav[-2], float('%.5g' % (0.5 * (wav[-2] + wav[-1]))), wav[-1]] + ([1.4 * wav[-1]] if edge != 'long_reach' else [])
        filters[-1] = dict(filters[-1], wav=ws, resp=[nice(rng, 0.2, 1., 2) for _ in ws], cw=float('%.4g' % min(1400., wav[-2])), inside=False)
    # distance ranges whose log width is an exact multiple of the step of the distance grid (in floating point)
    drange, logd_step = [1., 2.], 0.02
    if directed.get('exact_grid', rng.random() < 0.3):
        drange, logd_step = rng.choice([([1., 10.], 0.02), ([1., 10.], 0.05), ([1., 10.], 0.25), ([1., 100.], 0.1),
                                        ([1., 100.], 0.25), ([0.1, 10.], 0.1), ([0.1, 10.], 0.05)])
        drange = list(drange)
    flat = directed.get('flat', rng.random() < 0.5)
    g = [1.] * len(wav) if flat else [nice(rng, 0.1, 10., 3) for _ in wav]
    h = [1.] * len(wav) if flat else [nice(rng, 0.1, 10., 3) for _ in wav]
    # 'general': on top of the common shapes every model gets its own wavelength-dependent factors, different
    # for flux and uncertainty, so the uncertainties are neither proportional to the fluxes nor to each other
    general = directed.get('general', (not flat) and rng.random() < 0.6)
    tilt = [[nice(rng, 0.3, 3., 3) if general else 1. for _ in wav] for _ in range(n)]
    etilt = [[nice(rng, 0.3, 3., 3) if general else 1. for _ in wav] for _ in range(n)]
    # constants: distinct per model in every aperture (>= 2 % apart)
    def consts(lo, hi):
        out = [[None] * nap for _ in range(n)]
        for a in range(nap):
            vals = []
            while len(vals) < n:
                v = nice(rng, lo, hi, 3)
                if all(abs(v - w) > 0.02 * max(v, w) for w in vals):
                    vals.append(v)
            for m in range(n):
                out[m][a] = vals[m]
        return out
    c = consts(0.05, 500.)
    if resolved:
        for m in range(n):
            jm = rng.randint(0, min(nap - 1, 2))
            for a in range(1, nap):
                c[m][a] = float('%.6g' % (c[m][0] * (aps[a] / aps[0]) ** 2 if a <= jm else c[m][a - 1] * 1.03))
    e = consts(0.005, 50.)
    src = dict(model=rng.randrange(n), fac=[float('%.3g' % (10 ** rng.uniform(-0.15, 0.15))) for _ in range(nf)],
               rel=[nice(rng, 0.08, 0.3, 2) for _ in range(nf)])
    trepr = dict(name_dtype=rng.choice(['S', 'U']), name_pos=rng.choice(['first', 'middle', 'last']),
                 col_dtype=rng.choice(['f8', 'f4', 'i4', 'i8', '>f8']))
    reconv = None
    if directed.get('reconv', rng.random() < 0.3):
        reconv = dict(scale=[nice(rng, 0.2, 5., 2) for _ in range(n)], table=rng.sample(range(n), n), cube=rng.sample(range(n), n),
                      deepcopy=rng.random() < 0.5, positional=rng.random() < 0.5)
    stage = directed.get('stage', rng.choice([None, None, 'write_parameters', 'write_parameter_ranges', 'extract_parameters']))
    gz_par = directed.get('gz_par', rng.random() < 0.3)
    if gz_par and not stage:        # somebody has to read the gzipped parameter table
        stage = rng.choice(['write_parameters', 'write_parameter_ranges', 'extract_parameters'])
    return dict(names=names, stems=stems, listing=listing, table=table_names, cube=cube, nap=nap, aps=aps, wav=wav,
                sed_store=directed.get('sed_store', rng.choice(['nu_inc', 'nu_dec'])),
                cube_store=directed.get('cube_store', rng.choice(['nu_inc', 'nu_dec'])),
                g=g, h=h, c=c, e=e, tilt=tilt, etilt=etilt, general=general, filters=filters, src=src, av=[0., 40.],
                edge=edge, drange=drange, logd_step=logd_step, stage=stage, reconv=reconv, table_repr=trepr, cube_names_repr=rng.choice(['str', 'bytes', 'padded']),
                resolved=resolved, gz_conv=directed.get('gz_conv', rng.choice(['none', 'none', 'some', 'all'])),
                gz_par=gz_par, apdep=ap_dep, second_pkg=directed.get('second_pkg', rng.random() < 0.5),
                fit_order=rng.sample([0, 1, 2, 3], 4), flat=flat, unit_sed=unit_sed, unit_cube=unit_cube, unit_sed_err=unit_sed_err, unit_cube_unc=unit_cube_unc,
                cube_table=cube_table)


DIRECTED = [
    dict(n=6, nap=4, nf=3, flat=True, resolved=True, reconv=True, edge='short_over', exact_grid=True, sed_store='nu_inc', cube_store='nu_dec', pad=True, gz_conv='none', gz_par=False, second_pkg=True),
    dict(n=5, nap=3, nf=2, flat=False, general=True, resolved=True, reconv=True, edge='both', exact_grid=True, sed_store='nu_dec', cube_store='nu_inc', pad=False, gz_conv='some', gz_par=False),
    dict(n=1, nap=1, nf=2, flat=True, gz_conv='all', gz_par=True, sed_store='nu_inc', cube_store='nu_dec', pad=True, stage='write_parameters', no_aps=True, unit_sed='Jy', unit_cube='mJy', unit_sed_err='mJy', unit_cube_unc='Jy', cube_perm=True),
    dict(n=8, nap=5, nf=3, flat=False, general=True, stage='write_parameters', second_pkg=True, resolved=True, gz_conv='some', gz_par=True, sed_store='nu_dec', cube_store='nu_inc', pad=True, name30=True, subdir=True),
    dict(n=3, nap=1, nf=3, flat=True, edge='long_reach', sed_store='nu_dec', cube_store='nu_dec', pad=False, name30=True, stage='write_parameter_ranges', no_aps=True, unit_sed='erg/cm2/s', unit_cube='Jy', unit_sed_err='Jy', unit_cube_unc='mJy', cube_perm=True),
    dict(n=4, nap=2, nf=2, flat=False, general=False, resolved=True, gz_conv='all', gz_par=True, sed_store='nu_inc', cube_store='nu_inc', pad=True, stage='extract_parameters', subdir=True, unit_sed='erg/cm2/s', unit_cube='mJy', unit_sed_err='erg/cm2/s', unit_cube_unc='mJy', cube_perm=True),
    dict(n=5, nap=3, nf=2, flat=True, sed_store='nu_dec', cube_store='nu_inc', pad=True, subdir=True, apdep=False),
    dict(n=2, nap=4, nf=3, flat=False, general=True, edge='short_reach', exact_grid=True, sed_store='nu_inc', cube_store='nu_dec', pad=False, apdep=False, second_pkg=True),
    dict(n=5, nap=1, nf=2, flat=False, general=True, sed_store='nu_dec', cube_store='nu_dec', pad=True, no_aps=False, unit_sed='Jy', unit_cube='Jy', unit_sed_err='erg/cm2/s', unit_cube_unc='mJy', cube_perm=True),
    dict(n=6, nap=1, nf=3, flat=False, general=True, sed_store='nu_inc', cube_store='nu_inc', pad=True, no_aps=True, unit_sed='mJy', unit_cube='Jy', cube_perm=False),
]


def gen_cases(seed, tier):
    i = 0
    for d in DIRECTED:
        yield gen_case(case_rng(seed, PID, i), directed=d)
        i += 1
    if tier == 'thorough':
        # every row permutation of the parameter table for <= 4 models
        for n in range(1, 5):
            for perm in itertools.permutations(range(n)):
                yield gen_case(case_rng(seed, PID, i), n=n, table_perm=list(perm))
                i += 1
    else:
        for n in (2, 3):
            for perm in itertools.permutations(range(n)):
                yield gen_case(case_rng(seed, PID, i), n=n, table_perm=list(perm))
                i += 1
    while i < N[tier]:
        yield gen_case(case_rng(seed, PID, i))
        i += 1


# ----------------------------------------------------------------------------- building the packages

def sed_arrays(case):
    c = np.array(case['c'], dtype=float)
    e = np.array(case['e'], dtype=float)
    g = np.array(case['g'], dtype=float)
    h = np.array(case['h'], dtype=float)
    t = np.array(case.get('tilt') or np.ones((len(c), len(g))), dtype=float)
    u_ = np.array(case.get('etilt') or np.ones((len(c), len(g))), dtype=float)
    return c[:, :, None] * g[None, None, :] * t[:, None, :], e[:, :, None] * h[None, None, :] * u_[:, None, :]


UNITS = {'mJy': 'mJy', 'Jy': 'Jy', 'erg/cm2/s': 'erg / (cm2 s)'}


def stored_values(x_mjy, unit, wav_um):
    """the numbers to store in `unit` for a flux density given in mJy on the wavelength grid `wav_um` (last axis)"""
    from astropy import units as u
    if unit == 'mJy':
        return x_mjy
    if unit == 'Jy':
        return x_mjy * 1e-3
    nu = (np.array(wav_um, dtype=float) * u.micron).to(u.Hz, equivalencies=u.spectral()).value
    return x_mjy * 1e-26 * nu           # nu F_nu in erg / s / cm^2


def astropy_unit(unit):
    from astropy import units as u
    return {'mJy': u.mJy, 'Jy': u.Jy, 'erg/cm2/s': u.erg / u.cm ** 2 / u.s}[unit]


def write_sed_raw(path, name, wav_um, flux, err, aps_au, unit='mJy', unit_err=None):
    """a seds/*.fits file in the layout `SED.read` expects, wavelengths stored exactly in the order given
    (`SED.write` always stores increasing frequency; the original model packages store decreasing frequency)"""
    from astropy.io import fits
    from astropy import units as u
    wav = np.array(wav_um, dtype=float)
    nu = (wav * u.micron).to(u.Hz, equivalencies=u.spectral()).value
    h0 = fits.PrimaryHDU()
    h0.header['MODEL'] = name
    h0.header['DISTANCE'] = (1. * u.kpc).to(u.cm).value
    funit = astropy_unit(unit).to_string(format='fits')
    eunit = astropy_unit(unit_err or unit).to_string(format='fits')
    if aps_au is None:                  # as SED.write stores an SED without apertures
        aps_au, apunit = [1.e-30], 'cm'
    else:
        apunit = 'AU'
    h0.header['NAP'] = len(aps_au)
    h0.header['NWAV'] = len(wav)
    h1 = fits.BinTableHDU.from_columns([fits.Column(name='WAVELENGTH', format='D', unit='um', array=wav),
                                        fits.Column(name='FREQUENCY', format='D', unit='Hz', array=nu)])
    h1.header['EXTNAME'] = 'WAVELENGTHS'
    h2 = fits.BinTableHDU.from_columns([fits.Column(name='APERTURE', format='D', unit=apunit,
                                                    array=np.array(aps_au, dtype=float))])
    h2.header['EXTNAME'] = 'APERTURES'
    nw = len(wav)
    h3 = fits.BinTableHDU.from_columns([fits.Column(name='TOTAL_FLUX', format='%dD' % nw, unit=funit,
                                                    array=np.array(flux, dtype=float).reshape(len(aps_au), nw)),
                                        fits.Column(name='TOTAL_FLUX_ERR', format='%dD' % nw, unit=eunit,
                                                    array=np.array(err, dtype=float).reshape(len(aps_au), nw))])
    h3.header['EXTNAME'] = 'SEDS'
    fits.HDUList([h0, h1, h2, h3]).writeto(path, overwrite=True)


def write_table_repr(model_dir, names, columns, name_dtype='S', name_pos='first', col_dtype='f8'):
    """parameters.fits in a chosen representation: MODEL_NAME as a bytes ('S') or unicode ('U') column, placed first,
    in the middle or last among the columns; numeric columns of dtype `col_dtype` ('f8', 'f4', 'i4', 'i8', '>f8':
    integer dtypes only make sense for integral values).  `columns`: dict name -> list of values"""
    from astropy.table import Table
    t = Table()
    keys = list(columns)
    k = {'first': 0, 'middle': (len(keys) + 1) // 2, 'last': len(keys)}[name_pos]
    order = keys[:k] + ['MODEL_NAME'] + keys[k:]
    for c in order:
        if c == 'MODEL_NAME':
            t[c] = np.array(list(names), dtype='%s30' % name_dtype)
        else:
            t[c] = np.array(columns[c], dtype=float).astype(col_dtype)
    t.write(os.path.join(model_dir, 'parameters.fits'), overwrite=True)
    return order


def table_repr(case):
    return case.get('table_repr') or dict(name_dtype='S', name_pos='first', col_dtype='f8')


def cube_names_repr(case):
    """the cube's model names as handed to SEDCube: a list of str, an array of bytes, or a fixed-width unicode array
    padded with blanks"""
    r = case.get('cube_names_repr', 'str')
    if r == 'bytes':
        return np.array([x.encode('ascii') for x in case['cube']])
    if r == 'padded':
        w = min(30, max(len(x) for x in case['cube']) + 2)
        return np.array([x.ljust(w) for x in case['cube']], dtype='U%d' % w)
    return case['cube']


def write_tables(case, d1, d2):
    names = case['names']
    tr = table_repr(case)
    write_table_repr(d1, case['table'], {'PAR1': [float(names.index(t.strip())) for t in case['table']],
                                         'PAR2': [float(7 * names.index(t.strip()) + 1) for t in case['table']]}, **tr)
    write_table_repr(d2, case['cube'], {'PAR1': [float(names.index(x)) for x in case['cube']],
                                        'PAR2': [float(7 * names.index(x) + 1) for x in case['cube']]}, **tr)


def revised(case):
    """the package after a revision: every SED recalibrated by a model-specific factor, the parameter table and the
    cube put into another row order"""
    rv = case['reconv']
    rc = dict(case)
    rc['c'] = [[v * f for v in row] for row, f in zip(case['c'], rv['scale'])]
    pad = {t.strip(): t for t in case['table']}
    rc['table'] = [pad[case['names'][i]] for i in rv['table']]
    rc['cube'] = [case['names'][i] for i in rv['cube']]
    rc['cube_table'] = None
    return rc


def reconvolve_history(case, d, d1, d2, filters, fnames, br):
    """a package that has been convolved, is then revised, and is convolved again: with the default overwrite=False
    the code must refuse and leave the files alone (should it return instead, the files it leaves are held against
    the revised package); with overwrite=True every file must follow the revised package.
    Returns (property failures, model / implementation disagreements)"""
    from sedfitter.convolve import convolve_model_dir
    fails, dis = [], []
    rc = revised(case)
    flt = copy.deepcopy(filters) if case['reconv'].get('deepcopy') else filters
    jobs = []
    for what, src, expect, build in (('per-file', d1, [t.strip() for t in rc['table']], build_perfile),
                                     ('cube', d2, rc['cube'], build_cube)):
        dd = os.path.join(d, 'revised_' + what)
        shutil.copytree(src, dd)
        jobs.append((what, dd, expect, build))
    for what, dd, expect, build in jobs:
        build(rc, dd)
    write_tables(rc, jobs[0][1], jobs[1][1])
    for what, dd, expect, build in jobs:
        paths = [os.path.join(dd, 'convolved', fn + '.fits') for fn in fnames]
        before = [hashlib.sha256(open(p_, 'rb').read()).hexdigest() for p_ in paths]
        try:
            with common.quiet():
                convolve_model_dir(dd, flt)                  # overwrite defaults to False
            refused = None
        except Exception as ex:
            refused = type(ex).__name__
        after = [hashlib.sha256(open(p_, 'rb').read()).hexdigest() for p_ in paths]
        if refused:
            br.add('reconvolve_default_refused')
            if after != before:
                fails.append('%s package convolved again with overwrite=False: raised %s but changed %d of its convolved files'
                             % (what, refused, sum(a != b for a, b in zip(after, before))))
        else:
            stale = []
            for fn, filt in zip(fnames, case['filters']):
                tab, via = read_convolved(os.path.join(dd, 'convolved', fn + '.fits'))
                f, _ = check_file(rc, tab, via, expect, fn, filt, '%s package revised and convolved again with overwrite=False (call returned):' % what)
                stale += f
            if stale:
                fails += stale
            else:
                dis.append('%s package convolved again with overwrite=False: the code is expected to refuse (existing files); '
                           'it returned (files follow the revised package)' % what)
        try:
            with common.quiet():
                if case['reconv'].get('positional'):
                    convolve_model_dir(dd, flt, True)
                else:
                    convolve_model_dir(dd, flt, overwrite=True)
        except Exception as ex:
            fails.append('%s package revised and convolved again with overwrite=True: raised %s: %s' % (what, type(ex).__name__, ex))
            continue
        br.add('reconvolve_overwrite_true')
        for fn, filt in zip(fnames, case['filters']):
            tab, via = read_convolved(os.path.join(dd, 'convolved', fn + '.fits'))
            f, _ = check_file(rc, tab, via, expect, fn, filt, '%s package revised and convolved again with overwrite=True:' % what)
            fails += f
    return fails, dis


def build_perfile(case, d1):
    names = case['names']
    flux, err = sed_arrays(case)
    unit = case.get('unit_sed', 'mJy')
    unit_e = case.get('unit_sed_err', unit)
    flux, err = stored_values(flux, unit, case['wav']), stored_values(err, unit_e, case['wav'])
    params = {'PAR1': [float(names.index(t.strip())) for t in case['table']]}
    plain = case['sed_store'] == 'nu_inc' and not any('/' in s for s in case['stems'].values()) and unit_e == unit
    if plain:
        pk.write_sed_package(d1, names, case['wav'], flux, err, apertures_au=case['aps'],
                             table_order=case['table'], params=params, file_names=case['stems'],
                             unit=astropy_unit(unit), aperture_dependent=apdep(case), logd_step=case.get('logd_step', 0.02))
        return
    os.makedirs(os.path.join(d1, 'seds'), exist_ok=True)
    pk.write_conf(d1, aperture_dependent=apdep(case), version=1, logd_step=case.get('logd_step', 0.02))
    wav = np.array(case['wav'], dtype=float)
    for i, nme in enumerate(names):
        path = os.path.join(d1, 'seds', case['stems'][nme] + '.fits')
        os.makedirs(os.path.dirname(path), exist_ok=True)
        if case['sed_store'] == 'nu_inc':
            sed = pk.make_sed(nme, wav, flux[i], err[i], case['aps'], unit=astropy_unit(unit))
            sed.error = np.array(err[i], dtype=float).reshape(sed.flux.shape) * astropy_unit(unit_e)
            sed.write(path, overwrite=True)
        else:
            # increasing wavelength = decreasing frequency, stored as given
            write_sed_raw(path, nme, wav, flux[i], err[i], case['aps'], unit=unit, unit_err=unit_e)
    pk.write_parameters(d1, case['table'], params)


def build_cube(case, d2):
    names = case['names']
    flux, err = sed_arrays(case)
    idx = [names.index(nme) for nme in case['cube']]
    wav = np.array(case['wav'], dtype=float)
    unit = case.get('unit_cube', 'mJy')
    unit_u = case.get('unit_cube_unc', unit)
    val, unc = stored_values(flux[idx], unit, case['wav']), stored_values(err[idx], unit_u, case['wav'])
    if case['cube_store'] == 'nu_inc':      # increasing frequency = decreasing wavelength
        wav, val, unc = wav[::-1], val[:, :, ::-1], unc[:, :, ::-1]
    if unit_u == unit:
        pk.write_cube_package(d2, cube_names_repr(case), wav, val, unc, apertures_au=case['aps'],
                              params={'PAR1': [float(i) for i in idx]}, unit=astropy_unit(unit), aperture_dependent=apdep(case),
                              logd_step=case.get('logd_step', 0.02))
    else:
        # values and uncertainties in different units: the cube keeps (and stores) the two units separately
        pk.write_conf(d2, aperture_dependent=apdep(case), version=2, logd_step=case.get('logd_step', 0.02))
        c = pk.make_cube(cube_names_repr(case), wav, val, None, case['aps'], unit=astropy_unit(unit))
        c.unc = np.array(unc, dtype=float) * astropy_unit(unit_u)
        c.write(os.path.join(d2, 'flux.fits'), overwrite=True)
        pk.write_parameters(d2, list(case['cube']), {'PAR1': [float(i) for i in idx]})


def apdep(case):
    """models.conf `aperture_dependent`: by default yes exactly when there are several apertures; a multi-aperture
    package may also declare itself aperture-independent (the fitter then uses the first tabulated aperture)"""
    d = case.get('apdep')
    return (case['nap'] > 1) if d is None else bool(d)


def make_filters(case):
    """Filter objects; the central wavelength is handed over in the unit the case names (any length unit is accepted)"""
    from astropy import units as u
    out = []
    for f in case['filters']:
        flt = pk.make_filter(f['name'], f['cw'], f['wav'], f['resp'])
        unit = u.Unit(f.get('cw_unit', 'um'))
        if unit != u.micron:
            flt.central_wavelength = (f['cw'] * u.micron).to(unit)
        out.append(flt)
    return out


def listing_names(case, d1):
    """model names in the order of the sorted directory listing (re-derived from the files on disk)"""
    import glob
    from astropy.io import fits
    files = sorted(glob.glob(d1 + '/seds/*.fits') + glob.glob(d1 + '/seds/*/*.fits'))
    return [fits.getheader(f, 0)['MODEL'] for f in files]


def read_convolved(path):
    """raw table content of one convolved file, and the same through `ConvolvedFluxes.read`"""
    from astropy.io import fits
    from sedfitter.convolved_fluxes import ConvolvedFluxes
    with fits.open(path, memmap=False) as h:
        t = h['CONVOLVED FLUXES'].data
        names = [str(x) for x in t['MODEL_NAME']]
        n = len(names)
        flux = np.array(t['TOTAL_FLUX'], dtype=float).reshape(n, -1)
        err = np.array(t['TOTAL_FLUX_ERR'], dtype=float).reshape(n, -1)
        if 'APERTURES' in h:
            from astropy import units as u
            apu = u.Unit(h['APERTURES'].columns[0].unit or 'AU')
            aps = (np.array(h['APERTURES'].data['APERTURE'], dtype=float) * apu).to(u.au).value
        else:
            aps = None
        wavl = float(h[0].header['FILTWAV'])
    with common.quiet():
        c = ConvolvedFluxes.read(path)
    via = dict(names=[str(x) for x in c.model_names], flux=np.asarray(c.flux.to('mJy').value, dtype=float),
               err=np.asarray(c.error.to('mJy').value, dtype=float),
               aps=None if c.apertures is None else np.asarray(c.apertures.to('au').value, dtype=float),
               wav=float(c.central_wavelength.to('micron').value))
    return dict(names=names, flux=flux, err=err, aps=aps, wav=wavl), via


# ----------------------------------------------------------------------------- the property on the real code

def rel(a, b):
    return abs(a - b) / max(abs(a), abs(b), 1e-300)


def identify(row, rows):
    """index of the model whose expected row reproduces this data row, or None"""
    best = [m for m in range(len(rows)) if all(rel(row[a], rows[m][a]) < 1e-9 for a in range(len(row)))]
    return best[0] if len(best) == 1 else None


def pl_integral(x, y, a, b):
    """integral from a to b of the piecewise-linear function through (x, y), x increasing, x[0] <= a <= b <= x[-1]"""
    if b <= a:
        return 0.
    nodes = np.concatenate([[a], x[(x > a) & (x < b)], [b]])
    vals = np.interp(nodes, x, y)
    return float(np.sum(0.5 * (nodes[1:] - nodes[:-1]) * (vals[1:] + vals[:-1])))


def expected_rows(case, filt):
    """the harness's own convolution (independent of sedfitter): the filter, piecewise linear in frequency and
    normalised to unit integral, is integrated over the frequency bins of the SED grid (bin edges half-way between
    grid points, first / last bin ending at the grid ends, all clipped to the filter's range); the flux of (model,
    aperture) is sum(F_i R_i), its error sqrt(sum((sigma_i R_i)^2))."""
    from astropy import units as u
    nu = (np.array(case['wav'], dtype=float) * u.micron).to(u.Hz, equivalencies=u.spectral()).value
    order = np.argsort(nu)
    nu = nu[order]
    fnu = (np.array(filt['wav'], dtype=float) * u.micron).to(u.Hz, equivalencies=u.spectral()).value
    fo = np.argsort(fnu)
    fx, fy = fnu[fo], np.array(filt['resp'], dtype=float)[fo]
    fy = fy / pl_integral(fx, fy, fx[0], fx[-1])
    R = np.zeros(len(nu))
    for i in range(len(nu)):
        lo = nu[0] if i == 0 else 0.5 * (nu[i - 1] + nu[i])
        hi = nu[-1] if i == len(nu) - 1 else 0.5 * (nu[i] + nu[i + 1])
        lo, hi = min(max(lo, fx[0]), fx[-1]), min(max(hi, fx[0]), fx[-1])
        R[i] = pl_integral(fx, fy, lo, hi)
    flux, err = sed_arrays(case)
    flux, err = flux[:, :, order], err[:, :, order]
    return np.sum(flux * R, axis=2), np.sqrt(np.sum((err * R) ** 2, axis=2))


def same_aps(a, b):
    return (a is None and b is None) or (a is not None and b is not None and len(a) == len(b) and
                                         all(rel(x, y) < 1e-14 for x, y in zip(a, b)))


def expected_apertures(case, what):
    """the aperture list a convolved file must carry: the SEDs' own; for an aperture-less package the per-file
    format carries the one-row placeholder `SED.write` stores (1e-30 cm), the cube format none"""
    from astropy import units as u
    if case['aps'] is not None:
        return list(case['aps'])
    return [(1.e-30 * u.cm).to(u.au).value] if what.startswith('per-file') else None


def check_file(case, tab, via, expect_names, fname, filt, what, scale=1.):
    """property checks on one convolved file; returns (list of failures, identified model index per row)"""
    fails = []
    names = case['names']
    n, nap = len(names), case['nap']
    if tab['names'] != via['names'] or not np.array_equal(tab['flux'], via['flux']) or \
            not np.array_equal(tab['err'], via['err']) or not same_aps(tab['aps'], via['aps']) or tab['wav'] != via['wav']:
        fails.append('%s %s: ConvolvedFluxes.read differs from the FITS table' % (what, fname))
    if [x.strip() for x in tab['names']] != expect_names:
        fails.append('%s %s: row labels %r, expected row order %r' % (what, fname, tab['names'], expect_names))
    if tab['flux'].shape != (n, nap) or tab['err'].shape != (n, nap):
        fails.append('%s %s: shape %r, expected %r' % (what, fname, tab['flux'].shape, (n, nap)))
        return fails, None
    want_aps = expected_apertures(case, what)
    if (tab['aps'] is None) != (want_aps is None) or (want_aps is not None and (
            len(tab['aps']) != len(want_aps) or not all(rel(x, y) < 1e-14 for x, y in zip(tab['aps'], want_aps)))):
        fails.append('%s %s: apertures %r, SED apertures %r' % (what, fname, None if tab['aps'] is None else
                                                                [float(v) for v in tab['aps']], want_aps))
    if rel(tab['wav'], filt['cw']) > 1e-12:
        fails.append('%s %s: FILTWAV %r micron, filter central wavelength %r micron (given in %s)'
                     % (what, fname, tab['wav'], filt['cw'], filt.get('cw_unit', 'um')))
    expF, expE = expected_rows(case, filt)
    expF, expE = expF * scale, expE * scale
    if case['flat'] and filt.get('inside', True):
        # flat F_nu through a normalised filter inside the SED range: exactly the constant (C06's flat-spectrum law);
        # this also pins the harness's own integrator
        if not all(rel(expF[m][a], case['c'][m][a]) < 1e-11 for m in range(n) for a in range(nap)):
            raise RuntimeError('harness: own convolution of a flat SED is not its constant')
        expF = np.array(case['c'], dtype=float) * scale
    ident = []
    for i in range(n):
        mf = identify(tab['flux'][i], expF)
        me = identify(tab['err'][i], expE)
        lab = tab['names'][i].strip()
        exp = names.index(lab) if lab in names else None
        ident.append(mf)
        if mf is None or mf != exp or me != exp:
            fails.append('%s %s row %d labelled %r: flux row %r is %s, error row %r is %s; SED %r gives flux %r, error %r'
                         % (what, fname, i, lab, [float(x) for x in tab['flux'][i]],
                            'that of SED %r' % names[mf] if mf is not None else 'of no SED',
                            [float(x) for x in tab['err'][i]], 'that of SED %r' % names[me] if me is not None else 'of no SED',
                            lab, [float(x) for x in expF[exp]] if exp is not None else None,
                            [float(x) for x in expE[exp]] if exp is not None else None))
    return fails, ident


def use_resolved(case):
    return bool(case.get('resolved')) and apdep(case) and case['nap'] > 1


def build_fitter(case, d, fnames, use_memmap, remove_resolved=None):
    nf = len(fnames)
    ext = pk.make_extinction(EXT_W, EXT_CHI)
    rr = use_resolved(case) if remove_resolved is None else remove_resolved
    # requested apertures (arcsec x distance): 1.05 .. 2.1 (resolved cases) or 1.3 .. 2.6 times the smallest tabulated one
    dr = case.get('drange') or [1., 2.]
    arcsec = [(case['aps'][0] if case['aps'] else 1000.) * (1.05 if use_resolved(case) else 1.3) / (1000. * dr[0])] * nf
    return pk.make_fitter(d, fnames, arcsec, ext, case['av'], distance_range_kpc=tuple(dr), use_memmap=use_memmap,
                          remove_resolved=rr)


def gzip_in_place(path):
    with open(path, 'rb') as f, gzip.open(path + '.gz', 'wb') as g:
        shutil.copyfileobj(f, g)
    os.remove(path)


def gzip_package_files(case, dirs, fnames, br):
    """some or all convolved-flux files and / or the parameter table exist only as `.fits.gz` from here on"""
    which = {'none': [], 'some': fnames[::2], 'all': list(fnames)}[case.get('gz_conv', 'none')]
    for dd in dirs:
        for fn in which:
            gzip_in_place(os.path.join(dd, 'convolved', fn + '.fits'))
        if case.get('gz_par'):
            gzip_in_place(os.path.join(dd, 'parameters.fits'))
    if which:
        br.add('convolved_gz')
    if case.get('gz_par'):
        br.add('parameters_gz')


def do_fit(case, fitter, fnames, src_flux):
    nf = len(fnames)
    s = pk.make_source('src', [1] * nf, src_flux, [f * r for f, r in zip(src_flux, case['src']['rel'])])
    with common.quiet():
        info = fitter.fit(s)
    a = pk.fit_arrays(info)
    fitter.last_info = info
    return {nme: (a['av'][i], a['sc'][i], a['chi2'][i]) for i, nme in enumerate(a['name'])}


def other_package(case, d2, d3, fnames, v2):
    """a second cube package of the same shape (same cube, same filters) whose convolved fluxes are different numbers"""
    shutil.copytree(d2, d3)
    for fn, filt in zip(fnames, case['filters']):
        t = v2[fn]
        pk.write_convolved(d3, fn, filt['cw'], [x.strip() for x in t['names']], t['flux'][::-1] * 3.7 + 0.011, t['err'][::-1],
                           apertures_au=case['aps'])


def staged_history(case, d, d1, d2, filters, fitters, br):
    """convolve (done) -> a post-processing call on a fit made from the package -> convolve again, with one more
    filter and overwrite=True: the rows of EVERY convolved file must (still) follow the parameter table on disk
    (per-file) / the cube (cube format), each row holding its own SED's numbers"""
    from sedfitter import write_parameters, write_parameter_ranges, extract_parameters
    from sedfitter.convolve import convolve_model_dir
    fails = []
    extra = dict(case['filters'][0], name='FB')
    filters2 = list(filters) + [make_filters(dict(case, filters=[extra]))[0]]
    specs = list(case['filters']) + [extra]
    table_stripped = [t.strip() for t in case['table']]
    for what, dd, key, expect in (('per-file', d1, 'per-file', table_stripped), ('cube', d2, 'cube use_memmap=False', case['cube'])):
        info = fitters[key].last_info
        out = os.path.join(d, 'stage_%s' % what)
        os.makedirs(out)
        try:
            with common.quiet():
                if case['stage'] == 'write_parameters':
                    write_parameters(info, os.path.join(out, 'p.txt'), select_format=('A', 0))
                elif case['stage'] == 'write_parameter_ranges':
                    write_parameter_ranges(info, os.path.join(out, 'r.txt'), select_format=('A', 0))
                else:
                    extract_parameters(input=info, output_prefix=out + '/x_', select_format=('A', 0))
                convolve_model_dir(dd, filters2, overwrite=True)
        except Exception as ex:
            fails.append('%s package: %s, then convolve_model_dir again: raised %s: %s' % (what, case['stage'], type(ex).__name__, ex))
            continue
        for filt in specs:
            tab, via = read_convolved(os.path.join(dd, 'convolved', filt['name'] + '.fits'))
            f, _ = check_file(case, tab, via, expect, filt['name'], filt, '%s after %s' % (what, case['stage']))
            fails += f
    br.add('staged_history')
    if table_stripped != sorted(table_stripped):
        br.add('staged_history_unsorted_table')
    br.add('stage_' + case['stage'])
    return fails


def f32_budget(case, fitter, lmax):
    """first-order bounds on the change of (av, sc, chi2) when the model fluxes are held as float32
    (`use_memmap=True`): the flux is rounded to float32 (relative 2^-24) and `np.log10` of a float32 array is
    evaluated and rounded in float32 (up to 1.5 ulp of a value of size <= lmax), so every model log flux moves by at
    most `d32`.  av, sc are linear in the residuals (normal equations of `linear_regression` /
    `optimal_scaling`); chi2 moves by at most 2 sqrt(chi2 sum(w)) d32 + sum(w) d32^2.  Safety factor 2."""
    d32 = 2. ** -24 * (1. / np.log(10.) + 3. * lmax)
    k = np.abs(np.asarray(fitter.av_law, dtype=float))
    w = (np.log(10.) / np.array(case['src']['rel'])) ** 2
    sw, skw = float(np.sum(w)), float(np.sum(k * w))
    if not apdep(case):
        m11, m12, m22 = float(np.sum(k * k * w)), float(np.sum(k * 2. * w)), 4. * sw
        det = m11 * m22 - m12 * m12
        tav = (m22 * skw + m12 * 2. * sw) / det
        tsc = (m11 * 2. * sw + m12 * skw) / det
    else:
        tav = skw / float(np.sum(k * k * w))
        tsc = 0.
    return 2. * d32 * tav, 2. * d32 * tsc + 1e-12, lambda c: 2. * (2. * np.sqrt(abs(c) * sw) * d32 + sw * d32 ** 2) + 1e-12


def impl_side(case, d):
    """run the real code; returns (failures [property itself], observations for the model comparison, branches)"""
    from sedfitter.convolve import convolve_model_dir
    fails, br = [], set()
    names = case['names']
    n = len(names)
    d1 = os.path.join(d, 'perfile')
    d2 = os.path.join(d, 'cube')
    os.makedirs(d1)
    os.makedirs(d2)
    build_perfile(case, d1)
    build_cube(case, d2)
    # the parameter tables in the representation the case names (overwrites the plain float64 / MODEL_NAME-first ones)
    tr = table_repr(case)
    write_tables(case, d1, d2)
    br |= {'table_names_' + tr['name_dtype'], 'table_name_col_' + tr['name_pos'], 'table_col_dtype_' + tr['col_dtype'].strip('>'),
           'cube_names_' + case.get('cube_names_repr', 'str')}
    filters = make_filters(case)
    fnames = [f['name'] for f in case['filters']]
    table_stripped = [t.strip() for t in case['table']]
    obs = dict(listing=listing_names(case, d1))
    srt = sorted(names)
    br |= {'perfile', 'cube', 'sed_' + case['sed_store'], 'cube_' + case['cube_store'],
           'nap_1' if case['nap'] == 1 else 'nap_gt1', 'filters_%d' % len(filters),
           'fit_aperture_dependent' if apdep(case) else 'fit_aperture_independent',
           'flat' if case['flat'] else 'nonflat', 'independent_expectation',
           'unit_sed_' + case.get('unit_sed', 'mJy').split('/')[0], 'unit_cube_' + case.get('unit_cube', 'mJy')}
    if case.get('unit_cube_unc', case.get('unit_cube', 'mJy')) != case.get('unit_cube', 'mJy'):
        br.add('cube_val_unc_units_differ')
    if case.get('unit_sed_err', case.get('unit_sed', 'mJy')) != case.get('unit_sed', 'mJy'):
        br.add('sed_flux_err_units_differ')
    if case['aps'] is None:
        br.add('no_apertures')
    if case.get('edge'):
        br |= {'filter_at_grid_end', 'filter_edge_' + case['edge']}
    br |= {'cw_unit_' + f.get('cw_unit', 'um') for f in case['filters']}
    if case.get('general'):
        br |= {'general_sed', 'err_not_proportional'}
    if obs['listing'] != table_stripped:
        br.add('listing_ne_table')
    if obs['listing'] != srt:
        br.add('listing_ne_nameorder')
    if table_stripped != srt:
        br.add('table_ne_nameorder')
    if any(t != t.strip() for t in case['table']):
        br.add('padded_table_names')
    if any(len(x) == 30 for x in names):
        br.add('name_len_30')
    if n in (1, 8):
        br.add('models_%d' % n)
    if any('/' in s for s in case['stems'].values()):
        br.add('sed_subdir')
    if obs['listing'] != case['listing']:
        raise RuntimeError('harness: directory listing %r is not the intended %r' % (obs['listing'], case['listing']))

    # ---- per-file format
    try:
        with common.quiet():
            convolve_model_dir(d1, filters)
    except Exception as ex:
        return ['per-file convolve_model_dir raised %s: %s' % (type(ex).__name__, ex)], obs, br
    v1 = {}
    for fn, filt in zip(fnames, case['filters']):
        tab, via = read_convolved(os.path.join(d1, 'convolved', fn + '.fits'))
        f, ident = check_file(case, tab, via, table_stripped, fn, filt, 'per-file')
        fails += f
        v1[fn] = tab
        obs.setdefault('v1_ident', {})[fn] = ident
        obs.setdefault('v1_names', {})[fn] = tab['names']

    # ---- cube format, memmap on / off
    v2, v2all = {}, {}
    for mm in (True, False):
        br.add('conv_memmap_on' if mm else 'conv_memmap_off')
        try:
            with common.quiet():
                convolve_model_dir(d2, filters, overwrite=True, memmap=mm)
        except Exception as ex:
            fails.append('cube convolve_model_dir(memmap=%s) raised %s: %s' % (mm, type(ex).__name__, ex))
            return fails, obs, br
        for fn, filt in zip(fnames, case['filters']):
            tab, via = read_convolved(os.path.join(d2, 'convolved', fn + '.fits'))
            f, ident = check_file(case, tab, via, case['cube'], fn, filt, 'cube(memmap=%s)' % mm)
            fails += f
            v2all.setdefault(mm, {})[fn] = tab
            if mm:
                v2[fn] = tab
                obs.setdefault('v2_ident', {})[fn] = ident
                obs.setdefault('v2_names', {})[fn] = tab['names']
            else:
                ref = v2[fn]
                if tab['names'] != ref['names'] or tab['flux'].shape != ref['flux'].shape:
                    fails.append('cube %s: memmap=False and memmap=True files differ in names / shape' % fn)
                else:
                    dmax = max(float(np.max(np.abs(tab[k] - ref[k]) / np.abs(ref[k]))) for k in ('flux', 'err'))
                    if dmax > 1e-12:
                        fails.append('cube %s: memmap=False and memmap=True convolutions differ in flux or error '
                                     '(max rel %.3g)' % (fn, dmax))

    # ---- same fluxes and errors in both formats, name by name, for the cube convolved either way
    for mm in (True, False):
        br.add('cube_memmap_%s_vs_perfile' % ('on' if mm else 'off'))
        for fn in fnames:
            a, b = v1[fn], v2all[mm][fn]
            if a['flux'].shape != b['flux'].shape:
                continue
            for i, lab in enumerate(a['names']):
                lab = lab.strip()
                js = [j for j, x in enumerate(b['names']) if x.strip() == lab]
                if len(js) != 1:
                    fails.append('%s: name %r occurs %d times in the cube-format file' % (fn, lab, len(js)))
                    continue
                j = js[0]
                for x, y, w in ((a['flux'][i], b['flux'][j], 'flux'), (a['err'][i], b['err'][j], 'error')):
                    if any(rel(p, q) > 1e-12 for p, q in zip(x, y)):
                        fails.append('%s model %r: per-file %s %r, cube-format (memmap=%s) %s %r'
                                     % (fn, lab, w, [float(v) for v in x], mm, w, [float(v) for v in y]))
    if fails:
        return fails, obs, br

    # ---- convolved once, revised, convolved again (on copies of the two packages)
    if case.get('reconv'):
        f, dis_ = reconvolve_history(case, d, d1, d2, filters, fnames, br)
        obs['reconv_dis'] = dis_
        if f:
            return f, obs, br

    # ---- fits from every variant agree
    sm = case['src']['model']
    row = v1[fnames[0]]['names'].index(names[sm]) if names[sm] in v1[fnames[0]]['names'] else 0
    src_flux = [float(v1[fn]['flux'][row][0]) * fac for fn, fac in zip(fnames, case['src']['fac'])]
    dr_ = case.get('drange') or [1., 2.]
    if dr_ != [1., 2.] and apdep(case):
        # a source near the (logarithmic) middle of the distance range, so that the best distance is an interior grid point
        src_flux = [f / (dr_[0] * dr_[1]) for f in src_flux]
        br.add('distance_range_exact_multiple_of_step')
    try:
        gzip_package_files(case, [d1, d2], fnames, br)
        # all fitters of the case are built first and stay alive together; the fits follow in a shuffled order
        variants = [('per-file', d1, False), ('per-file use_memmap=True', d1, True), ('cube use_memmap=False', d2, False),
                    ('cube use_memmap=True', d2, True)]
        fitters = {}
        for what, dd, um in variants:
            fitters[what] = build_fitter(case, dd, fnames, um)
        br.add('fitters_alive_together')
        second = None
        if case.get('second_pkg'):
            # one more memory-mapped fitter, on ANOTHER package of the same shape, created after the first one
            d3 = os.path.join(d, 'cube_other')
            other_package(case, d2, d3, fnames, v2)
            second = build_fitter(case, d3, fnames, True)        # (with remove_resolved it owns a second `extended` map)
            br.add('second_memmap_fitter_other_package')
        fitter = fitters['per-file']
        # largest |log10| of any model flux the fitter can see (all apertures; distances 1-2 kpc scale by <= 4)
        lmax = max(float(np.max(np.abs(np.log10(v1[fn]['flux'])))) for fn in fnames) + np.log10(4.)
        tav, tsc, tchi = f32_budget(case, fitter, lmax)
        order = [variants[i][0] for i in case.get('fit_order', [0, 1, 2, 3])]
        results = {}
        for what in order:
            results[what] = do_fit(case, fitters[what], fnames, src_flux)
        if second is not None:
            do_fit(case, second, fnames, src_flux)
        ref = results['per-file']
        relaxed = 0
        if use_resolved(case):
            # how often does the option matter?  the same in-memory fit without it
            br.add('remove_resolved_on')
            plain = do_fit(case, build_fitter(case, d1, fnames, False, remove_resolved=False), fnames, src_flux)
            if any(not (plain[k][1] == ref[k][1] and (plain[k][2] == ref[k][2] or abs(plain[k][2] - ref[k][2]) <= 1e-9 * abs(ref[k][2])))
                   for k in ref):
                br.add('remove_resolved_changes_fit')
            if any(np.isinf(v[2]) for v in ref.values()):
                br.add('remove_resolved_model_removed_everywhere')
        for what, dd, um in variants[1:]:
            if dd == d1:
                br.add('perfile_fit_memmap_on')
            else:
                br.add('fit_memmap_on' if um else 'fit_memmap_off')
            got = results[what]
            um = um and dd != d1          # the per-file reader has no float32 path: exact agreement expected
            if sorted(got) != sorted(ref):
                fails.append('fit from %s: model names %r, per-file %r' % (what, sorted(got), sorted(ref)))
                continue
            for nme in ref:
                (a0, s0, c0), (a1, s1, c1) = ref[nme], got[nme]
                if um:
                    ta, ts, tc = tav, tsc, tchi(c0)
                else:
                    ta, ts, tc = 1e-9 * (1. + abs(a0)), 1e-9 * (1. + abs(s0)), 1e-9 * (1. + abs(c0))
                okc, oka, oks = (c0 == c1) or abs(c0 - c1) <= tc, abs(a0 - a1) <= ta, abs(s0 - s1) <= ts
                if okc and oka and oks:
                    continue
                if um and okc and apdep(case) and not oks:
                    relaxed += 1        # two trial distances tie within the float32 budget
                    continue
                fails.append('fit of model %r from %s: (av, sc, chi2) = (%r, %r, %r); from the per-file package '
                             '(%r, %r, %r); budget (%.3g, %.3g, %.3g)' % (nme, what, float(a1), float(s1), float(c1), float(a0), float(s0), float(c0), ta, ts, tc))
        obs['relaxed'] = relaxed
        # the wavelengths the fitter evaluates the extinction law at: the filters' central wavelengths
        for what, fv_ in fitters.items():
            wl = [float(x) for x in fv_.models.wavelengths.to('micron').value]
            if len(wl) != len(case['filters']) or any(rel(x, f['cw']) > 1e-12 for x, f in zip(wl, case['filters'])):
                fails.append('fitter on the %s package: model wavelengths %r micron, filter central wavelengths %r micron (given in %r)'
                             % (what, wl, [f['cw'] for f in case['filters']], [f.get('cw_unit', 'um') for f in case['filters']]))
        # an aperture-independent fit uses the first tabulated aperture: column 0 of the convolved files
        if not apdep(case):
            if case['nap'] > 1:
                br.add('multi_aperture_fit_aperture_independent')
            for what, fv_ in fitters.items():
                src_tab = v1 if what.startswith('per-file') else v2
                mf = np.asarray(fv_.models.fluxes.to('mJy').value, dtype=float)
                mnames = [str(x).strip() for x in fv_.models.names]
                tol = 1e-6 if what.endswith('use_memmap=True') and not what.startswith('per-file') else 1e-12
                for j, fn in enumerate(fnames):
                    want = {x.strip(): float(src_tab[fn]['flux'][i][0]) for i, x in enumerate(src_tab[fn]['names'])}
                    bad = [(nme, float(mf[i][j]), want.get(nme)) for i, nme in enumerate(mnames)
                           if nme not in want or rel(mf[i][j], want[nme]) > tol]
                    if mf.shape != (len(names), len(fnames)) or bad:
                        fails.append('aperture-independent fit on the %s package, filter %s: model fluxes (name, used, flux at the '
                                     'first tabulated aperture in the convolved file) differ: %r' % (what, fn, bad[:4]))
        # ---- staged history in this process: post-processing on a fit, then convolve again (+ one more filter)
        if case.get('stage') and not fails:
            fails += staged_history(case, d, d1, d2, filters, fitters, br)
    except Exception as ex:
        import traceback
        fails.append('Fitter raised %s: %s\n%s' % (type(ex).__name__, ex, traceback.format_exc()[-1500:]))

    # ---- a cube package whose parameter table is in another row order (compared refusal; done last)
    if case.get('cube_table') is not None and not fails:
        idx = [names.index(nme) for nme in case['cube_table']]
        pk.write_parameters(d2, case['cube_table'], {'PAR1': [float(i) for i in idx]})
        try:
            with common.quiet():
                convolve_model_dir(d2, filters, overwrite=True, memmap=False)
            obs['cube_table_outcome'] = None
            # it accepted the package: the property must hold on what it wrote (rows in cube order, every label on
            # the convolution of its own SED)
            for fn, filt in zip(fnames, case['filters']):
                tab, via = read_convolved(os.path.join(d2, 'convolved', fn + '.fits'))
                f, _ = check_file(case, tab, via, case['cube'], fn, filt,
                                  'cube package with parameter table %r, accepted,' % (case['cube_table'],))
                fails += f
        except Exception as ex:
            obs['cube_table_outcome'] = type(ex).__name__
        br.add('cube_table_accepted_rows_checked_or_refused')
        br.add('cube_table_permuted' if case['cube_table'] != case['cube'] else 'cube_table_same_order')
    return fails, obs, br


# ----------------------------------------------------------------------------- model side

def enc(name):
    return '.'.join(str(ord(ch)) for ch in name) if name else '-'


def dec(tok):
    return '' if tok == '-' else ''.join(chr(int(p)) for p in tok.split('.'))


def names_line(names):
    return ' '.join([str(len(names))] + [enc(x) for x in names])


def read_names(t):
    return [dec(t.tok()) for _ in range(t.nat())]


def model_side(case, obs):
    drv = common.driver()
    t = drv.ask('ordermatch %s %s' % (names_line(obs['listing']), names_line(case['table'])))
    order = t.nats()
    new_names = read_names(t)
    nap = case['nap']
    out = dict(order=order, names=new_names)
    for v, src, table in ((1, obs['listing'], case['table']), (2, case['cube'], case['cube'])):
        t = drv.ask('convnames %d %d %s %s' % (v, nap, names_line(src), names_line(table)))
        nm = read_names(t)
        rows = []
        for _ in nm:
            f = t.nats()
            e = t.nats()
            rows.append((f, e))
        out['v%d' % v] = dict(names=nm, rows=rows)
    if case.get('cube_table') is not None and 'cube_table_outcome' in obs:
        raw = drv.ask_raw('convnames 2 %d %s %s' % (nap, names_line(case['cube']), names_line(case['cube_table'])))
        toks = raw.split()
        out['cube_table'] = toks[1] if toks and toks[0] == 'err' else None
    return out


def compare_model(case, obs, mod):
    """model prediction against the identified content of the real files"""
    dis = list(obs.get('reconv_dis', []))
    if 'cube_table' in mod:
        want = {'namesMismatch': 'ValueError', None: None}.get(mod['cube_table'], mod['cube_table'])
        if obs['cube_table_outcome'] != want:
            dis.append('cube package with parameter table %r for cube %r: implementation %s, model convolveV2 %s'
                       % (case['cube_table'], case['cube'],
                          'raised ' + obs['cube_table_outcome'] if obs['cube_table_outcome'] else 'returned',
                          'refuses (%s)' % mod['cube_table'] if mod['cube_table'] else 'returns'))
    names = case['names']
    nap = case['nap']
    lst = obs['listing']
    for fn in obs.get('v1_names', {}):
        impl_names = [x.strip() for x in obs['v1_names'][fn]]
        ident = obs['v1_ident'][fn]
        if impl_names != mod['names'] or impl_names != mod['v1']['names']:
            dis.append('per-file %s: row labels %r, model sortToMatch %r, model convolveV1 %r'
                       % (fn, impl_names, mod['names'], mod['v1']['names']))
            continue
        if ident is None:
            continue
        impl_src = [lst.index(names[m]) if m is not None else None for m in ident]   # listing position of the SED in row i
        if impl_src != mod['order']:
            dis.append('per-file %s: rows hold the SEDs at listing positions %r, model order %r' % (fn, impl_src, mod['order']))
        want = [([100 * p + a for a in range(nap)], [100 * p + a + 50 for a in range(nap)]) for p in mod['order']]
        if [(list(f), list(e)) for f, e in mod['v1']['rows']] != want:
            dis.append('model convolveV1 rows %r differ from its own order %r' % (mod['v1']['rows'], mod['order']))
    for fn in obs.get('v2_names', {}):
        impl_names = [x.strip() for x in obs['v2_names'][fn]]
        ident = obs['v2_ident'][fn]
        if impl_names != mod['v2']['names']:
            dis.append('cube %s: row labels %r, model convolveV2 %r' % (fn, impl_names, mod['v2']['names']))
            continue
        if ident is None:
            continue
        impl_src = [case['cube'].index(names[m]) if m is not None else None for m in ident]
        mod_src = [f[0] // 100 for f, e in mod['v2']['rows']]
        ok_tags = all(list(f) == [100 * p + a for a in range(nap)] and list(e) == [100 * p + a + 50 for a in range(nap)]
                      for p, (f, e) in zip(mod_src, mod['v2']['rows']))
        if impl_src != mod_src or not ok_tags:
            dis.append('cube %s: rows hold cube positions %r, model %r' % (fn, impl_src, mod['v2']['rows']))
    return dis


def run_case(case):
    d = tempfile.mkdtemp(prefix='c07_')
    try:
        fails, obs, br = impl_side(case, d)
        key = common.canon_hash(case)
        sample = dict(n_models=len(case['names']), n_ap=case['nap'], listing=case['listing'], table=case['table'],
                      cube=case['cube'], sed_store=case['sed_store'], cube_store=case['cube_store'],
                      filters=[f['name'] for f in case['filters']], flat=case['flat'], general=case.get('general', False))
        if fails:
            return CaseResult(False, detail='\n'.join(fails[:6]), violates=True, branches=br, key=key)
        mod = model_side(case, obs)
        dis = compare_model(case, obs, mod)
        if dis:
            return CaseResult(False, detail='\n'.join(dis[:6]), violates=None, branches=br, key=key)
        return CaseResult(True, branches=br, key=key, nontrivial=len(case['names']) >= 2, sample=sample,
                          relaxed=obs.get('relaxed', 0))
    finally:
        shutil.rmtree(d, ignore_errors=True)


def search(seed, tier, disagreeing):
    """the property itself on the real code (no model): the disagreeing inputs, then a directed sweep"""
    found, tried = [], 0
    sweep = list(disagreeing)
    for i in range(40 if tier == 'quick' else 200):
        sweep.append(gen_case(case_rng(seed, PID + '/search', i)))
    for case in sweep:
        d = tempfile.mkdtemp(prefix='c07s_')
        try:
            tried += 1
            fails, _, _ = impl_side(case, d)
            if fails:
                found.append((case, '\n'.join(fails[:6])))
                if len(found) >= 3:
                    break
        except Exception:
            pass
        finally:
            shutil.rmtree(d, ignore_errors=True)
    return found, tried


def shrink(case):
    """drop models while the property still fails on the real code"""
    def fails(c):
        d = tempfile.mkdtemp(prefix='c07k_')
        try:
            f, _, _ = impl_side(c, d)
            return bool(f)
        except Exception:
            return False
        finally:
            shutil.rmtree(d, ignore_errors=True)
    cur = case
    changed = True
    while changed and len(cur['names']) > 1:
        changed = False
        for nme in list(cur['names']):
            if len(cur['names']) <= 1:
                break
            i = cur['names'].index(nme)
            c = dict(cur)
            c['names'] = [x for x in cur['names'] if x != nme]
            c['stems'] = {k: v for k, v in cur['stems'].items() if k != nme}
            c['listing'] = [x for x in cur['listing'] if x != nme]
            c['table'] = [x for x in cur['table'] if x.strip() != nme]
            c['cube'] = [x for x in cur['cube'] if x != nme]
            c['c'] = cur['c'][:i] + cur['c'][i + 1:]
            c['e'] = cur['e'][:i] + cur['e'][i + 1:]
            c['src'] = dict(cur['src'], model=0)
            if fails(c):
                cur = c
                changed = True
                break
    return cur
