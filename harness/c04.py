"""C04 — results are ranked by chi² and every row describes one model.

(a) *direct*: a FitInfo assembled through its public attributes the way `Models.fit` does (six per-model
    arrays with identifiable payloads, arbitrary chi² vector incl. ties, +inf, NaN), then `.sort()`.
    Model side: driver op `sortrows` (= `argsortEF` + `gather`, `sortRows` of Model/Rank.lean).
    Compared modulo the order inside groups of equal chi² (numpy's default sort is not stable).
(b') the same end-to-end comparison on version-2 *cube* packages (`flux.fits`) fitted at tabulated
    wavelengths (`Fitter([λ*u.micron, …])`), whose model names have 1..45 characters, some sharing their
    first 30 characters: `model_name[i]` must be the cube's name of model `model_id[i]`, in full.
    (Convolved-flux *files* store names in a 30-character column, so long names are confined to this path.)
(b) *end to end*: `Fitter.fit(source)` on distance-independent packages with duplicated models (exact
    ties) and models pushed to chi² >= 1e30 by violated confidence-1 limits.  Every row of the FitInfo
    (name, model_id, A_V, scale, chi², predicted fluxes) is compared with the per-model values of driver
    op `fit2` (exact box-constrained optimum, chi², `predicted2`) for the model the row names, and the
    ranking with `sortrows` applied to the exact chi² values.
Property side (independent of the model): model_id is a permutation of all models, chi² is non-decreasing
in numpy order, each output row is the input row with that model_id, name[i] == names[model_id[i]].
"""
import itertools
import math
import shutil
import tempfile

import numpy as np

from . import common
from .common import CaseResult, case_rng, rat
from . import packages as pk
from . import ef
from . import c01

PID = 'C04'
RULE = ('cases = (a) chi² vector over {1, 2, 3.5, +inf, NaN} of length 0..5 (or random longer) with payload arrays, '
        'with / without model_fluxes; (b) distance-independent package (some models duplicated), extinction law, '
        'A_V range, sources (some with confidence-1 limits).  Non-trivial: at least 2 models.  Distinct = distinct '
        'canonical hash of the generated inputs')
REQUIRED_BRANCHES = ['fitter_positional', 'fitter_keyword', 'source_via_copy', 'source_via_deepcopy', 'source_via_pickle',
                     'fitinfo_via_copy', 'fitinfo_via_deepcopy', 'fitinfo_via_pickle', 'two_fitters', 'two_fitters_memmap', 'two_fitters_other_shape', 'two_fitters_same_shape',
                     'e2e3d_pkg_v1', 'e2e3d_pkg_cube', 'e2e3d_pkg_cube_memmap', 'direct', 'near_tie', 'near_tie_ulp', 'e2e_near_tie', 'tie', 'inf', 'nan', 'already_ranked', 'reordered', 'no_fluxes', 'with_fluxes',
                     'e2e', 'e2e_tie', 'e2e_1e30', 'e2e_clamped', 'e2e_reordered',
                     'e2e3d', 'e2e3d_tie', 'e2e3d_mask_changed_best', 'e2e3d_reordered', 'e2e3d_predicted_independent', 'e2e3d_dist_kpc', 'e2e3d_dist_pc', 'e2e3d_dist_other_unit',
                     'e2e_cube', 'e2e_cube_long_names', 'e2e_cube_shared_prefix', 'e2e_cube_reordered']
ASSUMPTIONS = ['histories: two Fitter objects alive at once on packages with the same models.conf name (default use_memmap for '
               'cube packages): fit with the first, construct and use the second, fit with the first again - the rows must be '
               'identical to the first fit (and, up to the float32 budget of memmap storage, those of the model); the '
               'distance-dependent block keeps the full-package and the one-model Fitters alive together in all three package '
               'formats (files, cube, cube + memmap)',
               '"non-decreasing chi²" is checked EXACTLY on the own float64 numbers of the implementation, its chi² column (NaN last), with no '
               'tolerance and no margin relaxation, also for chi² values that differ by 1 ulp .. 1e-8 relative (near-ties, built '
               'directly and produced by the fitter from near-duplicate models); only the comparison of the row ORDER with the '
               'model is relaxed inside near-tie groups',
               'order inside a group of equal chi² is not compared (numpy.argsort default kind is not stable)',
               'end-to-end: chi² values closer than 1e-9 (relative) are treated as one tie group; IEEE rounding is not '
               'modelled (tolerance 1e-9 x condition number); rows whose clamp/limit decision margin is below 1e-7 are skipped',
               'distance-dependent mode: rows are compared (a) with the real fitter run on one-model packages (a row must not '
               'depend on the model\'s neighbours) and (b) with an expectation computed by the harness itself from the package '
               'arrays: predicted_j = log10(interp(aperture table_j, theta_j * d_best[pc]) * (1 kpc / d_best)^2) + av * k_j with '
               'd_best = 10**sc and (av, sc) read from the row, tolerance 1e-9; which distance is best and the value of av are C02\'s',
               'chi² = +inf for a WHOLE model cannot be produced through Fitter.fit on the unchanged code: with remove_resolved the '
               'radius from find_radius_sigma never exceeds the largest aperture_au (= theta * d_max) and the test is a strict <, so '
               'the farthest trial distance is never masked and argmin always finds a finite chi²; dmin == dmax gives radius == '
               'aperture, again not <.  The outcome branch that IS reachable and required is e2e3d_mask_changed_best (the mask moves a '
               'model\'s reported distance, seen by fitting the same package with remove_resolved=False); e2e3d_inf is recorded if it '
               'ever occurs (then the row must rank last among non-NaN rows and be consistent), but is not required.  True +inf / NaN '
               'chi² rows are exercised through directly built FitInfo objects']
EXHAUSTIVE = {'quick': False, 'thorough': True}
N_E2E = {'quick': 45, 'thorough': 3000}
N_E2E3D = {'quick': 14, 'thorough': 900}
N_CUBE = {'quick': 24, 'thorough': 1500}
N_TWO = {'quick': 16, 'thorough': 600}
N_DIRECT_QUICK = 700


# ----------------------------------------------------------------------------- generation

def all_vectors(maxlen=5):
    for n in range(maxlen + 1):
        for combo in itertools.product(range(len(ef.ALPHABET)), repeat=n):
            yield [ef.ALPHABET[i] for i in combo]


def direct_case(chi2, with_fluxes):
    return dict(kind='direct', chi2=[ef.js(c) for c in chi2], with_fluxes=bool(with_fluxes))


def gen_e2e(rng, directed=None):
    case = c01.gen_case(rng, directed if directed in ('clamp_low', 'clamp_high', 'interior') else None)
    case['kind'] = 'e2e'
    if case.get('pkg') == 'cube_memmap':
        case['pkg'] = 'cube'          # float32 storage (use_memmap) is C01's business; C04 compares at float64 tolerance
    models = case['models']
    nb = len(case['wavs'])
    # duplicated models: exact ties
    ndup = rng.randint(1, 3) if (directed == 'dup' or rng.random() < 0.6) else 0
    for _ in range(ndup):
        models.insert(rng.randint(0, len(models)), list(rng.choice(models)))
    # one source with a confidence-1 limit near the model fluxes: some models end up at chi² >= 1e30
    if directed == 'big' or rng.random() < 0.6:
        src = dict(rng.choice(case['sources']))
        src = dict(flags=list(src['flags']), flux=list(src['flux']), err=list(src['err']))
        fitted = [j for j in range(nb) if src['flags'][j] in (1, 4)]
        cand = [j for j in range(nb) if j not in fitted[:2]]
        if cand:
            j = rng.choice(cand)
            ref = src['flux'][j] if src['flags'][j] != 4 else 10 ** src['flux'][j]
            src['flags'][j] = rng.choice([2, 3])
            src['flux'][j] = float('%.3g' % (abs(ref) * 10 ** rng.uniform(-0.4, 0.4) or 1.))
            src['err'][j] = 1.
            case['sources'].append(src)
    return case


def gen_cases(seed, tier):
    I, Nn = ef.INF, ef.NAN
    # directed block
    yield direct_case([2, Nn, I, 1, 2], True)
    yield direct_case([2, Nn, I, 1, 2], False)
    yield direct_case([1, 2, 2, 3.5, I, I, Nn, Nn], True)
    yield direct_case([], True)
    yield direct_case([Nn], False)
    yield direct_case([I, I, 1, 1, Nn, 1], True)
    # near-ties: relative gaps far below single precision, larger value first
    yield direct_case([5., 3. * (1 + 1e-8), 3., 1., 7. * (1 + 1e-10), 7., 7. * (1 + 1e-13), 2.], True)
    yield direct_case([float(np.nextafter(40., np.inf)), 40., float(np.nextafter(np.nextafter(40., np.inf), np.inf)), 1e3, Nn, 0.5], False)
    yield direct_case([1e30 * (1 + 1e-10), 1e30, 12.5 * (1 + 1e-8), 12.5, I], True)
    for i in range(4):
        yield near_tie_direct(case_rng(seed, PID, 'directed-near-%d' % i))
    for i in range(4):
        yield add_near_duplicates(case_rng(seed, PID, 'directed-neardup-%d' % i),
                                  gen_e2e(case_rng(seed, PID, 'directed-neardup-case-%d' % i), 'interior'))
    for i, d in enumerate(['dup', 'big', 'clamp_low', 'clamp_high']):
        yield gen_e2e(case_rng(seed, PID, 'directed-%d' % i), d)
    yield gen_cube(case_rng(seed, PID, 'directed-cube-0'), directed=True)
    yield gen_cube(case_rng(seed, PID, 'directed-cube-1'), directed=True)
    for i, (pkg, shape) in enumerate([('cube_memmap', 'same'), ('cube_memmap', 'fewer_bands'), ('cube_memmap', 'more_models'),
                                      ('cube', 'same'), ('v1_mJy', 'more_models')]):
        yield gen_two_fitters(case_rng(seed, PID, 'directed-two-%d' % i), pkg, shape)
    for i in range(3):
        yield dict(gen_e2e3d_masked(case_rng(seed, PID, 'directed-3d-masked-%d' % i), unit=['kpc', 'pc', 'lyr'][i]),
                   pkg3d=['v1', 'cube', 'cube_memmap'][i])
    yield gen_e2e3d(case_rng(seed, PID, 'directed-3d-0'), resolved=True, dup=True, unit='pc')
    yield gen_e2e3d(case_rng(seed, PID, 'directed-3d-1'), resolved=True, dup=True, unit='Mpc')
    yield gen_e2e3d(case_rng(seed, PID, 'directed-3d-2'), resolved=False, dup=False, unit='cm')
    yield gen_e2e3d(case_rng(seed, PID, 'directed-3d-3'), resolved=False, dup=True, unit='kpc')
    if tier == 'thorough':
        for v in all_vectors():
            yield direct_case(v, len(v) % 2 == 0)
        for k in range(1500):
            yield long_direct(case_rng(seed, PID, 'long-%d' % k))
        for k in range(1500):
            yield near_tie_direct(case_rng(seed, PID, 'near-%d' % k))
    else:
        vecs = list(all_vectors())
        for k in range(N_DIRECT_QUICK):
            rng = case_rng(seed, PID, 'd%d' % k)
            if rng.random() < 0.15:
                yield long_direct(rng)
            elif rng.random() < 0.15:
                yield near_tie_direct(rng)
            else:
                yield direct_case(rng.choice(vecs), rng.random() < 0.6)
    for k in range(N_E2E[tier]):
        rng = case_rng(seed, PID, 'e%d' % k)
        c = gen_e2e(rng)
        if rng.random() < 0.35:
            add_near_duplicates(rng, c)
        yield c
    for k in range(N_E2E3D[tier]):
        yield gen_e2e3d(case_rng(seed, PID, 'f%d' % k))
    for k in range(N_CUBE[tier]):
        yield gen_cube(case_rng(seed, PID, 'g%d' % k))
    for k in range(N_TWO[tier]):
        yield gen_two_fitters(case_rng(seed, PID, 'h%d' % k))


def cube_names(rng, nm, long_names=True):
    """distinct model names of 1..45 characters; with `long_names` some exceed 30 characters and some of
    those share their first 30 characters"""
    alpha = 'abcdefghijklmnopqrstuvwxyzABCDEFGHIJKLMNOPQRSTUVWXYZ0123456789_-.'
    word = lambda n: ''.join(rng.choice(alpha) for _ in range(n))
    names = []
    prefix = word(30)
    while len(names) < nm:
        u_ = rng.random()
        if long_names and u_ < 0.35:
            n = prefix + word(rng.randint(1, 15))                 # shares 30 characters with its siblings
        elif long_names and u_ < 0.6:
            n = word(rng.randint(31, 45))
        else:
            n = word(rng.randint(1, 30))
        if n not in names:
            names.append(n)
    return names


def gen_cube(rng, directed=False):
    case = gen_e2e(rng, 'dup' if directed else None)
    case['c04pkg'] = 'named_cube'
    case['pkg'] = 'cube'            # c01.model_side then takes the wavelengths the way a cube package is fitted
    nm = len(case['models'])
    names = cube_names(rng, nm)
    if directed:
        # at least two names that differ only after the 30th character, and one other long name
        pre = 'model_with_a_very_long_name_30'
        assert len(pre) == 30
        fixed = [pre + '_A', pre + '_B', 'x' * 45, 'q']
        for i, n in enumerate(fixed[:nm]):
            names[i] = n
        rng.shuffle(names)
    case['names'] = names
    return case


DIST_UNITS = ['kpc', 'kpc', 'pc', 'pc', 'Mpc', 'cm', 'lyr', 'm']


def give_distance_unit(rng, case, unit=None):
    """state the distance range in another length unit (few significant digits in that unit); the fitter converts it
    to kpc itself, and the reported scale must be log10 of the distance IN KPC that the fluxes were scaled with"""
    from astropy import units as u
    unit = unit or rng.choice(DIST_UNITS)
    dlo, dhi = case['dist']
    if unit != 'kpc':
        fac = (1. * u.kpc).to(u.Unit(unit)).value
        given = [float('%.4g' % (dlo * fac)), float('%.4g' % (dhi * fac))]
        if dlo == dhi:
            given[1] = given[0]
        back = pk.to_kpc(given, unit)
        # keep theta * dmin above the smallest tabulated aperture and the range non-degenerate unless it was meant to be
        if back[0] >= dlo * 0.999 and (back[1] > back[0] or dlo == dhi):
            case['dist_unit'] = unit
            case['dist_given'] = given
            return case
    case['dist_unit'] = 'kpc'
    case['dist_given'] = [dlo, dhi]
    return case


def gen_e2e3d(rng, resolved=None, dup=None, unit=None):
    """aperture-dependent package: fluxes (n_models, n_ap, n_bands) rising with aperture"""
    nb = rng.randint(2, 4)
    nm = rng.randint(2, 5)
    nap = rng.randint(2, 5)
    wavs = sorted({common.nice(rng, 0.5, 100., 3) for _ in range(nb + 2)})[:nb]
    nb = len(wavs)
    aps = sorted({common.nice(rng, 50., 5e4, 2) for _ in range(nap + 2)})[:nap]
    nap = len(aps)
    resolved = rng.random() < 0.6 if resolved is None else resolved
    models = []
    for m in range(nm):
        base = [common.nice(rng, 0.1, 100., 3) for _ in range(nb)]
        # concentrated models gain little with aperture; extended ones have most flux at the largest apertures
        extended = resolved and rng.random() < 0.5
        prof = [[0.] * nb for _ in range(nap)]
        for j in range(nb):
            acc = base[j]
            for a in range(nap):
                if a:
                    acc = acc * (rng.uniform(3., 8.) if extended else rng.uniform(1.01, 1.2))
                prof[a][j] = float('%.4g' % acc)
        models.append(prof)
    if dup is None:
        dup = rng.random() < 0.5
    if dup:
        for _ in range(rng.randint(1, 2)):
            models.insert(rng.randint(0, len(models)), [list(r) for r in rng.choice(models)])
    tw = sorted({0.1, 300.} | {common.nice(rng, 0.1, 300., 3) for _ in range(rng.randint(2, 8))})
    chi = [common.nice(rng, 1., 1e4, 3) for _ in tw]
    dlo = common.nice(rng, 0.1, 2., 2)
    dhi = dlo if rng.random() < 0.15 else float('%.2g' % (dlo * rng.uniform(1.5, 20.)))
    # theta * dmin must not fall below the smallest tabulated aperture (C02's domain); AU = arcsec * pc
    amin = aps[0] / (dlo * 1000.)
    ap_arcsec = [float('%.3g' % (amin * rng.uniform(1.1, 40.))) for _ in range(nb)]
    sources = []
    for _ in range(rng.randint(1, 3)):
        m = rng.randrange(len(models))
        a = rng.randrange(nap)
        d = rng.uniform(dlo, dhi)
        flags = [rng.choice([1, 1, 1, 4, 3, 0]) for _ in range(nb)]
        for j in rng.sample(range(nb), 2):
            flags[j] = 1
        flux, err = [], []
        for j in range(nb):
            f = float('%.4g' % (models[m][a][j] / d ** 2 * 10 ** rng.uniform(-0.3, 0.3)))
            if flags[j] == 4:
                flux.append(float('%.4f' % math.log10(f)))
                err.append(common.nice(rng, 0.01, 0.3, 2))
            elif flags[j] == 3:
                flux.append(f)
                err.append(rng.choice([0.5, 0.9, 1.]))
            else:
                flux.append(f)
                err.append(float('%.3g' % (f * common.nice(rng, 0.01, 0.3, 2))))
        sources.append(dict(flags=flags, flux=flux, err=err))
    return give_distance_unit(rng, dict(
        pkg3d=rng.choice(['v1', 'v1', 'cube', 'cube_memmap']), kind='e2e3d', wavs=wavs, aps=aps, models=models, tab_w=tw, tab_chi=chi,
        av=[0., float('%.2g' % rng.uniform(1., 40.))], dist=[dlo, dhi], logd_step=rng.choice([0.02, 0.05, 0.2]),
        ap_arcsec=ap_arcsec, remove_resolved=resolved, sources=sources), unit)


def gen_two_fitters(rng, pkg=None, shape=None):
    """history: Fitter A fits, Fitter B (another package with the SAME models.conf name, possibly another shape) is
    created and used while A is alive, A fits again"""
    case = c01.gen_case(rng)
    case['kind'] = 'two_fitters'
    case['pkg'] = pkg or rng.choice(['cube_memmap', 'cube_memmap', 'cube_memmap', 'cube', 'v1_mJy'])
    case['rebuild'] = False
    case['other_shape'] = shape or rng.choice(['same', 'fewer_bands', 'more_models'])
    if case['other_shape'] == 'fewer_bands' and len(case['wavs']) < 3:
        case['other_shape'] = 'more_models'
    return case


def gen_e2e3d_masked(rng, unit=None):
    """extended models (surface brightness not falling outwards) seen through small apertures at a source that
    matches them at the NEAREST trial distance: without the mask the best distance is near dmin, with
    remove_resolved every trial distance but the farthest is masked, so the reported distance must move"""
    nb = rng.randint(2, 3)
    aps = [100., 300., 900., 2700., 8100.]
    wavs = sorted({common.nice(rng, 0.5, 100., 3) for _ in range(nb + 2)})[:nb]
    nb = len(wavs)
    dlo, dhi = 0.5, 2.0
    models = []
    for m in range(rng.randint(2, 3)):
        base = [common.nice(rng, 0.1, 10., 3) for _ in range(nb)]
        grow = rng.uniform(10., 14.)
        models.append([[float('%.4g' % (base[j] * grow ** a)) for j in range(nb)] for a in range(len(aps))])
    # one compact model for contrast
    base = [common.nice(rng, 1., 100., 3) for _ in range(nb)]
    models.insert(rng.randint(0, len(models)), [[float('%.4g' % (base[j] * 1.02 ** a)) for j in range(nb)] for a in range(len(aps))])
    tw = sorted({0.1, 300.} | {common.nice(rng, 0.1, 300., 3) for _ in range(4)})
    chi = [common.nice(rng, 1., 1e4, 3) for _ in tw]
    ap_arcsec = [float('%.3g' % rng.uniform(0.3, 3.5)) for _ in range(nb)]
    sources = []
    for m in range(len(models)):
        flux, err = [], []
        for j in range(nb):
            a_au = ap_arcsec[j] * dlo * 1000.
            f = float(np.interp(a_au, aps, [models[m][a][j] for a in range(len(aps))])) / dlo ** 2
            f = float('%.4g' % f)
            flux.append(f)
            err.append(float('%.3g' % (0.05 * f)))
        sources.append(dict(flags=[1] * nb, flux=flux, err=err))
    return give_distance_unit(rng, dict(kind='e2e3d', wavs=wavs, aps=aps, models=models, tab_w=tw, tab_chi=chi, av=[0., 5.],
                                        dist=[dlo, dhi], logd_step=0.05, ap_arcsec=ap_arcsec, remove_resolved=True,
                                        sources=sources), unit)


NEAR_GAPS = [1e-8, 1e-10, 1e-13, 'ulp']


def near_tie_direct(rng, n_groups=None):
    """well separated chi² values, some of them accompanied by near-ties (relative gaps 1e-8, 1e-10, 1e-13, 1 ulp),
    in random order"""
    vals = []
    base = sorted({float('%.3g' % (10 ** rng.uniform(-1, 4))) for _ in range(rng.randint(2, 8))})
    for k, v in enumerate(base):
        vals.append(v)
        if k < (n_groups or 99) and rng.random() < 0.7:
            x = v
            for _ in range(rng.randint(1, 3)):
                g = rng.choice(NEAR_GAPS)
                x = float(np.nextafter(x, np.inf)) if g == 'ulp' else x * (1. + g)
                vals.append(x)
    if rng.random() < 0.3:
        vals.append(ef.INF)
    if rng.random() < 0.3:
        vals.append(ef.NAN)
    rng.shuffle(vals)
    return direct_case(vals, rng.random() < 0.5)


def add_near_duplicates(rng, case):
    """near-duplicate models: a copy with one band changed by parts in 1e8 (or 1e10), placed before or after the
    original, so that the fitter itself produces chi² values closer than single precision can tell apart"""
    models = case['models']
    for _ in range(rng.randint(1, 3)):
        i = rng.randrange(len(models))
        m = list(models[i])
        j = rng.randrange(len(m))
        m[j] = m[j] * (1. + rng.choice([1., -1.]) * rng.choice([1e-8, 3e-9, 1e-10]))
        models.insert(i + rng.choice([0, 1]), m)
    case['near_dup'] = True
    return case


def long_direct(rng):
    n = rng.randint(6, 60)
    pool = [float('%.3g' % (10 ** rng.uniform(-1, 3))) for _ in range(max(2, n // 2))]
    vals = []
    for _ in range(n):
        u = rng.random()
        vals.append(ef.INF if u < 0.08 else ef.NAN if u < 0.14 else -ef.INF if u < 0.15 else rng.choice(pool))
    return direct_case(vals, rng.random() < 0.6)


# ----------------------------------------------------------------------------- (a) direct

def run_direct(case):
    chi2 = [ef.unjs(c) for c in case['chi2']]
    n = len(chi2)
    pay = ef.payload(n, with_fluxes=case['with_fluxes'], nflux=3)
    br = {'direct', 'with_fluxes' if case['with_fluxes'] else 'no_fluxes'}
    if len({ef.js(c) for c in chi2}) < n:
        br.add('tie')
    if any(c == ef.INF for c in chi2):
        br.add('inf')
    if any(math.isnan(c) for c in chi2):
        br.add('nan')
    br.add('already_ranked' if ef.is_ranked(chi2) else 'reordered')
    fin = sorted(c for c in chi2 if math.isfinite(c))
    for a, b in zip(fin, fin[1:]):
        if a < b and (b - a) <= 1e-7 * abs(b):
            br.add('near_tie')
            if b == float(np.nextafter(a, np.inf)):
                br.add('near_tie_ulp')
    key = common.canon_hash(case)
    try:
        info = ef.build_info(chi2, pay)
        info.model_id = None                      # as in Models.fit: set by sort()
        via = ['none', 'none', 'copy', 'deepcopy', 'pickle'][int(key, 16) % 5]
        if via != 'none':
            import copy
            import pickle
            info = {'copy': copy.copy, 'deepcopy': copy.deepcopy, 'pickle': lambda x: pickle.loads(pickle.dumps(x, 2))}[via](info)
            br.add('fitinfo_via_' + via)
        with common.quiet():
            info.sort()
        rows = ef.rows_of_info(info)
    except Exception as e:
        return CaseResult(False, detail='FitInfo.sort raised %s: %s on chi2=%r' % (type(e).__name__, e, case['chi2']),
                          violates=True, branches=br, key=key)
    # the property, directly
    bad = check_rows_property(rows, chi2, pay)
    if bad:
        return CaseResult(False, detail='FitInfo.sort on chi2=%r: %s; result %r' % (case['chi2'], bad, rows),
                          violates=True, branches=br, key=key)
    # the model
    t = common.driver().ask('sortrows ' + ef.rows_line(chi2, dict(pay, model_id=[])))
    mrows = ef.parse_rows(t)
    if ef.lengths(mrows) != ef.lengths(rows) or ef.canon_ties(mrows) != ef.canon_ties(rows):
        return CaseResult(False, detail='model and implementation differ on chi2=%r: model %r impl %r' % (case['chi2'], mrows, rows),
                          violates=None, branches=br, key=key)
    return CaseResult(True, branches=br, key=key, nontrivial=n >= 2,
                      detail='impl %r\nmodel %r' % (rows, mrows),
                      sample=dict(chi2=case['chi2'], model_id=rows['model_id']))


def check_rows_property(rows, chi2, pay):
    """C04 on one sorted result against the unsorted arrays it was made from; '' when it holds"""
    n = len(chi2)
    if any(l != n for l in ef.lengths(rows)):
        return 'array lengths %r, expected %d everywhere' % (ef.lengths(rows), n)
    if sorted(rows['model_id']) != list(range(n)):
        return 'model_id %r is not a permutation of all %d models' % (rows['model_id'], n)
    if not ef.is_ranked(rows['chi2']):
        return 'chi2 %r is not non-decreasing (NaN last)' % (rows['chi2'],)
    for i, m in enumerate(rows['model_id']):
        if not ef.same(rows['chi2'][i], chi2[m]):
            return 'row %d: chi2 %r is not that of model_id %d (%r)' % (i, rows['chi2'][i], m, chi2[m])
        for k in ('av', 'sc', 'name'):
            if rows[k][i] != pay[k][m]:
                return 'row %d: %s %r is not that of model_id %d (%r)' % (i, k, rows[k][i], m, pay[k][m])
        if (rows['fluxes'] is None) != (pay['fluxes'] is None):
            return 'model_fluxes presence changed'
        if rows['fluxes'] is not None and list(rows['fluxes'][i]) != list(pay['fluxes'][m]):
            return 'row %d: model_fluxes %r are not those of model_id %d (%r)' % (i, rows['fluxes'][i], m, pay['fluxes'][m])
    return ''


# ----------------------------------------------------------------------------- (b) end to end

def build_cube(case, d, br=None):
    """version-2 package: the case's models as an SED cube with the case's (long) model names, tabulated at the fitted
    wavelengths plus two more, one aperture, fitted at wavelengths.  Wavelengths are tabulated and requested exactly
    as harness/c01.py does for its cube packages (requested wavelength possibly a little off the tabulated one and in
    another unit), so that c01.model_side describes the same fit."""
    from astropy import units as u
    names = list(case['names'])
    nm = len(names)
    extra = [min(case['wavs']) / 3., max(case['wavs']) * 3.]
    allw = sorted(list(case['wavs']) + extra, reverse=(len(case['wavs']) % 2 == 0))
    val = np.zeros((nm, 1, len(allw)))
    for i in range(nm):
        for jj, w in enumerate(allw):
            val[i, 0, jj] = case['models'][i][case['wavs'].index(w)] if w in case['wavs'] else 1. + i + jj
    pk.write_cube_package(d, names, allw, val, val * 0.1, apertures_au=[100.], aperture_dependent=False)
    unit, tab, _, _ = c01.table_in_unit(case)
    ext = pk.make_extinction(tab, case['tab_chi'], wav_unit=unit)
    units = case.get('filt_units') or ['micron'] * len(case['wavs'])
    fnames = [(w * u.micron).to(u.Unit(un)) for w, un in zip(case.get('req_wavs') or case['wavs'], units)]
    fitter = styled_fitter(case, d, fnames, [1.] * len(fnames), ext, case['av'], use_memmap=False, br=br)
    return fitter, names


def run_e2e(case):
    d = tempfile.mkdtemp(prefix='c04_')
    br = {'e2e'}
    relaxed = 0
    key = common.canon_hash(case)
    try:
        if case.get('c04pkg') == 'named_cube':
            fitter, names = build_cube(case, d, br)
            br.add('e2e_cube')
            if any(len(n) > 30 for n in names):
                br.add('e2e_cube_long_names')
            if len({n[:30] for n in names}) < len(names):
                br.add('e2e_cube_shared_prefix')
        else:
            fitter, names = c01.build(case, d)
        nm = len(names)
        lo, hi = case['av']
        nontrivial = False
        for si, src in enumerate(case['sources']):
            if c01.singular(case, src):
                continue
            s = via_source(pk.make_source('s%d' % si, src['flags'], src['flux'], src['err']), case, si, br)
            try:
                with common.quiet():
                    info = fitter.fit(s)
                got = pk.fit_arrays(info)
            except Exception as e:
                return CaseResult(False, detail='Fitter.fit raised %s: %s (source %d)' % (type(e).__name__, e, si),
                                  violates=True, branches=br, key=key)
            exp = c01.model_side(case, src)
            n_rows = len(got['chi2'])
            # every model exactly once
            if n_rows != nm or sorted(got['model_id']) != list(range(nm)) or len(got['name']) != nm \
                    or got['model_fluxes'] is None or got['model_fluxes'].shape[0] != nm:
                return CaseResult(False, detail='source %d: %d models in the package, result has %d rows, model_id=%r'
                                  % (si, nm, n_rows, got['model_id']), violates=True, branches=br, key=key)
            if not ef.is_ranked(got['chi2']):
                return CaseResult(False, detail='source %d: chi2 not non-decreasing: %r' % (si, [float(c) for c in got['chi2']]),
                                  violates=True, branches=br, key=key)
            gc = [float(c) for c in got['chi2']]
            if any(a < b and (b - a) <= 1e-7 * abs(b) for a, b in zip(gc, gc[1:])):
                br.add('e2e_near_tie')            # the fitter's own chi² values, closer than single precision resolves
            if got['model_id'] != sorted(got['model_id']):
                br.add('e2e_reordered')
                if case.get('c04pkg') == 'named_cube':
                    br.add('e2e_cube_reordered')
            skip_order = False
            for i, m in enumerate(got['model_id']):
                e = exp[m]
                if got['name'][i] != names[m]:
                    return CaseResult(False, detail='source %d row %d: model_name %r but names[model_id=%d] = %r'
                                      % (si, i, got['name'][i], m, names[m]), violates=True, branches=br, key=key)
                scale = 1. + abs(float(e['av'])) + abs(float(e['sc']))
                if e['margin'] < 1e-7 * scale:
                    relaxed += 1
                    skip_order = True
                    continue
                tol = 1e-9 * max(1., e['cond'])
                if lo < hi and float(e['av']) in (lo, hi):
                    br.add('e2e_clamped')
                if float(e['chi2']) >= 1e29:
                    br.add('e2e_1e30')
                ok = (common.close(got['av'][i], e['av'], tol) and common.close(got['sc'][i], e['sc'], tol)
                      and common.close(got['chi2'][i], e['chi2'], max(tol, 1e-9) * 10))
                pred = [float(p) for p in e['pred']]
                okp = len(pred) == got['model_fluxes'].shape[1] and all(
                    common.close(a, b, tol * 10, scale=scale) for a, b in zip(got['model_fluxes'][i], pred))
                if not (ok and okp):
                    return CaseResult(False, detail=(
                        'source %d row %d names model %s (model_id %d) but carries (av, sc, chi2) = (%r, %r, %r), predicted %r; '
                        'that model has (av, sc, chi2) = (%r, %r, %r), predicted log fluxes (log10 F + av*k - 2*sc) = %r'
                        % (si, i, names[m], m, float(got['av'][i]), float(got['sc'][i]), float(got['chi2'][i]),
                           [float(x) for x in got['model_fluxes'][i]],
                           float(e['av']), float(e['sc']), float(e['chi2']), pred)), violates=True, branches=br, key=key)
            nontrivial = nontrivial or nm >= 2
            if skip_order:
                continue
            # ranking against the model: sortrows on the exact chi² values
            exact = [e['chi2'] for e in exp]
            line = ['sortrows', str(nm)] + [rat(c) for c in exact]
            line += [common.rats([0] * nm), common.rats([0] * nm), str(nm)] + names + ['0', '0']
            t = common.driver().ask(' '.join(line))
            mrows = ef.parse_rows(t)
            morder = mrows['model_id']
            if len({str(c) for c in exact}) < nm:
                br.add('e2e_tie')
            for i in range(nm):
                a = float(exact[got['model_id'][i]])
                b = float(exact[morder[i]])
                if abs(a - b) > 1e-9 * (1. + abs(b)) * max(1., exp[morder[i]]['cond'], exp[got['model_id'][i]]['cond']):
                    return CaseResult(False, detail=(
                        'source %d: rank %d holds model %s whose exact chi2 is %r; ranking the exact chi2 values puts %s (%r) '
                        'there; impl order %r, model order %r' % (si, i, names[got['model_id'][i]], a, names[morder[i]], b,
                                                                  got['model_id'], morder)),
                        violates=True, branches=br, key=key)
        return CaseResult(True, branches=br, key=key, nontrivial=nontrivial, relaxed=relaxed,
                          sample=dict(kind='e2e', n_models=len(case['models']), n_bands=len(case['wavs']),
                                      av_range=case['av'], n_sources=len(case['sources'])))
    finally:
        shutil.rmtree(d, ignore_errors=True)


def styled_fitter(case, d, fnames, apertures_arcsec, ext, av, dist=(1., 2.), dist_unit=None, remove_resolved=False,
                  use_memmap=False, br=None):
    """Fitter(filter_names, apertures, model_dir, extinction_law, av_range, distance_range, remove_resolved, use_memmap):
    everything by keyword (as harness/packages.py does) or everything positional in the documented order"""
    from astropy import units as u
    from sedfitter.fit import Fitter
    positional = int(common.canon_hash(case), 16) % 2 == 0
    if br is not None:
        br.add('fitter_positional' if positional else 'fitter_keyword')
    if not positional:
        return pk.make_fitter(d, fnames, apertures_arcsec, ext, av, distance_range_kpc=dist, distance_unit=dist_unit,
                              remove_resolved=remove_resolved, use_memmap=use_memmap)
    with common.quiet():
        return Fitter(fnames, np.array(apertures_arcsec, dtype=float) * u.arcsec, d, ext, tuple(av),
                      np.array(dist, dtype=float) * u.Unit(dist_unit or 'kpc'), remove_resolved, use_memmap)


def via_source(s, case, si, br=None):
    """the Source goes through copy.copy / copy.deepcopy / a pickle round trip before it is fitted (or not at all)"""
    import copy
    import pickle
    via = ['none', 'copy', 'deepcopy', 'pickle'][(int(common.canon_hash(case), 16) // 2 + si) % 4]
    if via == 'none':
        return s
    if br is not None:
        br.add('source_via_' + via)
    return {'copy': copy.copy, 'deepcopy': copy.deepcopy, 'pickle': lambda x: pickle.loads(pickle.dumps(x, 2))}[via](s)


def build3d(case, d, which, remove_resolved=None, br=None):
    """package holding the models `which` (indices) of the case: convolved-flux files (version 1) or an SED cube
    fitted at its tabulated wavelengths (version 2), the latter with or without use_memmap (float32 scratch files)"""
    from astropy import units as u
    names = ['m%03d' % i for i in which]
    pkg = case.get('pkg3d', 'v1')
    rr = case['remove_resolved'] if remove_resolved is None else remove_resolved
    ext = pk.make_extinction(case['tab_w'], case['tab_chi'])
    if pkg == 'v1':
        pk.write_conf(d, aperture_dependent=True, logd_step=case['logd_step'])
        fnames = []
        for j, w in enumerate(case['wavs']):
            fn = 'F%d' % j
            fnames.append(fn)
            flux = [[case['models'][i][a][j] for a in range(len(case['aps']))] for i in which]
            pk.write_convolved(d, fn, w, names, flux, np.zeros((len(which), len(case['aps']))), apertures_au=case['aps'])
        use_memmap = False
    else:
        allw = sorted(list(case['wavs']) + [min(case['wavs']) / 3., max(case['wavs']) * 3.])
        val = np.ones((len(which), len(case['aps']), len(allw)))
        for r, i in enumerate(which):
            for a in range(len(case['aps'])):
                for j, w in enumerate(case['wavs']):
                    val[r, a, allw.index(w)] = case['models'][i][a][j]
        pk.write_cube_package(d, names, allw, val, np.zeros_like(val), apertures_au=case['aps'], aperture_dependent=True,
                              logd_step=case['logd_step'])
        fnames = [w * u.micron for w in case['wavs']]
        use_memmap = (pkg == 'cube_memmap')
    fitter = styled_fitter(case, d, fnames, case['ap_arcsec'], ext, case['av'], dist=case.get('dist_given', case['dist']),
                           dist_unit=case.get('dist_unit'), remove_resolved=rr, use_memmap=use_memmap, br=br)
    return fitter, names


def expected_predicted3(case, m, av, sc):
    """the harness's own expectation of the stored row of model m, from the arrays it wrote into the package:
    log10(flux interpolated to the aperture theta_j * d [AU = arcsec * pc], times (1 kpc / d)^2) + av * k_j, d = 10**sc"""
    d_kpc = 10. ** sc
    tw = np.array(case['tab_w'], dtype=float)
    tc = np.array(case['tab_chi'], dtype=float)
    aps = np.array(case['aps'], dtype=float)
    out = []
    for j, w in enumerate(case['wavs']):
        k = -0.4 * np.interp(w, tw, tc, left=0., right=0.) / np.interp(0.55, tw, tc)
        a_au = min(case['ap_arcsec'][j] * d_kpc * 1000., aps[-1])          # beyond the table: clamped to the last aperture
        f = np.interp(a_au, aps, [case['models'][m][a][j] for a in range(len(aps))]) / d_kpc ** 2
        out.append(math.log10(f) + av * k)
    return out


def run_e2e3d(case):
    root = tempfile.mkdtemp(prefix='c04_3d_')
    br = {'e2e3d'}
    br.add('e2e3d_pkg_' + case.get('pkg3d', 'v1'))
    ptol = 2e-6 if case.get('pkg3d') == 'cube_memmap' else 1e-9       # float32 storage of the model fluxes
    du = case.get('dist_unit', 'kpc')
    br.add('e2e3d_dist_kpc' if du == 'kpc' else 'e2e3d_dist_pc' if du == 'pc' else 'e2e3d_dist_other_unit')
    key = common.canon_hash(case)
    nm = len(case['models'])
    try:
        import os
        with common.quiet():
            d0 = os.path.join(root, 'full')
            os.makedirs(d0)
            full, names = build3d(case, d0, list(range(nm)), br=br)
            singles = []
            for m in range(nm):
                dm = os.path.join(root, 'one%d' % m)
                os.makedirs(dm)
                singles.append(build3d(case, dm, [m])[0])
            nomask = None
            if case['remove_resolved']:
                dn = os.path.join(root, 'nomask')
                os.makedirs(dn)
                nomask = build3d(case, dn, list(range(nm)), remove_resolved=False)[0]
        for si, src in enumerate(case['sources']):
            s = via_source(pk.make_source('s%d' % si, src['flags'], src['flux'], src['err']), case, si, br)
            try:
                with common.quiet():
                    got = pk.fit_arrays(full.fit(s))
                    own = [pk.fit_arrays(f.fit(s)) for f in singles]
            except Exception as e:
                return CaseResult(False, detail='Fitter.fit raised %s: %s (source %d)' % (type(e).__name__, e, si),
                                  violates=True, branches=br, key=key)
            if len(got['chi2']) != nm or sorted(got['model_id']) != list(range(nm)) or got['model_fluxes'] is None \
                    or got['model_fluxes'].shape[0] != nm or len(got['name']) != nm:
                return CaseResult(False, detail='source %d: %d models in the package, result has %d rows, model_id=%r'
                                  % (si, nm, len(got['chi2']), got['model_id']), violates=True, branches=br, key=key)
            if not ef.is_ranked(got['chi2']):
                return CaseResult(False, detail='source %d: chi2 not non-decreasing: %r' % (si, [float(c) for c in got['chi2']]),
                                  violates=True, branches=br, key=key)
            if got['model_id'] != sorted(got['model_id']):
                br.add('e2e3d_reordered')
            ochi = [float(o['chi2'][0]) for o in own]
            if any(c == ef.INF for c in ochi):
                br.add('e2e3d_inf')
            # outcome of the mask: the same package fitted without it
            if nomask is not None:
                with common.quiet():
                    free = pk.fit_arrays(nomask.fit(s))
                for i, m in enumerate(got['model_id']):
                    i0 = free['model_id'].index(m)
                    if float(got['sc'][i]) != float(free['sc'][i0]):
                        br.add('e2e3d_mask_changed_best')
                    if float(got['chi2'][i]) < float(free['chi2'][i0]) * (1 - 1e-12):
                        return CaseResult(False, detail=(
                            'source %d model %s: chi2 with remove_resolved (%r) is below the minimum over ALL trial distances (%r)'
                            % (si, names[m], float(got['chi2'][i]), float(free['chi2'][i0]))), violates=True, branches=br, key=key)
            # the stored fluxes against the harness's own expectation from the package arrays
            for i, m in enumerate(got['model_id']):
                if not (math.isfinite(float(got['sc'][i])) and math.isfinite(float(got['av'][i]))):
                    continue
                want = expected_predicted3(case, m, float(got['av'][i]), float(got['sc'][i]))
                have = [float(x) for x in got['model_fluxes'][i]]
                br.add('e2e3d_predicted_independent')
                if len(have) != len(want) or not all(common.close(a, b, ptol) for a, b in zip(have, want)):
                    return CaseResult(False, detail=(
                        'distance_range = %r %s; source %d row %d (model %s, av=%r, sc=%r i.e. d=%r kpc): stored predicted log fluxes %r; the model\'s fluxes '
                        'interpolated to the apertures theta*d, scaled by d^-2, plus av*k give %r'
                        % (case.get('dist_given', case['dist']), case.get('dist_unit', 'kpc'), si, i, names[m], float(got['av'][i]),
                           float(got['sc'][i]), 10. ** float(got['sc'][i]), have, want)),
                        violates=True, branches=br, key=key)
            if len({ef.js(c) for c in ochi}) < nm:
                br.add('e2e3d_tie')
            for i, m in enumerate(got['model_id']):
                o = own[m]
                same_num = lambda a, b: ef.same(a, b) or common.close(a, b, 1e-10)
                ok = (got['name'][i] == names[m] and same_num(got['chi2'][i], o['chi2'][0])
                      and same_num(got['av'][i], o['av'][0]) and same_num(got['sc'][i], o['sc'][0])
                      and all(same_num(a, b) for a, b in zip(got['model_fluxes'][i], o['model_fluxes'][0])))
                if not ok:
                    return CaseResult(False, detail=(
                        'source %d row %d: model_id %d (names[%d] = %s) but the row is (name, av, sc, chi2, fluxes) = (%s, %r, %r, %r, %r); '
                        'that model fitted on its own gives (%s, %r, %r, %r, %r)'
                        % (si, i, m, m, names[m], got['name'][i], float(got['av'][i]), float(got['sc'][i]), float(got['chi2'][i]),
                           [float(x) for x in got['model_fluxes'][i]], names[m], float(o['av'][0]), float(o['sc'][0]),
                           float(o['chi2'][0]), [float(x) for x in o['model_fluxes'][0]])), violates=True, branches=br, key=key)
            # ranking against the model
            line = ['sortrows', str(nm)] + [ef.ef_tok(c) for c in ochi]
            line += [common.rats([0] * nm), common.rats([0] * nm), str(nm)] + names + ['0', '0']
            morder = ef.parse_rows(common.driver().ask(' '.join(line)))['model_id']
            for i in range(nm):
                a, b = ochi[got['model_id'][i]], ochi[morder[i]]
                if not (ef.same(a, b) or common.close(a, b, 1e-10)):
                    return CaseResult(False, detail=(
                        'source %d: rank %d holds model %s (chi2 %r); ranking the per-model chi2 values %r puts %s (%r) there'
                        % (si, i, names[got['model_id'][i]], a, [ef.js(c) for c in ochi], names[morder[i]], b)),
                        violates=True, branches=br, key=key)
        return CaseResult(True, branches=br, key=key, nontrivial=nm >= 2,
                          sample=dict(kind='e2e3d', n_models=nm, n_apertures=len(case['aps']), n_bands=len(case['wavs']),
                                      dist=case.get('dist_given', case['dist']), dist_unit=case.get('dist_unit', 'kpc'),
                                      remove_resolved=case['remove_resolved']))
    finally:
        shutil.rmtree(root, ignore_errors=True)


def other_package(case):
    """a second package with other fluxes (and possibly another shape) under the same models.conf name"""
    b = dict(case)
    b['models'] = [[float('%.4g' % (x * (1.7 + 0.3 * ((i + j) % 5)))) for j, x in enumerate(mf)][::-1]
                   for i, mf in enumerate(case['models'])][::-1]
    b['sources'] = [dict(flags=list(s_['flags']), flux=list(s_['flux']), err=list(s_['err'])) for s_ in case['sources']]
    if case['other_shape'] == 'more_models':
        b['models'] = b['models'] + [[float('%.4g' % (x * 3.3)) for x in mf] for mf in b['models'][:2]]
    elif case['other_shape'] == 'fewer_bands':
        for k in ('wavs', 'req_wavs', 'filt_units'):
            if b.get(k):
                b[k] = list(b[k])[:-1]
        b['models'] = [mf[:-1] for mf in b['models']]
        for s_ in b['sources']:
            for k in ('flags', 'flux', 'err'):
                s_[k] = s_[k][:-1]
    return b


def run_two_fitters(case):
    import os
    root = tempfile.mkdtemp(prefix='c04_two_')
    br = {'two_fitters', 'two_fitters_same_shape' if case['other_shape'] == 'same' else 'two_fitters_other_shape'}
    if case['pkg'] == 'cube_memmap':
        br.add('two_fitters_memmap')
    key = common.canon_hash(case)
    relaxed = 0
    try:
        da, db = os.path.join(root, 'A'), os.path.join(root, 'B')
        os.makedirs(da)
        os.makedirs(db)
        other = other_package(case)
        srcs = [(si, src) for si, src in enumerate(case['sources']) if not c01.singular(case, src)]

        def fit_all(fitter, which):
            out = {}
            for si, src in which:
                s = pk.make_source('s%d' % si, src['flags'], src['flux'], src['err'])
                with common.quiet():
                    out[si] = pk.fit_arrays(fitter.fit(s))
            return out

        def same_rows(a, b):
            return (a['name'] == b['name'] and a['model_id'] == b['model_id']
                    and all(np.array_equal(a[k], b[k], equal_nan=True) for k in ('av', 'sc', 'chi2', 'model_fluxes')))

        try:
            fa, names = c01.build(case, da)
            first = fit_all(fa, srcs)
            fb, _ = c01.build(other, db)                       # same models.conf name, A still alive
            b_first = fit_all(fb, list(enumerate(other['sources']))[:1])
            second = fit_all(fa, srcs)
            b_second = fit_all(fb, list(enumerate(other['sources']))[:1])
        except Exception as e:
            return CaseResult(False, detail='two Fitters alive (%s packages, second one %s): %s: %s'
                              % (case['pkg'], case['other_shape'], type(e).__name__, e), violates=True, branches=br, key=key)
        for label, one, two, nms in (('first', first, second, names), ('second', b_first, b_second, None)):
            for si in one:
                if not same_rows(one[si], two[si]):
                    a, b = one[si], two[si]
                    return CaseResult(False, detail=(
                        'two Fitters alive on %s packages with the same models.conf name (the other one has %s): the %s Fitter fitted '
                        'source %d, then the other Fitter was %s, then the %s Fitter fitted the same source again. Before: names %r '
                        'model_id %r av %r chi2 %r fluxes[0] %r; after: names %r model_id %r av %r chi2 %r fluxes[0] %r - the rows no '
                        'longer describe the models they name'
                        % (case['pkg'], case['other_shape'], label, si, 'created and used' if label == 'first' else 'used again', label,
                           a['name'], a['model_id'], [float(x) for x in a['av']], [float(x) for x in a['chi2']],
                           [float(x) for x in a['model_fluxes'][0]], b['name'], b['model_id'], [float(x) for x in b['av']],
                           [float(x) for x in b['chi2']], [float(x) for x in b['model_fluxes'][0]])),
                        violates=True, branches=br, key=key)
        # and the rows are those of the model (float32 budget for memmap storage)
        lo, hi = case['av']
        for si, src in srcs:
            got = second[si]
            exp = c01.model_side(case, src)
            if sorted(got['model_id']) != list(range(len(names))) or not ef.is_ranked(got['chi2']):
                return CaseResult(False, detail='source %d: model_id %r chi2 %r' % (si, got['model_id'], [float(c) for c in got['chi2']]),
                                  violates=True, branches=br, key=key)
            for i, m in enumerate(got['model_id']):
                e = exp[m]
                if got['name'][i] != names[m]:
                    return CaseResult(False, detail='source %d row %d: model_name %r but names[model_id=%d] = %r'
                                      % (si, i, got['name'][i], m, names[m]), violates=True, branches=br, key=key)
                tol = 1e-9 * max(1., e['cond'])
                scale = 1. + abs(float(e['av'])) + abs(float(e['sc']))
                dav = dsc = dchi = dres = 0.
                guard = 1e-7 * scale
                if case['pkg'] == 'cube_memmap':
                    dav, dsc, dchi, dres = c01.f32_budget(case, src, e)
                    guard = max(guard, 20. * max(dav, dres))
                if e['margin'] < guard:
                    relaxed += 1
                    continue
                ok = (abs(got['av'][i] - float(e['av'])) <= tol * (1. + abs(float(e['av']))) + dav
                      and abs(got['sc'][i] - float(e['sc'])) <= tol * (1. + abs(float(e['sc']))) + dsc
                      and abs(got['chi2'][i] - float(e['chi2'])) <= max(tol, 1e-9) * 10 * (1. + abs(float(e['chi2']))) + dchi
                      and all(abs(a - float(b)) <= tol * 10 * scale + 2. * dres + 1e-12
                              for a, b in zip(got['model_fluxes'][i], e['pred'])))
                if not ok:
                    return CaseResult(False, detail=(
                        'two Fitters alive; source %d row %d names model %s but carries (av, sc, chi2) = (%r, %r, %r), predicted %r; that '
                        'model has (%r, %r, %r), predicted %r' % (si, i, names[m], float(got['av'][i]), float(got['sc'][i]),
                                                                 float(got['chi2'][i]), [float(x) for x in got['model_fluxes'][i]],
                                                                 float(e['av']), float(e['sc']), float(e['chi2']),
                                                                 [float(p) for p in e['pred']])), violates=True, branches=br, key=key)
        return CaseResult(True, branches=br, key=key, nontrivial=bool(srcs), relaxed=relaxed,
                          sample=dict(kind='two_fitters', pkg=case['pkg'], other_shape=case['other_shape'],
                                      n_models=len(case['models']), n_bands=len(case['wavs'])))
    finally:
        shutil.rmtree(root, ignore_errors=True)


def run_case(case):
    if case['kind'] == 'two_fitters':
        return run_two_fitters(case)
    if case['kind'] == 'direct':
        return run_direct(case)
    if case['kind'] == 'e2e3d':
        return run_e2e3d(case)
    return run_e2e(case)


# ----------------------------------------------------------------------------- falsifier

def search(seed, tier, disagreeing):
    """C04 evaluated on the real code only: sort integrity on directly built results (no driver)"""
    found = []
    tried = 0
    pool = [c for c in disagreeing if c.get('kind') == 'direct']
    pool += [direct_case(v, len(v) % 2 == 0) for v in all_vectors(4)]
    for case in pool:
        tried += 1
        chi2 = [ef.unjs(c) for c in case['chi2']]
        pay = ef.payload(len(chi2), with_fluxes=case['with_fluxes'], nflux=3)
        try:
            info = ef.build_info(chi2, pay)
            with common.quiet():
                info.sort()
            bad = check_rows_property(ef.rows_of_info(info), chi2, pay)
        except Exception as e:
            bad = 'FitInfo.sort raised %s: %s' % (type(e).__name__, e)
        if bad:
            found.append((case, 'FitInfo.sort on chi2=%r: %s' % (case['chi2'], bad)))
            if len(found) >= 5:
                break
    return found, tried


def shrink(case):
    if case.get('kind') != 'direct':
        return case
    def fails(c):
        try:
            return not run_direct(c).ok
        except Exception:
            return False
    cur = case
    changed = True
    while changed:
        changed = False
        for i in range(len(cur['chi2'])):
            c = dict(cur)
            c['chi2'] = cur['chi2'][:i] + cur['chi2'][i + 1:]
            if fails(c):
                cur = c
                changed = True
                break
    return cur
