"""E2E — the whole pipeline against the composed Lean model (`Model/Pipeline.lean`, op `e2e.pipeline`).

Real side: per-file package written with sedfitter's own writers (`SED.write` per model, file names
decoupled from model names, permuted `parameters.fits`, names padded with blanks) ->
`convolve_model_dir(model_dir, filters)` -> data file -> `fit(datafile, ..., n_data_min, output_format)` ->
fit output file -> `write_parameters(out, txt, select_format)` -> text.

Model side: ONE driver request with the raw inputs (SED objects as held, filter nodes as held, table rows in
file order, source lines as parsed, extinction table, A_V range, both selectors); the answer is the
convolved-flux table of every filter, every record of the fit file and every row of the listing.

Compared: every cell of every `convolved/<filter>.fits` (row order included: it follows the parameter table);
every record of the fit file (`FitInfoFile`): source, names, chi2, av, sc; every row of the text: fit_id, name,
chi2 / av / scale to `%10.3f`, every parameter as the `%10.3e` string.  Rows are compared by model name
(so any order inside a group of equal chi2 is accepted) and the chi2 at every rank is compared with the
model's ranking.
"""
import math
import os
import shutil
import tempfile

import numpy as np

from . import common
from .common import CaseResult, rat, rats, case_rng, nice, Fraction
from . import packages as pk

PID = 'E2E'
# This stage compares EVERY row of every listing with the pipeline model.  Most of what it compares (selector counts,
# penalties of other models, print layout) is the business of C04/C05/C06/C09, not of C08's own statement (the planted
# model is recovered), so a disagreement here is reported as a broken correspondence of the pipeline model
# (`no-failing-input-found` with the disagreeing case in the replay), not as an input violating C08.
E2E_VERDICT = None
RULE = ('cases = (per-file package of 2-6 models, each with 6-25 wavelengths in either stored order (one grid for all '
        'models, or per-model grids), 1 aperture, file names decoupled from model names, 1-4 parameter columns, parameter '
        'table permuted and names padded with blanks; 2-4 filters with 3-7 nodes in either stored order, normalised or not, '
        'inside or partly overlapping the SED range; extinction law; A_V range (wide / clamping); 1-4 sources with flags '
        'from {0,1,2,3,4,9}, some below n_data_min; output_format and select_format from A/N/C/D/E/F; directed: twin '
        'models (exactly tied chi2), table in listing order, N selectors cutting inside the ranking). A case is '
        'non-trivial when at least one source is fitted and listed with >= 1 row; distinct = distinct canonical hash')
REQUIRED_BRANCHES = ['table_permuted', 'file_order_differs', 'padded_names', 'wav_increasing', 'wav_decreasing',
                     'per_model_grids', 'filter_partial_overlap', 'filter_inside', 'filter_normalized', 'filter_raw',
                     'filter_inc_nu', 'filter_dec_nu', 'flag0', 'flag1', 'flag2', 'flag3', 'flag4', 'flag9',
                     'source_skipped', 'clamped', 'unclamped', 'exact_tie', 'sel_cuts', 'sel_keeps_all',
                     'sel_A', 'sel_N', 'sel_C', 'sel_D', 'sel_E', 'sel_F', 'limit_penalty', 'multi_row_listing']
ASSUMPTIONS = ['IEEE rounding is not modelled: convolved fluxes within 1e-9 relative (variances 4e-9), (av, sc) within '
               '1e-9 x condition of the normal equations, chi2 within 1e-8 (1 + chi2); text columns additionally within half a '
               'unit of the last printed digit',
               'decisions whose margin is below 1e-7 (clamp, limit threshold, selector threshold, chi2 gaps between ranks) are '
               'compared in the relaxed form (either branch) and counted in margin_relaxed',
               'every convolved model flux is positive (filters overlap every SED), every fitted source has >= 2 fitted bands '
               'with different extinction coefficients (C01 non-singular), at least one source reaches n_data_min',
               'the filter-rebinning cache of convolve_model_dir (reuse when the next grid equals the previous within 100 ulp) is '
               'not modelled; grids in a package are either identical or differ by far more']
TRUSTED_EXTRA = ['SED objects, Filter objects and the parameter table are built with sedfitter / astropy constructors; the model '
                 'receives the float arrays those objects hold']
N = {'quick': 400, 'thorough': 8000}
LETTERS = 'abcdefghijklmnopqrstuvwxyz0123456789'
PAR_NAMES = ['MASS', 'TEMP', 'LUMIN', 'INCL']
FORMS = ['A', 'N', 'C', 'D', 'E', 'F']


# ----------------------------------------------------------------------------- generation

def gen_selector(rng, nm, form=None, loose=False):
    form = form or rng.choice(FORMS)
    if form == 'A':
        return ['A', 0.]
    if form == 'N':
        return ['N', float(rng.choice([nm, nm + 2]) if loose else rng.randint(1, nm + 1))]
    big = rng.random() < (0.8 if loose else 0.3)
    if form == 'C':
        v = nice(rng, 1e3, 1e7, 3) if big else nice(rng, 1., 3e3, 3)
    elif form == 'D':
        v = nice(rng, 1e3, 1e7, 3) if big else nice(rng, 0.5, 3e3, 3)
    elif form == 'E':
        v = nice(rng, 1e3, 1e6, 3) if big else nice(rng, 0.5, 1e3, 3)
    else:
        v = nice(rng, 1e3, 1e6, 3) if big else nice(rng, 0.2, 1e3, 3)
    return [form, v]


def gen_case(rng, directed=None):
    directed = directed or {}
    nm = directed.get('nm', rng.randint(2, 6))
    names = set()
    while len(names) < nm:
        names.add('m' + ''.join(rng.choice(LETTERS) for _ in range(rng.randint(1, 6))))
    names = sorted(names)
    rng.shuffle(names)
    # common wavelength range
    lo_w = nice(rng, 0.1, 1., 2)
    hi_w = float('%.3g' % (lo_w * nice(rng, 200., 3000., 2)))

    def grid(n):
        w = {lo_w, hi_w}
        while len(w) < n:
            w.add(nice(rng, lo_w, hi_w, 3))
        return sorted(w)

    hetero = directed.get('hetero', rng.random() < 0.35)
    order = directed.get('order', rng.choice(['inc', 'dec']))
    base = grid(rng.randint(6, 25))
    wavs = []
    for i in range(nm):
        if hetero and i > 0:
            w = grid(rng.choice([len(base), len(base), rng.randint(6, 25)]))
            o = rng.choice(['inc', 'dec'])
        else:
            w, o = list(base), order
        wavs.append(w[::-1] if o == 'dec' else w)
    # SEDs
    flux, err = [], []
    for i in range(nm):
        alpha = rng.uniform(-2., 2.)
        amp = nice(rng, 0.1, 100., 2)
        w0 = nice(rng, lo_w, hi_w, 2)
        f = [float('%.4g' % (amp * (w / w0) ** alpha * (1. + 3. * math.exp(-0.5 * math.log(w / w0) ** 2))
                             * 10 ** rng.uniform(-0.4, 0.4))) for w in wavs[i]]
        flux.append(f)
        err.append([float('%.3g' % (x * rng.uniform(0.01, 0.5))) for x in f])
    if directed.get('twins') and nm >= 2:
        # two models with identical SEDs (different names, files and parameters): exactly tied chi2
        a, b = 0, 1 + rng.randrange(nm - 1)
        wavs[b] = list(wavs[a])
        flux[b] = list(flux[a])
        err[b] = list(err[a])
    # file stems decoupled from names; parameter table permuted and padded
    perm = list(range(nm))
    rng.shuffle(perm)
    stems = {names[i]: 'f%03d_sed' % perm[i] for i in range(nm)}
    table_order = list(range(nm))
    if directed.get('table') == 'listing':
        table_order = sorted(range(nm), key=lambda i: stems[names[i]])
    else:
        for _ in range(20):
            rng.shuffle(table_order)
            if table_order != list(range(nm)) and [names[i] for i in table_order] != sorted(names):
                break
    pads = []
    for i in range(nm):
        if directed.get('pad', rng.random() < 0.5) and rng.random() < 0.7:
            pads.append([rng.choice([0, 1, 2]), rng.choice([0, 1, 3])])
        else:
            pads.append([0, 0])
    ncol = rng.randint(1, 4)
    cols = {}
    for c in range(ncol):
        vals = set()
        while len(vals) < nm:
            vals.add(nice(rng, 1e-3, 1e5, 3) * rng.choice([1., 1., -1.]))
        vals = sorted(vals)
        rng.shuffle(vals)
        cols[PAR_NAMES[c]] = vals                  # indexed like `names`
    # filters
    nf = directed.get('nf', rng.randint(2, 4))
    filters = []
    cens = []
    kinds = directed.get('fkinds') or [rng.choice(['inside', 'inside', 'low_edge', 'high_edge']) for _ in range(nf)]
    tries = 0
    while len(filters) < nf:
        tries += 1
        kind = kinds[len(filters)] if tries < 200 else 'inside'
        half = rng.uniform(1.1, 1.8)
        if kind != 'inside':
            half = max(half, 1.3)       # the filter must reach into the SED range (positive convolved flux)
        if kind == 'low_edge':
            cen = float('%.3g' % (lo_w * rng.uniform(0.9, 1.25)))
        elif kind == 'high_edge':
            cen = float('%.3g' % (hi_w / rng.uniform(0.9, 1.25)))
        else:
            cen = nice(rng, lo_w * 3, hi_w / 3, 3)
        if any(abs(math.log(cen / c)) < 0.3 for c in cens):
            if kind != 'inside' and tries > 100:
                kinds[len(filters)] = 'inside'
            continue
        cens.append(cen)
        npt = rng.randint(3, 7)
        fw = sorted({float('%.4g' % (cen / half)), float('%.4g' % (cen * half))} |
                    {float('%.4g' % (cen * half ** rng.uniform(-1, 1))) for _ in range(npt - 2)})
        resp = [round(rng.uniform(0.1, 1.), 2) for _ in fw]
        if rng.random() < 0.3:
            resp[0] = 0.
            resp[-1] = 0.
            if len(resp) < 3 or not any(resp[1:-1]):
                resp[len(resp) // 2] = 0.5
                if len(resp) < 3:
                    resp[0] = 0.3
        if rng.random() < 0.5:
            fw, resp = fw[::-1], resp[::-1]
        normalize = bool(directed['norm'][len(filters)]) if directed.get('norm') else rng.random() < 0.6
        scale = 1. if normalize else rng.choice([1., 1e-13, 1e-14])
        filters.append(dict(name='F%d' % len(filters), cen=cen, wav=fw, resp=[float('%.3g' % (r * scale)) for r in resp],
                            normalize=normalize, kind=kind))
    # extinction law: strictly decreasing opacity, clearly different coefficients at the filters
    tw = chi = None
    for attempt in range(200):
        tw_c = sorted({0.02, 9000.} | {nice(rng, 0.05, 5000., 3) for _ in range(rng.randint(4, 10))})
        top = nice(rng, 1e3, 1e5, 3)
        beta = rng.uniform(0.3, 0.9) if attempt < 40 else 0.6
        chi_c = sorted({float('%.3g' % (top * (w / 0.02) ** (-beta) * 10 ** rng.uniform(-0.05, 0.05))) for w in tw_c}, reverse=True)
        if len(chi_c) != len(tw_c):
            continue                        # two equal opacities: the law must be strictly decreasing
        kk = [-0.4 * float(np.interp(f['cen'], tw_c, chi_c)) / float(np.interp(0.55, tw_c, chi_c)) for f in filters]
        gaps = [abs(a - b) for i, a in enumerate(kk) for b in kk[i + 1:]]
        tw, chi = tw_c, chi_c
        if min(gaps) >= 0.02:
            break
    if tw is None:
        tw = [0.02, 0.1, 0.55, 3., 30., 300., 9000.]
        chi = [float('%.3g' % (3e4 * (w / 0.02) ** -0.6)) for w in tw]
    av_kind = directed.get('av', rng.choice(['wide', 'wide', 'pos', 'narrow', 'point']))
    if av_kind == 'wide':
        av = [-round(rng.uniform(20, 60), 1), round(rng.uniform(20, 80), 1)]
    elif av_kind == 'pos':
        av = [0., float(rng.choice([5, 10, 20, 40]))]
    elif av_kind == 'narrow':
        a = round(rng.uniform(0, 8), 1)
        av = [a, round(a + rng.uniform(0.1, 2.), 1)]
    else:
        a = round(rng.uniform(0, 8), 1)
        av = [a, a]
    # sources: photometry near one of the models (reddened, scaled, perturbed)
    n_data_min = min(nf, directed.get('n_data_min', rng.choice([2, 2, 3])))     # at least one source must get a record
    nsrc = directed.get('nsrc', rng.randint(1, 4))
    sources = []
    for si in range(nsrc):
        flagset = directed.get('flags') or [0, 1, 1, 1, 2, 3, 4, 4, 9]
        flags = [rng.choice(flagset) for _ in range(nf)]
        want_fitted = nf if directed.get('all_fitted') else rng.choice([nf, max(2, nf - 1), 2, rng.randint(0, nf)])
        if si == 0:
            want_fitted = max(want_fitted, n_data_min, 2)
        idx = list(range(nf))
        rng.shuffle(idx)
        nfit = 0
        for j in idx:
            if nfit < want_fitted:
                if flags[j] not in (1, 4):
                    flags[j] = rng.choice([1, 1, 4])
                nfit += 1
            elif flags[j] in (1, 4):
                flags[j] = rng.choice([0, 2, 3, 9])
        m = rng.randrange(nm)
        av0 = rng.uniform(av[0], av[1]) if rng.random() < 0.7 else rng.uniform(av[0] - 10, av[1] + 10)
        s0 = rng.uniform(-1., 1.5)
        noise = directed.get('noise', rng.choice([0.02, 0.1, 0.3]))
        bands = []
        for j in range(nf):
            # rough level of model m in this band (no convolution needed: nearest wavelength)
            w = wavs[m]
            jn = min(range(len(w)), key=lambda q: abs(math.log(w[q] / filters[j]['cen'])))
            level = flux[m][jn]
            if not filters[j]['normalize']:
                fnu = [2.99792458e14 / x for x in filters[j]['wav']]
                level *= abs(sum(0.5 * (fnu[q + 1] - fnu[q]) * (filters[j]['resp'][q + 1] + filters[j]['resp'][q])
                                 for q in range(len(fnu) - 1)))
            kj = -0.4 * float(np.interp(filters[j]['cen'], tw, chi)) / float(np.interp(0.55, tw, chi))
            logf = math.log10(level) + av0 * kj - 2. * s0 + rng.gauss(0., noise)
            f = float('%.4g' % (10. ** logf))
            fl = flags[j]
            if fl == 4:
                bands.append([4, float('%.4f' % logf), nice(rng, 1e-2, 0.3, 2)])
            elif fl in (2, 3):
                off = 10 ** rng.choice([-0.5, 0.5, -0.05, 0.05])
                bands.append([fl, float('%.4g' % (f * off)), rng.choice([0., 0.5, 0.9, 0.99, 1., round(rng.random(), 2)])])
            elif fl == 1:
                bands.append([1, f, float('%.3g' % (f * nice(rng, 1e-2, 0.5, 2)))])
            elif fl == 9:
                bands.append([9, rng.choice([f, 0., -1.]), float('%.3g' % (f * 0.1))])
            else:
                bands.append([0, rng.choice([f, 0., -999.]), rng.choice([0., -999., 1.])])
        sources.append(dict(name='src_%d' % si, bands=bands))
    sel_fit = directed.get('sel_fit') or gen_selector(rng, nm, loose=rng.random() < 0.7)
    sel_out = directed.get('sel_out') or gen_selector(rng, nm)
    return dict(names=names, wavs=wavs, flux=flux, err=err, stems=stems, table_order=table_order, pads=pads, cols=cols,
                filters=filters, tab_w=tw, tab_chi=chi, av=av, n_data_min=n_data_min, sources=sources,
                sel_fit=sel_fit, sel_out=sel_out)


DIRECTED = [
    dict(order='inc', hetero=False, nsrc=2, av='wide', sel_fit=['A', 0.], sel_out=['A', 0.], all_fitted=True),
    dict(order='dec', hetero=False, nsrc=2, av='pos', sel_fit=['N', 10.], sel_out=['N', 2.], nm=4),
    dict(order='inc', hetero=True, nsrc=3, av='narrow', sel_fit=['F', 1e6], sel_out=['C', 50.]),
    dict(order='dec', hetero=True, nsrc=2, av='point', sel_fit=['A', 0.], sel_out=['D', 30.]),
    dict(twins=True, nm=4, nsrc=2, sel_fit=['A', 0.], sel_out=['A', 0.], av='wide', all_fitted=True),
    dict(twins=True, nm=3, nsrc=2, sel_fit=['A', 0.], sel_out=['N', 1.], av='pos', hetero=False),
    dict(twins=True, nm=5, nsrc=1, sel_fit=['N', 3.], sel_out=['N', 2.], av='wide', hetero=False),
    dict(fkinds=['low_edge', 'inside', 'high_edge'], nf=3, nsrc=2, sel_fit=['A', 0.], sel_out=['E', 100.], av='wide'),
    dict(fkinds=['inside', 'low_edge'], nf=2, nsrc=2, norm=[1, 0], sel_fit=['E', 1e5], sel_out=['F', 20.], av='wide', flags=[1, 4]),
    dict(fkinds=['high_edge', 'inside', 'inside', 'low_edge'], nf=4, norm=[0, 1, 0, 1], nsrc=4, sel_fit=['D', 1e6], sel_out=['A', 0.]),
    dict(table='listing', nsrc=1, sel_fit=['A', 0.], sel_out=['A', 0.], pad=False),
    dict(nsrc=4, flags=[2, 3, 2, 3, 1, 4], nf=4, av='wide', sel_fit=['A', 0.], sel_out=['A', 0.]),
    dict(nsrc=4, flags=[0, 9, 2, 3], nf=4, n_data_min=3, sel_fit=['C', 1e7], sel_out=['N', 3.]),
    dict(nsrc=3, av='narrow', sel_fit=['A', 0.], sel_out=['A', 0.], nm=6, all_fitted=True),
    dict(nsrc=2, nm=6, sel_fit=['N', 4.], sel_out=['N', 6.], pad=True),
    dict(nsrc=2, nm=5, sel_fit=['A', 0.], sel_out=['F', 5.], noise=0.02, all_fitted=True),
    dict(nsrc=2, nm=5, sel_fit=['A', 0.], sel_out=['C', 200.], noise=0.02, all_fitted=True, flags=[1, 4]),
    dict(nsrc=2, nm=5, sel_fit=['A', 0.], sel_out=['D', 100.], noise=0.02, all_fitted=True, flags=[1, 4]),
    dict(nsrc=2, nm=5, sel_fit=['A', 0.], sel_out=['E', 50.], noise=0.02, all_fitted=True, flags=[1, 4]),
]


def gen_cases(seed, tier):
    for i in range(N[tier]):
        rng = case_rng(seed, PID, i)
        yield gen_case(rng, DIRECTED[i] if i < len(DIRECTED) else None)


# ----------------------------------------------------------------------------- real side

def table_names(case):
    """MODEL_NAME column of parameters.fits in file order, with the blanks the harness pads"""
    out = []
    for i in case['table_order']:
        a, b = case['pads'][i]
        out.append(' ' * a + case['names'][i] + ' ' * b)
    return out


def build_package(case, d):
    """per-file package with sedfitter's own writers; returns the SED objects in directory-listing order"""
    os.makedirs(os.path.join(d, 'seds'), exist_ok=True)
    pk.write_conf(d, aperture_dependent=False, version=1)
    seds = {}
    for i, n in enumerate(case['names']):
        s = pk.make_sed(n, case['wavs'][i], [case['flux'][i]], [case['err'][i]], None)
        s.write(os.path.join(d, 'seds', case['stems'][n] + '.fits'), overwrite=True)
        seds[n] = s
    cols = {c: [case['cols'][c][i] for i in case['table_order']] for c in case['cols']}
    pk.write_parameters(d, table_names(case), cols)
    listing = sorted(case['names'], key=lambda n: case['stems'][n])
    return [seds[n] for n in listing]


def run_real(case, d):
    from astropy import units as u
    from sedfitter import fit, write_parameters
    from sedfitter.convolve import convolve_model_dir
    from sedfitter.convolved_fluxes import ConvolvedFluxes
    from sedfitter.fit_info import FitInfoFile
    with common.quiet():
        seds = build_package(case, d)
        filt = [pk.make_filter(f['name'], f['cen'], f['wav'], f['resp'], normalize=f['normalize']) for f in case['filters']]
        held = [[float(v) for v in f.nu.to(u.Hz).value] for f in filt]
        convolve_model_dir(d, filt)
    conv = []
    for f in case['filters']:
        c = ConvolvedFluxes.read(os.path.join(d, 'convolved', f['name'] + '.fits'))
        conv.append(dict(names=[str(n).strip() for n in c.model_names],
                         wav=float(c.central_wavelength.to(u.micron).value),
                         flux=np.asarray(c.flux.to(u.mJy).value, dtype=float),
                         err=np.asarray(c.error.to(u.mJy).value, dtype=float)))
    datafile = os.path.join(d, 'data.txt')
    with open(datafile, 'w') as fh:
        for src in case['sources']:
            fh.write('%s 0.0 0.0 %s %s\n' % (src['name'], ' '.join(str(b[0]) for b in src['bands']),
                                           ' '.join('%r %r' % (b[1], b[2]) for b in src['bands'])))
    ext = pk.make_extinction(case['tab_w'], case['tab_chi'])
    out = os.path.join(d, 'fits.fitinfo')
    txt = os.path.join(d, 'parameters.txt')
    with common.quiet():
        fit(datafile, [f['name'] for f in case['filters']], np.ones(len(case['filters'])) * u.arcsec, d, out,
            n_data_min=case['n_data_min'], extinction_law=ext, av_range=tuple(case['av']),
            distance_range=np.array([1., 2.]) * u.kpc, output_format=(case['sel_fit'][0], case['sel_fit'][1]))
        write_parameters(out, txt, select_format=(case['sel_out'][0], case['sel_out'][1]))
    records = []
    fin = FitInfoFile(out, 'r')
    for info in fin:
        records.append(dict(source=info.source.name, **pk.fit_arrays(info)))
    fin.close()
    return dict(seds=seds, held=held, conv=conv, records=records, text=open(txt).read().splitlines())


def parse_text(lines):
    header = lines[1].split()
    out = []
    for ln in lines[3:]:
        t = ln.split()
        if len(t) == 3:
            out.append([t[0], int(t[1]), int(t[2]), []])
        elif t:
            out[-1][3].append(t)
    return header, out


# ----------------------------------------------------------------------------- model side

def enc(name):
    return '.'.join(str(ord(c)) for c in name) if name else '-'


def dec(tok):
    return '' if tok == '-' else ''.join(chr(int(p)) for p in tok.split('.'))


def fmt_sel(sel):
    return '%s %s' % (sel[0], rat(sel[1]))


def model_line(case, real):
    from astropy import units as u
    line = ['e2e.pipeline', rat(case['av'][0]), rat(case['av'][1]), rat(0.55), str(len(case['tab_w']))]
    for w, c in zip(case['tab_w'], case['tab_chi']):
        line += [rat(w), rat(c)]
    line += [str(case['n_data_min']), fmt_sel(case['sel_fit']), fmt_sel(case['sel_out'])]
    line.append(str(len(case['filters'])))
    for f, nus in zip(case['filters'], real['held']):
        line += ['1' if f['normalize'] else '0', rat(f['cen']), str(len(nus))]
        for v, r in zip(nus, f['resp']):
            line += [rat(v), rat(r)]
    line.append(str(len(real['seds'])))
    for s in real['seds']:
        wav = [float(v) for v in s.wav.to(u.micron).value]
        nu = [float(v) for v in s.nu.to(u.Hz).value]
        fl = np.asarray(s.flux.to(u.mJy).value, dtype=float)
        er = np.asarray(s.error.to(u.mJy).value, dtype=float)
        line += [enc(s.name), rats(wav), rats(nu), '0', str(fl.shape[0])]
        line += [rats(row) for row in fl]
        line += ['1', str(er.shape[0])] + [rats(row) for row in er]
    tn = table_names(case)
    line.append(str(len(tn)))
    for k, i in enumerate(case['table_order']):
        line += [enc(tn[k]), rats([case['cols'][c][i] for c in case['cols']])]
    line.append(str(len(case['sources'])))
    for src in case['sources']:
        line += [enc(src['name']), str(len(src['bands']))]
        for fl, x, e in src['bands']:
            if fl in (0, 9):
                x, e = 0., 0.         # never reach the fit (theorem C03_ignored); may be non-finite / non-positive
            line += [str(fl), rat(x), rat(e)]
    return ' '.join(line)


def ef(tok):
    return float(tok) if tok in ('inf', '-inf', 'nan') else Fraction(tok)


def ask_model(case, real):
    t = common.driver().ask(model_line(case, real))
    conv = []
    for _ in range(t.nat()):
        wav = t.rat()
        rows = []
        for _ in range(t.nat()):
            name = dec(t.tok())
            nap = t.nat()
            rows.append((name, [(t.rat(), t.rat()) for _ in range(nap)]))
        conv.append(dict(wav=wav, rows=rows))
    blocks = []
    for _ in range(t.nat()):
        b = dict(source=dec(t.tok()), n_data=t.nat(), n_fits=t.nat(), rows=[], rec=[], models={})
        for _ in range(t.nat()):
            b['rows'].append(dict(fit_id=t.nat(), name=dec(t.tok()), chi2=ef(t.tok()), av=t.rat(), sc=t.rat(), pars=t.rats()))
        for _ in range(t.nat()):
            b['rec'].append(dict(name=dec(t.tok()), chi2=ef(t.tok()), av=t.rat(), sc=t.rat()))
        order = []
        for _ in range(t.nat()):
            name = dec(t.tok())
            b['models'][name] = dict(av=t.rat(), sc=t.rat(), chi2=t.rat(), margin=float(t.rat()), cond=float(t.rat()))
            order.append(name)
        b['model_order'] = order
        blocks.append(b)
    if not t.done():
        raise common.DriverError('trailing tokens in e2e.pipeline answer')
    return conv, blocks


# ----------------------------------------------------------------------------- comparison

def chi_tol(c):
    return 1e-8 * (1. + abs(float(c)))


def crit_margin(sel, nd, ranked):
    """distance of the nearest criterion value from the selector's threshold, in units of the rounding budget
    (values below 1e-7 mean the count may differ between exact and floating-point arithmetic); inf for A / N"""
    form, v = sel
    if form in ('A', 'N') or not ranked:
        return float('inf')
    c0 = ranked[0]
    best = float('inf')
    for c in ranked:
        if form == 'C':
            x = c
        elif form == 'D':
            x = c - c0
        elif nd == 0:
            continue
        elif form == 'E':
            x = c / nd
        else:
            x = (c - c0) / nd
        best = min(best, abs(float(x) - v) / (1. + abs(v) + abs(float(c)) + abs(float(c0))))
    return best


def compare_ranked(what, impl_rows, model_rows, blk, flags, relaxed_n):
    """impl_rows / model_rows: lists of dict(name, chi2, av, sc).  Rows are matched by name; the chi2 at each rank must be
    the model's chi2 at that rank (so any order inside a group of equal chi2 is accepted).
    returns (error or None, number of relaxed comparisons)"""
    relaxed = 0
    if len(impl_rows) != len(model_rows) and not relaxed_n:
        return '%s: %d rows; model keeps %d' % (what, len(impl_rows), len(model_rows)), 0
    seen = set()
    lo_hi_scale = None
    for i, r in enumerate(impl_rows):
        pm = blk['models'].get(r['name'])
        if pm is None:
            return '%s row %d: model name %r is not a model of the package' % (what, i, r['name']), relaxed
        if r['name'] in seen:
            return '%s: model %r listed twice' % (what, r['name']), relaxed
        seen.add(r['name'])
        scale = 1. + abs(float(pm['av'])) + abs(float(pm['sc']))
        small_margin = pm['margin'] < 1e-7 * scale
        if i < len(model_rows) and not small_margin:
            cm = float(model_rows[i]['chi2'])
            if not abs(float(pm['chi2']) - cm) <= 2 * chi_tol(cm):
                return ('%s row %d: lists model %s, whose chi2 is %r; the model at this rank is %s with chi2 %r'
                        % (what, i, r['name'], float(pm['chi2']), model_rows[i]['name'], cm)), relaxed
        if small_margin:
            relaxed += 1
            continue
        tol = 1e-9 * max(1., pm['cond'])
        ok = (common.close(r['av'], pm['av'], tol + r.get('slack', 0.)) and common.close(r['sc'], pm['sc'], tol + r.get('slack', 0.))
              and abs(float(r['chi2']) - float(pm['chi2'])) <= chi_tol(pm['chi2']) * 10 + r.get('slack', 0.) and np.isfinite(r['chi2']))
        if not ok:
            return ('%s row %d (model %s): (chi2, av, sc) = (%r, %r, %r); the fit of that model\'s own convolved fluxes gives '
                    '(%r, %r, %r) (cond %.3g)' % (what, i, r['name'], float(r['chi2']), float(r['av']), float(r['sc']),
                                                 float(pm['chi2']), float(pm['av']), float(pm['sc']), pm['cond'])), relaxed
    return None, relaxed


def run_case(case):
    d = tempfile.mkdtemp(prefix='e2e_')
    key = common.canon_hash(case)
    try:
        try:
            real = run_real(case, d)
        except Exception as e:
            import traceback
            return CaseResult(False, violates=E2E_VERDICT, key=key,
                              detail='the pipeline raised on an in-domain input: %r\n%s' % (e, traceback.format_exc()[-1500:]))
        try:
            conv, blocks = ask_model(case, real)
        except common.DriverError as e:
            if 'outOfDomain' in str(e):
                # a convolved model flux is not positive: outside the quantifier (the generator avoids it; counted, never judged)
                return CaseResult(True, key=key, nontrivial=False, branches=['skipped_nonpositive_flux'])
            raise
        names = case['names']
        branches = set()
        relaxed = 0
        # ---------------- convolved files
        if len(conv) != len(real['conv']):
            return CaseResult(False, key=key, detail='model has %d convolved tables for %d filters' % (len(conv), len(real['conv'])))
        for j, (mc, rc) in enumerate(zip(conv, real['conv'])):
            fname = case['filters'][j]['name']
            mnames = [r[0] for r in mc['rows']]
            if rc['names'] != mnames:
                return CaseResult(False, violates=E2E_VERDICT, key=key,
                                  detail='convolved/%s.fits lists rows %r; parameter table order (stripped) is %r'
                                  % (fname, rc['names'], mnames))
            if not common.close(rc['wav'], mc['wav'], 1e-12):
                return CaseResult(False, violates=E2E_VERDICT, key=key, detail='convolved/%s.fits central wavelength %r; filter has %r'
                                  % (fname, rc['wav'], float(mc['wav'])))
            if rc['flux'].shape != (len(mnames), 1):
                return CaseResult(False, violates=E2E_VERDICT, key=key, detail='convolved/%s.fits flux shape %r' % (fname, rc['flux'].shape))
            for i, (nme, aps) in enumerate(mc['rows']):
                mf, mv = aps[0]
                gf, ge = float(rc['flux'][i, 0]), float(rc['err'][i, 0])
                okf = abs(gf - float(mf)) <= 1e-9 * abs(float(mf)) and np.isfinite(gf)
                okv = abs(ge * ge - float(mv)) <= 4e-9 * abs(float(mv)) and np.isfinite(ge)
                if not (okf and okv):
                    return CaseResult(False, violates=E2E_VERDICT, key=key,
                                      detail=('convolved/%s.fits row %d labelled %s: flux %r mJy, error %r mJy (error^2 %r); the '
                                              'convolution of the SED named %s (file %s.fits) gives flux %r, error^2 %r'
                                              % (fname, i, nme, gf, ge, ge * ge, nme, case['stems'].get(nme), float(mf), float(mv))))
        # ---------------- fit file records and listing
        header, text_blocks = parse_text(real['text'])
        expect_cols = ['fit_id', 'model_name', 'chi2', 'av', 'scale'] + [c.lower() for c in case['cols']]
        if header != expect_cols:
            return CaseResult(False, violates=E2E_VERDICT, key=key, detail='write_parameters header %r; expected %r' % (header, expect_cols))
        if [r['source'] for r in real['records']] != [b['source'] for b in blocks] or \
                [b[0] for b in text_blocks] != [b['source'] for b in blocks]:
            return CaseResult(False, violates=E2E_VERDICT, key=key,
                              detail='sources in fit file %r / text %r; sources with n_data >= %d are %r'
                              % ([r['source'] for r in real['records']], [b[0] for b in text_blocks], case['n_data_min'],
                                 [b['source'] for b in blocks]))
        params = {n: [case['cols'][c][i] for c in case['cols']] for i, n in enumerate(names)}
        listed_any = False
        for blk, rec, tb in zip(blocks, real['records'], text_blocks):
            src = [s for s in case['sources'] if s['name'] == blk['source']][0]
            flags = [b[0] for b in src['bands']]
            nd = sum(1 for f in flags if f in (1, 4))
            ranked = sorted(blk['models'][n]['chi2'] for n in blk['models'])
            # rank gaps / selector thresholds within rounding: compare counts in the relaxed form
            near_tie = any(0 < float(b - a) <= 2 * chi_tol(a) for a, b in zip(ranked, ranked[1:]))
            exact_tie = any(a == b for a, b in zip(ranked, ranked[1:]))
            m_fit = crit_margin(case['sel_fit'], nd, ranked)
            m_out = crit_margin(case['sel_out'], nd, ranked)
            small = any(pm['margin'] < 1e-7 * (1. + abs(float(pm['av'])) + abs(float(pm['sc']))) for pm in blk['models'].values())
            relax_n = (m_fit < 1e-7) or (m_out < 1e-7) or small
            if relax_n or near_tie:
                relaxed += 1
            # fit output file
            irows = [dict(name=rec['name'][i], chi2=rec['chi2'][i], av=rec['av'][i], sc=rec['sc'][i]) for i in range(len(rec['name']))]
            what = 'fit file, source %s' % blk['source']
            err, rx = compare_ranked(what, irows, blk['rec'], blk, flags, relax_n)
            relaxed += rx
            if err:
                return CaseResult(False, violates=E2E_VERDICT, key=key, detail=err, branches=branches)
            if not (len(rec['chi2']) == len(rec['av']) == len(rec['sc']) == len(rec['name']) == len(rec['model_id'])):
                return CaseResult(False, violates=E2E_VERDICT, key=key, detail=what + ': per-fit arrays of different lengths')
            if any(rec['chi2'][i] > rec['chi2'][i + 1] for i in range(len(rec['chi2']) - 1)):
                return CaseResult(False, violates=E2E_VERDICT, key=key, detail=what + ': chi2 not non-decreasing: %r' % (list(rec['chi2']),))
            # listing
            what = 'listing, source %s' % blk['source']
            if tb[1] != blk['n_data']:
                return CaseResult(False, violates=E2E_VERDICT, key=key, detail='%s: n_data %d; flags %r have %d fitted points'
                                  % (what, tb[1], flags, blk['n_data']))
            if tb[2] != len(tb[3]):
                return CaseResult(False, violates=E2E_VERDICT, key=key, detail='%s: n_fits %d but %d rows' % (what, tb[2], len(tb[3])))
            if tb[2] != blk['n_fits'] and not relax_n:
                return CaseResult(False, violates=E2E_VERDICT, key=key, detail='%s: n_fits %d; the selectors %r then %r keep %d of the ranking %r'
                                  % (what, tb[2], case['sel_fit'], case['sel_out'], blk['n_fits'], [float(c) for c in ranked]))
            trows = []
            for i, row in enumerate(tb[3]):
                if len(row) != 5 + len(case['cols']) or row[0] != str(i + 1):
                    return CaseResult(False, violates=E2E_VERDICT, key=key, detail='%s: row %d is %r' % (what, i, row))
                trows.append(dict(name=row[1], chi2=float(row[2]), av=float(row[3]), sc=float(row[4]), slack=5.001e-4, pars=row[5:]))
            err, rx = compare_ranked(what, trows, blk['rows'], blk, flags, relax_n)
            relaxed += rx
            if err:
                return CaseResult(False, violates=E2E_VERDICT, key=key, detail=err, branches=branches)
            for i, r in enumerate(trows):
                want = [('%10.3e' % v).strip() for v in params[r['name']]]
                if r['pars'] != want:
                    return CaseResult(False, violates=E2E_VERDICT, key=key,
                                      detail='%s row %d (model %s): parameter columns %r; that model\'s row of parameters.fits is %r'
                                      % (what, i, r['name'], r['pars'], want))
                # the text must be the fit file's own numbers
                if i < len(irows) and irows[i]['name'] == r['name']:
                    for col in ('chi2', 'av', 'sc'):
                        if ('%10.3f' % irows[i][col]).strip() != tb[3][i][{'chi2': 2, 'av': 3, 'sc': 4}[col]]:
                            return CaseResult(False, violates=E2E_VERDICT, key=key,
                                              detail='%s row %d: %s printed as %r; the fit file holds %r'
                                              % (what, i, col, tb[3][i], irows[i][col]))
            # the model's own listing rows carry the table's values for their name (sanity of the driver output)
            for r in blk['rows']:
                if [float(v) for v in r['pars']] != params[r['name']]:
                    return CaseResult(False, key=key, detail='model listing row %r does not carry the parameters of its name' % (r,))
            # ---- branches
            if blk['rows']:
                listed_any = True
            if len(blk['rows']) > 1:
                branches.add('multi_row_listing')
            if exact_tie:
                branches.add('exact_tie')
            branches.add('sel_cuts' if blk['n_fits'] < len(ranked) else 'sel_keeps_all')
            lo, hi = case['av']
            for n, pm in blk['models'].items():
                if lo < hi:
                    branches.add('clamped' if float(pm['av']) in (lo, hi) else 'unclamped')
                if any(f in (2, 3) for f in flags) and float(pm['chi2']) > 0:
                    pass
            for f in flags:
                branches.add('flag%d' % f)
            if any(b[0] in (2, 3) and b[2] > 0 for b in src['bands']):
                # a limit penalty is in play when removing the limits changes some model's chi2: read off the model rows
                branches.add('limit_band')
        if any(sum(1 for b in s['bands'] if b[0] in (1, 4)) < case['n_data_min'] for s in case['sources']):
            branches.add('source_skipped')
        if penalty_seen(case, blocks):
            branches.add('limit_penalty')
        tn = [n.strip() for n in table_names(case)]
        listing = sorted(names, key=lambda n: case['stems'][n])
        if tn != listing:
            branches.add('table_permuted')
        if listing != sorted(names):
            branches.add('file_order_differs')
        if any(a or b for a, b in case['pads']):
            branches.add('padded_names')
        for w in case['wavs']:
            branches.add('wav_increasing' if w[0] < w[-1] else 'wav_decreasing')
        if any(sorted(case['wavs'][i]) != sorted(case['wavs'][0]) for i in range(len(names))):
            branches.add('per_model_grids')
        lo_w = min(min(w) for w in case['wavs'])
        hi_w = max(max(w) for w in case['wavs'])
        for f, nus in zip(case['filters'], real['held']):
            branches.add('filter_inside' if lo_w <= min(f['wav']) and max(f['wav']) <= hi_w else 'filter_partial_overlap')
            branches.add('filter_normalized' if f['normalize'] else 'filter_raw')
            branches.add('filter_inc_nu' if nus[0] < nus[-1] else 'filter_dec_nu')
        branches.add('sel_' + case['sel_fit'][0])
        branches.add('sel_' + case['sel_out'][0])
        sample = dict(n_models=len(names), n_wav=[len(w) for w in case['wavs']], n_filters=len(case['filters']),
                      table=table_names(case), files=case['stems'], sel_fit=case['sel_fit'], sel_out=case['sel_out'],
                      n_sources=len(case['sources']), fitted=[b['source'] for b in blocks],
                      first_row=real['text'][4] if len(real['text']) > 4 else None)
        return CaseResult(True, branches=sorted(branches), key=key, nontrivial=listed_any, sample=sample, relaxed=relaxed)
    finally:
        shutil.rmtree(d, ignore_errors=True)


def penalty_seen(case, blocks):
    """some model of some fitted source pays a limit penalty (chi2 above the largest conceivable least-squares part is not
    needed: the driver's chi2 with the limits' confidences set to 0 would differ) — decided cheaply: a limit band with
    confidence 1 gives chi2 >= 1e30, any other positive confidence is detected from the model's margins being finite"""
    for blk in blocks:
        src = [s for s in case['sources'] if s['name'] == blk['source']][0]
        if any(b[0] in (2, 3) and b[2] == 1. for b in src['bands']):
            if any(float(pm['chi2']) >= 1e29 for pm in blk['models'].values()):
                return True
    return False


def shrink(case):
    """fewer sources while the case still fails"""
    def fails(c):
        try:
            return not run_case(c).ok
        except Exception:
            return True
    cur = dict(case)
    changed = True
    while changed and len(cur['sources']) > 1:
        changed = False
        for i in range(len(cur['sources'])):
            c = dict(cur)
            c['sources'] = cur['sources'][:i] + cur['sources'][i + 1:]
            if any(sum(1 for b in s['bands'] if b[0] in (1, 4)) >= c['n_data_min'] for s in c['sources']) and fails(c):
                cur = c
                changed = True
                break
    return cur
