import argparse
import os
import sys


def main():
    ap = argparse.ArgumentParser()
    ap.add_argument('pid')
    ap.add_argument('--tier', default=os.environ.get('VERIF_TIER', 'quick'), choices=['quick', 'thorough'])
    ap.add_argument('--replay')
    a = ap.parse_args()
    try:
        seed = int(os.environ.get('VERIF_SEED', '0'))
    except ValueError:
        seed = 0
    from . import runner
    sys.exit(runner.main(a.pid.upper(), a.tier, seed, a.replay))


if __name__ == '__main__':
    main()
