"""C11 — fits do not depend on labelling, ordering, units of brightness, or history.

Paired runs of `Fitter.fit` on the real code, plus the Lean model (driver op `fit2`) on both members of a pair in
the distance-independent mode:

 filter_perm : one package, two Fitters sharing ONE Extinction object whose filter lists (and angular apertures) are
               permutations of each other (incl. permutations that keep the first and last filter and move interior
               ones), the photometry permuted alike                      -> same (av, sc, chi2) per model, predicted fluxes permuted
 model_perm  : two packages whose convolved-flux files hold the same models in permuted row order (some models
               duplicated under other names: exact chi2 ties)       -> same per model; rankings equal up to tie groups
 scale       : distance-independent package, every flux and error multiplied by c (8 decades)
                                                                    -> av, chi2 unchanged, every scale lowered by 0.5 log10 c
 interleaved : two or three Fitters alive at once (cube packages with use_memmap on / off, per-file package), fits alternating
               between them                                        -> every fit bit-identical to a fresh Fitter of its own package
 history     : up to 6 interleaved fits of up to 4 sources on one Fitter, digests of the fitter's arrays and of the
               source before/after every call                      -> nothing modified; every result bit-identical to the
                                                                       fit of that source alone on a fresh Fitter
"""
import hashlib
import itertools
import math
import shutil
import tempfile

import numpy as np

from . import common
from .common import CaseResult, case_rng, nice
from . import packages as pk
from . import c01
from . import c03

PID = 'C11'
RULE = ('cases = (kind, mode, package, sources, permutation | constant | history) with kind in filter_perm / model_perm / '
        'scale / history, mode in distance-independent / distance-dependent; <= 6 filters, <= 8 models (some duplicated), '
        'constants 1e-4..1e4, histories of <= 6 fits over <= 4 sources; sources as in C01/C02 (>= 2 fitted bands with distinct '
        'extinction coefficient, all six flags, ignored bands carrying arbitrary values); packages as convolved-flux files '
        '(version 1) or SED cubes (version 2) with wavelength / named / mixed filter lists, use_memmap off / on, model names in '
        'non-alphabetical order, remove_resolved on / off in the distance-dependent mode; thorough enumerates every permutation '
        'of 2..4 filters and of 2..4 models in both modes; non-trivial = the permutation is not the identity / c != 1 / the '
        'history has a repeated or interleaved source; distinct = canonical hash of the generated inputs')
REQUIRED_BRANCHES = ['per_file_flux_units', 'first_filter_unit_differs_between_orders', 'integer_arrays_bright_end',
                     'fitter_positional', 'fitter_keywords', 'distance_range_kpc', 'distance_range_pc', 'extinction_direct',
                     'extinction_deepcopy', 'extinction_pickle', 'extinction_copy', 'history_after_refused_call',
                     'rep_route_copy', 'rep_route_deepcopy', 'rep_route_pickle', 'rep_route_dict',
                     'rep_float64', 'rep_int64', 'rep_int32', 'rep_list_int', 'rep_bigendian_int32', 'rep_bigendian', 'rep_readonly',
                     'rep_list_float', 'rep_noncontiguous', 'rep_valid_float', 'scale_integer_constant_integer_arrays',
                     'fmt_files', 'fmt_cube_wav', 'fmt_cube_named', 'fmt_cube_mixed', 'memmap_on', 'memmap_off', 'remove_resolved',
                     'names_unsorted', 'filter_perm_cube', 'model_perm_cube', 'history_cube',
                     'filter_perm', 'filter_perm_interior', 'same_theta_diff_tables', 'history_reassign', 'interleaved',
                     'shared_cube_slice', 'shared_slice_adjacent_vs_separated', 'shared_slice_exact_duplicate', 'shared_slice_near_duplicate',
                     'interleaved_remove_resolved_memmap', 'interleaved_remove_resolved_permuted_filters',
                     'interleaved_memmap_both', 'interleaved_mixed_storage', 'interleaved_perfile', 'zero_flux_model', 'shared_extinction_object', 'model_perm', 'scale', 'history', 'mode_indep', 'mode_dist', 'tie_group',
                     'scale_up', 'scale_down', 'limits_present', 'flag4_present', 'ignored_present', 'model_corr',
                     'history_repeat', 'history_interleaved']
ASSUMPTIONS = ['IEEE rounding is not modelled: permuting filters changes the order of the floating-point sums, scaling changes '
               'the rounding of log10; tolerance 1e-9 x condition number',
               'a limit closer than 1e-7 to the fitted model may be decided differently by the two runs of a pair: such models are '
               'skipped (counted as margin_relaxed); two runs reporting different trial distances with equal chi2 are accepted only '
               'after verifying, by fitting at each of the two distances alone, that the distances are tied to rounding',
               'history and model-permutation pairs are compared to 1e-12 / bit for bit',
               '"multiplying every flux and error by a constant": linear fluxes (flags 1, 2, 3) and linear errors (flag 1) are '
               'multiplied; a confidence (the error slot of a limit) is not an error and is kept; a flag-4 band holds log10 flux '
               'and log10 error, so the same physical rescaling adds log10(c) to its flux slot and leaves its error slot alone; '
               'flag-0 / flag-9 bands may carry anything (theorem C11_scale states exactly this relation, ScaledObs)',
               'with use_memmap=True (float32 model fluxes) the members of a pair see the same float32 values, so pairs stay '
               'comparable to float64 rounding; the comparison with the exact model under a float32 budget is C07\'s and is not '
               'repeated here (the model still supplies the condition number)',
               'named filters of cube packages are convolved-flux files written next to flux.fits (what convolve_model_dir '
               'leaves behind; the convolution itself is C06/C07)',
               'grids with an exactly-zero model flux (the marker for an invalid band) lie at the edge of the quantifier (C01/C02 grids '
               'are strictly positive): they are included in the history / interleaved kinds with NaN-aware comparison; a difference '
               'confined to the zero-flux model (or to the fitter arrays of such a grid) is reported without a verdict (violates=None), '
               'a difference in a model with all-positive fluxes is a violation',
               'the source arrays are held, per case, as float64 / int64 / int32 / big-endian / read-only / strided arrays or lists '
               '(integer containers with whole-number photometry; in the scale kind often with a whole-number constant, the scaled '
               'member staying integer when it has no flag-4 band); expectations are unchanged - only the values matter',
               'the source must not be modified (compared by digest before / after); whether FitInfo.source is the same object '
               'or a copy is not part of the property']
EXHAUSTIVE = {'quick': False, 'thorough': True}
N = {'quick': dict(filter_perm=24, model_perm=24, scale=30, history=24, interleaved=12),
     'thorough': dict(filter_perm=1800, model_perm=1800, scale=3000, history=1800, interleaved=600)}
FLAGS = [0, 1, 2, 3, 4, 9]


# ----------------------------------------------------------------------------- generation

def gen_flags(rng, nb):
    flags = [rng.choice(FLAGS) for _ in range(nb)]
    idx = list(range(nb))
    rng.shuffle(idx)
    for j in idx[:2]:
        if flags[j] not in (1, 4):
            flags[j] = rng.choice([1, 1, 4])
    return flags


def gen_package(rng, nb, nm, dup=False):
    wavs = sorted({nice(rng, 0.3, 100., 3) for _ in range(nb)})
    while len(wavs) < nb:
        wavs = sorted(set(wavs) | {nice(rng, 0.3, 100., 3)})
    rng.shuffle(wavs)
    nt = rng.randint(3, 10)
    tw = sorted({0.1, 200.} | {nice(rng, 0.1, 200., 3) for _ in range(nt)})
    chi = sorted({nice(rng, 1., 1e4, 3) for _ in tw}, reverse=True)
    while len(chi) < len(tw):     # strictly decreasing opacity: distinct wavelengths get distinct coefficients
        chi = sorted(set(chi) | {nice(rng, 1., 1e4, 3)}, reverse=True)
    models = [[nice(rng, 1e-2, 1e3, 4) for _ in range(nb)] for _ in range(nm)]
    nap = rng.randint(2, 5)
    aps = sorted({float('%.2g' % (10 ** rng.uniform(1.5, 5.5))) for _ in range(nap)})
    while len(aps) < 2:
        aps = sorted(set(aps) | {float('%.2g' % (10 ** rng.uniform(1.5, 5.5)))})
    grow = [[sorted(round(rng.uniform(0.2, 1.), 3) for _ in aps) for _ in range(nb)] for _ in range(nm)]
    if dup and nm >= 2:
        for _ in range(rng.randint(1, max(1, nm // 3))):
            a, b = rng.sample(range(nm), 2)
            models[b] = list(models[a])
            grow[b] = [list(g) for g in grow[a]]
    kind = rng.choice(['wide', 'wide', 'wide', 'clamp_low', 'clamp_high'])
    if kind == 'wide':
        av = [round(-rng.uniform(0, 40), 1), round(rng.uniform(20, 80), 1)]
    elif kind == 'clamp_low':
        av = [round(rng.uniform(30, 60), 1), round(rng.uniform(60, 70), 1)]
    else:
        av = [round(-30 - rng.uniform(0, 5), 1), -25.]
    dmin = nice(rng, 0.3, 3., 2)
    dmax = dmin if rng.random() < 0.1 else float('%.2g' % (dmin * 10 ** rng.uniform(0.05, 1.)))
    if dmax < dmin:
        dmax = dmin
    theta_min = aps[0] / (dmin * 1000.)
    theta = [float('%.3g' % (theta_min * 10 ** rng.uniform(0.05, 1.5) * 1.01)) for _ in range(nb)]
    step = rng.choice([0.05, 0.1, 0.2, 0.5])
    return dict(wavs=wavs, tab_w=tw, tab_chi=chi, models=models, av=av, aps=aps, grow=grow,
                drange=[dmin, dmax], theta=theta, step=step)


def gen_source(rng, pkg, flags=None, sc_range=(-0.3, 0.6)):
    """a source inside the quantifier of C01/C02: at least two fitted bands whose extinction coefficients differ"""
    nb = len(pkg['wavs'])
    for attempt in range(50):
        fl = list(flags) if (flags is not None and attempt == 0) else gen_flags(rng, nb)
        u = c03.gen_source(rng, fl, pkg['models'], pkg['wavs'], sc_range=sc_range)
        s = c03.variants(u)['S']
        if not c01.singular(pkg, s):
            return s
    # all coefficients coincide (cannot happen with the strictly decreasing tables generated here): every band fitted
    u = c03.gen_source(rng, [1] * nb, pkg['models'], pkg['wavs'])
    return c03.variants(u)['S']


def gen_sources(rng, pkg, n):
    return [gen_source(rng, pkg) for _ in range(n)]


def gen_case(rng, kind, mode, perm=None, nb=None, nm=None, c=None, interior=False, fmt=None, memmap=None,
             resolved=None, difftab=None, zero=None, spec_override=None, rep='random', twin=None, masked_interleave=None,
             call=None, units=None):
    perm_given = perm is not None
    nb = nb or rng.randint(2, 6)
    nm = nm or rng.randint(2 if kind == 'model_perm' else 1, 8)
    case = gen_package(rng, nb, nm, dup=(kind == 'model_perm'))
    case['kind'] = kind
    case['mode'] = mode
    case['sources'] = gen_sources(rng, case, rng.randint(2, 4))
    if kind == 'filter_perm':
        if perm is None:
            perm = list(range(nb))
            if nb >= 4 and (interior or rng.random() < 0.35):
                # first and last filter stay, interior ones move
                mid = perm[1:-1]
                while mid == perm[1:-1]:
                    rng.shuffle(mid)
                perm = [0] + mid + [nb - 1]
            while perm == list(range(nb)):
                rng.shuffle(perm)
        case['perm'] = list(perm)
    elif kind == 'model_perm':
        if perm is None:
            perm = list(range(nm))
            while perm == list(range(nm)):
                rng.shuffle(perm)
        case['perm'] = list(perm)
    elif kind == 'scale':
        e = rng.uniform(-4, 4)
        if abs(e) < 0.05:
            e = 0.5
        case['c'] = c if c is not None else float('%.3g' % (10 ** e))
        # what the ignored bands of the scaled source carry
        case['ign'] = [[c03.ignored_values(rng, 1.) for _ in range(nb)] for _ in case['sources']]
    elif kind == 'history':
        k = len(case['sources'])
        n = rng.randint(2, 6)
        style = rng.choice(['random', 'repeat', 'interleave'])
        if style == 'repeat':
            i = rng.randrange(k)
            hist = [i] * n
        elif style == 'interleave':
            a, b = rng.sample(range(k), 2)
            hist = [a, b] * 3
            hist = hist[:max(n, 3)]
        else:
            hist = [rng.randrange(k) for _ in range(n)]
        case['history'] = hist
    if twin is None:
        twin = (kind == 'filter_perm' and mode == 'dist' and nb >= 3 and not difftab and rng.random() < 0.25)
    if twin and nb >= 3:
        # a coarse cube: two requested wavelengths (an exact duplicate or a near-duplicate) whose nearest tabulated wavelength is
        # the SAME slice, adjacent in one filter order and separated in the other
        difftab = False
        fmt = 'cube_wav'
        j1 = rng.randrange(nb - 1)
        j2 = j1 + 1
        case['wavs'][j2] = case['wavs'][j1] if twin == 'exact' or (twin is True and rng.random() < 0.5) \
            else float('%.6g' % (case['wavs'][j1] * rng.choice([1.0005, 0.9995, 1.002])))
        for i in range(nm):
            case['models'][i][j2] = case['models'][i][j1]
            case['grow'][i][j2] = list(case['grow'][i][j1])
        case['twin_of'] = {str(j2): j1}
        case['sources'] = gen_sources(rng, case, len(case['sources']))
        if kind == 'filter_perm' and not perm_given:
            pm = case['perm']
            if abs(pm.index(j1) - pm.index(j2)) == 1:
                # separate them: move j2 to the far end from j1
                pm.remove(j2)
                if pm.index(j1) >= len(pm) / 2.:
                    pm.insert(0, j2)
                else:
                    pm.append(j2)
                if abs(pm.index(j1) - pm.index(j2)) == 1:      # nb == 3 with j1 in the middle
                    pm.remove(j1)
                    pm.insert(0 if pm.index(j2) == len(pm) - 1 else len(pm), j1)
            case['perm'] = pm
    if difftab is None:
        difftab = (kind == 'filter_perm' and mode == 'dist' and nb >= 2 and rng.random() < 0.3)
    if difftab:
        # convolved files with DIFFERENT aperture tables, two filters requested at the SAME angular aperture, theta * dmax
        # beyond the smaller table's largest aperture (where the code resets the aperture to that table's maximum)
        fmt = 'files'
        aps = case['aps']
        small = aps[:-1] if len(aps) >= 3 else [aps[0], float('%.3g' % ((aps[0] + aps[-1]) / 2.))]
        a, b = rng.sample(range(nb), 2)
        case['aps_by_filter'] = [list(small) if j == a else list(aps) for j in range(nb)]
        for i in range(nm):
            case['grow'][i][a] = case['grow'][i][a][:len(small)]
        dmin, dmax = case['drange']
        th = max(aps[0] / (dmin * 1000.) * 1.01, small[-1] * rng.uniform(1.2, 3.) / (dmax * 1000.))
        th = float('%.4g' % th)
        if th * dmin * 1000. < aps[0]:
            th = float('%.4g' % (th * 1.01))
        case['theta'][a] = th
        case['theta'][b] = th
        case['same_theta'] = [a, b]
        if kind == 'filter_perm' and not perm_given:
            # make sure the permutation reverses the reading order of the two filters
            pm = case['perm']
            if (pm.index(a) < pm.index(b)) == (a < b):
                ia, ib = pm.index(a), pm.index(b)
                pm[ia], pm[ib] = pm[ib], pm[ia]
            case['perm'] = pm
    # package format / storage / resolved-model removal / model names: drawn last, so that the streams above are unchanged
    fmt = fmt or rng.choice(['files', 'files', 'cube_wav', 'cube_named', 'cube_mixed'])
    case['fmt'] = fmt
    if units is None:
        units = (fmt == 'files' and kind in ('filter_perm', 'history', 'interleaved') and rng.random() < 0.4)
    if units and fmt == 'files':
        # per-file packages whose convolved files are not all in the same flux unit (physically the same package)
        jq = 0 if (kind != 'filter_perm' or case['perm'][0] != 0) else rng.randrange(nb)
        case['units'] = {str(jq): rng.choice(['Jy', 'Jy', 'uJy'])}
    case['memmap'] = bool(memmap) if memmap is not None else (fmt != 'files' and rng.random() < 0.4)
    case['resolved'] = bool(resolved) if resolved is not None else (mode == 'dist' and rng.random() < 0.4)
    if fmt == 'cube_mixed':
        k = rng.randint(1, max(1, nb - 1))
        case['named'] = sorted(rng.sample(range(nb), k))
    # model names in no particular (in particular not alphabetical) order, as in real packages
    labels = ['%s%02d' % (rng.choice('zqmakxcb'), i) for i in range(nm)]
    case['names'] = labels
    if zero is None:
        zero = (kind in ('history', 'interleaved') and nm >= 2 and rng.random() < 0.35)
    if zero and nm >= 2:
        # the package's marker for "this model has no valid flux in this band": an exactly-zero model flux (edge of the
        # quantifier of C01/C02; the sources above were drawn from the positive grid).  One model keeps all fluxes positive.
        zi = rng.randrange(1, nm)
        zj = sorted(rng.sample(range(nb), rng.randint(1, max(1, nb - 1))))
        for j in zj:
            case['models'][zi][j] = 0.
        case['zero'] = [zi, zj]
    if kind == 'interleaved':
        # two or three Fitters alive at once; cube packages with use_memmap on (the default) / off, and a per-file package;
        # every package has the same shape (models x distances x filters), fluxes rescaled and rows reversed
        k = rng.choice([2, 2, 3])
        specs = [dict(fmt=rng.choice(['cube_wav', 'cube_named', 'cube_mixed']), memmap=True, scale=1., reverse=False),
                 dict(fmt=rng.choice(['cube_wav', 'cube_wav', 'cube_mixed']), memmap=(rng.random() < 0.6),
                      scale=float('%.3g' % (10 ** rng.uniform(-1.5, 1.5))), reverse=True)]
        if k == 3:
            specs.append(dict(fmt=rng.choice(['files', 'cube_wav']), memmap=(rng.random() < 0.5),
                              scale=float('%.3g' % (10 ** rng.uniform(-1.5, 1.5))), reverse=False))
        if spec_override is not None:
            specs = spec_override
        if masked_interleave is None:
            masked_interleave = (mode == 'dist' and nb >= 3 and rng.random() < 0.4)
        if masked_interleave and mode == 'dist' and nb >= 3:
            # remove_resolved=True with memory-mapped cube packages whose `extended` planes differ between filters (one steep
            # band), the second fitter with the filters permuted so that the steep band sits where a source has an unused band
            c03.make_resolved(case, rng, jstar=0, replant=False)
            lo = math.log10(case['drange'][0])
            hi = lo + 0.6 * math.log10(case['drange'][1] / case['drange'][0])
            srcs = []
            for k_ in range(len(case['sources'])):
                fl = gen_flags(rng, nb)
                fl[0] = rng.choice([1, 4])
                z = rng.randrange(1, nb)
                fl[z] = 0
                others = [j for j in range(1, nb) if j != z]
                fl[others[0]] = rng.choice([1, 4])
                positive = dict(case)       # sources are drawn from the positive grid (a zero flux marks an invalid band)
                positive['models'] = [[x if x > 0 else 1. for x in row] for row in case['models']]
                srcs.append(gen_source(rng, positive, flags=fl, sc_range=(lo, hi)))
            case['sources'] = srcs
            z0 = case['sources'][0]['flags'].index(0) if 0 in case['sources'][0]['flags'] else nb - 1
            pm = list(range(nb))
            pm[0], pm[z0] = pm[z0], pm[0]
            specs = [dict(fmt='cube_wav', memmap=True, scale=1., reverse=False, resolved=True),
                     dict(fmt='cube_wav', memmap=True, scale=1., reverse=False, resolved=True, perm=pm)]
            if rng.random() < 0.4:
                specs.append(dict(fmt='cube_wav', memmap=False, scale=float('%.3g' % (10 ** rng.uniform(-1, 1))), reverse=True,
                                  resolved=bool(rng.random() < 0.5)))
            case['resolved'] = True
        case['fitters'] = specs
        ns = len(case['sources'])
        plan = [[0, 0]]
        for t in range(rng.randint(3, 6)):
            plan.append([(t + 1) % len(specs) if rng.random() < 0.8 else rng.randrange(len(specs)), rng.randrange(ns)])
        plan.append([0, 0])
        case['plan'] = plan
    apply_rep(case, rep if rep != 'random' else rng.choice(REPS), rng)
    # how the public API is called: positional / keyword construction, distance range in kpc / pc, the Extinction object
    # used directly or after copy / deepcopy / pickle, a refused call (malformed source) before the history
    case['call'] = call if call is not None else dict(
        positional=(rng.random() < 0.35), dunit=rng.choice(['kpc', 'kpc', 'pc']),
        ext_route=rng.choice([None, None, 'deepcopy', 'pickle', 'copy']), refused_first=(rng.random() < 0.4))
    return case


def gen_cases(seed, tier):
    i = 0
    # directed block: one of every kind x mode, with limits / flag 4 / ignored bands present by construction
    directed = [('filter_perm', 'dist', 'difftab'), ('filter_perm', 'dist', 'difftab'),
                ('filter_perm', 'indep', None), ('filter_perm', 'dist', None),
                ('filter_perm', 'indep', 'interior'), ('filter_perm', 'dist', 'interior'), ('model_perm', 'indep', None),
                ('model_perm', 'dist', None), ('scale', 'indep', 2500.), ('scale', 'indep', 0.004),
                ('history', 'indep', None), ('history', 'dist', None)]
    # (format, use_memmap, remove_resolved) of the directed cases: every format, both storages, resolved removal on
    variants = [('files', False, False), ('cube_wav', True, True), ('cube_named', False, True), ('cube_mixed', True, False),
                ('cube_wav', False, False), ('cube_mixed', False, True), ('cube_named', True, False), ('files', False, True),
                ('cube_wav', True, False), ('cube_mixed', True, True)]
    for kind, mode, c in directed:
        rng = case_rng(seed, PID, i)
        interior = (c == 'interior')
        difftab = (c == 'difftab')
        c = None if (interior or difftab) else c
        fmt, mm, rr = variants[i % len(variants)]
        if difftab:
            fmt, mm = 'files', False
        case = gen_case(rng, kind, mode, nb=5, nm=(4 if kind == 'model_perm' else None), c=c, interior=interior,
                        fmt=fmt, memmap=mm, resolved=(rr and mode == 'dist'), difftab=(True if difftab else False), rep=None)
        case['sources'][0] = gen_source(rng, case, flags=[1, 4, 3, 0, 2])
        if kind == 'history':
            case['history'] = [0, 1, 0, 0, 1]
        apply_rep(case, DIRECTED_REPS[i % len(DIRECTED_REPS)], rng)
        case['call'] = dict(DIRECTED_CALLS[i % len(DIRECTED_CALLS)])
        if kind == 'scale' and case['rep'] in c03.INT_REPS:
            case['c'] = (1e8 if case['rep'] in ('int64', 'list_int') else 1e4) if case['c'] > 1 else case['c']
            # a bright whole-number source without a flag-4 band: c * array stays an integer array at the bright end
            b = c03.integerised(gen_source(rng, case, flags=[1, 1, 3, 0, 1]))
            b['flux'] = [x * 100. if f in (1, 2, 3) else x for f, x in zip(b['flags'], b['flux'])]
            b['err'] = [x * 100. if f == 1 else x for f, x in zip(b['flags'], b['err'])]
            case['sources'].append(b)
            case['ign'].append([[-999., -999.] for _ in b['flags']])
        yield case
        i += 1
    if tier == 'thorough':
        # every permutation of 2..4 filters / models, both modes
        for kind in ('filter_perm', 'model_perm'):
            for mode in ('indep', 'dist'):
                for n in (2, 3, 4):
                    for perm in itertools.permutations(range(n)):
                        rng = case_rng(seed, PID, i)
                        if kind == 'filter_perm':
                            yield gen_case(rng, kind, mode, perm=list(perm), nb=n)
                        else:
                            yield gen_case(rng, kind, mode, perm=list(perm), nm=n)
                        i += 1
    # directed: interleaved fitters (both storages on, mixed storages + per-file), histories on packages with a zero flux
    both_on = [dict(fmt='cube_wav', memmap=True, scale=1., reverse=False), dict(fmt='cube_named', memmap=True, scale=7.3, reverse=True)]
    mixed = [dict(fmt='cube_mixed', memmap=True, scale=1., reverse=False), dict(fmt='cube_wav', memmap=False, scale=0.21, reverse=True),
             dict(fmt='files', memmap=False, scale=3.9, reverse=False)]
    for kind, mode, extra in (('filter_perm', 'indep', dict(units=True, fmt='files', nb=4, nm=3)),
                              ('filter_perm', 'dist', dict(units=True, fmt='files', nb=3, nm=2)),
                              ('filter_perm', 'dist', dict(twin='exact', nb=4, nm=3)), ('filter_perm', 'dist', dict(twin='near', nb=3, nm=3)),
                              ('filter_perm', 'dist', dict(twin='near', nb=5, nm=2)),
                              ('interleaved', 'dist', dict(masked_interleave=True)), ('interleaved', 'dist', dict(masked_interleave=True)),
                              ('interleaved', 'indep', dict(spec_override=both_on)), ('interleaved', 'dist', dict(spec_override=both_on)),
                              ('interleaved', 'dist', dict(spec_override=mixed)), ('interleaved', 'indep', dict(spec_override=mixed, zero=True)),
                              ('history', 'indep', dict(zero=True, fmt='files')), ('history', 'dist', dict(zero=True, fmt='cube_wav', memmap=True))):
        rng = case_rng(seed, PID, 'd%d' % i)
        extra = dict(extra)
        case = gen_case(rng, kind, mode, nb=extra.pop('nb', 4), nm=extra.pop('nm', 4), **extra)
        if kind == 'history':
            case['history'] = [0, 1, 0, 0, 1]
            case['call'] = dict(DIRECTED_CALLS[i % 2], refused_first=True)
        yield case
        i += 1
    for kind in ('filter_perm', 'model_perm', 'scale', 'history', 'interleaved'):
        for _ in range(N[tier][kind]):
            rng = case_rng(seed, PID, i)
            mode = 'indep' if kind == 'scale' else rng.choice(['indep', 'dist'])
            yield gen_case(rng, kind, mode)
            i += 1


# ----------------------------------------------------------------------------- real side

def names_of(case):
    return list(case.get('names') or ['m%03d' % i for i in range(len(case['models']))])


def named_filters(case):
    """indices of the filters given to Fitter by name (the others are given as wavelength Quantities)"""
    fmt = case.get('fmt', 'files')
    nb = len(case['wavs'])
    if fmt in ('files', 'cube_named'):
        return set(range(nb))
    if fmt == 'cube_wav':
        return set()
    return set(case.get('named', [0]))


def write_package(case, d, mode, row_order=None):
    """the package in the case's format, model rows in `row_order` (default natural):
    files       version 1: convolved/F<j>.fits for every filter
    cube_wav    version 2: flux.fits (SED cube tabulated at the filters' wavelengths and one more), fitted at wavelengths
    cube_named  version 2: flux.fits plus convolved/F<j>.fits for every filter (what convolve_model_dir leaves behind)
    cube_mixed  version 2: flux.fits plus convolved files for the filters in case['named']"""
    nm = len(case['models'])
    names = names_of(case)
    order = list(row_order) if row_order is not None else list(range(nm))
    fmt = case.get('fmt', 'files')
    dist = (mode != 'indep')
    nap = len(case['aps']) if dist else 1

    def aps_of(j):
        return case['aps_by_filter'][j] if case.get('aps_by_filter') else case['aps']

    def flux_of(i, j):
        return [case['models'][i][j] * g for g in case['grow'][i][j]] if dist else [case['models'][i][j]]

    if fmt == 'files':
        pk.write_conf(d, aperture_dependent=dist, logd_step=case['step'])
    else:
        extra = float('%.3g' % (max(case['wavs']) * 2.5))
        twins = dict((int(k), v) for k, v in (case.get('twin_of') or {}).items())     # filter -> the filter whose slice it shares
        tab = [j for j in range(len(case['wavs'])) if j not in twins]
        wav = [case['wavs'][j] for j in tab] + [extra]
        val = np.ones((nm, nap, len(wav)))
        for r, i in enumerate(order):
            for t, j in enumerate(tab):
                val[r, :, t] = flux_of(i, j)
        pk.write_cube_package(d, [names[i] for i in order], wav, val, np.zeros_like(val),
                              apertures_au=(case['aps'] if dist else None), aperture_dependent=dist,
                              logd_step=case['step'])
    for j in sorted(named_filters(case)):
        from astropy import units as u
        apj = aps_of(j) if dist else None
        unit_j = (case.get('units') or {}).get(str(j), 'mJy')
        fac = {'mJy': 1., 'Jy': 1e-3, 'uJy': 1e3}[unit_j]
        pk.write_convolved(d, 'F%d' % j, case['wavs'][j], [names[i] for i in order],
                           [[x * fac for x in flux_of(i, j)] for i in order],
                           np.zeros((nm, len(apj) if dist else 1)), apertures_au=apj, unit=u.Unit(unit_j))


def make_ext(case):
    """the Extinction object of the case, possibly passed through copy / deepcopy / pickle before use"""
    e = pk.make_extinction(case['tab_w'], case['tab_chi'])
    route = (case.get('call') or {}).get('ext_route')
    if route == 'deepcopy':
        import copy
        e = copy.deepcopy(e)
    elif route == 'copy':
        import copy
        e = copy.copy(e)
    elif route == 'pickle':
        import pickle
        e = pickle.loads(pickle.dumps(e, 2))
    return e


def make_fitter(case, d, mode, filter_order=None, ext=None, drange=None):
    """`ext`: the Extinction object to use; the fitters of one pair / history share ONE object, as a user script that
    builds several Fitters (or calls fit() several times) with `extinction_law=law` does"""
    nb = len(case['wavs'])
    order = list(filter_order) if filter_order is not None else list(range(nb))
    if ext is None:
        ext = make_ext(case)
    from astropy import units as u
    named = named_filters(case)
    fnames = [('F%d' % j) if j in named else case['wavs'][j] * u.micron for j in order]
    memmap = bool(case.get('memmap', False))
    call = case.get('call') or {}
    dr = list(drange if drange is not None else case['drange']) if mode != 'indep' else [1., 2.]
    dunit = call.get('dunit', 'kpc')
    if dunit == 'pc':
        dr = [x * 1000. for x in dr]
    thetas = [1.] * nb if mode == 'indep' else [case['theta'][j] for j in order]
    resolved = bool(case.get('resolved', False)) and mode != 'indep'
    if call.get('positional'):
        # Fitter(filter_names, apertures, model_dir, extinction_law, av_range, distance_range, remove_resolved, use_memmap),
        # all positional; filter names as a tuple, A_V range as a list
        from sedfitter.fit import Fitter
        with common.quiet():
            return Fitter(tuple(fnames), np.array(thetas, dtype=float) * u.arcsec, d, ext, list(case['av']),
                          np.array(dr, dtype=float) * u.Unit(dunit), resolved, memmap)
    return pk.make_fitter(d, fnames, thetas, ext, case['av'], distance_range_kpc=dr, use_memmap=memmap,
                          remove_resolved=resolved, distance_unit=dunit)


_REP = [None]      # representation of the source arrays of the case being run (set by run_case)


def rep_for(s, rep):
    """the representation to hold `s` in: an integer container only if every value is a whole number"""
    if rep in c03.INT_REPS:
        vals = list(s['flux']) + list(s['err'])
        top = 2 ** 31 if rep in ('int32', 'bigendian_int32') else 2 ** 62
        if not all(math.isfinite(v) and float(v) == int(v) and abs(v) < top for v in vals):
            return None
    return rep


def source_obj(tag, s):
    return c03.make_source_rep(tag, s, rep_for(s, _REP[0]))


def apply_rep(case, rep, rng):
    """hold the sources of the case as int64 / int32 / big-endian / read-only / strided arrays or lists; integer containers
    get whole-number photometry (and, for the scale kind, often a whole-number constant, so that c * array stays integer)"""
    case['rep'] = rep
    if rep in c03.INT_REPS:
        case['sources'] = [c03.integerised(s) for s in case['sources']]
        if case['kind'] == 'scale' and rng.random() < 0.7:
            # whole-number constants up to the bright end of the 8 decades: c * array stays an integer array, with values
            # beyond 46341 (int32) / 3.04e9 (int64), where a squared intermediate held in the array's own dtype would wrap
            big = [10 ** 7, 10 ** 8, 3 * 10 ** 7] if rep in ('int64', 'list_int') else [100, 1000, 10 ** 4]
            case['c'] = float(rng.choice([2, 3, 10, 100, 1000] + big + big))
    return case


DIRECTED_REPS = ['int64', 'readonly', 'list_int', 'bigendian', 'int32', 'noncontiguous', 'bigendian_int32', 'list_float', 'int64',
                 'valid_float', 'route_pickle', 'route_deepcopy']
DIRECTED_CALLS = [dict(positional=True, dunit='pc', ext_route='deepcopy', refused_first=True),
                  dict(positional=False, dunit='kpc', ext_route='pickle', refused_first=True),
                  dict(positional=True, dunit='kpc', ext_route='copy', refused_first=False),
                  dict(positional=False, dunit='pc', ext_route=None, refused_first=True)]
REPS = [None, None, None, 'route_copy', 'route_deepcopy', 'route_pickle', 'route_dict', 'valid_uint8', 'int64', 'int32', 'list_int', 'bigendian_int32', 'bigendian', 'readonly', 'list_float', 'noncontiguous',
        'valid_float']


def fit(fitter, s, tag='s'):
    src = source_obj(tag, s)
    with common.quiet():
        info = fitter.fit(src)
    return pk.fit_arrays(info)


def permuted_source(s, perm):
    return dict(flags=[s['flags'][j] for j in perm], flux=[s['flux'][j] for j in perm], err=[s['err'][j] for j in perm])


def permuted_case_filters(case, perm):
    c = dict(case)
    c['wavs'] = [case['wavs'][j] for j in perm]
    c['models'] = [[m[j] for j in perm] for m in case['models']]
    return c


def limit_margin(s, a, row):
    """distance of the reported model from the nearest limit of the source (log10 units)"""
    m = float('inf')
    for j, f in enumerate(s['flags']):
        if f in (2, 3):
            m = min(m, abs(a['model_fluxes'][row][j] - math.log10(s['flux'][j])))
    return m


def chi2_at_distance(case, d, mode, ext, s, name, logd):
    """chi2 of model `name` for source `s` at the single trial distance 10**logd (a Fitter whose range is that one distance)"""
    dd = 10. ** float(logd)
    f = make_fitter(case, d, mode, ext=ext, drange=[dd, dd])
    a = fit(f, s)
    return float(a['chi2'][c03.by_name(a)[name]])


def near_tie(case, d, mode, ext, s, name, logd_a, logd_b, tol):
    """True when model `name` really has chi2 equal to rounding at the two trial distances"""
    ca = chi2_at_distance(case, d, mode, ext, s, name, logd_a)
    cb = chi2_at_distance(case, d, mode, ext, s, name, logd_b)
    return c03.same_num(ca, cb, max(tol, 1e-9))


def compare_pair(a, b, sa, sb, tol, mode, col_map=None, sc_shift=0., what='', tie_check=None):
    """per-model comparison of two results; col_map[j] = column of `a` that column j of `b` corresponds to.
    returns (error or None, relaxed)"""
    ia, ib = c03.by_name(a), c03.by_name(b)
    relaxed = 0
    if sorted(ia) != sorted(ib) or len(ia) != len(a['name']):
        return 'model names differ: %r vs %r' % (a['name'], b['name']), 0
    for n in sorted(ia):
        ra, rb = ia[n], ib[n]
        if min(limit_margin(sa, a, ra), limit_margin(sb, b, rb)) < 1e-7:
            relaxed += 1
            continue
        c2a, c2b = float(a['chi2'][ra]), float(b['chi2'][rb])
        okc = c03.same_num(c2a, c2b, tol * 10)
        oks = c03.same_num(float(a['sc'][ra]) + sc_shift, float(b['sc'][rb]), tol)
        oka = c03.same_num(a['av'][ra], b['av'][rb], tol)
        if mode == 'dist' and okc and not (oks and oka):
            # the two runs report different trial distances with the same chi2: acceptable only if the two distances really
            # are tied to rounding for this model, which is verified by fitting at each of the two distances alone
            if tie_check is not None and tie_check(n, float(a['sc'][ra]), float(b['sc'][rb]), tol * 100):
                relaxed += 1
                continue
            return ('%s: model %s: the two runs report different distances / A_V with equal chi2, and the two distances are NOT '
                    'tied: (av, sc, chi2) = (%r, %r, %r) vs (%r, %r, %r); sources %r / %r'
                    % (what, n, float(a['av'][ra]), float(a['sc'][ra]), c2a, float(b['av'][rb]), float(b['sc'][rb]), c2b,
                       sa, sb)), relaxed
        okf = True
        for j in range(len(sb['flags'])):
            ja = col_map[j] if col_map is not None else j
            shift = 0. if mode == 'dist' else -2. * sc_shift
            if not c03.same_num(a['model_fluxes'][ra][ja] + shift, b['model_fluxes'][rb][j], tol):
                okf = False
        if not (okc and oks and oka and okf):
            return ('%s: model %s: (av, sc, chi2) = (%r, %r, %r) vs (%r, %r, %r) [expected scale shift %r]; predicted '
                    '%r vs %r; sources %r / %r'
                    % (what, n, float(a['av'][ra]), float(a['sc'][ra]), c2a, float(b['av'][rb]), float(b['sc'][rb]), c2b,
                       sc_shift, a['model_fluxes'][ra].tolist(), b['model_fluxes'][rb].tolist(), sa, sb)), relaxed
    return None, relaxed


def tie_groups(a):
    """ranking as a list of (chi2, sorted names) with exactly tied chi2 grouped"""
    out = []
    for n, c in zip(a['name'], a['chi2']):
        c = float(c)
        if out and (out[-1][0] == c or (math.isnan(c) and math.isnan(out[-1][0]))):
            out[-1][1].append(n)
        else:
            out.append((c, [n]))
    return [(c, sorted(ns)) for c, ns in out]


def model_check(case, s, a, branches, stats, exp=None):
    """impl vs Lean model for one source (distance-independent mode); returns (error or None, model rows)"""
    if exp is None:
        exp = c01.model_side(case, s)
    if case.get('memmap'):
        # float32 model fluxes: the comparison with the exact model under a float32 budget is C07's; here the model only
        # supplies the condition number for the tolerance of the paired runs
        return None, exp
    names = names_of(case)
    branches.add('model_corr')
    for row, nme in enumerate(a['name']):
        e = exp[names.index(nme)]
        scale = 1. + abs(float(e['av'])) + abs(float(e['sc']))
        if e['margin'] < 1e-7 * scale:
            stats['relaxed'] += 1
            continue
        tol = 1e-9 * max(1., e['cond'])
        if not (common.close(a['av'][row], e['av'], tol) and common.close(a['sc'][row], e['sc'], tol)
                and common.close(a['chi2'][row], e['chi2'], max(tol, 1e-9) * 10)):
            return ('model %s: impl (av, sc, chi2) = (%r, %r, %r); Lean model (%r, %r, %r); cond=%.3g source=%r'
                    % (nme, a['av'][row], a['sc'][row], a['chi2'][row], float(e['av']), float(e['sc']), float(e['chi2']),
                       e['cond'], s)), exp
    return None, exp


def cond_of(exp):
    return max([1.] + [e['cond'] for e in exp])


def out_of_domain(case, s):
    """C01/C02 ask for a non-singular fit: two fitted bands with distinct extinction coefficient (distance-independent)"""
    return case['mode'] == 'indep' and c01.singular(case, s)


def note_flags(s, branches):
    if any(f in (2, 3) for f in s['flags']):
        branches.add('limits_present')
    if 4 in s['flags']:
        branches.add('flag4_present')
    if any(f in (0, 9) for f in s['flags']):
        branches.add('ignored_present')


# ----------------------------------------------------------------------------- the four kinds

def interior_only(perm):
    """the permutation fixes the first and the last filter and moves interior ones"""
    n = len(perm)
    return n >= 4 and perm[0] == 0 and perm[-1] == n - 1 and list(perm) != list(range(n))


def run_filter_perm(case, use_model, branches, stats, dirs):
    mode, perm = case['mode'], case['perm']
    d = tempfile.mkdtemp(prefix='c11_'); dirs.append(d)
    write_package(case, d, mode)
    if interior_only(perm):
        branches.add('filter_perm_interior')
    if case.get('units'):
        branches.add('per_file_flux_units')
        first_a = (case['units'] or {}).get('0', 'mJy')
        first_b = (case['units'] or {}).get(str(perm[0]), 'mJy')
        if first_a != first_b:
            branches.add('first_filter_unit_differs_between_orders')
    if case.get('twin_of') and mode == 'dist':
        for j2_, j1_ in case['twin_of'].items():
            j2_ = int(j2_)
            adj_a = abs(j1_ - j2_) == 1
            adj_b = abs(perm.index(j1_) - perm.index(j2_)) == 1
            branches.add('shared_cube_slice')
            if adj_a != adj_b:
                branches.add('shared_slice_adjacent_vs_separated')
            branches.add('shared_slice_exact_duplicate' if case['wavs'][j1_] == case['wavs'][j2_] else 'shared_slice_near_duplicate')
    if case.get('same_theta') and mode == 'dist':
        a_, b_ = case['same_theta']
        tabs = case['aps_by_filter']
        if (case['theta'][a_] == case['theta'][b_] and tabs[a_][-1] != tabs[b_][-1]
                and case['theta'][a_] * case['drange'][1] * 1000. > min(tabs[a_][-1], tabs[b_][-1])
                and (perm.index(a_) < perm.index(b_)) != (a_ < b_)):
            branches.add('same_theta_diff_tables')
    ext = make_ext(case)
    branches.add('shared_extinction_object')
    fa = make_fitter(case, d, mode, ext=ext)
    fb = make_fitter(case, d, mode, filter_order=perm, ext=ext)
    pcase = permuted_case_filters(case, perm)
    for s in case['sources']:
        if out_of_domain(case, s):
            continue
        note_flags(s, branches)
        sp = permuted_source(s, perm)
        a = fit(fa, s)
        b = fit(fb, sp)
        cond = 1e3
        ea = eb = None
        if mode == 'indep' and use_model:
            ea = c01.model_side(case, s)
            eb = c01.model_side(pcase, sp)
            cond = cond_of(ea)
        # the property itself, on the real code
        err, rel = compare_pair(a, b, s, sp, 1e-9 * max(1., cond), mode, col_map=perm,
                                what='filters %r vs identity' % (perm,),
                                tie_check=lambda n, x, y, t, s=s: near_tie(case, d, mode, ext, s, n, x, y, t))
        stats['relaxed'] += rel
        if err:
            return CaseResult(False, violates=True, detail='filter_perm (%s): %s' % (mode, err))
        if ea is not None:
            err, _ = model_check(case, s, a, branches, stats, exp=ea)
            if err:
                return CaseResult(False, violates=None, detail='filter_perm, original order: ' + err)
            err, _ = model_check(pcase, sp, b, branches, stats, exp=eb)
            if err:
                return CaseResult(False, violates=None, detail='filter_perm, permuted order: ' + err)
            for x, y in zip(ea, eb):   # the theorem, observed on this instance: exact equality
                if (x['av'], x['sc'], x['chi2']) != (y['av'], y['sc'], y['chi2']):
                    return CaseResult(False, violates=None,
                                      detail='Lean model is not invariant under this filter permutation: %r vs %r' % (x, y))
    return None


def run_model_perm(case, use_model, branches, stats, dirs):
    mode, perm = case['mode'], case['perm']
    da = tempfile.mkdtemp(prefix='c11_'); dirs.append(da)
    db = tempfile.mkdtemp(prefix='c11_'); dirs.append(db)
    write_package(case, da, mode)
    write_package(case, db, mode, row_order=perm)
    ext = make_ext(case)
    fa = make_fitter(case, da, mode, ext=ext)
    fb = make_fitter(case, db, mode, ext=ext)
    for s in case['sources']:
        if out_of_domain(case, s):
            continue
        note_flags(s, branches)
        a = fit(fa, s)
        b = fit(fb, s)
        if mode == 'indep' and use_model:
            err, _ = model_check(case, s, a, branches, stats)
            if err:
                return CaseResult(False, violates=None, detail='model_perm: ' + err)
        err, rel = compare_pair(a, b, s, s, 1e-12, mode, what='model rows %r vs identity' % (perm,),
                                tie_check=lambda n, x, y, t, s=s: near_tie(case, da, mode, ext, s, n, x, y, t))
        stats['relaxed'] += rel
        if err:
            return CaseResult(False, violates=True, detail='model_perm (%s): %s' % (mode, err))
        ga, gb = tie_groups(a), tie_groups(b)
        if any(len(ns) > 1 for _, ns in ga):
            branches.add('tie_group')
        same = len(ga) == len(gb) and all(c03.same_num(x[0], y[0], 1e-12) and x[1] == y[1] for x, y in zip(ga, gb))
        if not same and rel == 0:
            # rankings must agree up to the order inside groups of tied chi2
            return CaseResult(False, violates=True,
                              detail='model_perm (%s): rankings differ beyond tie groups: %r vs %r (source %r)'
                                     % (mode, ga, gb, s))
    return None


def scaled_source(s, c, ign):
    flux, err = [], []
    for j, f in enumerate(s['flags']):
        if f == 1:
            flux.append(s['flux'][j] * c); err.append(s['err'][j] * c)
        elif f in (2, 3):
            flux.append(s['flux'][j] * c); err.append(s['err'][j])
        elif f == 4:
            flux.append(s['flux'][j] + math.log10(c)); err.append(s['err'][j])
        else:
            flux.append(ign[j][0]); err.append(ign[j][1])
    return dict(flags=list(s['flags']), flux=flux, err=err)


def run_scale(case, use_model, branches, stats, dirs):
    c = case['c']
    branches.add('scale_up' if c > 1 else 'scale_down')
    d = tempfile.mkdtemp(prefix='c11_'); dirs.append(d)
    write_package(case, d, 'indep')
    f = make_fitter(case, d, 'indep')
    for si, s in enumerate(case['sources']):
        if out_of_domain(case, s):
            continue
        note_flags(s, branches)
        sc_ = scaled_source(s, c, case['ign'][si])
        a = fit(f, s)
        b = fit(f, sc_)
        cond = 1e3
        if use_model:
            err, ea = model_check(case, s, a, branches, stats)
            if err:
                return CaseResult(False, violates=None, detail='scale, original: ' + err)
            err, eb = model_check(case, sc_, b, branches, stats)
            if err:
                return CaseResult(False, violates=None, detail='scale, scaled by %r: %s' % (c, err))
            cond = cond_of(ea)
        err, rel = compare_pair(a, b, s, sc_, 1e-9 * max(1., cond), 'indep', sc_shift=-0.5 * math.log10(c),
                                what='fluxes and errors times %r' % c)
        stats['relaxed'] += rel
        if err:
            return CaseResult(False, violates=True, detail='scale: ' + err)
    return None


def arr_bytes(x):
    if x is None:
        return b'None'
    a = np.asarray(getattr(x, 'value', x))
    return (str(a.dtype) + str(a.shape)).encode() + a.tobytes()


def fitter_digest(f):
    h = hashlib.sha256()
    m = f.models
    for x in (m.fluxes, m.wavelengths, m.distances, m.apertures, m.logd, m.names, m.extended, f.av_law, f.sc_law,
              f.extinction_law.wav, f.extinction_law.chi):
        h.update(arr_bytes(x))
        h.update(str(getattr(x, 'unit', '')).encode())
    h.update(repr([sorted((k, str(v)) for k, v in flt.items()) for flt in f.filters]).encode())
    h.update(repr(tuple(f.av_range)).encode())
    h.update(str(f.model_dir).encode())
    return h.hexdigest()


def source_digest(s):
    h = hashlib.sha256()
    for x in (s.valid, s.flux, s.error):
        h.update(arr_bytes(x))
    h.update(repr((s.name, s.x, s.y)).encode())
    return h.hexdigest()


def same_bits(a, b):
    for k in ('av', 'sc', 'chi2', 'model_fluxes'):
        if not np.array_equal(np.asarray(a[k]), np.asarray(b[k]), equal_nan=True):
            return '%s: %r vs %r' % (k, np.asarray(a[k]).tolist(), np.asarray(b[k]).tolist())
    if a['name'] != b['name'] or a['model_id'] != b['model_id']:
        return 'ranking: %r vs %r' % (a['name'], b['name'])
    return None


def differing_models(a, b):
    """names of the models whose row (av, sc, chi2, predicted fluxes) differs bit for bit (NaN-aware) between two results"""
    ia, ib = c03.by_name(a), c03.by_name(b)
    out = set(ia) ^ set(ib)
    for n in set(ia) & set(ib):
        ra, rb = ia[n], ib[n]
        same = all(np.array_equal(np.asarray(a[k][ra]), np.asarray(b[k][rb]), equal_nan=True)
                   for k in ('av', 'sc', 'chi2', 'model_fluxes'))
        if not same:
            out.add(n)
    return out


def history_verdict(case, ref, got):
    """(None, None) if the two results agree; otherwise (violates, description).  A difference confined to a model that has an
    exactly-zero flux (edge of the quantifier: grids of C01/C02 are strictly positive) is reported without a verdict;
    the ranking is compared after removing such models"""
    names = names_of(case)
    zero_names = {names[case['zero'][0]]} if case.get('zero') else set()
    diff = differing_models(ref, got)
    order_ref = [n for n in ref['name'] if n not in zero_names]
    order_got = [n for n in got['name'] if n not in zero_names]
    if not diff and ref['name'] == got['name']:
        return None, None
    bad = diff - zero_names
    if bad or order_ref != order_got:
        return True, 'models %r differ (%s)' % (sorted(bad) or 'ranking', same_bits(ref, got))
    return None, ('only the model with a zero flux, %r, differs (%s) - at the edge of the quantifier, no verdict'
                  % (sorted(zero_names), same_bits(ref, got)))


def run_history(case, use_model, branches, stats, dirs):
    mode, hist = case['mode'], case['history']
    if case.get('zero'):
        branches.add('zero_flux_model')
    d = tempfile.mkdtemp(prefix='c11_'); dirs.append(d)
    write_package(case, d, mode)
    if len(set(hist)) < len(hist):
        branches.add('history_repeat')
    if any(hist[i] != hist[i + 1] and hist[i] in hist[i + 2:] for i in range(len(hist) - 2)):
        branches.add('history_interleaved')
    # reference: every source alone on a fresh fitter (all fitters of the case share one Extinction object)
    ext = make_ext(case)
    ref = {}
    for i in sorted(set(hist)):
        s = case['sources'][i]
        note_flags(s, branches)
        ref[i] = fit(make_fitter(case, d, mode, ext=ext), s, tag='s%d' % i)
    f = make_fitter(case, d, mode, ext=ext)
    srcs = {i: source_obj('s%d' % i, case['sources'][i]) for i in set(hist)}
    d0 = fitter_digest(f)
    if (case.get('call') or {}).get('refused_first'):
        # a call that cannot succeed (a source with one band too many) must leave the fitter as it was
        s0 = case['sources'][hist[0]]
        bad = pk.make_source('bad', list(s0['flags']) + [1], list(s0['flux']) + [1.], list(s0['err']) + [0.1])
        try:
            with common.quiet():
                f.fit(bad)
            refused = False
        except Exception:
            refused = True
        branches.add('history_after_refused_call' if refused else 'history_malformed_accepted')
        if fitter_digest(f) != d0:
            return CaseResult(False, violates=(None if case.get('zero') else True),
                              detail='history (%s): a refused call (source with %d bands for %d filters) modified the fitter'
                                     % (mode, len(s0['flags']) + 1, len(s0['flags'])))
    for step, i in enumerate(hist):
        src = srcs[i]
        sd0 = source_digest(src)
        with common.quiet():
            info = f.fit(src)
        got = pk.fit_arrays(info)
        if source_digest(src) != sd0:
            return CaseResult(False, violates=True,
                              detail='history %r step %d (%s): Fitter.fit modified the source: now valid=%r flux=%r error=%r, '
                                     'given %r' % (hist, step, mode, src.valid.tolist(), src.flux.tolist(), src.error.tolist(),
                                                   case['sources'][i]))
        viol, diff = history_verdict(case, ref[i], got)
        if diff:
            return CaseResult(False, violates=viol,
                              detail='history %r step %d (%s): result for source %d differs from the fit of that source alone on a '
                                     'fresh Fitter: %s (source %r)' % (hist, step, mode, i, diff, case['sources'][i]))
        if fitter_digest(f) != d0:
            # with a zero flux in the grid the change may be confined to that entry: no verdict then
            return CaseResult(False, violates=(None if case.get('zero') else True),
                              detail='history %r step %d (%s): Fitter.fit modified the fitter (digest of models.fluxes / av_law / '
                                     'sc_law / filters changed)%s' % (hist, step, mode,
                                                                      ' [grid with a zero flux]' if case.get('zero') else ''))
    # the same Source objects, re-used after their valid / flux / error have been re-assigned: every fit must equal the fit of a
    # fresh Source with that content (nothing about a source may be remembered across calls)
    for i in sorted(set(hist)):
        err = c03.same_object_history(f, case['sources'][i], branches)
        branches.add('history_reassign')
        if err:
            return CaseResult(False, violates=True, detail='history (%s), source %d: %s' % (mode, i, err))
        if fitter_digest(f) != d0:
            return CaseResult(False, violates=True,
                              detail='history (%s): re-fitting re-assigned sources modified the fitter' % mode)
    return None


def derived_case(case, spec):
    """the package of one of the interleaved fitters: same shape, fluxes rescaled, rows (and names) reversed"""
    c = dict(case)
    idx = list(range(len(case['models'])))
    if spec.get('reverse'):
        idx.reverse()
    c['models'] = [[x * spec['scale'] for x in case['models'][i]] for i in idx]
    c['grow'] = [case['grow'][i] for i in idx]
    c['names'] = [names_of(case)[i] for i in idx]
    if case.get('zero'):
        c['zero'] = [idx.index(case['zero'][0]), case['zero'][1]]
    c['fmt'] = spec['fmt']
    c['memmap'] = bool(spec['memmap']) and spec['fmt'] != 'files'
    if spec['fmt'] == 'cube_mixed' and 'named' not in c:
        c['named'] = [0]
    c.pop('aps_by_filter', None)
    if 'resolved' in spec:
        c['resolved'] = bool(spec['resolved'])
    return c


def run_interleaved(case, use_model, branches, stats, dirs):
    """several Fitters alive at once in one process, fits alternating between them: every fit must equal, bit for bit, the fit
    by a fresh Fitter of its own package (same storage setting, hence the same float32 values when use_memmap is on)"""
    mode, specs, plan = case['mode'], case['fitters'], case['plan']
    if case.get('zero'):
        branches.add('zero_flux_model')
    mm = [bool(sp['memmap']) and sp['fmt'] != 'files' for sp in specs]
    if mm.count(True) >= 2:
        branches.add('interleaved_memmap_both')
    if True in mm and False in mm:
        branches.add('interleaved_mixed_storage')
    if any(sp['fmt'] == 'files' for sp in specs):
        branches.add('interleaved_perfile')
    ext = make_ext(case)
    cases, pdirs = [], []
    for sp in specs:
        c = derived_case(case, sp)
        d = tempfile.mkdtemp(prefix='c11_'); dirs.append(d)
        write_package(c, d, mode)
        cases.append(c); pdirs.append(d)
    def src_for(k, si):
        pm = specs[k].get('perm')
        return permuted_source(case['sources'][si], pm) if pm else case['sources'][si]

    if any(sp.get('resolved') and sp['memmap'] for sp in specs) and mode == 'dist':
        branches.add('interleaved_remove_resolved_memmap')
        if any(sp.get('perm') for sp in specs):
            branches.add('interleaved_remove_resolved_permuted_filters')
    # references first: a fresh fitter of the package, used once, then dropped
    ref = {}
    for k, si in plan:
        if (k, si) not in ref:
            ref[(k, si)] = fit(make_fitter(cases[k], pdirs[k], mode, filter_order=specs[k].get('perm'), ext=ext), src_for(k, si))
    fitters, digests = [], []
    for k in range(len(specs)):
        fitters.append(make_fitter(cases[k], pdirs[k], mode, filter_order=specs[k].get('perm'), ext=ext))
        digests.append(fitter_digest(fitters[k]))
    for step, (k, si) in enumerate(plan):
        got = fit(fitters[k], src_for(k, si))
        viol, diff = history_verdict(cases[k], ref[(k, si)], got)
        if diff:
            return CaseResult(False, violates=viol,
                              detail='interleaved fitters %r, plan %r, step %d (%s): fitter %d, created before fitters %r, no longer '
                                     'returns what a fresh fitter of its package returns for source %d: %s'
                                     % (specs, plan, step, mode, k, list(range(k + 1, len(specs))), si, diff))
        for j in range(len(specs)):
            if fitter_digest(fitters[j]) != digests[j]:
                return CaseResult(False, violates=(None if case.get('zero') else True),
                                  detail='interleaved fitters %r, plan %r, step %d (%s): the arrays of fitter %d changed since it was '
                                         'created' % (specs, plan, step, mode, j))
    return None


RUNNERS = dict(filter_perm=run_filter_perm, model_perm=run_model_perm, scale=run_scale, history=run_history,
               interleaved=run_interleaved)


def run_case(case, use_model=True):
    branches = {case['kind'], 'mode_' + case['mode'], 'fmt_' + case.get('fmt', 'files'),
                'memmap_on' if case.get('memmap') else 'memmap_off'}
    if case.get('resolved'):
        branches.add('remove_resolved')
    if names_of(case) != sorted(names_of(case)):
        branches.add('names_unsorted')
    for k in ('filter_perm', 'model_perm', 'history'):
        if case['kind'] == k and case.get('fmt', 'files') != 'files':
            branches.add(k + '_cube')
    stats = dict(relaxed=0)
    dirs = []
    call = case.get('call') or {}
    branches.add('fitter_positional' if call.get('positional') else 'fitter_keywords')
    branches.add('distance_range_' + call.get('dunit', 'kpc'))
    branches.add('extinction_' + (call.get('ext_route') or 'direct'))
    _REP[0] = case.get('rep')
    branches.add('rep_%s' % (case.get('rep') or 'float64'))
    if case['kind'] == 'scale' and case.get('rep') in c03.INT_REPS and float(case['c']) == int(case['c']):
        branches.add('scale_integer_constant_integer_arrays')
        top = 46341 if case['rep'] in ('int32', 'bigendian_int32') else 3.04e9
        for s_ in case['sources']:
            if 4 not in s_['flags'] and any(f == 1 and x * case['c'] >= top for f, x in zip(s_['flags'], s_['flux'])):
                branches.add('integer_arrays_bright_end')
    try:
        r = RUNNERS[case['kind']](case, use_model, branches, stats, dirs)
        key = common.canon_hash(case)
        if r is not None:
            r.branches = sorted(branches)
            r.key = key
            return r
        sample = dict(kind=case['kind'], mode=case['mode'], n_filters=len(case['wavs']), n_models=len(case['models']),
                      perm=case.get('perm'), c=case.get('c'), history=case.get('history'), source0=case['sources'][0])
        return CaseResult(True, branches=branches, key=key, nontrivial=True, sample=sample, relaxed=stats['relaxed'])
    finally:
        for d in dirs:
            shutil.rmtree(d, ignore_errors=True)


# ----------------------------------------------------------------------------- falsifier

def search(seed, tier, disagreeing):
    """paired real runs only (no model), on the disagreeing cases and a fresh sweep of every kind"""
    found, tried = [], 0
    pool = list(disagreeing)
    i = 0
    for kind in ('filter_perm', 'model_perm', 'scale', 'history', 'interleaved'):
        for _ in range(12):
            rng = case_rng(seed, PID + '/search', i)
            mode = 'indep' if kind == 'scale' else rng.choice(['indep', 'dist'])
            pool.append(gen_case(rng, kind, mode))
            i += 1
    for case in pool:
        tried += 1
        try:
            r = run_case(case, use_model=False)
        except Exception:
            continue
        if not r.ok and r.violates:
            found.append((case, r.detail))
            if len(found) >= 3:
                break
    return found, tried


def shrink(case):
    def fails(c):
        try:
            r = run_case(c)
            return (not r.ok) and bool(r.violates)
        except Exception:
            return False
    cur = case
    if not fails(cur):
        return cur
    if cur['kind'] != 'history':
        for i in range(len(cur['sources'])):
            c = dict(cur); c['sources'] = [cur['sources'][i]]
            if 'ign' in cur:
                c['ign'] = [cur['ign'][i]]
            if fails(c):
                cur = c
                break
    return cur
