"""C16 — monochromatic convolution emits every in-range wavelength at any memory limit.

Real side : convolve_model_dir_monochromatic(dir, max_ram=, wav_min=, wav_max=) on per-file packages -> files
            convolved/MOnnn.fits + returned table; Fitter([λ0·micron, …], …, use_memmap=False) on cube packages ->
            fitter.models.fluxes.
Model side: driver ops `window`, `chunksize`, `chunks`, `monofiles`, `nearest` (Model/Mono.lean) on the same
            wavelengths (exact rationals); flux / error cells travel as opaque integer ids.
Property  : evaluated directly as well: file set between the open and the closed window (sandwich), one file per
            wavelength, rows = SED cells in parameter-table order, FILTWAV = that wavelength, table names exactly the
            files, everything identical for every chunk size; cube slice at the nearest tabulated wavelength.
"""
import os
import re
import shutil
import tempfile

import numpy as np

from . import common
from .common import CaseResult, rat, rats, case_rng, nice
from . import packages as pk

from astropy import units as u   # noqa: E402

PID = 'C16'
RULE = ('per-file cases = (package: 2..9 wavelengths given ascending or descending, 1..3 apertures or none, 1..5 models, '
        'parameter table in permuted order, file names decoupled from model names) x runs (window ends below / on / '
        'between / above tabulated wavelengths or defaulted, chunk size 1..n_wav via max_ram); cube cases = cube package '
        'x filter lists: wavelengths only (between, on, outside the table; never within 1e-9 of a midpoint) and mixed '
        'lists of wavelengths and named broadband filters (files produced by convolve_model_dir on the same cube) in '
        'every interleaving (directed) / random interleavings. Non-trivial: at '
        'least one run whose index range has >= 2 wavelengths and a chunk size < range length, or (cube) >= 2 '
        'tabulated wavelengths. Windows holding several, one (incl. wmin == wmax ON a wavelength) or no tabulated '
        'wavelength are all generated and compared exactly against the closed interval; ends in micron, nm, Angstrom, '
        'cm, m; the literal default max_ram; re-runs with overwrite=True.')
REQUIRED_BRANCHES = ['chunk_1', 'chunk_full', 'chunk_divides', 'chunk_not_divides', 'chunk_gt_range',
                     'window_default', 'window_one_sided', 'window_single_wavelength', 'end_on_node', 'end_between',
                     'nap_1', 'nap_multi', 'no_apertures', 'wav_given_asc', 'wav_given_desc', 'table_permuted',
                     'sizes_agree', 'cube_between', 'cube_on_node', 'cube_outside', 'cube_aperture_dependent',
                     'cube_named_entry', 'cube_mixed_name_before_wavelength', 'cube_mixed_name_after_wavelength',
                     'window_empty', 'window_wmin_eq_wmax_on_node', 'ends_other_unit', 'default_max_ram',
                     'rerun_overwrite', 'cube_wavelength_other_unit',
                     'rerun_after_longer_run', 'gz_leftovers_in_output', 'parameters_stale_gz_beside', 'parameters_only_gz',
                     'named_filter_stale_gz_beside', 'named_filter_only_gz',
                     'cube_between_geometric_and_arithmetic_mean', 'cube_just_above_midpoint', 'cube_just_below_midpoint',
                     'keep_disjoint_ok', 'keep_overlap_refused', 'run_after_refusal', 'positional_call',
                     'fitter_positional', 'fitter_use_memmap', 'fitter_remove_resolved']
ASSUMPTIONS = [
    'packages are stored in mJy; SED.read(unit_flux=mJy) computes (x*nu)/nu, so file contents are compared with the '
    'SED cells to 1e-13 relative; contents are compared bit-exactly between memory limits',
    'the window is the closed interval [wav_min, wav_max]: a file exists for wavelength j iff wav_min <= lambda_j <= '
    'wav_max, compared strictly, also at ends ON tabulated wavelengths, for wav_min == wav_max and for empty windows '
    '(no file, the call succeeds); an exception is a violation',
    'window ends / filter wavelengths given in nm, Angstrom, cm or m: the code compares Quantities, i.e. converts the '
    'end to micron; model and expectation use that converted micron float (an end given ON a tabulated wavelength '
    'in another unit may land one ulp beside it)',
    'stale siblings: a parameters.fits.gz with another row order beside parameters.fits (the plain file wins) or alone '
    '(fallback); compressed twins <name>.fits.gz of named broadband filters beside / instead of <name>.fits; '
    'MOnnn.fits(.gz) leftovers of an earlier longer run in convolved/. A compressed twin of an SED file in seds/ is NOT '
    'generated: the code globs both *.fits and *.fits.gz, i.e. it is a package with two files for one model, outside '
    'the quantifier',
    'successive calls with the default overwrite=False into the same convolved/: a window that holds no wavelength '
    'whose file already exists must be written like on a fresh directory (a refusal is a violation); a window that '
    'does must be refused with OSError, earlier files untouched, only window files preceding the first clash written '
    '(model: Mono.monoRunIn, theorem C16_overwrite); the directory stays usable afterwards',
    'Fitter(use_memmap=True) keeps the model fluxes as float32: 2e-7 relative is added to the comparison there',
    're-runs with overwrite=True into a non-empty convolved/: files of the new window are rewritten, files of earlier '
    'runs outside it stay untouched, the returned table names the new window only',
    'the chunk size that results from max_ram is verified through the code\'s own log lines '
    '("chunks of N" / "one go", "Processing wavelengths a to b")',
    'model names shorter than 30 characters without surrounding blanks',
    'requested wavelengths for cube packages are at least 1e-9 (relative) away from a midpoint of two tabulated ones',
]
EXHAUSTIVE = {'quick': False, 'thorough': True}
RUNS_PER_CASE = 36


# ----------------------------------------------------------------------------- generation

def gen_package(rng, nw=None, nm=None, nap=None, direction=None):
    nw = nw or rng.randint(2, 9)
    nm = nm or rng.randint(1, 5)
    if nap is None:
        nap = rng.choice([0, 1, 2, 3])          # 0 = no aperture list
    ws = set()
    while len(ws) < nw:
        ws.add(nice(rng, 0.3, 500., 3))
    wav = sorted(ws)
    direction = direction or rng.choice(['asc', 'desc'])
    if direction == 'desc':
        wav = wav[::-1]
    n_ap = max(nap, 1)
    aps = None
    if nap > 0:
        aps = sorted({nice(rng, 10., 1e5, 3) for _ in range(6)})[:nap]
    names = ['mod_%s%d' % ('qwertyuiop'[rng.randrange(10)], i) for i in range(nm)]
    rng.shuffle(names)
    stems = ['f%02d_sed' % i for i in range(nm)]
    rng.shuffle(stems)
    table = list(names)
    if nm > 1:
        while table == names:
            rng.shuffle(table)
    flux = [[[nice(rng, 1e-3, 1e3, 6) for _ in range(nw)] for _ in range(n_ap)] for _ in range(nm)]
    err = [[[nice(rng, 1e-5, 1e1, 6) for _ in range(nw)] for _ in range(n_ap)] for _ in range(nm)]
    return dict(wav=wav, direction=direction, aps=aps, names=names, stems=dict(zip(names, stems)), table=table,
                flux=flux, err=err)


def end_positions(wav):
    """window-end candidates: position p in 0..2n; even = strictly between (or outside) nodes, odd = on a node"""
    w = sorted(wav)
    n = len(w)
    vals = []
    for p in range(2 * n + 1):
        if p % 2 == 1:
            vals.append(w[p // 2])
        elif p == 0:
            vals.append(w[0] / 2.)
        elif p == 2 * n:
            vals.append(w[-1] * 2.)
        else:
            vals.append((w[p // 2 - 1] + w[p // 2]) / 2.)
    return vals


UNITS = ['micron', 'nm', 'Angstrom', 'cm', 'm']


def all_windows(wav):
    """every (wmin, wmax), wmin <= wmax, with ends below / on / between / above nodes or defaulted (None): windows
    holding several, one or no tabulated wavelength"""
    vals = end_positions(wav)
    ends_lo = [None] + vals
    ends_hi = vals + [None]
    out = []
    for a in ends_lo:
        for b in ends_hi:
            if a is not None and b is not None and a > b:
                continue
            out.append((a, b))
    return out


def all_runs(pkg):
    n = len(pkg['wav'])
    return [dict(wmin=a, wmax=b, size=s) for (a, b) in all_windows(pkg['wav']) for s in range(1, n + 1)]


def directed_runs(pkg, rng):
    """a block that hits every named branch on any package with >= 4 wavelengths"""
    w = sorted(pkg['wav'])
    n = len(w)
    mid = lambda i: (w[i] + w[i + 1]) / 2.
    runs = []
    for s in range(1, n + 1):
        runs.append(dict(wmin=None, wmax=None, size=s))                       # default window, all sizes
    runs.append(dict(wmin=None, wmax=None, size=None))                         # literal default max_ram
    runs.append(dict(wmin=mid(0), wmax=mid(2), size=None))
    runs.append(dict(wmin=mid(0), wmax=None, size=2))                          # one-sided
    runs.append(dict(wmin=None, wmax=mid(n - 2), size=2))
    runs.append(dict(wmin=mid(0), wmax=mid(1), size=1))                        # single wavelength strictly inside
    runs.append(dict(wmin=mid(0), wmax=mid(1), size=n))
    runs.append(dict(wmin=w[0], wmax=w[-1], size=2))                           # both ends on nodes: both included
    for s in (1, 2):
        runs.append(dict(wmin=w[1], wmax=w[1], size=s))                        # wmin == wmax == a node: exactly that one
        runs.append(dict(wmin=mid(0), wmax=w[1], size=s))                      # upper end on a node: included
        runs.append(dict(wmin=w[1], wmax=mid(1), size=s))                      # lower end on a node: included
        runs.append(dict(wmin=w[1], wmax=w[2], size=s))                        # two adjacent nodes as ends: both
        runs.append(dict(wmin=mid(1) * 0.99, wmax=mid(1) * 1.01, size=s))      # empty window between two nodes
        runs.append(dict(wmin=w[-1] * 2., wmax=w[-1] * 3., size=s))            # empty window above the table
        runs.append(dict(wmin=w[0] / 3., wmax=w[0] / 2., size=s))              # empty window below the table
    if n >= 4:
        runs.append(dict(wmin=w[0] / 2., wmax=mid(2), size=2))                 # 3 wavelengths, chunk 2: not dividing
        runs.append(dict(wmin=w[0] / 2., wmax=mid(3) if n > 4 else w[-1] * 2., size=2))   # 4 wavelengths, chunk 2: dividing
    # ends given in other length units (also ends on nodes)
    for k, un in enumerate(UNITS[1:]):
        runs.append(dict(wmin=mid(0), wmax=mid(n - 2), size=1 + k % 2, unit=un))
        runs.append(dict(wmin=w[1], wmax=w[n - 2], size=2, unit=un))
    # re-runs into the non-empty convolved/ with overwrite=True (another window, another chunk size)
    runs.append(dict(wmin=mid(0), wmax=mid(2), size=1, rerun=True))
    runs.append(dict(wmin=None, wmax=mid(1), size=2, rerun=True))
    runs.append(dict(wmin=None, wmax=None, size=n, rerun=True))
    # the usual way to split a large grid: successive calls with the default overwrite=False on DISJOINT windows
    # (every chunk size), then an OVERLAPPING one (must refuse), then the same with overwrite=True
    for s_ in range(1, n + 1):
        runs.append(dict(wmin=None, wmax=mid(1), size=s_))
        runs.append(dict(wmin=mid(1), wmax=mid(2), size=s_, keep=True))
        runs.append(dict(wmin=mid(2), wmax=None, size=s_, keep=True, positional=(s_ % 2 == 0)))
    runs.append(dict(wmin=mid(0), wmax=mid(2), size=2))
    runs.append(dict(wmin=mid(2), wmax=mid(3), size=1, keep=True))
    runs.append(dict(wmin=mid(1), wmax=None, size=2, keep=True))               # overlaps: refused part-way
    runs.append(dict(wmin=mid(0) if n > 2 else None, wmax=None, size=1, keep=True))     # overlaps at its first file
    runs.append(dict(wmin=mid(1), wmax=None, size=2, rerun=True))              # the same directory is still usable
    runs.append(dict(wmin=None, wmax=mid(0), size=1, keep=True, positional=True))
    runs.append(dict(wmin=None, wmax=None, size=2, positional=True))
    runs.append(dict(wmin=mid(0), wmax=mid(2), size=1, rerun=True, positional=True))
    # leftovers of an earlier, LONGER run in the output directory: a narrower re-run, then the same with the leftovers
    # compressed to MOnnn.fits.gz (no overwrite needed: the plain names are free)
    runs.append(dict(wmin=None, wmax=None, size=2))
    runs.append(dict(wmin=mid(1), wmax=mid(2), size=1, rerun=True))
    runs.append(dict(wmin=None, wmax=None, size=n))
    runs.append(dict(wmin=mid(0), wmax=mid(2), size=2, gz_leftovers=True))
    return runs


def decorate_runs(runs, rng):
    """random units / default max_ram / overwrite re-runs on a list of plain runs"""
    out = []
    for r in runs:
        r = dict(r)
        x = rng.random()
        if x < 0.2:
            r['unit'] = rng.choice(UNITS[1:])
        elif x < 0.25:
            r['size'] = None
        elif x < 0.35 and out:
            r['rerun'] = True
        elif x < 0.40 and out:
            r['gz_leftovers'] = True
        elif x < 0.52 and out:
            r['keep'] = True
        if rng.random() < 0.15:
            r['positional'] = True
        out.append(r)
    return out


def interleavings(n_wav_entries, n_names):
    """every arrangement of n names among n wavelength entries, as a tuple of 'w' / 'n'"""
    import itertools
    total = n_wav_entries + n_names
    out = []
    for pos in itertools.combinations(range(total), n_names):
        out.append(tuple('n' if i in pos else 'w' for i in range(total)))
    return out


def gen_cube_case(rng, directed=False):
    """cube package + 1..2 broadband filters (convolved by the code itself) + filter lists: one list of wavelengths
    only, then mixed lists of names and wavelengths (directed: every interleaving of 1 name / 2 wavelengths and of
    2 names / 2 wavelengths)"""
    nw = rng.randint(2, 9)
    nm = rng.randint(1, 5)
    apdep = rng.random() < 0.4 or directed
    nap = rng.randint(2, 3) if apdep else rng.choice([0, 1, 2])
    pkg = gen_package(rng, nw=nw, nm=nm, nap=nap)
    w = sorted(pkg['wav'])

    def draw_wav():
        kind = rng.choice(['between', 'between', 'between', 'node', 'below', 'above'])
        if kind == 'between':
            i = rng.randrange(nw - 1)
            frac = rng.choice([0.1, 0.25, 0.4, 0.45, 0.55, 0.6, 0.75, 0.9])
            return float('%.6g' % (w[i] + frac * (w[i + 1] - w[i])))
        if kind == 'node':
            return w[rng.randrange(nw)]
        return w[0] * 0.5 if kind == 'below' else w[-1] * 3.

    def entry_w(x=None):
        e = dict(wav=draw_wav() if x is None else x, ap=rng.randrange(max(nap, 1)))
        if rng.random() < 0.3:
            e['unit'] = rng.choice(UNITS[1:])
        return e

    # broadband filters strictly inside the tabulated range
    broad = []
    span = w[-1] - w[0]
    for bi in range(2):
        lo, hi = (0.08, 0.55) if bi == 0 else (0.35, 0.93)
        fw = sorted({float('%.5g' % (w[0] + f * span)) for f in (lo, (lo + hi) / 2., hi)})
        resp = [nice(rng, 0.2, 1., 2) for _ in fw]
        if rng.random() < 0.5:
            fw, resp = fw[::-1], resp[::-1]
        broad.append(dict(name='BB%d' % (bi + 1), cw=float('%.5g' % (w[0] + (lo + hi) / 2. * span)), wav=fw, resp=resp))

    def entry_n(i):
        return dict(name=broad[i]['name'], ap=rng.randrange(max(nap, 1)))

    def near_threshold_entries():
        """requested wavelengths just beside the arithmetic mid-point of two neighbours (1e-6 relative, both sides) and
        between their geometric and arithmetic means (nearest in linear space = the lower one, in log space the upper)"""
        i = rng.randrange(nw - 1)
        lo_, hi_ = w[i], w[i + 1]
        arith, geo = (lo_ + hi_) / 2., (lo_ * hi_) ** 0.5
        out = [entry_w(arith * (1 + 1e-6)), entry_w(arith * (1 - 1e-6)), entry_w((geo + arith) / 2.),
               entry_w(geo + 0.9 * (arith - geo)), entry_w(geo * (1 - 1e-3))]
        out[0]['unit'] = 'nm'
        out[2]['unit'] = 'Angstrom'
        return out

    lists = []
    base = [entry_w() for _ in range(rng.randint(2, 4))]
    if directed or rng.random() < 0.5:
        base += near_threshold_entries()
    base += [entry_w(w[rng.randrange(nw)]), entry_w(w[0] * 0.5), entry_w(w[-1] * 3.)]
    rng.shuffle(base)
    lists.append(base)
    if directed:
        patterns = interleavings(2, 1) + interleavings(2, 2)
    else:
        patterns = [rng.choice(interleavings(rng.randint(1, 3), rng.randint(1, 2))) for _ in range(rng.randint(1, 3))]
    for pat in patterns:
        k = 0
        lst = []
        for c in pat:
            if c == 'w':
                lst.append(entry_w())
            else:
                lst.append(entry_n(k % 2))
                k += 1
        lists.append(lst)
    if directed:
        cyc = [{}, dict(positional=True), dict(use_memmap=True), dict(remove_resolved=True),
               dict(positional=True, use_memmap=True, remove_resolved=True)]
        fitter_opts = [cyc[k % len(cyc)] for k in range(len(lists))]
    else:
        fitter_opts = []
        for _ in lists:
            o = {}
            if rng.random() < 0.2:
                o['positional'] = True
            if rng.random() < 0.2:
                o['use_memmap'] = True
            if rng.random() < 0.2:
                o['remove_resolved'] = True
            fitter_opts.append(o)
    return dict(kind='cube', pkg=pkg, broad=broad, lists=lists, aperture_dependent=bool(apdep), fitter_opts=fitter_opts,
                named_gz=rng.choice([None, None, None, None, None, 'stale_gz_beside', 'only_gz']))


def gen_cases(seed, tier):
    i = 0
    # directed block: one package per spectral direction / aperture layout with the directed runs
    for direction, nap, par_gz in (('asc', 0, None), ('desc', 1, 'stale_gz_beside'), ('asc', 2, 'only_gz'), ('desc', 3, None)):
        rng = case_rng(seed, PID, i); i += 1
        pkg = gen_package(rng, nw=rng.randint(5, 6), nm=rng.randint(2, 4), nap=nap, direction=direction)
        pkg['par_gz'] = par_gz
        yield dict(kind='perfile', pkg=pkg, runs=directed_runs(pkg, rng), all_sizes=False)
    for named_gz in ('stale_gz_beside', 'only_gz'):
        rng = case_rng(seed, PID, i); i += 1
        c = gen_cube_case(rng, directed=True)
        c['named_gz'] = named_gz
        yield c
    if tier == 'thorough':
        # exhaustive: every window x every chunk size for 2..9 wavelengths
        for nw in range(2, 10):
            rng = case_rng(seed, PID, i); i += 1
            pkg = gen_package(rng, nw=nw)
            runs = all_runs(pkg)
            for k in range(0, len(runs), RUNS_PER_CASE):
                yield dict(kind='perfile', pkg=pkg, runs=runs[k:k + RUNS_PER_CASE], all_sizes=False, exhaustive_nw=nw)
        n_rand, n_cube = 60, 150
    else:
        n_rand, n_cube = 14, 24
    # random packages: a sample of windows, each at *every* chunk size
    for _ in range(n_rand):
        rng = case_rng(seed, PID, i); i += 1
        pkg = gen_package(rng)
        pkg['par_gz'] = rng.choice([None, None, None, None, None, 'stale_gz_beside', 'only_gz'])
        wins = all_windows(pkg['wav'])
        rng.shuffle(wins)
        n = len(pkg['wav'])
        runs = [dict(wmin=a, wmax=b, size=s) for (a, b) in wins[:max(2, RUNS_PER_CASE // n)] for s in range(1, n + 1)]
        yield dict(kind='perfile', pkg=pkg, runs=decorate_runs(runs, rng), all_sizes=True)
    for _ in range(n_cube):
        rng = case_rng(seed, PID, i); i += 1
        yield gen_cube_case(rng)


# ----------------------------------------------------------------------------- per-file packages

def _rows(a2):
    return ' '.join([str(len(a2))] + [rats(r) for r in a2])


def _end(x):
    return 'none' if x is None else rat(x)


def _gzip_file(src, dst):
    import gzip
    with open(src, 'rb') as f, gzip.open(dst, 'wb') as g:
        g.write(f.read())


def build_perfile(pkg, d):
    """pkg['par_gz']: 'stale_gz_beside' = a parameters.fits.gz with ANOTHER row order lies beside parameters.fits (which
    must win); 'only_gz' = only parameters.fits.gz exists (load_parameter_table falls back to it)"""
    names = pkg['names']
    par = os.path.join(d, 'parameters.fits')
    if pkg.get('par_gz') == 'stale_gz_beside':
        pk.write_sed_package(d, names, pkg['wav'], pkg['flux'], pkg['err'], apertures_au=pkg['aps'],
                             table_order=pkg['table'][::-1], file_names=pkg['stems'], aperture_dependent=False)
        _gzip_file(par, par + '.gz')
    pk.write_sed_package(d, names, pkg['wav'], pkg['flux'], pkg['err'], apertures_au=pkg['aps'],
                         table_order=pkg['table'], file_names=pkg['stems'], aperture_dependent=False)
    if pkg.get('par_gz') == 'only_gz':
        _gzip_file(par, par + '.gz')
        os.remove(par)


def _unit(name):
    return getattr(u, name or 'micron')


def derived_micron(x, unit_name):
    """the Quantity handed to the code for a nominal micron value, and the micron float the code derives from it"""
    if x is None:
        return None, None
    q = (x * u.micron).to(_unit(unit_name))
    return q, float(q.to_value(u.micron))


def run_mono(d, nm, nap, run):
    """one call of the real function; convolved/ is emptied first unless run['rerun'] (then overwrite=True is passed);
    returns dict(raised=…) or dict(files={stem: ConvolvedFluxes}, table=[(wav, filter)], log=[…])"""
    from astropy import log
    from sedfitter.convolve import convolve_model_dir_monochromatic
    from sedfitter.convolved_fluxes import ConvolvedFluxes
    conv = os.path.join(d, 'convolved')
    kw = {}
    gz_before = {}
    if run.get('rerun'):
        kw['overwrite'] = True
    elif run.get('keep'):
        pass                                                    # default overwrite=False into whatever is there
    elif run.get('gz_leftovers') and os.path.isdir(conv):
        for f in sorted(os.listdir(conv)):
            if f.endswith('.fits'):
                _gzip_file(os.path.join(conv, f), os.path.join(conv, f + '.gz'))
                os.remove(os.path.join(conv, f))
        gz_before = {f: open(os.path.join(conv, f), 'rb').read() for f in sorted(os.listdir(conv)) if f.endswith('.gz')}
    else:
        shutil.rmtree(conv, ignore_errors=True)
    if run['size'] is None:
        max_ram = 8.                                            # the literal default
    else:
        max_ram = run['size'] * (4 * 2 * nm * nap) / 1024. ** 3 * (1 + 1e-9)
        kw['max_ram'] = max_ram
    qlo, lo = derived_micron(run['wmin'], run.get('unit'))
    qhi, hi = derived_micron(run['wmax'], run.get('unit'))
    if qlo is not None:
        kw['wav_min'] = qlo
    if qhi is not None:
        kw['wav_max'] = qhi
    def listing():
        out = {}
        if os.path.isdir(conv):
            for f in sorted(os.listdir(conv)):
                if f.endswith('.fits'):
                    with common.quiet():
                        out[f[:-5]] = ConvolvedFluxes.read(os.path.join(conv, f))
        return out

    old = log.level
    log.setLevel('INFO')
    try:
        with common.quiet(), log.log_to_list() as ll:
            try:
                if run.get('positional'):
                    # convolve_model_dir_monochromatic(model_dir, overwrite, max_ram, wav_min, wav_max)
                    t = convolve_model_dir_monochromatic(d, bool(kw.get('overwrite', False)), kw.get('max_ram', 8),
                                                         kw.get('wav_min', -np.inf * u.micron),
                                                         kw.get('wav_max', np.inf * u.micron))
                else:
                    t = convolve_model_dir_monochromatic(d, **kw)
            except Exception as e:
                return dict(raised='%s: %s' % (type(e).__name__, e), exc_type=type(e).__name__, max_ram=max_ram,
                            lo=lo, hi=hi, files=listing())
    finally:
        log.setLevel(old)
    msgs = [r.getMessage() if hasattr(r, 'getMessage') else str(r.msg) for r in ll]
    files = listing()
    table = [(float(w), (x.decode() if isinstance(x, bytes) else str(x)).strip())
             for w, x in zip(np.asarray(t['wav'].to(u.micron).value if hasattr(t['wav'], 'to') else t['wav']), t['filter'])]
    gz_after = {f: open(os.path.join(conv, f), 'rb').read() for f in sorted(os.listdir(conv)) if f.endswith('.gz')}
    return dict(raised=None, files=files, table=table, log=msgs, max_ram=max_ram, lo=lo, hi=hi,
                gz_before=gz_before, gz_after=gz_after)


def parse_log(msgs):
    first = None
    passes = []
    for m in msgs:
        g = re.search(r'in chunks of (\d+)', m)
        if g:
            first = int(g.group(1))
        if 'in one go' in m:
            first = 'all'
        g = re.search(r'Processing wavelengths (-?\d+) to (-?\d+)', m)
        if g:
            passes.append((int(g.group(1)), int(g.group(2))))
    return first, passes


def file_digest(cf):
    return (float(cf.central_wavelength.to(u.micron).value), tuple(str(n).strip() for n in cf.model_names),
            None if cf.apertures is None else tuple(np.asarray(cf.apertures.value, float).tolist()),
            np.asarray(cf.flux.value, float).tobytes(), np.asarray(cf.error.value, float).tobytes(),
            str(cf.flux.unit), str(cf.error.unit))


def check_perfile(case, d, branches, with_model=True):
    pkg = case['pkg']
    names = pkg['names']
    nm = len(names)
    nap = len(pkg['aps']) if pkg['aps'] else 1
    wav = np.array(pkg['wav'], float)
    nw = len(wav)
    flux = np.array(pkg['flux'], float)
    err = np.array(pkg['err'], float)
    desc = list(np.argsort(-wav))               # index j of the code (decreasing wavelength) -> index in pkg['wav']
    wdesc = wav[desc]
    build_perfile(pkg, d)
    branches.add('nap_1' if nap == 1 else 'nap_multi')
    if pkg['aps'] is None:
        branches.add('no_apertures')
    branches.add('wav_given_' + pkg['direction'])
    if pkg.get('par_gz') and nm > 1:
        branches.add('parameters_' + pkg['par_gz'])
    if pkg['table'] != names:
        branches.add('table_permuted')
    prop, mod = [], []
    nontrivial = False
    by_window = {}
    # model inputs that do not depend on the run
    listing = sorted(names, key=lambda n: pkg['stems'][n] + '.fits')     # sorted(glob) order = sorted file names
    ids = np.arange(nm * nap * nw).reshape(nm, nap, nw)
    sed_toks = []
    for n in listing:
        m = names.index(n)
        sed_toks.append(' '.join([n, _rows(ids[m][:, desc].tolist()), _rows((ids[m][:, desc] + ids.size).tolist())]))
    ap_vals = pkg['aps'] if pkg['aps'] else [1e-30]      # what the first SED's aperture list reads as (value only)
    disk = {}                                   # digest of every file currently in convolved/
    refused_last = False
    for run in case['runs']:
        unit = run.get('unit') or 'micron'
        tag = 'window=[%r, %r] %s chunk=%s%s' % (run['wmin'], run['wmax'], unit,
                                                  'default max_ram' if run['size'] is None else run['size'],
                                                  ' (re-run, overwrite=True)' if run.get('rerun') else '')
        before = dict(disk) if (run.get('rerun') or run.get('keep')) else {}
        res = run_mono(d, nm, nap, run)
        lo, hi = res['lo'], res['hi']           # the micron floats the code derives from the quantities given
        closed = [j for j in range(nw) if (lo is None or lo <= wdesc[j]) and (hi is None or wdesc[j] <= hi)]
        on_node = (lo is not None and lo in wav) or (hi is not None and hi in wav)
        branches.add('end_on_node' if on_node else 'end_between')
        if unit != 'micron':
            branches.add('ends_other_unit')
        if lo is None and hi is None:
            branches.add('window_default')
        elif lo is None or hi is None:
            branches.add('window_one_sided')
        if run['size'] is None:
            branches.add('default_max_ram')
        if run.get('rerun'):
            branches.add('rerun_overwrite')
        if run.get('gz_leftovers'):
            tag += ' (earlier MOnnn files left as .fits.gz)'
        if run.get('positional'):
            tag += ' (positional call)'
            branches.add('positional_call')
        # ---- default overwrite=False into a directory that holds files of an earlier call
        clash = []
        if run.get('keep'):
            tag += ' (overwrite=False, convolved/ holds %r)' % sorted(before)
            clash = [j for j in closed if 'MO%03d' % (j + 1) in before]
            if with_model:
                exist_idx = sorted(int(st[2:]) - 1 for st in before)
                line = ['monorunin', '0', ' '.join([str(len(exist_idx))] + [str(x) for x in exist_idx]),
                        rats(wdesc), rats(ap_vals), str(nm)] + sed_toks + \
                       [' '.join([str(nm)] + list(pkg['table'])), _end(lo), _end(hi), rat(res['max_ram'])]
                t = common.driver().ask(' '.join(line))
                m_refuses = (t.tok() == 'raise')
                if m_refuses != bool(clash):
                    mod.append('%s: model refuses=%r, harness expects refusal=%r' % (tag, m_refuses, bool(clash)))
        if clash:
            # a file of the window exists: the call must refuse (OSError), leave every earlier file alone and have
            # written only window files that precede the first clash
            after = {st: file_digest(cf) for st, cf in res['files'].items()}
            disk = dict(after)
            if not res['raised']:
                mod.append('%s: overwrite=False replaced existing files %r instead of refusing'
                           % (tag, ['MO%03d' % (j + 1) for j in clash]))
                continue
            branches.add('keep_overlap_refused')
            if res.get('exc_type') != 'OSError':
                mod.append('%s: refused with %s, expected OSError' % (tag, res['raised']))
            changed = [st for st in before if after.get(st) != before[st]]
            if changed:
                prop.append('%s: the refused call changed existing files %r' % (tag, changed))
            partial = {'MO%03d' % (j + 1) for j in closed if j < clash[0]}
            if set(after) != set(before) | partial:
                mod.append('%s: after the refusal convolved/ holds %r, expected %r'
                           % (tag, sorted(after), sorted(set(before) | partial)))
            refused_last = True
            continue
        if run.get('keep') and not res['raised']:
            branches.add('keep_disjoint_ok')
        if (run.get('rerun') or run.get('keep')) and refused_last and not res['raised']:
            branches.add('run_after_refusal')
        refused_last = False
        # ---- implementation raised: the property promises a result for every window
        if res['raised']:
            prop.append('%s: raised %s; the closed window holds wavelength indices %r%s'
                        % (tag, res['raised'], closed,
                           '; files present before the call: %r (none of them inside the window)' % sorted(before)
                           if run.get('keep') else ''))
            disk = {st: file_digest(cf) for st, cf in res.get('files', {}).items()}
            continue
        now = {st: file_digest(cf) for st, cf in res['files'].items()}
        disk = dict(now)
        extra = [st for st in res['files'] if not re.match(r'MO\d+$', st)]
        if extra:
            prop.append('%s: unexpected files %r' % (tag, extra))
        # files written by this call = everything on disk that was not there (unchanged) before
        want_stems = {'MO%03d' % (j + 1) for j in closed}
        if set(now) != want_stems | set(before):
            prop.append('%s: files %r; wavelengths inside the closed window: indices %r (λ=%r)%s'
                        % (tag, sorted(now), closed, [float(wdesc[j]) for j in closed],
                           '; before the re-run: %r' % sorted(before) if before else ''))
            continue
        stale = [st for st in before if st not in want_stems and before[st] != now[st]]
        if stale:
            prop.append('%s: files outside the window changed during the re-run: %r' % (tag, stale))
        if set(before) - want_stems:
            branches.add('rerun_after_longer_run')
        if run.get('gz_leftovers') and res['gz_before']:
            branches.add('gz_leftovers_in_output')
            if res['gz_after'] != res['gz_before']:
                prop.append('%s: compressed leftovers changed: before %r, after %r'
                            % (tag, sorted(res['gz_before']), sorted(res['gz_after'])))
        if not closed:
            branches.add('window_empty')
        if len(res['table']) != nw or not np.allclose([w for w, _ in res['table']], wdesc, rtol=1e-12, atol=0):
            prop.append('%s: returned table wavelengths %r, SED wavelengths %r' % (tag, [w for w, _ in res['table']], wdesc.tolist()))
        else:
            named = {j: f for j, (_, f) in enumerate(res['table']) if f}
            want = {j: 'MO%03d' % (j + 1) for j in closed}
            if named != want:
                prop.append('%s: returned table names %r, wavelengths inside the window %r' % (tag, named, want))
        for j in closed:
            cf = res['files']['MO%03d' % (j + 1)]
            k = desc[j]
            rn = [str(x).strip() for x in cf.model_names]
            if rn != list(pkg['table']):
                prop.append('%s: MO%03d rows are %r, parameter table is %r' % (tag, j + 1, rn, pkg['table']))
                continue
            fw = float(cf.central_wavelength.to(u.micron).value)
            if abs(fw - wdesc[j]) > 1e-12 * wdesc[j]:
                prop.append('%s: MO%03d has FILTWAV %r, wavelength %d is %r' % (tag, j + 1, fw, j, float(wdesc[j])))
            rows = [names.index(n) for n in pkg['table']]
            ef = flux[rows][:, :, k]
            ee = err[rows][:, :, k]
            gf = np.asarray(cf.flux.to(u.mJy).value, float)
            ge = np.asarray(cf.error.to(u.mJy).value, float)
            if gf.shape != ef.shape or not np.all(np.abs(gf - ef) <= 1e-13 * np.abs(ef)):
                prop.append('%s: MO%03d flux rows %r, SED cells at λ=%r in table order %r' % (tag, j + 1, gf.tolist(), float(wdesc[j]), ef.tolist()))
            if ge.shape != ee.shape or not np.all(np.abs(ge - ee) <= 1e-13 * np.abs(ee)):
                prop.append('%s: MO%03d error rows %r, SED cells %r' % (tag, j + 1, ge.tolist(), ee.tolist()))
            if pkg['aps'] is not None:
                if cf.apertures is None or not np.allclose(cf.apertures.to(u.au).value, pkg['aps'], rtol=1e-12, atol=0):
                    prop.append('%s: MO%03d apertures %r' % (tag, j + 1, cf.apertures))
        # ---- identical across memory limits (the window as the code sees it is the key)
        wkey = (lo, hi)
        dig = {st: now[st] for st in want_stems}
        dig['__table__'] = tuple(res['table'])
        if wkey in by_window:
            s0, d0 = by_window[wkey]
            if d0 != dig:
                prop.append('window=[%r, %r]: files / contents / table differ between chunk size %r (%r) and %r (%r)'
                            % (lo, hi, s0, sorted(k for k in d0 if k != '__table__'), run['size'],
                               sorted(k for k in dig if k != '__table__')))
            else:
                branches.add('sizes_agree')
        else:
            by_window[wkey] = (run['size'], dig)
        # ---- branches
        n_range = len(closed)
        if n_range == 1:
            branches.add('window_single_wavelength')
            if lo is not None and lo == hi:
                branches.add('window_wmin_eq_wmax_on_node')
        size = nw if run['size'] is None else run['size']
        eff = min(size, nw)
        if size == 1:
            branches.add('chunk_1')
        if size >= nw:
            branches.add('chunk_full')
        if eff > n_range:
            branches.add('chunk_gt_range')
        elif n_range >= 2 and eff < n_range:
            nontrivial = True
            branches.add('chunk_divides' if n_range % eff == 0 else 'chunk_not_divides')
        # ---- model vs implementation
        if not with_model:
            continue
        drv = common.driver()
        t = drv.ask('window %s %s %s' % (rats(wdesc), _end(lo), _end(hi)))
        jlo, jhi = int(t.tok()), int(t.tok())
        t = drv.ask('chunksize %d %s %d %d %d %d' % (nw, rat(res['max_ram']), nm, nap, jlo, jhi))
        rf, first, chunk = int(t.tok()), int(t.tok()), int(t.tok())
        if run['size'] is not None and rf != run['size']:
            mod.append('%s: harness self-check: max_ram gives floor %d, intended %d' % (tag, rf, run['size']))
            continue
        t = drv.ask('chunks %d %d %d' % (jlo, jhi, chunk))
        if t.tok() != 'ok':
            mod.append('%s: model chunk loop raises %s, implementation returned' % (tag, t.tok()))
            continue
        m_emitted = [int(x) for x in [t.tok() for _ in range(t.nat())]]
        m_passes = [(int(t.tok()), int(t.tok())) for _ in range(t.nat())]
        if m_emitted != closed:
            mod.append('%s: model emits %r (jlo=%d jhi=%d chunk=%d), implementation wrote %r' % (tag, m_emitted, jlo, jhi, chunk, closed))
            continue
        lfirst, lpasses = parse_log(res['log'])
        if lfirst is None or (closed and not lpasses):
            mod.append('%s: harness self-check: the log lines of the chunk loop were not captured' % tag)
        if lfirst is not None and lfirst != ('all' if first == nw else first):
            mod.append('%s: log says chunks of %r, model min(n_wav, floor)=%d' % (tag, lfirst, first))
        if lpasses != m_passes:
            mod.append('%s: log passes %r, model passes %r' % (tag, lpasses, m_passes))
        # the whole call in one op: files and table
        line = ['monorun', rats(wdesc), rats(ap_vals), str(nm)] + sed_toks + \
               [' '.join([str(nm)] + list(pkg['table'])), _end(lo), _end(hi), rat(res['max_ram'])]
        t = drv.ask(' '.join(line))
        if t.tok() != 'ok':
            mod.append('%s: model monorun raised %s' % (tag, t.tok()))
            continue
        nf = t.nat()
        if nf != len(closed):
            mod.append('%s: model writes %d files' % (tag, nf))
            continue
        for _ in range(nf):
            j = t.nat()
            fw = float(t.rat())
            mn = [t.tok() for _ in range(t.nat())]
            mf = np.array([[int(x) for x in t.rats()] for _ in range(t.nat())], int)
            me = np.array([[int(x) for x in t.rats()] for _ in range(t.nat())], int) - ids.size
            cf = res['files'].get('MO%03d' % (j + 1))
            if cf is None:
                mod.append('%s: model writes MO%03d, not found' % (tag, j + 1))
                continue
            gf = np.asarray(cf.flux.value, float)
            ge = np.asarray(cf.error.value, float)
            ok = (mn == [str(x).strip() for x in cf.model_names] and
                  abs(fw - float(cf.central_wavelength.to(u.micron).value)) <= 1e-12 * fw and
                  mf.shape == gf.shape and
                  np.all(np.abs(gf - flux.reshape(-1)[mf]) <= 1e-13 * np.abs(gf)) and
                  np.all(np.abs(ge - err.reshape(-1)[me]) <= 1e-13 * np.abs(ge)))
            if not ok:
                mod.append('%s: MO%03d differs from the model (names %r / %r)' % (tag, j + 1, mn, [str(x).strip() for x in cf.model_names]))
        mt = [t.tok() for _ in range(t.nat())]
        mt = ['' if x == '-' else x for x in mt]
        if mt != [f for _, f in res['table']]:
            mod.append('%s: returned table %r, model table %r' % (tag, [f for _, f in res['table']], mt))
    return prop, mod, nontrivial


# ----------------------------------------------------------------------------- cube packages

def _legacy_lists(case):
    """replay files written before mixed filter lists existed"""
    if 'lists' in case:
        return case['lists']
    return [[dict(wav=x, ap=a) for x, a in zip(case['requested'], case['ap_pick'])]]


def check_cube(case, d, branches, with_model=True):
    from sedfitter.fit import Fitter
    from sedfitter.convolve import convolve_model_dir
    from sedfitter.convolved_fluxes import ConvolvedFluxes
    pkg = case['pkg']
    names = pkg['names']
    nm = len(names)
    nap = len(pkg['aps']) if pkg['aps'] else 1
    wav = np.array(pkg['wav'], float)
    nw = len(wav)
    val = np.array(pkg['flux'], float)
    unc = np.array(pkg['err'], float)
    apdep = case['aperture_dependent'] and nap > 1
    pk.write_cube_package(d, names, wav, val, unc, apertures_au=pkg['aps'], aperture_dependent=apdep)
    lists = _legacy_lists(case)
    prop, mod = [], []
    # named filters: files in convolved/ produced by the code's own broadband convolution of the cube
    conv = {}
    if any('name' in e for lst in lists for e in lst):
        filters = [pk.make_filter(f['name'], f['cw'], f['wav'], f['resp']) for f in case['broad']]
        try:
            with common.quiet():
                convolve_model_dir(d, filters, memmap=False)
                for f in case['broad']:
                    path = os.path.join(d, 'convolved', f['name'] + '.fits')
                    cf = ConvolvedFluxes.read(path)
                    conv[f['name']] = np.asarray(cf.flux.to(u.mJy).value, float).reshape(nm, -1)
                    if case.get('named_gz') == 'stale_gz_beside':
                        # a compressed twin with OTHER numbers beside the file: the plain file must win
                        cf.flux = cf.flux * 3.
                        cf.write(path + '.gz', overwrite=True)
                        branches.add('named_filter_stale_gz_beside')
                    elif case.get('named_gz') == 'only_gz':
                        # only the compressed twin exists: the reader falls back to it
                        cf.write(path + '.gz', overwrite=True)
                        os.remove(path)
                        branches.add('named_filter_only_gz')
        except Exception as e:
            # the broadband convolution is C07's business; without the files the mixed lists cannot be built
            return [], ['harness: convolve_model_dir on the cube package raised %s: %s' % (type(e).__name__, e)], nw >= 2
    ext = pk.make_extinction([0.01, 1e4], [1., 1.])
    ap_cond = 1.
    if apdep:
        aps = np.array(pkg['aps'], float)
        ap_cond = float(np.max(aps[1:] / (aps[1:] - aps[:-1])))
        branches.add('cube_aperture_dependent')
    wdesc = np.sort(wav)[::-1]
    for li, lst in enumerate(lists):
        shown = [e.get('name', (e.get('wav'), e.get('unit', 'micron'))) for e in lst]
        # at 1 kpc (aperture / 1000) arcsec is aperture a of the table; never the smallest one (a rounding below it
        # would be "too small")
        picks = [max(1, e['ap']) if apdep else 0 for e in lst]
        ap_arcsec = [pkg['aps'][a] / 1000. for a in picks] if apdep else [1.] * len(lst)
        fl = [e['name'] if 'name' in e else derived_micron(e['wav'], e.get('unit'))[0] for e in lst]
        kinds = ['n' if 'name' in e else 'w' for e in lst]
        if 'n' in kinds and 'w' in kinds:
            first_w, last_w = kinds.index('w'), len(kinds) - 1 - kinds[::-1].index('w')
            if kinds.index('n') < last_w:
                branches.add('cube_mixed_name_before_wavelength')
            if len(kinds) - 1 - kinds[::-1].index('n') > first_w:
                branches.add('cube_mixed_name_after_wavelength')
        fo = case.get('fitter_opts') or []
        opts = fo[li] if li < len(fo) else {}
        memmap = bool(opts.get('use_memmap'))
        try:
            with common.quiet():
                if opts.get('positional'):
                    # Fitter(filter_names, apertures, model_dir, extinction_law, av_range, distance_range,
                    #        remove_resolved, use_memmap)
                    fitter = Fitter(fl, np.array(ap_arcsec) * u.arcsec, d, ext, (0., 1.), np.array([1., 1.]) * u.kpc,
                                    bool(opts.get('remove_resolved')), memmap)
                    branches.add('fitter_positional')
                else:
                    fitter = Fitter(fl, np.array(ap_arcsec) * u.arcsec, d, extinction_law=ext, av_range=(0., 1.),
                                    distance_range=np.array([1., 1.]) * u.kpc,
                                    remove_resolved=bool(opts.get('remove_resolved')), use_memmap=memmap)
            if memmap:
                branches.add('fitter_use_memmap')
            if opts.get('remove_resolved'):
                branches.add('fitter_remove_resolved')
        except Exception as e:
            prop.append('Fitter with filters %r raised %s: %s' % (shown, type(e).__name__, e))
            continue
        got = np.asarray(fitter.models.fluxes.to(u.mJy).value, float)
        got = got.reshape(nm, -1, len(lst))[:, 0, :]
        gnames = [str(n).strip() for n in fitter.models.names]
        if gnames != list(names):
            prop.append('filters %r: cube models come back as %r, cube holds %r' % (shown, gnames, names))
        for i, e in enumerate(lst):
            a = picks[i]
            if 'name' in e:
                branches.add('cube_named_entry')
                cflux = conv[e['name']]
                want = cflux[:, a]
                tol = (1e-14 * ap_cond * np.max(np.abs(cflux), axis=1) + 1e-14 * np.abs(want)) if apdep else 0. * want
                if memmap:
                    tol = tol + 2e-7 * np.abs(want)       # use_memmap stores the model fluxes as float32
                if not np.all(np.abs(got[:, i] - want) <= tol):
                    prop.append('filters %r: entry %d (%s): model fluxes %r; convolved file holds %r'
                                % (shown, i, e['name'], got[:, i].tolist(), want.tolist()))
                continue
            x = derived_micron(e['wav'], e.get('unit'))[1]     # the micron float the code derives
            if e.get('unit'):
                branches.add('cube_wavelength_other_unit')
            dist = np.abs(wav - x)
            k = int(np.argmin(dist))
            srt = np.sort(dist)
            if nw > 1 and (srt[1] - srt[0]) <= 1e-9 * x:
                continue                                           # tie: not judged
            if x in wav:
                branches.add('cube_on_node')
            elif x < wav.min() or x > wav.max():
                branches.add('cube_outside')
            else:
                branches.add('cube_between')
                ws_ = np.sort(wav)
                hi_i = int(np.searchsorted(ws_, x))
                lo_, hi_ = ws_[hi_i - 1], ws_[hi_i]
                arith, geo = (lo_ + hi_) / 2., (lo_ * hi_) ** 0.5
                if geo < x < arith * (1 - 1e-9):
                    branches.add('cube_between_geometric_and_arithmetic_mean')
                if abs(x - arith) <= 2e-6 * arith:
                    branches.add('cube_just_above_midpoint' if x > arith else 'cube_just_below_midpoint')
            want = val[:, a, k]
            # aperture-dependent: the fitter interpolates at (aperture/1000 arcsec) x 1000 pc, i.e. within an ulp of the
            # tabulated aperture; rounding budget = slope x aperture x 1e-14 (exact comparison otherwise)
            tol = (1e-14 * ap_cond * np.max(np.abs(val[:, :, k]), axis=1) + 1e-14 * np.abs(want)) if apdep else 0. * want
            if memmap:
                tol = tol + 2e-7 * np.abs(want)           # use_memmap stores the model fluxes as float32
            if not np.all(np.abs(got[:, i] - want) <= tol):
                prop.append('filters %r: entry %d, requested %r micron: model fluxes %r; cube slice at the nearest '
                            'tabulated wavelength %r (aperture %d) is %r'
                            % (shown, i, x, got[:, i].tolist(), float(wav[k]), a, want.tolist()))
            if with_model:
                t = common.driver().ask('nearest %s %s' % (rats(wdesc), rat(x)))
                if t.tok() != 'ok':
                    mod.append('model nearest raised')
                    continue
                j = t.nat()
                t.rat()
                kk = int(np.nonzero(wav == wdesc[j])[0][0])
                if not np.all(np.abs(got[:, i] - val[:, a, kk]) <= tol):
                    mod.append('filters %r: requested %r: model picks λ=%r, implementation fluxes %r'
                               % (shown, x, float(wdesc[j]), got[:, i].tolist()))
    return prop, mod, nw >= 2


def evaluate(case, with_model=True):
    d = tempfile.mkdtemp(prefix='c16_')
    branches = set()
    try:
        if case['kind'] == 'perfile':
            prop, mod, nontrivial = check_perfile(case, d, branches, with_model)
        else:
            prop, mod, nontrivial = check_cube(case, d, branches, with_model)
    finally:
        shutil.rmtree(d, ignore_errors=True)
    return prop, mod, branches, nontrivial


def run_case(case):
    prop, mod, branches, nontrivial = evaluate(case)
    pkg = case['pkg']
    sample = dict(kind=case['kind'], n_wav=len(pkg['wav']), n_models=len(pkg['names']),
                  n_ap=len(pkg['aps']) if pkg['aps'] else 0, direction=pkg['direction'],
                  runs=(case.get('runs') or [])[:3],
                  filter_lists=[[e.get('name', e.get('wav')) for e in l] for l in (case.get('lists') or [])[:3]])
    key = common.canon_hash(case)
    if prop:
        return CaseResult(False, detail='property fails on the real code: ' + '; '.join(prop[:4]), branches=branches,
                          key=key, violates=True, sample=sample)
    if mod:
        return CaseResult(False, detail='model and implementation differ: ' + '; '.join(mod[:4]), branches=branches,
                          key=key, violates=None, sample=sample)
    return CaseResult(True, branches=branches, key=key, nontrivial=nontrivial, sample=sample)


def search(seed, tier, disagreeing):
    """the property evaluated directly on the real code (no driver): the disagreeing cases, then every window x every
    chunk size on fresh packages with 2..5 wavelengths, then cube packages"""
    found, tried = [], 0
    cases = list(disagreeing)
    i = 0
    for nw in (2, 3, 4, 5):
        rng = case_rng(seed, PID + 'search', i); i += 1
        pkg = gen_package(rng, nw=nw)
        cases.append(dict(kind='perfile', pkg=pkg, runs=all_runs(pkg), all_sizes=False))
    for _ in range(10):
        rng = case_rng(seed, PID + 'search', i); i += 1
        cases.append(gen_cube_case(rng))
    for c in cases:
        tried += 1
        prop, _, _, _ = evaluate(c, with_model=False)
        if prop:
            found.append((c, 'property fails on the real code: ' + '; '.join(prop[:4])))
            if len(found) >= 3:
                break
    return found, tried


def shrink(case):
    """keep only the runs / requested wavelengths that still fail"""
    def fails(c):
        try:
            prop, _, _, _ = evaluate(c, with_model=False)
            return bool(prop)
        except Exception:
            return False
    cur = case
    if case['kind'] == 'perfile':
        for r in case['runs']:
            c = dict(cur); c['runs'] = [r]
            if fails(c):
                return c
        # a failure that needs two runs (difference between chunk sizes)
        for a in range(len(case['runs'])):
            for b in range(a + 1, len(case['runs'])):
                if (case['runs'][a]['wmin'], case['runs'][a]['wmax']) == (case['runs'][b]['wmin'], case['runs'][b]['wmax']):
                    c = dict(cur); c['runs'] = [case['runs'][a], case['runs'][b]]
                    if fails(c):
                        return c
    else:
        for lst in _legacy_lists(case):
            c = dict(cur); c['lists'] = [lst]
            if fails(c):
                cur = c
                # drop entries one at a time while it still fails
                changed = True
                while changed and len(cur['lists'][0]) > 1:
                    changed = False
                    for i in range(len(cur['lists'][0])):
                        c2 = dict(cur); c2['lists'] = [cur['lists'][0][:i] + cur['lists'][0][i + 1:]]
                        if fails(c2):
                            cur = c2
                            changed = True
                            break
                return cur
    return cur
