"""C19 — a fit output file cut short by a crash never yields a wrong record.

Correspondence: real fit output files written by `FitInfoFile(path, 'w').write(info)` — FitInfo objects
from real `Fitter.fit` runs on a tiny model package (aperture-independent and aperture-dependent) and
FitInfo objects built directly, all with real metadata (model_dir string, filters = list of dicts with
astropy Quantity wavelengths, an `Extinction` object) — holding 1..4 records of varying size, with and
without stored predicted fluxes (`model_fluxes`).  Each file is truncated at every offset (thorough; quick:
every offset of small files, ~400 sampled + all frame-boundary offsets of larger ones) and read back with
`FitInfoFile(trunc, 'r')` + iteration.
Real side: outcome class (error at open / error during iteration / clean end), number of records yielded,
the yielded records.
Model side: driver op `scan` = `readFile 3 (take t file)` of `Model/PickleFrame.lean` on the same bytes:
outcome class, number of records, byte ranges of the yielded frames.
Property side (independent of the model): every yielded record equals the record written at that position
and no extra record appears.
"""
import copy
import os
import pickle
import pickletools
import shutil
import tempfile

import numpy as np

from . import common
from .common import CaseResult, case_rng, nice
from . import packages as pk

PID = 'C19'
# a reader that never reaches the end of a truncated file must not stall the check: a case normally takes < 20 s
CASE_TIMEOUT = 150
RULE = ('cases = one fit output file each (kind fitter/direct, 1..4 records, stored predicted fluxes all/none/mixed, '
        'a share written by sedfitter.fit() itself from a data file, record sizes varied by keep() including records with zero kept fits at the first / a middle / the last position and '
        'consecutively); every case cuts its file at every offset (thorough, files up to 40 kB; larger files: ten times the quick sample); quick: every offset '
        'inside the records of a file with a small record part + header frame boundaries + ~150 sampled header offsets, or ~400 '
        'sampled (3/4 inside records) + all frame boundaries +-2 of a larger file; a case is non-trivial when its offsets '
        'include a cut inside a record; distinct = distinct canonical hash of the generated file description')
REQUIRED_BRANCHES = ['open_error', 'iter_error', 'end_at_record_boundary', 'end_inside_record', 'offset_0',
                     'with_model_fluxes', 'without_model_fluxes', 'records_1', 'records_2', 'records_3', 'records_4',
                     'fitter', 'direct', 'fit_function', 'history_rewrite', 'history_shared_source', 'big_record',
                     'model_id_exceeds_kept_count', 'later_names_longer', 'record_unusual_dtypes',
                     'lifecycle_twice_keep', 'lifecycle_peek', 'lifecycle_partial', 'lifecycle_after_error', 'reader_keyword_mode',
                     'records_via_copy', 'write_after_refused_write',
                     'chi2_not_ascending', 'chi2_tied', 'chi2_nan', 'names_leading_blanks', 'names_trailing_blanks',
                     'yielded_1', 'yielded_2', 'yielded_3',
                     'zero_fit_first', 'zero_fit_middle', 'zero_fit_last', 'zero_fit_consecutive', 'complete_file']
ASSUMPTIONS = ['CPython\'s unpickler is a deterministic function of the bytes it consumes (values are not modelled, only framing)',
               'the pickles are protocol 2 as written by FitInfoFile.write (opcode table of protocols 0-2)']
THOROUGH_EVERY = 40000      # thorough: every offset of files up to this many bytes
EXHAUSTIVE = {'quick': False, 'thorough': False}   # thorough is exhaustive in the offsets of every file up to THOROUGH_EVERY bytes
TRUSTED_EXTRA = ['os.truncate on a copy of the written file reproduces a crash at that byte']
N = {'quick': 48, 'thorough': 120}
SMALL_REC = 3000      # quick: files whose record part is at most this long are cut at every offset inside the records
NOPS = 150            # quick: sampled opcode boundaries inside the records of a file that is not cut at every offset
NBIG = 5000           # fits in the "big" record (more than any plausible per-pickle chunk size such as 4096)
NHEAD = 150           # quick: sampled offsets inside the header of such a file (plus the header frame boundaries +-2)
NSAMPLE = 400
NH = 3                # header pickles written by FitInfoFile.write


# ----------------------------------------------------------------------------- generation

def _flux_rows(rng, nm, nb):
    return [[nice(rng, 1e-2, 1e3, 4) for _ in range(nb)] for _ in range(nm)]


def gen_case(rng, directed=None):
    directed = directed or {}
    kind = directed.get('kind') or rng.choice(['fitter', 'direct', 'direct', 'fitfile'])
    nrec = directed.get('nrec') or rng.randint(1, 4)
    convmode = directed.get('conv') or rng.choice(['all', 'none', 'mixed'])
    conv = [dict(all=True, none=False).get(convmode, rng.random() < 0.5) for _ in range(nrec)]
    small = directed.get('small', rng.random() < 0.3)
    # records with zero kept fits (keep(('N', 0)) or an absolute chi^2 cut below the best fit): None | 'N0' | 'C'
    if 'zero' in directed:
        zero = list(directed['zero'])
    else:
        pz = rng.choice([0., 0., 0.25, 0.5])
        zero = [rng.choice(['N0', 'C']) if rng.random() < pz else None for _ in range(nrec)]
    if kind == 'fitfile':
        # sedfitter.fit() has one output_convolved switch and one output_format for the whole file
        conv = [conv[0]] * nrec
        zero = [None] * nrec
    case = dict(kind=kind, nrec=nrec, conv=conv, zero=zero, oseed=rng.randrange(1 << 30))
    # the records reach write() directly or as copy.copy / copy.deepcopy / pickle round-trip copies of the fitted objects
    case['via'] = directed['via'] if 'via' in directed else rng.choice([None, None, None, 'copy', 'deepcopy', 'pickle'])
    if kind == 'history':
        # write histories over shared objects: what is on disk must be each record as it was when written
        mode = directed.get('mode') or rng.choice(['rewrite', 'shared_source', 'shared_source_inplace', 'refused_write'])
        case['via'] = None
        nrec = case['nrec'] = max(2, nrec)
        case['conv'] = conv = (conv + conv + [False, True])[:nrec]
        case['zero'] = [None] * nrec
        nb = rng.randint(1, 3)
        nm = rng.randint(nrec + 1, 8)
        case.update(mode=mode, model_dir='mdl', tab_w=[0.1, 100.], tab_chi=[nice(rng, 1, 1e4, 3), nice(rng, 1, 1e4, 3)],
                    filters=[dict(name='F0', aperture_arcsec=3., wav=nice(rng, 0.3, 100, 3))],
                    flags=[rng.choice([1, 2, 3, 4, 9]) for _ in range(nb)], nb=nb)
        if mode == 'rewrite':
            keeps = sorted(rng.sample(range(1, nm), nrec - 1), reverse=True)
            case.update(rec=dict(names=['m%03d' % i for i in range(nm)], chi2=[nice(rng, 0.1, 1e3, 4) for _ in range(nm)],
                                 fluxes=_flux_rows(rng, nm, nb), source_name='one_object'), keeps=keeps,
                        conv=[conv[0]] * nrec)
        else:
            case['recs'] = []
            for i in range(nrec):
                k = rng.randint(1, nm)
                case['recs'].append(dict(names=['m%03d_%d' % (j, i) for j in range(k)], chi2=[nice(rng, 0.1, 1e3, 4) for _ in range(k)],
                                         fluxes=_flux_rows(rng, k, nb), source_name='shared_%d' % i,
                                         src_flux=[nice(rng, 0.1, 100, 3) for _ in range(nb)],
                                         src_err=[nice(rng, 0.01, 1, 2) for _ in range(nb)]))
        return case
    if kind in ('fitter', 'fitfile'):
        nb = rng.randint(2, 4)
        nm = rng.randint(2, 4) if small else rng.randint(3, 12)
        apdep = (not small) and rng.random() < 0.4
        wavs = sorted({nice(rng, 0.3, 100., 3) for _ in range(nb + 3)})[:nb]
        nap = rng.randint(2, 4) if apdep else 1
        case.update(nm=nm, wavs=wavs, apdep=apdep,
                    apertures_au=([nice(rng, 50., 800., 2)] + sorted({nice(rng, 1e3, 5e4, 2) for _ in range(nap + 2)})[:nap - 1])
                    if apdep else None,   # smallest aperture below 1 arcsec at 1 kpc = 1000 AU
                    models=[[[nice(rng, 1e-2, 1e3, 4) for _ in range(nap)] for _ in range(len(wavs))] for _ in range(nm)],
                    tab_w=[0.05, 0.5, 5., 500.], tab_chi=[nice(rng, 100, 1e4, 3), nice(rng, 10, 100, 3), nice(rng, 1, 10, 3), 0.5],
                    av=[0., round(rng.uniform(5, 40), 1)],
                    sources=[dict(name='src_%d_%s' % (i, 'x' * rng.randint(0, 12)),
                                  flags=[rng.choice([1, 1, 1, 2, 3, 4, 9, 0]) for _ in wavs],
                                  flux=[nice(rng, 1e-1, 1e2, 3) for _ in wavs],
                                  err=[nice(rng, 1e-2, 0.9, 2) for _ in wavs],
                                  keep=rng.randint(1, nm)) for i in range(nrec)])
        if kind == 'fitfile':
            case['out_format'] = rng.choice([['N', rng.randint(1, nm)], ['A', 0], ['F', round(rng.uniform(0.5, 50.), 1)],
                                             ['D', round(rng.uniform(0.5, 50.), 1)]])
            for s in case['sources']:
                s['x'] = round(rng.uniform(0, 360), 5)
                s['y'] = round(rng.uniform(-90, 90), 5)
        for s in case['sources']:
            # at least two fitted bands
            for j in range(2):
                if s['flags'][j] not in (1, 4):
                    s['flags'][j] = 1
            s['flux'] = [round(np.log10(f), 3) if fl == 4 else f for f, fl in zip(s['flux'], s['flags'])]
    else:
        nb = rng.randint(1, 2) if small else rng.randint(2, 6)
        nf = 1 if small else rng.randint(1, 5)
        case.update(model_dir='d' if small else '/data/models_' + 'r' * rng.randint(1, 20),
                    filters=[dict(name='F%d' % j, aperture_arcsec=nice(rng, 1, 30, 2), wav=nice(rng, 0.3, 100, 3))
                             for j in range(nf)],
                    tab_w=[0.1, 100.] if small else sorted({nice(rng, 0.05, 500, 3) for _ in range(rng.randint(3, 10))}),
                    recs=[])
        case['tab_chi'] = [nice(rng, 1, 1e4, 3) for _ in case['tab_w']]
        exotic = directed.get('exotic')
        if exotic is None and not directed:
            exotic = rng.random() < 0.15
        if exotic:
            case['exotic'] = True
        big = directed.get('big')
        if big is not None:
            case['big'] = big % nrec           # this record holds NBIG fits, generated from `oseed` when the file is built
            case['conv'][case['big']] = False
        for i in range(nrec):
            nm = rng.randint(1, 3) if small else rng.choice([1, 2, 5, 17, 40, rng.randint(3, 30)])
            chi2 = [nice(rng, 0.1, 1e3, 4) for _ in range(nm)]
            if nm > 1 and rng.random() < 0.2:
                chi2[rng.randrange(nm)] = rng.choice(['nan', 'inf'])
            case['recs'].append(dict(
                names=['m%05d_%s' % (rng.randrange(10 ** 5), 'q' * rng.randint(0, 6)) for _ in range(nm)],
                chi2=chi2, av=[round(rng.uniform(0, 30), 3) for _ in range(nm)],
                sc=[round(rng.uniform(-3, 3), 3) for _ in range(nm)],
                flags=[rng.choice([0, 1, 2, 3, 4, 9]) for _ in range(nb)],
                source_name='s%d%s' % (i, '_' * rng.randint(0, 25)),
                fluxes=_flux_rows(rng, nm, nb)))
        for r in case['recs']:
            u = rng.random()
            if u < 0.3 and len(r['chi2']) > 1:
                # a hand-assembled / merged record: chi2 not ascending, with ties; write() accepts it as it is
                r['unsorted'] = True
                vals = [nice(rng, 0.1, 1e3, 3) for _ in range(max(1, len(r['chi2']) // 2))]
                r['chi2'] = [rng.choice(vals) for _ in r['chi2']]
                if sorted(r['chi2']) == r['chi2']:
                    r['chi2'] = r['chi2'][::-1] if r['chi2'][0] != r['chi2'][-1] else [r['chi2'][0] + 1.] + r['chi2'][1:]
                if rng.random() < 0.4:
                    r['chi2'][rng.randrange(len(r['chi2']))] = 'nan'
            if rng.random() < 0.3:
                # fixed-width names as Fortran tools write them: right-justified, or padded with trailing blanks
                w = max(len(x) for x in r['names']) + rng.randint(1, 4)
                r['names'] = [x.rjust(w) if rng.random() < 0.5 else x.ljust(w) for x in r['names']]
                r['padded_names'] = True
        if case.get('exotic'):
            # representation classes: a large model grid of which few fits are kept (model_id values far above the number
            # of kept fits), names that are longer in later records than in the first, non-default dtypes
            grids = [(300, sorted(rng.sample(range(0, 10), 3))), (300, [rng.randint(256, 299), rng.randint(0, 255), 299]),
                     (70000, [rng.randint(65536, 69999), rng.randint(100, 60000)]), (1200, [1199, 1000, 5, 999])]
            for r, (g, best) in zip(case['recs'], grids):
                r['grid'] = g
                r['best_idx'] = best
                r['dtypes'] = dict(zip(['av', 'sc', 'chi2', 'model_id', 'model_name', 'model_fluxes'],
                                       [rng.choice(['float64', 'float32']), rng.choice(['float64', 'float32']),
                                        rng.choice(['float64', 'float32']), rng.choice(['int64', 'int32', 'uint32']),
                                        rng.choice(['U', 'S', 'U12']), rng.choice(['float64', 'float32'])]))
                r['src_int_flux'] = rng.random() < 0.5
    return case


def gen_cases(seed, tier):
    Z = [None] * 4
    directed = [dict(kind='direct', nrec=1, conv='all', small=True, zero=Z[:1], via=None),
                dict(kind='direct', nrec=2, conv='none', small=True, zero=Z[:2], via='copy'),
                dict(kind='direct', nrec=3, conv='mixed', small=True, zero=Z[:3], via='deepcopy'),
                dict(kind='direct', nrec=4, conv='all', small=True, zero=Z, via='pickle'),
                dict(kind='fitter', nrec=1, conv='none', small=True, zero=Z[:1]), dict(kind='fitter', nrec=2, conv='all', small=False, zero=Z[:2]),
                dict(kind='fitter', nrec=3, conv='all', small=False, zero=Z[:3]), dict(kind='fitter', nrec=4, conv='none', small=False, zero=Z),
                # records with zero kept fits at every position, with and without predicted fluxes
                dict(kind='direct', nrec=3, conv='all', small=True, zero=['N0', None, None]),
                dict(kind='direct', nrec=4, conv='none', small=True, zero=[None, 'C', None, None]),
                dict(kind='direct', nrec=3, conv='all', small=True, zero=[None, None, 'C']),
                dict(kind='direct', nrec=4, conv='mixed', small=True, zero=[None, 'N0', 'C', None]),
                dict(kind='fitter', nrec=4, conv='all', small=True, zero=[None, 'C', None, None]),
                dict(kind='fitter', nrec=3, conv='none', small=True, zero=['N0', 'N0', None]),
                # files written by sedfitter.fit() itself, with and without output_convolved
                dict(kind='fitfile', nrec=2, conv='all', small=True), dict(kind='fitfile', nrec=4, conv='none', small=False),
                # write histories over shared / re-used objects
                dict(kind='history', mode='rewrite', nrec=3, conv='all'), dict(kind='history', mode='shared_source', nrec=3, conv='none'),
                dict(kind='history', mode='shared_source_inplace', nrec=2, conv='mixed'),
                dict(kind='history', mode='refused_write', nrec=3, conv='mixed'),
                # a record with more fits than any plausible per-pickle chunk
                dict(kind='direct', nrec=2, conv='none', small=True, big=0, zero=Z[:2]),
                # large grids with few kept fits, names growing from record to record, non-default dtypes
                dict(kind='direct', nrec=4, conv='mixed', small=True, exotic=True, zero=Z)]
    if tier == 'thorough':
        directed += [dict(kind='direct', nrec=3, conv='none', small=True, big=1, zero=Z[:3]),
                     dict(kind='direct', nrec=1, conv='none', small=True, big=0, zero=Z[:1])]
    for i in range(N[tier]):
        rng = case_rng(seed, PID, i)
        d_i = directed[i] if i < len(directed) else None
        if d_i is None and rng.random() < 0.12:
            d_i = dict(kind='history')
        c = gen_case(rng, d_i)
        c['tier'] = tier
        yield c


# ----------------------------------------------------------------------------- building the file

def _f(x):
    return float(x)   # 'nan' / 'inf' strings of the JSON case -> floats


def _keep_zero(info, z):
    """reduce a record to zero kept fits the way a user's output_format does"""
    if z == 'N0':
        info.keep(('N', 0))
    elif z == 'C':
        info.keep(('C', -1.))      # absolute chi^2 cut below every (non-negative) chi^2
    if z and len(info.chi2) != 0:
        raise RuntimeError('harness self-check: keep() left %d fits in a record meant to be empty' % len(info.chi2))


def produce(case, d):
    """(snapshots of the records as they were when written, their protocol-2 pickles taken at that moment, the path
    of the written file, the metadata object)"""
    path = os.path.join(d, 'out.fitinfo')
    if case['kind'] == 'history':
        return write_history(case, path)
    if case['kind'] == 'fitfile':
        infos = fit_file(case, d, path)
    else:
        infos = [via_copy(info, case.get('via')) for info in build_infos(case, d)]
        write_file(infos, path)
    return [plain(info) for info in infos], [pickle.dumps(info, 2) for info in infos], path, infos[0].meta


def via_copy(info, via):
    """the record as a caller may pass it on: a shallow copy, a deep copy or a pickle round trip of the fitted object
    (all three go through __getstate__/__setstate__ and so drop `meta`; the caller re-attaches it, as FitInfoFile does)"""
    if via == 'copy':
        out = copy.copy(info)
    elif via == 'deepcopy':
        out = copy.deepcopy(info)
    elif via == 'pickle':
        out = pickle.loads(pickle.dumps(info, pickle.HIGHEST_PROTOCOL))
    else:
        return info
    out.meta = info.meta
    return out


def write_history(case, path):
    """one FitInfo written, cut down with keep() and written again; or distinct FitInfo objects sharing one Source
    that is renamed / refilled between the writes.  Every record is snapshotted at the moment it is written."""
    from astropy import units as u
    from sedfitter.fit_info import FitInfoFile
    ext = pk.make_extinction(case['tab_w'], case['tab_chi'])
    filters = [dict(name=f['name'], aperture_arcsec=f['aperture_arcsec'], wav=f['wav'] * u.micron) for f in case['filters']]
    meta = (case['model_dir'], filters, ext)
    snaps, written = [], []
    fo = FitInfoFile(path, 'w')

    def write(info):
        written.append(pickle.dumps(info, 2))
        snaps.append(plain(info))
        fo.write(info)
    if case['mode'] == 'rewrite':
        r = case['rec']
        info = pk.make_fitinfo(r['names'], r['chi2'], flags=case['flags'], source_name=r['source_name'],
                               model_fluxes=r['fluxes'] if case['conv'][0] else None, meta=meta)
        first_meta = info.meta
        write(info)
        for kk in case['keeps']:
            info.keep(('N', kk))
            write(info)
    else:
        shared = None
        first_meta = None
        for r, conv in zip(case['recs'], case['conv']):
            info = pk.make_fitinfo(r['names'], r['chi2'], flags=case['flags'], source_name=r['source_name'],
                                   model_fluxes=r['fluxes'] if conv else None, meta=meta)
            if case['mode'] == 'refused_write':
                if first_meta is None:
                    first_meta = info.meta
                else:
                    # a record fitted with another model directory: write() refuses it; the writer is used again afterwards
                    other = pk.make_fitinfo(r['names'], r['chi2'], flags=case['flags'], source_name='refused',
                                            meta=(case['model_dir'] + '_other', filters, ext))
                    try:
                        fo.write(other)
                    except ValueError:
                        pass
                    else:
                        written.append(pickle.dumps(other, 2))     # accepted after all: then it is a written record
                        snaps.append(plain(other))
                    info.meta = first_meta
                write(info)
                continue
            if shared is None:
                shared = info.source
                first_meta = info.meta
            else:
                info.source = shared
                info.meta = first_meta
            shared.name = r['source_name']
            if case['mode'] == 'shared_source_inplace':
                shared.flux[:] = r['src_flux']
                shared.error[:] = r['src_err']
            else:
                shared.flux = np.array(r['src_flux'], dtype=float)
                shared.error = np.array(r['src_err'], dtype=float)
            write(info)
    fo.close()
    return snaps, written, path, first_meta


def write_package(case, d):
    nm = case['nm']
    names = ['model_%03d' % i for i in range(nm)]
    md = os.path.join(d, 'models')
    os.makedirs(md)
    pk.write_conf(md, aperture_dependent=case['apdep'])
    fnames = []
    for j, w in enumerate(case['wavs']):
        fn = 'F%d' % j
        fnames.append(fn)
        flux = [case['models'][i][j] for i in range(nm)]
        pk.write_convolved(md, fn, w, names, flux, [[0.] * len(r) for r in flux], apertures_au=case['apertures_au'])
    return md, fnames


def fit_file(case, d, path):
    """the file is written by sedfitter.fit() from a data file; the records it must hold are recomputed with a
    Fitter configured the same way on the same parsed lines (fit() = parse, Fitter.fit, drop fluxes, keep, write)"""
    from astropy import units as u
    import sedfitter
    from sedfitter.source import Source
    md, fnames = write_package(case, d)
    ext = pk.make_extinction(case['tab_w'], case['tab_chi'])
    lines = []
    for s in case['sources']:
        src = pk.make_source(s['name'], s['flags'], s['flux'], s['err'], x=s['x'], y=s['y'])
        lines.append(src.to_ascii())
    data = os.path.join(d, 'data.txt')
    with open(data, 'w') as f:
        f.write('\n'.join(lines) + '\n')
    fmt = (case['out_format'][0], case['out_format'][1])
    conv = bool(case['conv'][0])
    with common.quiet():
        sedfitter.fit(data, fnames, np.array([1.] * len(fnames)) * u.arcsec, md, path, n_data_min=2,
                      extinction_law=ext, av_range=tuple(case['av']), distance_range=np.array([1., 2.]) * u.kpc,
                      output_format=fmt, output_convolved=conv)
    fitter = pk.make_fitter(md, fnames, [1.] * len(fnames), ext, case['av'], distance_range_kpc=(1., 2.), use_memmap=True)
    infos = []
    for line in lines:
        with common.quiet():
            info = fitter.fit(Source.from_ascii(line))
        if not conv:
            info.model_fluxes = None
        info.keep(fmt)
        infos.append(info)
    return infos


def grid_record(r, conv, meta):
    """a record as Fitter.fit + keep(('N', k)) leaves it for a grid of r['grid'] models whose best fits are the models
    r['best_idx'] (so model_id holds those grid indices, model_name the names 'm<index>'), then cast to r['dtypes']"""
    g = r['grid']
    best = r['best_idx']
    nb = len(r['flags'])
    chi2 = 1000. + np.arange(g) * 1e-3
    for rank, idx in enumerate(best):
        chi2[idx] = 1. + rank
    fl = None
    if conv:
        fl = np.outer(np.arange(g) + 1., np.arange(nb) + 1.) * 0.5
    info = pk.make_fitinfo(['m%d' % j for j in range(g)], chi2, av=np.arange(g) * 0.01, sc=np.arange(g) * -0.001,
                           flags=r['flags'], source_name=r['source_name'], model_fluxes=fl, meta=meta)
    info.keep(('N', len(best)))
    if [int(i) for i in info.model_id] != list(best):
        raise RuntimeError('harness self-check: kept model ids %r, wanted %r' % (list(info.model_id), best))
    for attr, dt in r.get('dtypes', {}).items():
        v = getattr(info, attr)
        if v is not None:
            setattr(info, attr, v.astype(dt))
    if r.get('src_int_flux'):
        info.source.flux = np.array([12, -999, 250, 7, 1, 3][:nb], dtype=int)
    return info


def build_infos(case, d):
    from astropy import units as u
    infos = []
    if case['kind'] == 'fitter':
        md, fnames = write_package(case, d)
        ext = pk.make_extinction(case['tab_w'], case['tab_chi'])
        fitter = pk.make_fitter(md, fnames, [1.] * len(fnames), ext, case['av'], distance_range_kpc=(1., 2.))
        for s, conv, z in zip(case['sources'], case['conv'], case.get('zero') or [None] * case['nrec']):
            src = pk.make_source(s['name'], s['flags'], s['flux'], s['err'], x=1.5, y=-2.25)
            with common.quiet():
                info = fitter.fit(src)
            if not conv:
                info.model_fluxes = None      # what fit() does without output_convolved
            info.keep(('N', s['keep']))
            _keep_zero(info, z)
            infos.append(info)
    else:
        ext = pk.make_extinction(case['tab_w'], case['tab_chi'])
        filters = [dict(name=f['name'], aperture_arcsec=f['aperture_arcsec'], wav=f['wav'] * u.micron)
                   for f in case['filters']]
        for i, (r, conv, z) in enumerate(zip(case['recs'], case['conv'], case.get('zero') or [None] * case['nrec'])):
            if case.get('big') == i:
                g = np.random.RandomState(case['oseed'] % (2 ** 31))
                r = dict(r, names=['m%04d' % j for j in range(NBIG)], chi2=list(np.round(g.uniform(0.1, 1e3, NBIG), 3)),
                         av=list(np.round(g.uniform(0, 30, NBIG), 3)), sc=list(np.round(g.uniform(-3, 3, NBIG), 3)))
                conv = False
            if 'grid' in r:
                info = grid_record(r, conv, (case['model_dir'], filters, ext))
            else:
                info = pk.make_fitinfo(r['names'], [_f(c) for c in r['chi2']], av=r['av'], sc=r['sc'], flags=r['flags'],
                                       source_name=r['source_name'], model_fluxes=r['fluxes'] if conv else None,
                                       sort=not r.get('unsorted'), meta=(case['model_dir'], filters, ext))
            _keep_zero(info, z)
            infos.append(info)
    return infos


def write_file(infos, path):
    from sedfitter.fit_info import FitInfoFile
    fo = FitInfoFile(path, 'w')
    for info in infos:
        fo.write(info)
    fo.close()


# ----------------------------------------------------------------------------- the real reader

def open_reader(path, keyword):
    from sedfitter.fit_info import FitInfoFile
    return FitInfoFile(path, mode='r') if keyword else FitInfoFile(path, 'r')


def read_back(path, keyword=False):
    """(outcome class, records yielded, exception name) of FitInfoFile(path, 'r') + full iteration"""
    try:
        f = open_reader(path, keyword)
    except Exception as e:                       # noqa: any exception from the constructor = error at open
        return 'O', [], type(e).__name__
    recs = []
    try:
        for info in f:
            recs.append(info)
            if len(recs) > 64:
                return 'I', recs, 'runaway'
        return 'E', recs, None
    except Exception as e:                       # noqa
        return 'I', recs, type(e).__name__
    finally:
        try:
            f.close()
        except Exception:
            pass


SCRIPTS = ('twice_keep', 'peek', 'partial')


def run_script(f, script, check):
    """drive one reader object through several passes; `check(j, record)` is called for the j-th record yielded over
    all passes together, at the moment it is yielded.  returns (records yielded in total, an exception was met)"""
    state = dict(j=0, raised=False)

    def take(it, limit=None):
        got = []
        try:
            for info in it:
                check(state['j'], info)
                state['j'] += 1
                got.append(info)
                if state['j'] > 64 or (limit is not None and len(got) >= limit):
                    break
        except LifeCycleViolation:
            raise
        except Exception:         # noqa: the reader raised; the object is used again afterwards
            state['raised'] = True
        return got
    if script == 'twice_keep':
        got = take(iter(f))
        for info in got:
            info.keep(('N', 1))       # what plot() / extract_parameters() / write_parameters() do to every record
        take(iter(f))
        take(iter(f))
    elif script == 'peek':
        for info in take(iter(f), limit=1):
            info.keep(('N', 0))
        take(iter(f))
        take(iter(f))
    else:
        it = iter(f)
        for info in take(it, limit=2):
            info.keep(('N', 1))
        take(iter(f))
        take(it)
        take(iter(f))
    return state['j'], state['raised']


class LifeCycleViolation(Exception):
    pass


def life_cycles(case, path, tp, n, k, bounds, single, infos, written):
    """(property violation, model/implementation disagreement, branches, number of life-cycles run).
    Every pass over one reader continues where the previous one stopped, so the records of all passes together
    must be an exact prefix of the written records, each identical to the written one at its position."""
    rng = case_rng(case['oseed'], PID, 'lifecycle')
    by = {}
    for t, (st, c) in single.items():
        by.setdefault((st, bool(bounds and t in bounds)), []).append(t)
    cuts = {n}
    if bounds:
        cuts |= {b for b in bounds[1:] if b in single}
    for key, want in ((('E', False), 3), (('I', False), 2), (('O', False), 1)):
        ts = sorted(by.get(key, []))
        cuts |= set(ts if len(ts) <= want else rng.sample(ts, want))
    branches = set()
    viol = bad = None
    n_lc = 0
    shutil.copy(path, tp)
    for t in sorted(cuts, reverse=True):
        os.truncate(tp, t)
        complete = None
        if bounds is not None:
            complete = sum(1 for b in bounds[1:] if b <= t) if t >= bounds[0] else 0
        for script in SCRIPTS:
            try:
                f = open_reader(tp, keyword=(n_lc % 2 == 0))
            except Exception:     # noqa: error at open, as in the single pass
                if single[t][0] != 'O' and bad is None:
                    bad = 'offset %d: a second reader of the same file failed at open, the first did not' % t
                continue
            n_lc += 1

            def check(j, rec):
                if j >= k:
                    raise LifeCycleViolation('record %d yielded but only %d were written' % (j + 1, k))
                if not same_record(rec, infos[j], written[j]):
                    raise LifeCycleViolation('the %d-th record yielded over all passes differs from written record %d' % (j + 1, j))
                if complete is not None and j >= complete:
                    raise LifeCycleViolation('record %d yielded but only %d complete records lie before the cut' % (j + 1, complete))
            try:
                total, raised = run_script(f, script, check)
                branches.add('lifecycle_' + script)
                if raised:
                    branches.add('lifecycle_after_error')
                if single[t][0] == 'E' and not raised and total != single[t][1] and bad is None:
                    bad = ('offset %d of %d, reader life-cycle %s: %d records over all passes, a single full pass yields %d'
                           % (t, n, script, total, single[t][1]))
            except LifeCycleViolation as e:
                if viol is None:
                    viol = ('offset %d of %d, one FitInfoFile object, life-cycle %r (passes over the same reader; yielded records '
                            'trimmed with keep() between passes): %s' % (t, n, script, e))
            finally:
                try:
                    f.close()
                except Exception:  # noqa
                    pass
    return viol, bad, branches, n_lc


def _arr_equal(a, b):
    if a is None or b is None:
        return a is None and b is None
    if type(a) is not type(b):
        return False
    ua, ub = getattr(a, 'unit', None), getattr(b, 'unit', None)
    if str(ua) != str(ub):
        return False
    a = np.asarray(a)
    b = np.asarray(b)
    if a.shape != b.shape or a.dtype != b.dtype:
        return False
    if a.dtype.kind in 'fc':
        return bool(np.array_equal(a, b, equal_nan=True))
    return bool(np.array_equal(a, b))


def _num_equal(a, b):
    """scalars: same value, NaN equal to NaN"""
    if a is None or b is None:
        return a is None and b is None
    a, b = float(a), float(b)
    return a == b or (a != a and b != b)


def _plain_value(v):
    """a value as plain Python data, exact: type, dtype, shape and the raw bytes of an array (fixed-width strings keep
    their blanks, NaN stays NaN bit for bit), the unit of a Quantity"""
    if v is None:
        return None
    if isinstance(v, str):
        return ('str', v)
    if isinstance(v, np.ndarray) or hasattr(v, 'unit'):
        a = np.asarray(v)
        return (type(v).__name__ if not isinstance(v, np.memmap) else 'ndarray', str(getattr(v, 'unit', '')), a.dtype.str,
                a.shape, np.ascontiguousarray(a).tobytes())
    if isinstance(v, (float, int, np.floating, np.integer)):
        return (type(v).__name__, np.float64(v).tobytes())
    return ('other', repr(v))


def plain(info):
    """reference copy of a record made WITHOUT copy / deepcopy / pickle (all of which run __getstate__/__setstate__):
    every field read directly from the live object at the moment it is written"""
    s = info.source
    return (type(info).__name__,
            None if s is None else (type(s).__name__,) + tuple(_plain_value(getattr(s, k)) for k in ('name', 'x', 'y', 'valid', 'flux', 'error')),
            tuple(_plain_value(getattr(info, k)) for k in ('av', 'sc', 'chi2', 'model_id', 'model_name', 'model_fluxes')))


def same_record(got, written_plain, written_bytes=None):
    """the yielded record holds exactly what the written record held, field by field (types, dtypes, shapes, bytes)"""
    try:
        return plain(got) == written_plain
    except Exception:     # noqa
        return False


def opcode_marks(data, start):
    """offsets at which an opcode starts, for whatever sequence of pickles follows `start` (used only to aim cuts at
    the places where the reader meets EOFError rather than a truncated argument)"""
    out = []
    pos = start
    try:
        while pos < len(data):
            end = pos
            for op, arg, p in pickletools.genops(data[pos:]):
                out.append(pos + p)
                end = pos + p + 1
                if op.name == 'STOP':
                    break
            else:
                break
            pos = end
    except Exception:     # noqa: not a pickle stream from here on (e.g. a raw block): keep what was found
        pass
    return out


def choose_offsets(case, n, hlen, marks, layout_known, head_marks=(), op_marks=()):
    """thorough: every offset 0..n.  quick, small record part: every offset from the end of the header on, the header
    frame boundaries +-2 and NHEAD sampled header offsets (the header is the same few pickles in every file; the
    records are where files differ).  quick, larger file: the marks (frame boundaries) +-2, the ends of the file, a
    quarter of the random part in the header and the rest inside the records.
    returns (offsets, every offset of the file, every offset inside the records)"""
    thorough = case.get('tier') == 'thorough'
    if thorough and n <= THOROUGH_EVERY:
        return list(range(n + 1)), True, True
    # (thorough, larger file - the records of 1200- and 70000-model grids run to megabytes: the sampling rules of the
    # quick tier with ten times the sample; every offset of such a file would take hours)
    rng = case_rng(case['oseed'], PID, 'offsets')
    pts = {0, 1, 2, n - 1, n}
    for b in list(marks) + list(head_marks):
        for dlt in (-2, -1, 0, 1, 2, 3):
            if 0 <= b + dlt <= n:
                pts.add(b + dlt)
    if layout_known and n - hlen <= SMALL_REC:
        pts |= set(range(max(0, hlen - 2), n + 1))
        want = min(len(pts) + NHEAD, n)
        while len(pts) < want:
            pts.add(rng.randrange(max(1, hlen)))
        return sorted(pts), False, True
    if not layout_known and n <= SMALL_REC + 3000:
        return list(range(n + 1)), True, True
    ops = sorted(set(op_marks))
    for b in (ops if len(ops) <= NOPS else rng.sample(ops, NOPS)):
        pts.add(b)
    # an unexpected file layout (not header + one pickle per record) gets a three times denser sample
    want = (NSAMPLE if layout_known else 3 * NSAMPLE) * (10 if thorough else 1) + len(pts)
    want = min(want, n)
    while len(pts) < want:
        if rng.random() < 0.25 or hlen >= n:
            pts.add(rng.randrange(max(1, hlen)))
        else:
            pts.add(rng.randrange(hlen, n))
    return sorted(pts), False, False


def model_scan(data, offsets):
    drv = common.driver()
    hx = data.hex() or '-'
    out = {}
    for i in range(0, len(offsets), 300):
        chunk = offsets[i:i + 300]
        t = drv.ask('scan %s %d %d %s' % (hx, NH, len(chunk), ' '.join(map(str, chunk))))
        for o in chunk:
            st = t.tok()
            n = t.nat()
            out[o] = (st, n, [(t.nat(), t.nat()) for _ in range(n)])
        if not t.done():
            raise common.DriverError('scan: trailing tokens')
    return out


def sweep(case, with_model=True):
    """returns dict(ok, violates, detail, branches, stats)"""
    d = tempfile.mkdtemp(prefix='c19_')
    branches = set()
    try:
        infos, written, path, meta = produce(case, d)
        data = open(path, 'rb').read()
        k = len(infos)
        n = len(data)
        # the layout FitInfoFile.write is modelled to produce: three header pickles, then one pickle per record
        head_parts = [pickle.dumps(x, 2) for x in (meta.model_dir, meta.filters, meta.extinction_law)]
        head = b''.join(head_parts)
        tail = b''.join(written)
        layout_known = (data == head + tail)
        hlen = len(head) if data.startswith(head) else 0
        if layout_known:
            bounds = [hlen]
            for w in written:
                bounds.append(bounds[-1] + len(w))
            marks = list(bounds)
        else:
            bounds = None
            marks = [hlen]
        model_full = None
        if with_model:
            model_full = model_scan(data, [n])[n]
            for a, b in model_full[2]:
                marks += [a, b]
        head_marks = [len(head_parts[0]), len(head_parts[0]) + len(head_parts[1])] if hlen else []
        offsets, exhaustive, exhaustive_rec = choose_offsets(case, n, hlen, sorted(set(marks)), layout_known, head_marks,
                                                             opcode_marks(data, hlen))
        if case['kind'] == 'history' and case.get('mode') == 'refused_write':
            branches.add('write_after_refused_write')
        else:
            branches.add(dict(fitfile='fit_function', history='history_' + case.get('mode', '').replace('_inplace', ''))
                         .get(case['kind'], case['kind']))
        if case.get('via') and case['kind'] in ('direct', 'fitter'):
            branches.add('records_via_copy')
        if case.get('big') is not None:
            branches.add('big_record')
        for r in case.get('recs', []) if case['kind'] == 'direct' else []:
            if r.get('unsorted') and 'grid' not in r:
                branches.add('chi2_not_ascending')
                fin = [c for c in r['chi2'] if c != 'nan']
                if len(set(fin)) < len(fin):
                    branches.add('chi2_tied')
                if 'nan' in r['chi2']:
                    branches.add('chi2_nan')
            if r.get('padded_names') and 'grid' not in r:
                if any(x != x.lstrip() for x in r['names']):
                    branches.add('names_leading_blanks')
                if any(x != x.rstrip() for x in r['names']):
                    branches.add('names_trailing_blanks')
        if case.get('exotic'):
            gr = [r for r in case['recs'] if 'grid' in r]
            if any(max(r['best_idx']) >= 256 and len(r['best_idx']) < 256 for r in gr):
                branches.add('model_id_exceeds_kept_count')
            if len(gr) >= 2 and max(len(str(i)) for i in gr[1]['best_idx']) > max(len(str(i)) for i in gr[0]['best_idx']):
                branches.add('later_names_longer')
            if any(any(v not in ('float64', 'int64', 'U') for v in r.get('dtypes', {}).values()) or r.get('src_int_flux') for r in gr):
                branches.add('record_unusual_dtypes')
        branches.add('records_%d' % k)
        if any(case['conv']):
            branches.add('with_model_fluxes')
        if not all(case['conv']):
            branches.add('without_model_fluxes')
        zero = [bool(z) for z in (case.get('zero') or [None] * k)]
        if zero[0] and k > 1:
            branches.add('zero_fit_first')
        if any(zero[1:-1]):
            branches.add('zero_fit_middle')
        if zero[-1] and k > 1:
            branches.add('zero_fit_last')
        if any(a and b for a, b in zip(zero, zero[1:])):
            branches.add('zero_fit_consecutive')
        if n in offsets:
            branches.add('complete_file')
        model = model_scan(data, offsets) if with_model else None
        tp = os.path.join(d, 'trunc.fitinfo')
        shutil.copy(path, tp)
        hist = {}
        first_bad = None
        first_viol = None
        inside = False
        if not layout_known:
            first_bad = ('the written file (%d bytes) is not the three header pickles followed by one protocol-2 pickle per '
                         'record (%d + %d bytes expected): the framing model does not describe this file' % (n, len(head), len(tail)))
        single = {}
        for t in sorted(offsets, reverse=True):
            os.truncate(tp, t)
            st, recs, exc = read_back(tp, keyword=bool(t % 2))
            if t % 2:
                branches.add('reader_keyword_mode')
            single[t] = (st, len(recs))
            hist[st] = hist.get(st, 0) + 1
            complete = None
            if bounds is not None:
                complete = sum(1 for b in bounds[1:] if b <= t) if t >= hlen else 0
            if t == 0:
                branches.add('offset_0')
            if st == 'O':
                branches.add('open_error')
            elif st == 'I':
                branches.add('iter_error')
            elif bounds is not None:
                branches.add('end_at_record_boundary' if t in bounds else 'end_inside_record')
            if hlen < t < n and (bounds is None or t not in bounds):
                inside = True
            if 1 <= len(recs) <= 3 and t < n:
                branches.add('yielded_%d' % len(recs))
            # ---- the property itself, on the real reader (needs no knowledge of the file layout)
            viol = None
            if len(recs) > k:
                viol = 'offset %d of %d: %d records yielded but only %d were written' % (t, n, len(recs), k)
            else:
                for i, r in enumerate(recs):
                    if not same_record(r, infos[i], written[i]):
                        viol = ('offset %d of %d: yielded record %d differs from the record written at that position '
                                '(outcome %s, %d yielded, %s complete frames before the cut)'
                                % (t, n, i, st, len(recs), complete))
                        break
                if viol is None and complete is not None and len(recs) > complete:
                    viol = ('offset %d of %d: %d records yielded but only %d complete records lie before the cut'
                            % (t, n, len(recs), complete))
            if viol and first_viol is None:
                first_viol = viol + '; exception=%s' % exc
            # ---- correspondence with the model
            if model is not None and bounds is not None:
                mst, mn, moffs = model[t]
                exp_offs = [(bounds[i], bounds[i + 1]) for i in range(mn)] if mn <= k else None
                if (st, len(recs)) != (mst, mn) or moffs != exp_offs:
                    if first_bad is None:
                        first_bad = ('offset %d of %d: impl outcome=%s records=%d (exception %s); model outcome=%s records=%d '
                                     'frames=%r; written frames=%r' % (t, n, st, len(recs), exc, mst, mn, moffs, bounds))
        # ---- reader life-cycles on one FitInfoFile object, at a sample of the cuts
        lc_viol, lc_bad, lc_branches, n_lc = life_cycles(case, path, tp, n, k, bounds, single, infos, written)
        branches |= lc_branches
        first_viol = first_viol or lc_viol
        first_bad = first_bad or lc_bad
        stats = dict(file_len=n, header_len=hlen, records=k, offsets=len(offsets), life_cycles=n_lc,
                     record_offsets=sum(1 for t in offsets if t >= hlen), exhaustive=exhaustive,
                     exhaustive_inside_records=exhaustive_rec, outcomes=hist)
        return dict(ok=first_bad is None and first_viol is None, violates=True if first_viol else None,
                    detail=first_viol or first_bad or '', branches=branches, stats=stats, inside=inside)
    finally:
        shutil.rmtree(d, ignore_errors=True)


def run_case(case):
    r = sweep(case, with_model=True)
    sample = dict(kind=case['kind'], conv=case['conv'], **r['stats'])
    return CaseResult(r['ok'], detail=r['detail'], branches=r['branches'], key=common.canon_hash(case),
                      nontrivial=r['inside'], sample=sample, violates=r['violates'])


def search(seed, tier, disagreeing_cases):
    """the same sweep without the model: every yielded record must be the written one at that position"""
    found = []
    tried = 0
    cases = list(disagreeing_cases)
    extra = []
    for i, c in enumerate(gen_cases(seed + 7919, tier)):
        if i >= (12 if tier == 'quick' else 30):
            break
        extra.append(c)
    for c in cases + extra:
        r = sweep(c, with_model=False)
        tried += r['stats']['offsets']
        if r['violates']:
            found.append((c, r['detail']))
            if len(found) >= 3:
                break
    return found, tried


def shrink(case):
    """fewer records while the property still fails"""
    cur = case

    def fails(c):
        try:
            return bool(sweep(c, with_model=False)['violates'])
        except Exception:
            return False
    if case['kind'] == 'history' or case.get('big') is not None or case.get('exotic'):
        return case
    while cur['nrec'] > 1:
        c = dict(cur)
        c['nrec'] = cur['nrec'] - 1
        c['conv'] = cur['conv'][:c['nrec']]
        if cur.get('zero'):
            c['zero'] = cur['zero'][:c['nrec']]
        if cur['kind'] in ('fitter', 'fitfile'):
            c['sources'] = cur['sources'][:c['nrec']]
        else:
            c['recs'] = cur['recs'][:c['nrec']]
        if fails(c):
            cur = c
        else:
            break
    return cur
